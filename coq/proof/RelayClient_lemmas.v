(* Proofs for property C11 over model/RelayClient.v. *)
From Coq Require Import List NArith Bool Lia ZifyBool ZifyN.
From SV Require Import lib.Bytes gen.UnicodeTables model.RelayClient.
Import ListNotations.
Open Scope N_scope.

(* ================================================================== *)
(** * Pipe relays *)

Definition good_final (f : final) : Prop := f = FDelivered \/ f = FPermanent \/ f = FTransient.

Lemma of_cls_good c : good_final (of_cls c).
Proof. destruct c; unfold good_final; cbn; auto. Qed.
Lemma of_rres_good r : good_final (of_rres r).
Proof. destruct r; cbn; [left; reflexivity | apply of_cls_good]. Qed.

Lemma exec_delivered k st so se : exec_process k st so se = Delivered -> st = 0.
Proof. unfold exec_process. destruct (st =? 0) eqn:E; [lia | discriminate]. Qed.

Lemma pipe_all_length k ps : length (pipe_all k ps) = length ps.
Proof.
  induction ps as [|p ps IH]; cbn; [reflexivity|].
  destruct p; cbn; [now rewrite IH | now rewrite map_length].
Qed.

Lemma nth_error_map_const {A B} (b : B) (l : list A) i r :
  nth_error (map (fun _ => b) l) i = Some r -> r = b.
Proof.
  revert i; induction l as [|a l IH]; intros [|i]; cbn; try discriminate.
  - now intros [= <-].
  - apply IH.
Qed.

(* per-recipient mode: a recipient reported delivered had its own program run exit with 0,
   and no program before it had timed out *)
Lemma pipe_all_sound k ps i :
  nth_error (pipe_all k ps) i = Some Delivered ->
  exists so se, nth_error ps i = Some (Exited 0 so se).
Proof.
  revert i; induction ps as [|p ps IH]; intros i H; [destruct i; discriminate|].
  destruct p as [st so se|].
  - destruct i as [|i]; cbn in H.
    + injection H as H. apply exec_delivered in H. subst. now exists so, se.
    + cbn. now apply IH.
  - cbn [pipe_all] in H. apply nth_error_map_const in H. discriminate.
Qed.

Lemma pipe_all_timeout k ps i j r :
  (j <= i)%nat -> nth_error ps j = Some TimedOut ->
  nth_error (pipe_all k ps) i = Some r -> r = Failed Trans.
Proof.
  revert i j; induction ps as [|p ps IH]; intros i j Hle Hj H; [destruct j; discriminate|].
  destruct p as [st so se|].
  - destruct j as [|j]; [discriminate|]. destruct i as [|i]; [exfalso; lia|].
    cbn in Hj, H. apply (IH i j); [lia | exact Hj | exact H].
  - cbn [pipe_all] in H. now apply nth_error_map_const in H.
Qed.

Lemma pipe_all_exit k ps i st so se :
  (forall j, (j < i)%nat -> nth_error ps j <> Some TimedOut) ->
  nth_error ps i = Some (Exited st so se) ->
  nth_error (pipe_all k ps) i = Some (exec_process k st so se).
Proof.
  revert i; induction ps as [|p ps IH]; intros i Hno Hi; [destruct i; discriminate|].
  destruct i as [|i].
  - cbn in Hi. injection Hi as ->. reflexivity.
  - destruct p as [st' so' se'|].
    + cbn. apply IH; [|exact Hi]. intros j Hj. apply (Hno (S j)). lia.
    + exfalso. apply (Hno 0%nat); [lia | reflexivity].
Qed.

Theorem pipe_success_sound k per ps i :
  pipe_final (pipe_attempt k per ps) i = FDelivered ->
  exists so se, nth_error ps (if per then i else 0%nat) = Some (Exited 0 so se).
Proof.
  unfold pipe_attempt. destruct per; cbn [pipe_final].
  - destruct (nth_error (pipe_all k ps) i) as [r|] eqn:E; [|discriminate].
    destruct r as [|c]; [|destruct c; discriminate]. intros _. now apply pipe_all_sound in E.
  - destruct ps as [|p ps]; [discriminate|]. destruct p as [st so se|]; [|discriminate].
    cbn. unfold exec_process. destruct (st =? 0) eqn:E.
    + intros _. assert (st = 0) by lia. subst. now exists so, se.
    + destruct (raise_error k st so se); discriminate.
Qed.

(* non-zero exit status => failure of the class raise_error computes; a timeout => transient *)
Theorem pipe_classification k (per : bool) ps (i : nat) :
  let j := if per then i else 0%nat in
  (forall st so se, (forall j', (j' < j)%nat -> nth_error ps j' <> Some TimedOut) ->
     nth_error ps j = Some (Exited st so se) -> st <> 0 ->
     pipe_final (pipe_attempt k per ps) i = of_cls (raise_error k st so se)) /\
  (forall j', (j' <= j)%nat -> nth_error ps j' = Some TimedOut -> (i < length ps)%nat \/ per = false ->
     pipe_final (pipe_attempt k per ps) i = FTransient).
Proof.
  cbn zeta. split.
  - intros st so se Hno Hj Hst. unfold pipe_attempt. destruct per; cbn [pipe_final].
    + rewrite (pipe_all_exit k ps i st so se Hno Hj). unfold exec_process.
      destruct (st =? 0) eqn:E; [lia | reflexivity].
    + destruct ps as [|p ps]; [discriminate|]. cbn in Hj. injection Hj as ->.
      cbn. unfold exec_process. destruct (st =? 0) eqn:E; [lia | reflexivity].
  - intros j' Hle Hj' Hlen. unfold pipe_attempt. destruct per; cbn [pipe_final].
    + destruct Hlen as [Hlen|]; [|discriminate].
      destruct (nth_error (pipe_all k ps) i) as [r|] eqn:E.
      * rewrite (pipe_all_timeout k ps i j' r Hle Hj' E). reflexivity.
      * apply nth_error_None in E. rewrite pipe_all_length in E. lia.
    + assert (j' = 0%nat) by lia. subst. destruct ps as [|p ps]; [discriminate|].
      cbn in Hj'. injection Hj' as ->. reflexivity.
Qed.

Lemma raise_error_status k st so se :
  k <> KPipe -> raise_error k st so se = if st =? 75 then Trans else Perm.
Proof. destruct k; [congruence | reflexivity | reflexivity]. Qed.

(* the attempt ends in a result or a relay error for every recipient *)
Theorem pipe_total k per ps i :
  (i < length ps)%nat -> good_final (pipe_final (pipe_attempt k per ps) i).
Proof.
  intros Hi. unfold pipe_attempt. destruct per; cbn [pipe_final].
  - destruct (nth_error (pipe_all k ps) i) as [r|] eqn:E; [apply of_rres_good|].
    apply nth_error_None in E. rewrite pipe_all_length in E. lia.
  - destruct ps as [|p ps]; [cbn in Hi; lia|]. destruct p as [st so se|]; cbn.
    + destruct (exec_process k st so se); cbn; [left; reflexivity | apply of_cls_good].
    + right; right; reflexivity.
Qed.

Example pipe_example :
  pipe_attempt KMaildrop false [Exited 75 [109] []] = PExc Trans /\
  pipe_attempt KPipe true [Exited 0 [] []; Exited 1 [53;46;49;46;49;32;110;111] []; TimedOut; Exited 0 [] []]
  = PMap [Delivered; Failed Perm; Failed Trans; Failed Trans].
Proof. vm_compute. split; reflexivity. Qed.

(* ================================================================== *)
(** * HTTP relay *)

Theorem http_success_sound d :
  http_final (http_attempt d) = FDelivered ->
  exists status h, d = HResp status h /\ 200 <= status < 300.
Proof.
  destruct d as [| | |status h]; cbn; try discriminate.
  destruct ((200 <=? status) && (status <? 300)) eqn:E.
  - intros _. exists status, h. split; [reflexivity | lia].
  - destruct (header_class h) as [c|]; [destruct c; discriminate|].
    destruct ((400 <=? status) && (status <? 500)); discriminate.
Qed.

Theorem http_classification :
  http_final (http_attempt HRefused) = FTransient /\
  http_final (http_attempt HSilent) = FTransient /\
  http_final (http_attempt HBroken) = FTransient /\
  (forall status h, ~ (200 <= status < 300) -> http_final (http_attempt (HResp status h)) <> FDelivered) /\
  (forall status code cmd e, ~ (200 <= status < 300) -> 500 <= code <= 599 ->
     http_final (http_attempt (HResp status (HCode code cmd e))) = FPermanent) /\
  (forall status code cmd e, ~ (200 <= status < 300) -> 400 <= code <= 499 ->
     http_final (http_attempt (HResp status (HCode code cmd e))) = FTransient).
Proof.
  repeat split; try reflexivity.
  - intros status h Hs. cbn. destruct ((200 <=? status) && (status <? 300)) eqn:E; [lia|].
    destruct (header_class h) as [c|]; [destruct c; discriminate|].
    destruct ((400 <=? status) && (status <? 500)); discriminate.
  - intros status code cmd e Hs Hc. cbn. destruct ((200 <=? status) && (status <? 300)) eqn:E; [lia|].
    destruct ((code <? 100) || (599 <? code)) eqn:E1; [lia|].
    destruct (code <? 200) eqn:E2; [lia|]. destruct (code <? 300) eqn:E3; [lia|].
    destruct (code <? 400) eqn:E4; [lia|]. destruct (code <? 500) eqn:E5; [lia|]. reflexivity.
  - intros status code cmd e Hs Hc. cbn. destruct ((200 <=? status) && (status <? 300)) eqn:E; [lia|].
    destruct ((code <? 100) || (599 <? code)) eqn:E1; [lia|].
    destruct (code <? 200) eqn:E2; [lia|]. destruct (code <? 300) eqn:E3; [lia|].
    destruct (code <? 400) eqn:E4; [lia|]. destruct (code <? 500) eqn:E5; [|lia]. reflexivity.
Qed.

Theorem http_total d : good_final (http_final (http_attempt d)).
Proof.
  destruct (http_attempt d) as [|c]; cbn; [left; reflexivity | apply of_cls_good].
Qed.

Example http_example :
  http_attempt (HResp 503 (HCode 450 true E5)) = HExc Trans /\
  http_attempt (HResp 500 (HCode 550 true E4)) = HExc Perm /\
  http_attempt (HResp 204 (HCode 250 false ENone)) = HOk /\
  http_attempt (HResp 400 (HCode 600 false ENone)) = HExc Perm.
Proof. vm_compute. repeat split; reflexivity. Qed.

(* ================================================================== *)
(** * MX relay *)

Lemma after_last_at_none t : after_last_at t = None <-> ~ In 64 t.
Proof.
  induction t as [|c t IH]; cbn; [tauto|].
  destruct (after_last_at t) as [d|] eqn:E.
  - split; [discriminate|]. intros H. exfalso. apply H. right.
    destruct (in_dec N.eq_dec 64 t) as [Hi|Hn]; [exact Hi|]. apply IH in Hn. discriminate.
  - destruct (c =? 64) eqn:Ec.
    + split; [discriminate|]. intros H. exfalso. apply H. left. lia.
    + split; [|reflexivity]. intros _ [H|H]; [lia|]. apply (proj1 IH eq_refl H).
Qed.

Lemma mx_insert_in p h l x : In x (mx_insert p h l) <-> (p, h) = x \/ In x l.
Proof.
  induction l as [|[q g] l IH]; cbn; [tauto|].
  destruct (p <? q); cbn; [tauto|]. rewrite IH. tauto.
Qed.

Lemma mx_sort_in_aux ans acc x :
  In x (fold_left (fun a r => mx_insert (fst r) (snd r) a) ans acc) <-> In x ans \/ In x acc.
Proof.
  revert acc; induction ans as [|[p h] ans IH]; intros acc; cbn [fold_left]; [cbn; tauto|].
  rewrite IH, mx_insert_in. cbn. tauto.
Qed.
Lemma mx_sort_in ans x : In x (mx_sort ans) <-> In x ans.
Proof. unfold mx_sort. rewrite mx_sort_in_aux. cbn. tauto. Qed.

Fixpoint sorted_prio (l : list (N * N)) : Prop :=
  match l with
  | [] => True
  | (p, _) :: l' => (forall q g, In (q, g) l' -> p <= q) /\ sorted_prio l'
  end.
Lemma mx_insert_sorted p h l : sorted_prio l -> sorted_prio (mx_insert p h l).
Proof.
  induction l as [|[q g] l IH]; cbn; [intros _; split; [intros ? ? []|exact I]|].
  intros [Hq Hs]. destruct (p <? q) eqn:E; cbn.
  - split; [|split; assumption]. intros q' g' [H|H]; [injection H as <- <-; lia|].
    specialize (Hq _ _ H). lia.
  - split; [|apply IH, Hs]. intros q' g' H. apply mx_insert_in in H. destruct H as [H|H].
    + injection H as <- <-. lia.
    + eapply Hq, H.
Qed.
Lemma mx_sort_sorted ans : sorted_prio (mx_sort ans).
Proof.
  unfold mx_sort. assert (H : sorted_prio []) by exact I. revert H. generalize (@nil (N * N)).
  induction ans as [|[p h] ans IH]; intros acc H; cbn [fold_left]; [exact H|].
  apply IH. now apply mx_insert_sorted.
Qed.

Theorem mx_classification rcpt0 forced mx a attempts :
  (~ In 64 rcpt0 -> mx_attempt rcpt0 forced mx a attempts = MxPerm) /\
  (In 64 rcpt0 -> forced = false -> mx = DnsFail -> mx_attempt rcpt0 forced mx a attempts = MxTrans) /\
  (In 64 rcpt0 -> forced = false -> mx = DnsNotFound -> a = DnsFail ->
     mx_attempt rcpt0 forced mx a attempts = MxTrans) /\
  (In 64 rcpt0 -> forced = false -> mx = DnsNotFound -> a = DnsNotFound ->
     mx_attempt rcpt0 forced mx a attempts = MxPerm) /\
  (In 64 rcpt0 -> forced = false -> mx = DnsOk [] -> mx_attempt rcpt0 forced mx a attempts = MxPerm).
Proof.
  unfold mx_attempt. repeat split.
  - intros H. apply after_last_at_none in H. now rewrite H.
  - intros H -> ->. destruct (after_last_at rcpt0) eqn:E; [reflexivity|].
    apply after_last_at_none in E. contradiction.
  - intros H -> -> ->. destruct (after_last_at rcpt0) eqn:E; [reflexivity|].
    apply after_last_at_none in E. contradiction.
  - intros H -> -> ->. destruct (after_last_at rcpt0) eqn:E; reflexivity.
  - intros H -> ->. destruct (after_last_at rcpt0) eqn:E; reflexivity.
Qed.

(* a destination is only ever one the resolver answered with: an MX host from the answer
   (chosen by attempts modulo the number of records, records in ascending preference), or the
   domain itself when there is no MX record but an A record *)
Theorem mx_destination rcpt0 mx a attempts d :
  mx_attempt rcpt0 false mx a attempts = MxRelay d ->
  (exists l, mx = DnsOk l /\ l <> [] /\
     nth_error (map (fun r => DHost (snd r)) (mx_sort l))
               (N.to_nat (attempts mod N.of_nat (length l))) = Some d /\
     sorted_prio (mx_sort l) /\ (forall x, In x (mx_sort l) <-> In x l)) \/
  (mx = DnsNotFound /\ exists l, a = DnsOk l /\ l <> [] /\ d = DDomain).
Proof.
  unfold mx_attempt. destruct (after_last_at rcpt0) as [dom|]; [|discriminate]. cbn [mx_records].
  destruct mx as [l| |]; [| |discriminate].
  - cbn. remember (map (fun r => DHost (snd r)) (mx_sort l)) as recs eqn:Er.
    destruct recs as [|r0 recs']; [discriminate|].
    unfold choose_mx. destruct (nth_error (r0 :: recs') _) as [d'|] eqn:E; [|discriminate].
    intros [= <-]. left. exists l.
    assert (Hlen : length (r0 :: recs') = length l).
    { rewrite Er, map_length. unfold mx_sort.
      assert (G : forall ans acc, length (fold_left (fun a r => mx_insert (fst r) (snd r) a) ans acc)
                                  = (length ans + length acc)%nat).
      { induction ans as [|[p h] ans IH]; intros acc; cbn [fold_left]; [reflexivity|].
        rewrite IH. cbn [length].
        assert (Hi : forall p h l0, length (mx_insert p h l0) = S (length l0)).
        { intros p0 h0 l0. induction l0 as [|[q g] l0 IHl]; cbn; [reflexivity|].
          destruct (p0 <? q); cbn; [reflexivity | now rewrite IHl]. }
        rewrite Hi. lia. }
      rewrite G. cbn. lia. }
    split; [reflexivity|]. split; [intros ->; discriminate|]. split.
    + rewrite <- Hlen, <- Er. exact E.
    + split; [apply mx_sort_sorted | intros x; apply mx_sort_in].
  - destruct a as [l| |]; [|discriminate|discriminate]. cbn.
    destruct l as [|u l]; [discriminate|]. cbn.
    unfold choose_mx. destruct (nth_error _ _) as [d'|] eqn:E; [|discriminate].
    intros [= <-]. right. split; [reflexivity|]. exists (u :: l).
    split; [reflexivity|]. split; [discriminate|].
    change (DDomain :: map (fun _ : unit => DDomain) l) with (map (fun _ : unit => DDomain) (u :: l)) in E.
    now apply nth_error_map_const in E.
Qed.

Example mx_example :
  mx_attempt [117;64;100] false (DnsOk [(20, 3); (10, 1); (10, 2)]) (DnsOk [tt]) 4 = MxRelay (DHost 2) /\
  mx_attempt [117;64;100] false DnsNotFound (DnsOk [tt]) 0 = MxRelay DDomain /\
  mx_attempt [117] false (DnsOk [(10, 1)]) (DnsOk [tt]) 0 = MxPerm.
Proof. vm_compute. repeat split; reflexivity. Qed.

(* ================================================================== *)
(** * SMTP / LMTP relay client: a Hoare-style invariant over the state monad *)

Definition ok {A} (m : M A) (s : st) (Q : A -> st -> Prop) (E : abort -> st -> Prop) : Prop :=
  match m s with (inl a, s') => Q a s' | (inr e, s') => E e s' end.

Lemma ok_ret {A} (a : A) s (Q : A -> st -> Prop) E : Q a s -> ok (mret a) s Q E.
Proof. intros H; exact H. Qed.
Lemma ok_raise {A} e s (Q : A -> st -> Prop) (E : abort -> st -> Prop) : E e s -> ok (@mraise A e) s Q E.
Proof. intros H; exact H. Qed.
Lemma ok_bind {A B} (m : M A) (f : A -> M B) s (Q : A -> st -> Prop) (R : B -> st -> Prop) E :
  ok m s Q E -> (forall a s', Q a s' -> ok (f a) s' R E) -> ok (mbind m f) s R E.
Proof.
  unfold ok, mbind. destruct (m s) as [[a|e] s']; intros H1 H2; [apply H2, H1 | exact H1].
Qed.
Lemma ok_weaken {A} (m : M A) s (Q Q' : A -> st -> Prop) (E E' : abort -> st -> Prop) :
  ok m s Q E -> (forall a s', Q a s' -> Q' a s') -> (forall e s', E e s' -> E' e s') -> ok m s Q' E'.
Proof. unfold ok. destruct (m s) as [[a|e] s']; intros H HQ HE; auto. Qed.
Lemma ok_catch {A} (m : M A) (handles : abort -> bool) (h : abort -> M A) s (Q : A -> st -> Prop) (E E0 : abort -> st -> Prop) :
  ok m s Q E0 ->
  (forall e s', E0 e s' -> if handles e then ok (h e) s' Q E else E e s') ->
  ok (mcatch m handles h) s Q E.
Proof.
  unfold ok, mcatch. destruct (m s) as [[a|e] s']; intros H1 H2; [exact H1|].
  specialize (H2 e s' H1). destruct (handles e); exact H2.
Qed.
Lemma ok_get {A} (f : st -> A) s (Q : A -> st -> Prop) E : Q (f s) s -> ok (mget f) s Q E.
Proof. intros H; exact H. Qed.

Lemma stage_eqb_eq a b : stage_eqb a b = true <-> a = b.
Proof.
  destruct a, b; cbn; split; intros H; try discriminate; try reflexivity;
    try (injection H as H); try (injection H as H H'); subst;
    rewrite ?N.eqb_refl; try reflexivity.
  all: try (apply N.eqb_eq in H; subst; reflexivity).
  all: apply andb_true_iff in H; destruct H as [H1 H2]; apply N.eqb_eq in H1, H2; subst; reflexivity.
Qed.
Lemma stage_eqb_refl a : stage_eqb a a = true.
Proof. now apply stage_eqb_eq. Qed.

Lemma read_inl o c : read_reply o = inl c ->
  (c = C2 /\ o = R2) \/ (c = C3 /\ o = R3) \/ (c = C4 /\ o = R4) \/ (c = C5 /\ o = R5) \/ (c = C500 /\ o = R500).
Proof. destruct o; cbn; intros [= <-]; tauto. Qed.
Lemma read_inr o e : read_reply o = inr e ->
  (e = ASmtp /\ (o = Malformed \/ o = Disconnect \/ o = BadCode)) \/ (e = ATimeout /\ o = Stall).
Proof. destruct o; cbn; intros [= <-]; tauto. Qed.


(* ---- the result mapping: a dict keyed by address ---- *)
Section DictLemmas.
  Context {V : Type}.
  Lemma dget_dset (d : list (N * V)) k v k' :
    dget (dset d k v) k' = if k =? k' then Some v else dget d k'.
  Proof.
    induction d as [|[k0 v0] d IH]; cbn; [reflexivity|].
    destruct (k0 =? k) eqn:E; cbn.
    - apply N.eqb_eq in E. subst. destruct (k =? k'); reflexivity.
    - rewrite IH. destruct (k0 =? k') eqn:E'; [|reflexivity].
      apply N.eqb_eq in E'. subst. now rewrite N.eqb_sym, E.
  Qed.
  (* the value the last update for key a carries *)
  Fixpoint last_match (a : N) (ups : list (N * V)) : option V :=
    match ups with
    | [] => None
    | (k, v) :: ups' =>
        match last_match a ups' with
        | Some w => Some w
        | None => if k =? a then Some v else None
        end
    end.
  Lemma dget_apply : forall ups (d : list (N * V)) a,
    dget (apply_updates d ups) a = match last_match a ups with Some v => Some v | None => dget d a end.
  Proof.
    unfold apply_updates. induction ups as [|[k v] ups IH]; intros d a; cbn [fold_left last_match fst snd]; [reflexivity|].
    rewrite IH. destruct (last_match a ups); [reflexivity|]. rewrite dget_dset. destruct (k =? a); reflexivity.
  Qed.
  Lemma last_match_Some a ups v : last_match a ups = Some v -> In (a, v) ups.
  Proof.
    induction ups as [|[k w] ups IH]; cbn; [discriminate|].
    destruct (last_match a ups) as [u|].
    - intros [= <-]. right. now apply IH.
    - destruct (k =? a) eqn:E; [|discriminate]. apply N.eqb_eq in E. subst. intros [= <-]. now left.
  Qed.
  Lemma last_match_None a ups : last_match a ups = None -> forall v, ~ In (a, v) ups.
  Proof.
    induction ups as [|[k w] ups IH]; cbn; [intros _ v []|].
    destruct (last_match a ups) as [u|]; [discriminate|].
    destruct (k =? a) eqn:E; [discriminate|]. intros _ v [H|H].
    - injection H as -> _. rewrite N.eqb_refl in E. discriminate.
    - now apply (IH eq_refl v).
  Qed.
  Lemma last_match_app a u1 u2 :
    last_match a (u1 ++ u2) = match last_match a u2 with Some v => Some v | None => last_match a u1 end.
  Proof.
    induction u1 as [|[k w] u1 IH]; cbn; [destruct (last_match a u2); reflexivity|].
    rewrite IH. destruct (last_match a u2); reflexivity.
  Qed.
End DictLemmas.

Lemma nth_error_combine {A B} : forall (l1 : list A) (l2 : list B) j,
  nth_error (combine l1 l2) j =
  match nth_error l1 j, nth_error l2 j with Some a, Some b => Some (a, b) | _, _ => None end.
Proof.
  induction l1 as [|a l1 IH]; intros [|b l2] [|j]; cbn; try reflexivity.
  - destruct (nth_error l1 j); reflexivity.
  - apply IH.
Qed.
Lemma in_combine_nth {A B} (l1 : list A) (l2 : list B) a b :
  In (a, b) (combine l1 l2) <-> exists j, nth_error l1 j = Some a /\ nth_error l2 j = Some b.
Proof.
  split.
  - intros H. apply In_nth_error in H. destruct H as [j Hj]. rewrite nth_error_combine in Hj.
    destruct (nth_error l1 j) as [a'|] eqn:E1; [|discriminate].
    destruct (nth_error l2 j) as [b'|] eqn:E2; [|discriminate]. injection Hj as -> ->. eauto.
  - intros (j & H1 & H2). apply (nth_error_In _ j). now rewrite nth_error_combine, H1, H2.
Qed.

Lemma dget_fromkeys_aux : forall addrs (d : list (N * option tres)) a,
  dget (fold_left (fun d a => match dget d a with Some _ => d | None => dset d a None end) addrs d) a =
  match dget d a with
  | Some v => Some v
  | None => if existsb (N.eqb a) addrs then Some None else None
  end.
Proof.
  induction addrs as [|b addrs IH]; intros d a; cbn [fold_left existsb]; [destruct (dget d a); reflexivity|].
  rewrite IH. destruct (dget d b) as [vb|] eqn:Eb.
  - destruct (dget d a) as [va|] eqn:Ea; [reflexivity|].
    destruct (a =? b) eqn:E; [apply N.eqb_eq in E; subst; congruence | reflexivity].
  - rewrite dget_dset. destruct (b =? a) eqn:E.
    + apply N.eqb_eq in E. subst. rewrite Eb, N.eqb_refl. reflexivity.
    + rewrite N.eqb_sym, E. cbn. reflexivity.
Qed.
Lemma dget_fromkeys addrs a :
  dget (fromkeys addrs) a = if existsb (N.eqb a) addrs then Some None else None.
Proof. unfold fromkeys. now rewrite dget_fromkeys_aux. Qed.
Lemma existsb_eqb_nth addrs a j : nth_error addrs j = Some a -> existsb (N.eqb a) addrs = true.
Proof.
  intros H. apply existsb_exists. exists a. split; [eapply nth_error_In; eauto | apply N.eqb_refl].
Qed.

Lemma in_rcpt_updates addrs errs a w :
  In (a, w) (rcpt_updates addrs errs) <->
  exists c j, w = Some (TFailed c) /\ nth_error addrs j = Some a /\ nth_error errs j = Some (Some c).
Proof.
  unfold rcpt_updates. rewrite in_flat_map. split.
  - intros ([a' o] & Hin & Hx). cbn in Hx. destruct o as [c|]; [|destruct Hx].
    destruct Hx as [Hx|[]]. injection Hx as -> <-. apply in_combine_nth in Hin.
    destruct Hin as (j & H1 & H2). eauto 6.
  - intros (c & j & -> & H1 & H2). exists (a, Some c). split; [apply in_combine_nth; eauto | now left].
Qed.

(* SMTP: what the mapping holds for an address after the RCPT errors were entered by position *)
Lemma smtp_table_char addrs errs a i :
  length errs = length addrs -> nth_error addrs i = Some a ->
  let r := tget (apply_updates (fromkeys addrs) (rcpt_updates addrs errs)) a in
  (exists c j, r = TFailed c /\ nth_error addrs j = Some a /\ nth_error errs j = Some (Some c)) \/
  (r = TDelivered /\ forall j, nth_error addrs j = Some a -> nth_error errs j = Some None).
Proof.
  intros Hlen Hi. cbn zeta. unfold tget. rewrite dget_apply.
  destruct (last_match a (rcpt_updates addrs errs)) as [w|] eqn:E.
  - apply last_match_Some in E. apply in_rcpt_updates in E. destruct E as (c & j & -> & H1 & H2).
    left. eauto 6.
  - rewrite dget_fromkeys, (existsb_eqb_nth _ _ _ Hi). right. split; [reflexivity|].
    intros j Hj. destruct (nth_error errs j) as [[c|]|] eqn:Ej; [|reflexivity|].
    + exfalso. apply (last_match_None _ _ E (Some (TFailed c))). apply in_rcpt_updates. eauto 6.
    + exfalso. apply nth_error_None in Ej. assert (j < length addrs)%nat by (apply nth_error_Some; congruence). lia.
Qed.

(* `dict(zip(recipients, rcpt_errors))`: the class of some occurrence of the same address *)
Lemma fail_table_char addrs (l : list cls) a i :
  length l = length addrs -> nth_error addrs i = Some a ->
  exists c j, tget (apply_updates [] (combine addrs (map (fun c => Some (TFailed c)) l))) a = TFailed c /\
              nth_error addrs j = Some a /\ nth_error l j = Some c.
Proof.
  intros Hlen Hi. unfold tget. rewrite dget_apply.
  destruct (last_match a (combine addrs (map (fun c => Some (TFailed c)) l))) as [w|] eqn:E.
  - apply last_match_Some in E. apply in_combine_nth in E. destruct E as (j & H1 & H2).
    rewrite nth_error_map in H2. destruct (nth_error l j) as [c|] eqn:Ej; [|discriminate].
    injection H2 as <-. eauto 6.
  - exfalso. destruct (nth_error l i) as [c|] eqn:Ei.
    + apply (last_match_None _ _ E (Some (TFailed c))). apply in_combine_nth. exists i.
      split; [exact Hi|]. now rewrite nth_error_map, Ei.
    + apply nth_error_None in Ei. assert (i < length addrs)%nat by (apply nth_error_Some; congruence). lia.
Qed.

Lemma read_table_nth d addrs i r :
  nth_error (read_table d addrs) i = Some r -> exists a, nth_error addrs i = Some a /\ r = tget d a.
Proof.
  unfold read_table. rewrite nth_error_map. destruct (nth_error addrs i) as [a|]; [|discriminate].
  intros [= <-]. eauto.
Qed.
Lemma read_table_length d addrs : length (read_table d addrs) = length addrs.
Proof. apply map_length. Qed.
Lemma m_addrs_length msg : length (m_addrs msg) = length (m_rcpts msg).
Proof. unfold m_addrs, m_rcpts. now rewrite !map_length. Qed.

Section Smtp.
  Variable sc : script.
  Variable cfg : config.
  Variable msgs : list message.

  Definition avail (s : st) (stg : stage) : Prop :=
    In stg (pend s) \/ lookup_code (filled s) stg <> None.
  Definition isfilled (s : st) (stg : stage) : Prop := lookup_code (filled s) stg <> None.
  Definition filled_ok (s : st) : Prop :=
    forall stg c, lookup_code (filled s) stg = Some c -> read_reply (reply sc stg) = inl c.

  Definition conn_stage (stg : stage) : Prop :=
    match stg with Banner | Ehlo | Helo | StartTls | Ehlo2 | Helo2 | Auth | Quit => True | _ => False end.
  Definition msg_stage (k : N) (stg : stage) : Prop :=
    match stg with
    | Idle j | Mail j | Data j | Rset j | Rcpt j _ | Eod j _ => j = k
    | _ => False
    end.
  (* the stages that can influence the result of request k *)
  Definition rel (k : N) (stg : stage) : Prop := conn_stage stg \/ msg_stage k stg.

  Definition is5 (o : outcome) : Prop := o = R5 \/ o = R500.
  Definition istrans (o : outcome) : Prop :=
    o = R4 \/ o = Malformed \/ o = BadCode \/ o = Disconnect \/ o = Stall.
  Definition msg_at (k : N) : option message := nth_error msgs (N.to_nat k).
  Definition PermCause (k : N) : Prop :=
    (exists stg, rel k stg /\ is5 (reply sc stg)) \/
    (exists msg, msg_at k = Some msg /\ m_eightbit msg = true) \/
    c_creds cfg = true \/
    (exists msg, msg_at k = Some msg /\ (m_sender_ok msg = false \/ In false (m_rcpts msg))).
  Definition TransCause (k : N) : Prop :=
    (exists stg, rel k stg /\ istrans (reply sc stg)) \/ c_conn cfg <> ConnOk.
  (* the only foreign exception left: rcpttos[0] on an envelope without recipients *)
  Definition ForeignCause (k : N) : Prop :=
    exists msg, msg_at k = Some msg /\ m_rcpts msg = [].
  Definition ExcJust (k : N) (c : cls) : Prop :=
    match c with Perm => PermCause k | Trans => TransCause k end.
  Definition nonerr (stg : stage) : Prop := reply sc stg = R2 \/ reply sc stg = R3.
  Definition eodix (i : N) : N := if c_lmtp cfg then i else 0.
  (* positions i and j of envelope.recipients hold the same address *)
  Definition own (msg : message) (i j : nat) : Prop :=
    exists a, nth_error (m_addrs msg) i = Some a /\ nth_error (m_addrs msg) j = Some a.
  (* the RCPT at position j, or the data reply owned by it, was an error reply of class c *)
  Definition occ_failed (k : N) (j : nat) (c : cls) : Prop :=
    exists stg cl, (stg = Rcpt k (N.of_nat j) \/ stg = Eod k (N.of_nat j)) /\
                   read_reply (reply sc stg) = inl cl /\ is_error cl = true /\ factory cl = c.
  (* what the mapping may hold for the address at position i: justified by the replies to the
     occurrences of that same address (and the message replies) only *)
  Definition RJust (k : N) (msg : message) (i : nat) (r : tres) : Prop :=
    match r with
    | TDelivered =>
        nonerr (Mail k) /\ nonerr (Data k) /\
        if c_lmtp cfg
        then (exists j, own msg i j /\ reply sc (Rcpt k (N.of_nat j)) = R2 /\ nonerr (Eod k (N.of_nat j))) \/
             (forall j, own msg i j -> reply sc (Rcpt k (N.of_nat j)) = R3)
        else (forall j, own msg i j -> nonerr (Rcpt k (N.of_nat j))) /\ nonerr (Eod k 0)
    | TFailed c => exists j, own msg i j /\ occ_failed k j c
    | TMissing => False
    end.
  Definition Just (k : N) (r : mres) : Prop :=
    match r with
    | MMap l => exists msg, msg_at k = Some msg /\ length l = length (m_rcpts msg) /\
                            forall i r, nth_error l i = Some r -> RJust k msg i r
    | MExc c => ExcJust k c
    | MOther => ForeignCause k
    end.
  Definition results_ok (s : st) : Prop :=
    forall k r, lookup_res (results s) k = Some r -> Just k r.
  Definition Cause (k : N) (e : abort) : Prop :=
    match e with
    | ARelay c => ExcJust k c
    | ARelayRcpts c l =>
        ExcJust k c /\ (exists msg, msg_at k = Some msg /\ length l = length (m_rcpts msg)) /\
        forall i d, nth_error l i = Some d -> occ_failed k i d
    | ASmtp => exists stg, rel k stg /\
                           (reply sc stg = Malformed \/ reply sc stg = Disconnect \/ reply sc stg = BadCode)
    | ATimeout => (exists stg, rel k stg /\ reply sc stg = Stall) \/ c_conn cfg = ConnTimeout
    | ASock => c_conn cfg = ConnRefused
    | AForeign => ForeignCause k
    end.

  Record Inv (k : N) (s : st) : Prop := mkInv {
    i_filled : filled_ok s;
    i_res : results_ok s;
    i_pend : forall stg, In stg (pend s) -> rel k stg;
    i_lr : forall stg, In stg (lr s) -> (exists i, stg = Rcpt k i) /\ avail s stg;
    i_cur : cur s = k;
    i_smtp : c_lmtp cfg = false -> lr s = [] }.
  Definition EA (k : N) (e : abort) (s : st) : Prop :=
    Cause k e /\ filled_ok s /\ results_ok s /\ cur s = k /\ (is_relay e = true -> Inv k s).
  (* a successful step: nothing that was pending or filled is forgotten; no result is touched *)
  Definition step (s s' : st) : Prop :=
    (forall stg, avail s stg -> avail s' stg) /\ (forall stg, isfilled s stg -> isfilled s' stg) /\
    results s' = results s /\ lr s' = lr s.
  Lemma step_refl s : step s s.
  Proof. repeat split; auto. Qed.
  Lemma step_trans a b c : step a b -> step b c -> step a c.
  Proof.
    intros (H1 & H2 & H3 & H4) (G1 & G2 & G3 & G4). repeat split; auto; congruence.
  Qed.

  Lemma err_cause k stg c :
    rel k stg -> read_reply (reply sc stg) = inl c -> is_error c = true -> ExcJust k (factory c).
  Proof.
    intros Hr Hc He. apply read_inl in Hc.
    destruct Hc as [[-> H]|[[-> H]|[[-> H]|[[-> H]|[-> H]]]]]; cbn in He; try discriminate;
      unfold factory, ExcJust, TransCause, PermCause, istrans, is5.
    - left. exists stg. split; [exact Hr|]. left. exact H.
    - left. exists stg. split; [exact Hr|]. left; exact H.
    - left. exists stg. split; [exact Hr|]. right; exact H.
  Qed.
  Lemma noerr_nonerr stg c :
    read_reply (reply sc stg) = inl c -> is_error c = false -> nonerr stg.
  Proof.
    intros Hc He. apply read_inl in Hc.
    destruct Hc as [[-> H]|[[-> H]|[[-> H]|[[-> H]|[-> H]]]]]; cbn in He; try discriminate;
      [left|right]; exact H.
  Qed.
  Lemma abort_cause k stg e :
    rel k stg -> read_reply (reply sc stg) = inr e ->
    Cause k e /\ is_relay e = false /\ is_foreign e = false.
  Proof.
    intros Hr He. apply read_inr in He.
    destruct He as [[-> H]|[-> H]]; (split; [|split; reflexivity]); cbn.
    - exists stg. tauto.
    - left. exists stg. tauto.
  Qed.

  (* ---- primitives ---- *)
  Lemma cmd_eq stg s :
    cmd stg s = (inl tt, mkSt (stg :: sent s) (pend s ++ [stg]) (filled s) (xt s) (lr s) (cur s) (results s)).
  Proof. reflexivity. Qed.

  Lemma cmd_spec k stg s E :
    Inv k s -> rel k stg ->
    ok (cmd stg) s (fun _ s' => Inv k s' /\ step s s' /\ avail s' stg) E.
  Proof.
    intros [Hf Hr Hp Hl Hc Hsm] Hrel. unfold ok. rewrite cmd_eq.
    assert (Hav : forall x, avail s x -> avail (mkSt (stg :: sent s) (pend s ++ [stg]) (filled s) (xt s) (lr s) (cur s) (results s)) x).
    { intros x [H|H]; [left; cbn; apply in_or_app; left; exact H | right; exact H]. }
    split; [|split].
    - constructor; cbn; auto.
      + intros x Hx. apply in_app_or in Hx. destruct Hx as [Hx|[<-|[]]]; auto.
      + intros x Hx. destruct (Hl x Hx) as [H1 H2]. split; [exact H1 | apply Hav, H2].
    - repeat split; auto.
    - left. cbn. apply in_or_app. right. left. reflexivity.
  Qed.

  Lemma lookup_cons_ne stg0 c f stg :
    lookup_code f stg <> None -> lookup_code ((stg0, c) :: f) stg <> None.
  Proof. cbn. destruct (stage_eqb stg0 stg); [discriminate | auto]. Qed.

  Lemma flush_go_spec p : forall f r p' f',
    flush_go sc p f = (r, p', f') ->
    (forall stg c, lookup_code f stg = Some c -> read_reply (reply sc stg) = inl c) ->
    (forall stg c, lookup_code f' stg = Some c -> read_reply (reply sc stg) = inl c) /\
    (forall stg, lookup_code f stg <> None -> lookup_code f' stg <> None) /\
    (forall x, In x p' -> In x p) /\
    match r with
    | None => p' = [] /\ forall stg, In stg p -> lookup_code f' stg <> None
    | Some e => exists stg, In stg p /\ read_reply (reply sc stg) = inr e
    end.
  Proof.
    induction p as [|s0 p IH]; intros f r p' f' H Hf; cbn in H.
    - injection H as <- <- <-. repeat split; auto; try (intros ? []).
    - destruct (read_reply (reply sc s0)) as [c|e] eqn:E.
      + apply IH in H.
        * destruct H as (H1 & H2 & H3 & H4). split; [exact H1|]. split; [|split].
          -- intros stg Hs. apply H2. now apply lookup_cons_ne.
          -- intros x Hx. right. now apply H3.
          -- destruct r as [e|].
             ++ destruct H4 as (stg & Hi & Hr). exists stg. split; [right; exact Hi | exact Hr].
             ++ destruct H4 as [-> H4]. split; [reflexivity|]. intros stg [<-|Hi]; [|now apply H4].
                apply H2. cbn. now rewrite stage_eqb_refl.
        * intros stg c0. cbn. destruct (stage_eqb s0 stg) eqn:Es; [|apply Hf].
          apply stage_eqb_eq in Es. subst. now intros [= <-].
      + injection H as <- <- <-. repeat split; auto.
        * intros x Hx; right; exact Hx.
        * exists s0. split; [left; reflexivity | exact E].
  Qed.

  Definition EN (k : N) (e : abort) (s : st) : Prop :=
    EA k e s /\ is_relay e = false /\ is_foreign e = false.
  Lemma flush_spec_n k s :
    Inv k s ->
    ok (flush_pipeline sc) s
       (fun _ s' => Inv k s' /\ step s s' /\ pend s' = [] /\ (forall stg, avail s stg -> isfilled s' stg))
       (EN k).
  Proof.
    intros [Hf Hr Hp Hl Hc Hsm]. unfold ok, flush_pipeline.
    destruct (flush_go sc (pend s) (filled s)) as [[r p'] f'] eqn:E.
    destruct (flush_go_spec _ _ _ _ _ E Hf) as (H1 & H2 & H3 & H4).
    destruct r as [e|].
    - destruct H4 as (stg & Hi & Hre).
      destruct (abort_cause k stg e (Hp _ Hi) Hre) as (Hca & Hnr & Hnf). split; [|split; [exact Hnr | exact Hnf]].
      split; [exact Hca|]. split; [exact H1|]. split; [exact Hr|]. split; [exact Hc|].
      rewrite Hnr. discriminate.
    - destruct H4 as [-> H4].
      assert (Hfill : forall stg, avail s stg -> lookup_code f' stg <> None).
      { intros stg [Hi|Hi]; [now apply H4 | now apply H2]. }
      split; [|split; [|split]].
      + constructor; cbn; auto. intros x Hx. destruct (Hl x Hx) as [Ha Hb]. split; [exact Ha|].
        right. cbn. now apply Hfill.
      + repeat split; cbn; auto. intros stg Ha. right. cbn. now apply Hfill.
      + reflexivity.
      + exact Hfill.
  Qed.
  Lemma flush_spec k s :
    Inv k s ->
    ok (flush_pipeline sc) s
       (fun _ s' => Inv k s' /\ step s s' /\ pend s' = [] /\ (forall stg, avail s stg -> isfilled s' stg))
       (EA k).
  Proof. intros HI. eapply ok_weaken; [apply (flush_spec_n k s HI)|auto|]. intros e s' [H _]; exact H. Qed.

  Lemma Inv_upd k s sn x l :
    Inv k s -> (l = lr s \/ l = []) ->
    Inv k (mkSt sn (pend s) (filled s) x l (cur s) (results s)).
  Proof.
    intros [Hf Hr Hp Hl Hc Hsm] Hlr. constructor; cbn; auto.
    - intros stg Hs. destruct Hlr as [->| ->]; [|destruct Hs].
      destruct (Hl stg Hs) as [H1 H2]. split; [exact H1 | exact H2].
    - destruct Hlr as [->| ->]; auto.
  Qed.

  Lemma is_error_of_spec k stg s (Q : bool -> st -> Prop) :
    isfilled s stg ->
    (forall c, lookup_code (filled s) stg = Some c -> Q (is_error c) s) ->
    ok (is_error_of stg) s Q (EA k).
  Proof.
    intros Hfl HQ. unfold ok, is_error_of, code_of, mbind, mget.
    destruct (lookup_code (filled s) stg) as [c|] eqn:E; [|contradiction]. cbn. now apply HQ.
  Qed.

  Lemma EA_relay k s c : Inv k s -> ExcJust k c -> EA k (ARelay c) s.
  Proof.
    intros HI Hc. split; [exact Hc|]. split; [apply HI|]. split; [apply HI|]. split; [apply HI|].
    intros _. exact HI.
  Qed.

  Lemma raise_factory_spec {A} k stg s c (Q : A -> st -> Prop) :
    Inv k s -> rel k stg -> lookup_code (filled s) stg = Some c -> is_error c = true ->
    ok (raise_factory sc stg) s Q (EA k).
  Proof.
    intros HI Hrel Hc He. unfold ok, raise_factory, code_of, mbind, mget. rewrite Hc. cbn.
    apply EA_relay; [exact HI|]. eapply err_cause; eauto. apply (i_filled _ _ HI), Hc.
  Qed.

  Lemma cmd_flush_spec_n k stg s :
    Inv k s -> rel k stg ->
    ok (cmd stg ;;; flush_pipeline sc) s
       (fun _ s' => Inv k s' /\ step s s' /\ pend s' = [] /\ isfilled s' stg /\
                    forall x, avail s x -> isfilled s' x) (EN k).
  Proof.
    intros HI Hrel. eapply ok_bind; [apply cmd_spec; eauto|].
    intros ? s1 (HI1 & Hs1 & Ha1). eapply ok_weaken; [apply flush_spec_n; eauto| |auto].
    intros ? s2 (HI2 & Hs2 & Hp2 & Hf2). split; [exact HI2|]. split; [eapply step_trans; eauto|].
    split; [exact Hp2|]. split; [apply Hf2, Ha1|]. intros x Hx. apply Hf2. now apply (proj1 Hs1).
  Qed.
  Lemma cmd_flush_spec k stg s :
    Inv k s -> rel k stg ->
    ok (cmd stg ;;; flush_pipeline sc) s
       (fun _ s' => Inv k s' /\ step s s' /\ pend s' = [] /\ isfilled s' stg /\
                    forall x, avail s x -> isfilled s' x) (EA k).
  Proof.
    intros HI Hrel. eapply ok_bind; [apply cmd_spec; eauto|].
    intros ? s1 (HI1 & Hs1 & Ha1). eapply ok_weaken; [apply flush_spec; eauto| |auto].
    intros ? s2 (HI2 & Hs2 & Hp2 & Hf2). split; [exact HI2|]. split; [eapply step_trans; eauto|].
    split; [exact Hp2|]. split; [apply Hf2, Ha1|]. intros x Hx. apply Hf2. now apply (proj1 Hs1).
  Qed.

  (* `e <- is_error_of stg ;; if e then raise factory(stg) else continue` *)
  Lemma check_stage_spec {A} (a : A) k stg s :
    Inv k s -> rel k stg -> isfilled s stg ->
    ok (e <- is_error_of stg ;; if e then raise_factory sc stg else mret a) s
       (fun _ s' => s' = s /\ nonerr stg) (EA k).
  Proof.
    intros HI Hrel Hfl. eapply ok_bind; [apply (is_error_of_spec k stg s
        (fun b s' => s' = s /\ exists c, lookup_code (filled s) stg = Some c /\ b = is_error c)); auto|].
    - intros c Hc. split; [reflexivity|]. now exists c.
    - intros b s' (-> & c & Hc & ->). destruct (is_error c) eqn:E.
      + eapply raise_factory_spec; eauto.
      + apply ok_ret. split; [reflexivity|]. eapply noerr_nonerr; eauto. apply (i_filled _ _ HI), Hc.
  Qed.

  (* ---- handshake ---- *)
  Definition HP (k : N) (s s' : st) : Prop :=
    Inv k s' /\ pend s' = [] /\ results s' = results s /\ (lr s = [] -> lr s' = []).
  Lemma HP_trans k a b c : HP k a b -> HP k b c -> HP k a c.
  Proof.
    intros (H1 & H2 & H3 & H4) (G1 & G2 & G3 & G4).
    split; [exact G1|]. split; [exact G2|]. split; [congruence | auto].
  Qed.
  Lemma step_HP k s s' : Inv k s' -> step s s' -> pend s' = [] -> HP k s s'.
  Proof.
    intros HI (H1 & H2 & H3 & H4) Hp. split; [exact HI|]. split; [exact Hp|]. split; [exact H3|].
    intros E. rewrite H4. exact E.
  Qed.

  Lemma HP_upd k s sn x l :
    Inv k s -> pend s = [] -> (l = lr s \/ l = []) ->
    HP k s (mkSt sn (pend s) (filled s) x l (cur s) (results s)).
  Proof.
    intros HI Hp Hl. split; [now apply Inv_upd|]. split; [exact Hp|]. split; [reflexivity|].
    cbn. destruct Hl as [->| ->]; auto.
  Qed.
  Lemma HP_refl k s : Inv k s -> pend s = [] -> HP k s s.
  Proof. intros HI Hp. split; [exact HI|]. split; [exact Hp|]. split; [reflexivity | auto]. Qed.

  Lemma r_banner_spec k s :
    Inv k s -> ok (r_banner sc) s (fun _ s' => HP k s s') (EA k).
  Proof.
    intros HI. unfold r_banner, c_get_banner.
    eapply ok_bind; [apply (cmd_flush_spec k Banner); auto; left; exact I|].
    intros ? s1 (HI1 & Hs1 & Hp1 & Hf1 & _).
    eapply ok_weaken; [apply (check_stage_spec _ k Banner); auto; left; exact I| |auto].
    intros ? s2 [-> _]. now apply step_HP.
  Qed.

  Lemma r_helo_spec k second s :
    Inv k s -> ok (r_helo sc second) s (fun _ s' => HP k s s') (EA k).
  Proof.
    intros HI. unfold r_helo, c_helo.
    assert (Hrel : rel k (if second then Helo2 else Helo)) by (destruct second; left; exact I).
    eapply ok_bind; [apply (cmd_flush_spec k _ s HI Hrel)|].
    intros ? s1 (HI1 & Hs1 & Hp1 & Hf1 & _).
    eapply ok_weaken; [apply (check_stage_spec _ k _ s1 HI1 Hrel Hf1)| |auto].
    intros ? s2 [-> _]. now apply step_HP.
  Qed.

  Lemma c_ehlo_spec k second s :
    Inv k s ->
    ok (c_ehlo sc cfg second) s
       (fun _ s' => HP k s s' /\ isfilled s' (if second then Ehlo2 else Ehlo)) (EA k).
  Proof.
    intros HI. unfold c_ehlo.
    assert (Hrel : rel k (if second then Ehlo2 else Ehlo)) by (destruct second; left; exact I).
    set (stg := if second then Ehlo2 else Ehlo) in *.
    change (ok ((cmd stg ;;; flush_pipeline sc) ;;;
                (c <- code_of stg ;;
                 match c with
                 | Some C2 => (if c_lmtp cfg then set_lr [] else mret tt) ;;;
                              set_xt (if second then exts2 sc else exts1 sc)
                 | _ => mret tt
                 end)) s (fun _ s' => HP k s s' /\ isfilled s' stg) (EA k)).
    eapply ok_bind; [apply (cmd_flush_spec k stg s HI Hrel)|].
    intros ? s1 (HI1 & Hs1 & Hp1 & Hf1 & _).
    pose proof (step_HP k s s1 HI1 Hs1 Hp1) as HP1.
    unfold ok, mbind, code_of, mget.
    destruct (lookup_code (filled s1) stg) as [c|] eqn:Ec; [|split; [exact HP1 | exact Hf1]].
    destruct c; try (split; [exact HP1 | exact Hf1]).
    destruct (c_lmtp cfg); cbn.
    - split; [|exact Hf1]. eapply HP_trans; [exact HP1|]. apply HP_upd; auto.
    - split; [|exact Hf1]. eapply HP_trans; [exact HP1|]. apply HP_upd; auto.
  Qed.

  Lemma r_ehlo_spec k second s :
    Inv k s -> ok (r_ehlo sc cfg second) s (fun _ s' => HP k s s') (EA k).
  Proof.
    intros HI. unfold r_ehlo.
    assert (Hrel : rel k (if second then Ehlo2 else Ehlo)) by (destruct second; left; exact I).
    set (stg := if second then Ehlo2 else Ehlo) in *.
    eapply ok_bind; [apply (c_ehlo_spec k second s HI)|].
    intros ? s1 [HP1 Hf1]. fold stg in Hf1. pose proof HP1 as HP1c. destruct HP1 as (HI1 & Hp1 & Hr1 & Hl1).
    eapply ok_bind; [apply (is_error_of_spec k stg s1
        (fun b s' => s' = s1 /\ exists c, lookup_code (filled s1) stg = Some c /\ b = is_error c)); auto|].
    - intros c Hc. split; [reflexivity|]. now exists c.
    - intros b s' (-> & c & Hc & ->). destruct (is_error c) eqn:E.
      + destruct (c_lmtp cfg).
        * eapply raise_factory_spec; eauto.
        * unfold ok, mbind, code_of, mget. rewrite Hc. cbn.
          destruct c; try (eapply raise_factory_spec; eauto).
          eapply ok_weaken; [apply (r_helo_spec k second s1 HI1)| |auto].
          intros ? s2 HP2. cbv beta in *; eapply HP_trans; eauto.
      + apply ok_ret. exact HP1c.
  Qed.

  Lemma r_starttls_spec k s :
    Inv k s -> ok (r_starttls sc cfg) s (fun _ s' => HP k s s') (EA k).
  Proof.
    intros HI. unfold r_starttls, c_starttls.
    assert (Hrel : rel k StartTls) by (left; exact I).
    eapply ok_bind; [apply (cmd_flush_spec k _ s HI Hrel)|].
    intros ? s1 (HI1 & Hs1 & Hp1 & Hf1 & _).
    eapply ok_bind; [apply (is_error_of_spec k StartTls s1
        (fun b s' => s' = s1 /\ exists c, lookup_code (filled s1) StartTls = Some c /\ b = is_error c)); auto|].
    - intros c Hc. split; [reflexivity|]. now exists c.
    - intros b s' (-> & c & Hc & ->). destruct (is_error c && c_tls_required cfg) eqn:E.
      + apply andb_true_iff in E. destruct E as [E _]. eapply raise_factory_spec; eauto.
      + apply ok_ret. now apply step_HP.
  Qed.

  Lemma r_authenticate_spec k s :
    Inv k s -> c_creds cfg = true ->
    ok (r_authenticate sc) s (fun _ s' => HP k s s') (EA k).
  Proof.
    intros HI Hcreds. unfold r_authenticate, c_auth.
    eapply ok_bind with (Q := fun c s' => HP k s s' /\
        (c = C500 \/ read_reply (reply sc Auth) = inl c)).
    - eapply ok_bind; [apply (flush_spec k s HI)|].
      intros ? s1 (HI1 & Hs1 & Hp1 & _). pose proof (step_HP k s s1 HI1 Hs1 Hp1) as HP1.
      unfold ok, mbind, mget. destruct (x_auth (xt s1)); cbn.
      + destruct (read_reply (reply sc Auth)) as [c|e] eqn:E; cbn.
        * split; [|right; reflexivity]. eapply HP_trans; [exact HP1|]. apply HP_upd; auto.
        * destruct (abort_cause k Auth e (or_introl I) E) as (Hca & Hnr & _).
          destruct HI1 as [Hf Hr Hp Hl Hc Hsm]. split; [exact Hca|].
          split; [exact Hf|]. split; [exact Hr|]. split; [exact Hc|]. rewrite Hnr; discriminate.
      + split; [exact HP1 | left; reflexivity].
    - intros c s1 [HP1 Hc]. destruct (is_error c) eqn:E; [|apply ok_ret; exact HP1].
      apply ok_raise. apply EA_relay; [apply HP1|].
      destruct Hc as [->|Hc]; [cbn; right; right; left; exact Hcreds|].
      eapply err_cause; eauto. left; exact I.
  Qed.

  Lemma r_handshake_spec k s :
    Inv k s -> ok (r_handshake sc cfg) s (fun _ s' => HP k s s') (EA k).
  Proof.
    intros HI. unfold r_handshake.
    eapply ok_bind with (Q := fun _ s' => HP k s s').
    - destruct (c_tls_immediately cfg).
      + eapply ok_bind; [apply (r_banner_spec k s HI)|]. intros ? s1 HP1.
        eapply ok_weaken; [apply (r_ehlo_spec k false s1); apply HP1| |auto].
        intros ? s2 HP2. cbv beta in *; eapply HP_trans; eauto.
      + eapply ok_bind; [apply (r_banner_spec k s HI)|]. intros ? s1 HP1.
        eapply ok_bind; [apply (r_ehlo_spec k false s1); apply HP1|]. intros ? s2 HP2.
        pose proof (HP_trans _ _ _ _ HP1 HP2) as HP12.
        unfold ok, mbind, mget. cbn.
        destruct (c_tls_required cfg || x_starttls (xt s2)); [|exact HP12].
        fold (ok (r_starttls sc cfg ;;; r_ehlo sc cfg true) s2 (fun _ s' => HP k s s') (EA k)).
        eapply ok_bind; [apply (r_starttls_spec k s2); apply HP2|]. intros ? s3 HP3.
        eapply ok_weaken; [apply (r_ehlo_spec k true s3); apply HP3| |auto].
        intros ? s4 HP4. eapply HP_trans; [exact HP12|]. cbv beta in *; eapply HP_trans; eauto.
    - intros ? s1 HP1. destruct (c_creds cfg) eqn:Ec; [|apply ok_ret; exact HP1].
      eapply ok_weaken; [apply (r_authenticate_spec k s1); [apply HP1 | exact Ec]| |auto].
      intros ? s2 HP2. cbv beta in *; eapply HP_trans; eauto.
  Qed.

  (* ---- one request ---- *)
  Lemma ok_bind_get {A B} (f : st -> A) (g : A -> M B) s (Q : B -> st -> Prop) E :
    ok (g (f s)) s Q E -> ok (mbind (mget f) g) s Q E.
  Proof. intros H; exact H. Qed.

  (* mono: what a successful step may do to the bookkeeping, except lr *)
  Definition mono (s s' : st) : Prop :=
    (forall stg, avail s stg -> avail s' stg) /\ (forall stg, isfilled s stg -> isfilled s' stg) /\
    results s' = results s.
  Lemma mono_refl s : mono s s.
  Proof. repeat split; auto. Qed.
  Lemma mono_trans a b c : mono a b -> mono b c -> mono a c.
  Proof. intros (H1 & H2 & H3) (G1 & G2 & G3). repeat split; auto; congruence. Qed.
  Lemma step_mono s s' : step s s' -> mono s s'.
  Proof. intros (H1 & H2 & H3 & H4). repeat split; auto. Qed.

  Lemma maybe_flush_spec k (p : bool) s :
    Inv k s ->
    ok (if p then mret tt else flush_pipeline sc) s (fun _ s' => Inv k s' /\ step s s') (EA k).
  Proof.
    intros HI. destruct p; [apply ok_ret; split; [exact HI | apply step_refl]|].
    eapply ok_weaken; [apply (flush_spec k s HI)| |auto]. intros ? s1 (H1 & H2 & _). auto.
  Qed.

  Lemma maybe_flush_spec_n k (p : bool) s :
    Inv k s ->
    ok (if p then mret tt else flush_pipeline sc) s (fun _ s' => Inv k s' /\ step s s') (EN k).
  Proof.
    intros HI. destruct p; [apply ok_ret; split; [exact HI | apply step_refl]|].
    eapply ok_weaken; [apply (flush_spec_n k s HI)| |auto]. intros ? s1 (H1 & H2 & _). auto.
  Qed.
  Lemma bad_address_cause k msg :
    msg_at k = Some msg -> (m_sender_ok msg = false \/ In false (m_rcpts msg)) -> PermCause k.
  Proof. intros Hm H. right. right. right. exists msg. auto. Qed.

  Lemma EA_foreign k s : filled_ok s -> results_ok s -> cur s = k -> ForeignCause k -> EA k AForeign s.
  Proof.
    intros Hf Hr Hc Hca. split; [exact Hca|]. split; [exact Hf|]. split; [exact Hr|].
    split; [exact Hc | discriminate].
  Qed.

  Lemma r_mailfrom_spec k msg s :
    Inv k s -> msg_at k = Some msg ->
    ok (r_mailfrom sc k (m_sender_ok msg)) s
       (fun _ s' => Inv k s' /\ step s s' /\ avail s' (Mail k)) (EA k).
  Proof.
    intros HI Hm. unfold r_mailfrom, c_mailfrom.
    assert (Hrel : rel k (Mail k)) by (right; reflexivity).
    destruct (m_sender_ok msg) eqn:Eok.
    - eapply ok_bind with (Q := fun _ s' => Inv k s' /\ step s s' /\ avail s' (Mail k)).
      + eapply ok_catch with (E0 := EN k).
        * eapply ok_bind; [apply (cmd_spec k _ s _ HI Hrel)|]. intros ? s1 (HI1 & Hs1 & Ha1).
          apply ok_bind_get. eapply ok_weaken; [apply (maybe_flush_spec_n k _ s1 HI1)| |auto].
          intros ? s2 [HI2 Hs2]. split; [exact HI2|]. split; [eapply step_trans; eauto|].
          now apply (proj1 Hs2).
        * intros e s1 (He & _ & Hnf). rewrite Hnf. exact He.
      + intros ? s1 (HI1 & Hs1 & Ha1). unfold ok, mbind, code_of, mget.
        destruct (lookup_code (filled s1) (Mail k)) as [c|] eqn:Ec; cbn; [|auto].
        destruct (is_error c) eqn:Ee; cbn; [|auto].
        apply EA_relay; [exact HI1|]. eapply err_cause; eauto. apply (i_filled _ _ HI1), Ec.
    - eapply ok_bind with (Q := fun _ _ => False); [|intros ? ? []].
      unfold ok, mcatch, mraise, is_foreign, address_error. cbn.
      apply EA_relay; [exact HI|]. eapply bad_address_cause; eauto.
  Qed.

  Fixpoint rstages (k i : N) (rs : list bool) : list stage :=
    match rs with [] => [] | _ :: rs' => Rcpt k i :: rstages k (i + 1) rs' end.

  Lemma Inv_lr_app k s stg i :
    c_lmtp cfg = true ->
    Inv k s -> stg = Rcpt k i -> avail s stg ->
    Inv k (mkSt (sent s) (pend s) (filled s) (xt s) (lr s ++ [stg]) (cur s) (results s)).
  Proof.
    intros Hlm [Hf Hr Hp Hl Hc Hsm] -> Ha. constructor; cbn; auto.
    - intros x Hx. apply in_app_or in Hx. destruct Hx as [Hx|[<-|[]]].
      + destruct (Hl x Hx) as [H1 H2]. split; [exact H1 | exact H2].
      + split; [now exists i | exact Ha].
    - congruence.
  Qed.

  Lemma c_rcptto_spec k i s :
    Inv k s ->
    ok (c_rcptto sc cfg k i true) s
       (fun _ s' => Inv k s' /\ mono s s' /\ avail s' (Rcpt k i) /\
                    lr s' = lr s ++ (if c_lmtp cfg then [Rcpt k i] else [])) (EA k).
  Proof.
    intros HI. unfold c_rcptto.
    assert (Hrel : rel k (Rcpt k i)) by (right; reflexivity).
    eapply ok_bind; [apply (cmd_spec k _ s _ HI Hrel)|]. intros ? s1 (HI1 & Hs1 & Ha1).
    apply ok_bind_get. eapply ok_bind; [apply (maybe_flush_spec k _ s1 HI1)|].
    intros ? s2 [HI2 Hs2]. pose proof (step_trans _ _ _ Hs1 Hs2) as Hs12.
    assert (Ha2 : avail s2 (Rcpt k i)) by now apply (proj1 Hs2).
    destruct (c_lmtp cfg) eqn:Elm.
    - unfold ok, mbind, mget, set_lr. cbn. split; [now apply (Inv_lr_app k s2 _ i)|].
      split; [|split].
      + destruct Hs12 as (H1 & H2 & H3 & H4). repeat split; auto.
      + exact Ha2.
      + now rewrite (proj2 (proj2 (proj2 Hs12))).
    - apply ok_ret. split; [exact HI2|]. split; [now apply step_mono|]. split; [exact Ha2|].
      rewrite app_nil_r. apply Hs12.
  Qed.

  Lemma c_rcptto_catch_spec k i s :
    Inv k s ->
    ok (mcatch (c_rcptto sc cfg k i true) is_foreign address_error) s
       (fun _ s' => Inv k s' /\ mono s s' /\ avail s' (Rcpt k i) /\
                    lr s' = lr s ++ (if c_lmtp cfg then [Rcpt k i] else [])) (EA k).
  Proof.
    intros HI. eapply ok_catch with (E0 := EN k).
    - unfold c_rcptto.
      assert (Hrel : rel k (Rcpt k i)) by (right; reflexivity).
      eapply ok_bind; [apply (cmd_spec k _ s _ HI Hrel)|]. intros ? s1 (HI1 & Hs1 & Ha1).
      apply ok_bind_get. eapply ok_bind; [apply (maybe_flush_spec_n k _ s1 HI1)|].
      intros ? s2 [HI2 Hs2]. pose proof (step_trans _ _ _ Hs1 Hs2) as Hs12.
      assert (Ha2 : avail s2 (Rcpt k i)) by now apply (proj1 Hs2).
      destruct (c_lmtp cfg) eqn:Elm.
      + unfold ok, mbind, mget, set_lr. cbn. split; [now apply (Inv_lr_app k s2 _ i)|].
        split; [|split].
        * destruct Hs12 as (H1 & H2 & H3 & H4). repeat split; auto.
        * exact Ha2.
        * now rewrite (proj2 (proj2 (proj2 Hs12))).
      + apply ok_ret. split; [exact HI2|]. split; [now apply step_mono|]. split; [exact Ha2|].
        rewrite app_nil_r. apply Hs12.
    - intros e s1 (He & _ & Hnf). rewrite Hnf. exact He.
  Qed.

  Lemma r_rcpttos_spec k msg : forall rs i s,
    Inv k s -> msg_at k = Some msg -> (forall b, In b rs -> In b (m_rcpts msg)) ->
    ok (r_rcpttos sc cfg k i rs) s
       (fun _ s' => Inv k s' /\ mono s s' /\ (forall stg, In stg (rstages k i rs) -> avail s' stg) /\
                    lr s' = lr s ++ (if c_lmtp cfg then rstages k i rs else [])) (EA k).
  Proof.
    induction rs as [|b rs IH]; intros i s HI Hm Hin; cbn [r_rcpttos rstages].
    - apply ok_ret. split; [exact HI|]. split; [apply mono_refl|]. split; [intros ? []|].
      destruct (c_lmtp cfg); now rewrite app_nil_r.
    - destruct b.
      + eapply ok_bind; [apply (c_rcptto_catch_spec k i s HI)|]. intros ? s1 (HI1 & Hm1 & Ha1 & Hl1).
        eapply ok_weaken; [apply (IH (i + 1) s1 HI1 Hm)| |auto].
        * intros b Hb. apply Hin. now right.
        * intros ? s2 (HI2 & Hm2 & Ha2 & Hl2). split; [exact HI2|]. split; [eapply mono_trans; eauto|].
          split.
          -- intros stg [<-|Hs]; [now apply (proj1 Hm2) | now apply Ha2].
          -- rewrite Hl2, Hl1. destruct (c_lmtp cfg); cbn; now rewrite <- app_assoc.
      + eapply ok_bind with (Q := fun _ _ => False); [|intros ? ? []].
        unfold ok, mcatch, c_rcptto, mraise, is_foreign, address_error. cbn.
        apply EA_relay; [exact HI|]. eapply bad_address_cause; eauto. right. apply Hin. now left.
  Qed.

  Fixpoint errs_ok (k i : N) (rs : list bool) (errs : list (option cls)) : Prop :=
    match rs, errs with
    | [], [] => True
    | _ :: rs', o :: errs' =>
        (exists c, read_reply (reply sc (Rcpt k i)) = inl c /\
                   o = if is_error c then Some (factory c) else None) /\
        errs_ok k (i + 1) rs' errs'
    | _, _ => False
    end.
  Lemma errs_ok_length k : forall rs i errs, errs_ok k i rs errs -> length errs = length rs.
  Proof.
    induction rs as [|b rs IH]; intros i [|o errs]; cbn; try tauto. intros [_ H]. f_equal. eauto.
  Qed.
  Lemma errs_ok_nth k : forall rs i errs j o,
    errs_ok k i rs errs -> nth_error errs j = Some o ->
    exists c, read_reply (reply sc (Rcpt k (i + N.of_nat j))) = inl c /\
              o = if is_error c then Some (factory c) else None.
  Proof.
    induction rs as [|b rs IH]; intros i [|o' errs] j o; cbn [errs_ok]; try tauto.
    - destruct j; discriminate.
    - intros [H1 H2]. destruct j as [|j]; cbn [nth_error].
      + intros [= <-]. replace (i + N.of_nat 0) with i by lia. exact H1.
      + intros Hn. replace (i + N.of_nat (S j)) with (i + 1 + N.of_nat j) by lia. eauto.
  Qed.

  Lemma rcpt_errors_spec k : forall rs i s (Q : list (option cls) -> st -> Prop),
    filled_ok s -> (forall stg, In stg (rstages k i rs) -> isfilled s stg) ->
    (forall errs, errs_ok k i rs errs -> Q errs s) ->
    ok (rcpt_errors sc k i rs) s Q (EA k).
  Proof.
    induction rs as [|b rs IH]; intros i s Q Hf Hfl HQ; cbn [rcpt_errors rstages] in *.
    - apply ok_ret. apply HQ. exact I.
    - unfold ok, mbind at 1, code_of, mget.
      destruct (lookup_code (filled s) (Rcpt k i)) as [c|] eqn:Ec.
      2:{ exfalso. apply (Hfl (Rcpt k i)); [now left | exact Ec]. }
      fold (ok (r <- rcpt_errors sc k (i + 1) rs ;;
                mret ((if is_error c then Some (factory c) else None) :: r)) s Q (EA k)).
      eapply ok_bind; [apply (IH (i + 1) s (fun errs s' => s' = s /\ errs_ok k (i + 1) rs errs));
                       [exact Hf | intros stg Hs; apply Hfl; now right | auto]|].
      intros errs s' [-> He]. apply ok_ret. apply HQ. cbn. split; [|exact He].
      exists c. split; [now apply Hf | reflexivity].
  Qed.

  Lemma all_some_some : forall errs l, all_some errs = Some l -> errs = map Some l.
  Proof.
    induction errs as [|o errs IH]; intros l; cbn.
    - now intros [= <-].
    - destruct o as [c|]; [|discriminate]. destruct (all_some errs) as [r|]; [|discriminate].
      intros [= <-]. cbn. f_equal. now apply IH.
  Qed.

  Lemma failed_just k rs errs l j d :
    errs_ok k 0 rs errs -> errs = map Some l -> nth_error l j = Some d -> occ_failed k j d.
  Proof.
    intros He -> Hn.
    assert (Hn' : nth_error (map Some l) j = Some (Some d)) by (rewrite nth_error_map, Hn; reflexivity).
    destruct (errs_ok_nth k rs 0 _ j _ He Hn') as (c & Hc & Ho).
    replace (0 + N.of_nat j) with (N.of_nat j) in Hc by lia.
    destruct (is_error c) eqn:Ee; [|discriminate]. injection Ho as ->.
    exists (Rcpt k (N.of_nat j)), c. auto.
  Qed.
  Lemma occ_failed_excjust k j d : occ_failed k j d -> ExcJust k d.
  Proof.
    intros (stg & cl & Hs & Hc & He & <-). eapply err_cause; eauto.
    destruct Hs as [->| ->]; right; reflexivity.
  Qed.
  Lemma failed_excjust k msg i d : RJust k msg i (TFailed d) -> ExcJust k d.
  Proof. intros (j & _ & H). eapply occ_failed_excjust; eauto. Qed.

  Lemma check_replies_spec k msg s :
    Inv k s -> msg_at k = Some msg ->
    isfilled s (Mail k) -> isfilled s (Data k) ->
    (forall stg, In stg (rstages k 0 (m_rcpts msg)) -> isfilled s stg) ->
    ok (check_replies sc k (m_rcpts msg)) s
       (fun _ s' => s' = s /\ nonerr (Mail k) /\ nonerr (Data k)) (EA k).
  Proof.
    intros HI Hm Hfm Hfd Hfr. unfold check_replies.
    eapply ok_bind; [apply (is_error_of_spec k (Mail k) s
        (fun b s' => s' = s /\ exists c, lookup_code (filled s) (Mail k) = Some c /\ b = is_error c)); auto|].
    { intros c Hc. split; [reflexivity|]. now exists c. }
    intros b s' (-> & c & Hc & ->). destruct (is_error c) eqn:Ee.
    { eapply raise_factory_spec; eauto. right; reflexivity. }
    assert (Hnm : nonerr (Mail k)) by (eapply noerr_nonerr; eauto; apply (i_filled _ _ HI), Hc).
    eapply ok_bind; [apply (rcpt_errors_spec k (m_rcpts msg) 0 s
        (fun errs s' => s' = s /\ errs_ok k 0 (m_rcpts msg) errs)); auto; apply HI|].
    intros errs s' [-> He]. destruct (all_some errs) as [l|] eqn:Ea.
    - pose proof (all_some_some _ _ Ea) as Hmap.
      pose proof (errs_ok_length _ _ _ _ He) as Hlen. rewrite Hmap, map_length in Hlen.
      destruct l as [|c0 l].
      + apply ok_raise. apply EA_foreign; try apply HI. exists msg. split; [exact Hm|].
        destruct (m_rcpts msg); [reflexivity | discriminate].
      + assert (H0 : occ_failed k 0 c0) by (apply (failed_just k _ _ _ 0%nat c0 He Hmap); reflexivity).
        destruct (mixed c0 l).
        * apply ok_raise. split.
          -- split; [eapply occ_failed_excjust; eauto|]. split; [exists msg; auto|].
             intros i d Hn. eapply failed_just; eauto.
          -- split; [apply HI|]. split; [apply HI|]. split; [apply HI|]. intros _; exact HI.
        * apply ok_raise. apply EA_relay; [exact HI|]. eapply occ_failed_excjust; eauto.
    - eapply ok_weaken; [apply (check_stage_spec _ k (Data k) s HI); auto; right; reflexivity| |auto].
      intros ? s' [-> Hnd]. auto.
  Qed.

  Lemma lmtp_slots_spec k : forall l s,
    Inv k s -> (forall stg, In stg l -> (exists i, stg = Rcpt k i) /\ isfilled s stg) ->
    ok (lmtp_slots k l) s
       (fun r s' => Inv k s' /\ step s s' /\
                    (forall i, In i r <-> (In (Rcpt k i) l /\ reply sc (Rcpt k i) = R2)) /\
                    (forall i, In i r -> avail s' (Eod k i))) (EA k).
  Proof.
    induction l as [|stg l IH]; intros s HI Hl; cbn [lmtp_slots].
    - apply ok_ret. split; [exact HI|]. split; [apply step_refl|]. split; [|intros ? []].
      intros i. cbn. tauto.
    - destruct (Hl stg (or_introl eq_refl)) as [[i0 ->] Hfl].
      unfold ok, mbind at 1, code_of, mget.
      destruct (lookup_code (filled s) (Rcpt k i0)) as [c|] eqn:Ec; [|contradiction].
      pose proof (i_filled _ _ HI _ _ Ec) as Hrd.
      assert (Hrest : forall s1, step s s1 -> forall stg, In stg l -> (exists i, stg = Rcpt k i) /\ isfilled s1 stg).
      { intros s1 Hs1 stg Hs. destruct (Hl stg (or_intror Hs)) as [H1 H2]. split; [exact H1|].
        now apply (proj1 (proj2 Hs1)). }
      assert (Hskip : c <> C2 ->
        ok (lmtp_slots k l) s
           (fun r s' => Inv k s' /\ step s s' /\
              (forall i, In i r <-> (In (Rcpt k i) (Rcpt k i0 :: l) /\ reply sc (Rcpt k i) = R2)) /\
              (forall i, In i r -> avail s' (Eod k i))) (EA k)).
      { intros Hne. eapply ok_weaken; [apply (IH s HI (Hrest s (step_refl s)))| |auto].
        intros r s1 (H1 & H2 & H3 & H4). split; [exact H1|]. split; [exact H2|]. split; [|exact H4].
        intros i. rewrite H3. cbn. split; [tauto|]. intros [[Heq|Hin] Hr2]; [|tauto].
        injection Heq as <-. apply read_inl in Hrd. exfalso.
        destruct Hrd as [[-> H]|[[-> H]|[[-> H]|[[-> H]|[-> H]]]]]; congruence. }
      destruct c; try (apply Hskip; discriminate).
      cbn [rcpt_index].
      fold (ok (cmd (Eod k i0) ;;; r <- lmtp_slots k l ;; mret (i0 :: r)) s
               (fun r s' => Inv k s' /\ step s s' /\
                  (forall i, In i r <-> (In (Rcpt k i) (Rcpt k i0 :: l) /\ reply sc (Rcpt k i) = R2)) /\
                  (forall i, In i r -> avail s' (Eod k i))) (EA k)).
      eapply ok_bind; [apply (cmd_spec k (Eod k i0) s _ HI); right; reflexivity|].
      intros ? s1 (HI1 & Hs1 & Ha1).
      eapply ok_bind; [apply (IH s1 HI1 (Hrest s1 Hs1))|].
      intros r s2 (HI2 & Hs2 & H3 & H4). apply ok_ret.
      split; [exact HI2|]. split; [eapply step_trans; eauto|]. split.
      + intros i. cbn. rewrite H3. split.
        * intros [<-|[Hin Hr2]]; [|tauto]. split; [now left|].
          apply read_inl in Hrd. destruct Hrd as [[_ H]|[[? H]|[[? H]|[[? H]|[? H]]]]]; congruence.
        * intros [[Heq|Hin] Hr2]; [injection Heq as <-; now left | tauto].
      + intros i [<-|Hin]; [now apply (proj1 Hs2) | now apply H4].
  Qed.

  Lemma Inv_lr_nil k s : Inv k s -> Inv k (mkSt (sent s) (pend s) (filled s) (xt s) [] (cur s) (results s)).
  Proof. intros HI. apply Inv_upd; auto. Qed.

  Lemma c_send_data_spec k s :
    Inv k s -> pend s = [] -> (c_lmtp cfg = false -> lr s = []) ->
    ok (c_send_data sc cfg k) s
       (fun r s' => Inv k s' /\ mono s s' /\ lr s' = [] /\
          (if c_lmtp cfg
           then (forall i, In i r <-> (In (Rcpt k i) (lr s) /\ reply sc (Rcpt k i) = R2)) /\
                (forall i, In i r -> avail s' (Eod k i))
           else r = [] /\ avail s' (Eod k 0))) (EA k).
  Proof.
    intros HI Hp Hlr. unfold c_send_data.
    eapply ok_bind with (Q := fun r s' => Inv k s' /\ mono s s' /\ lr s' = [] /\
          (if c_lmtp cfg
           then (forall i, In i r <-> (In (Rcpt k i) (lr s) /\ reply sc (Rcpt k i) = R2)) /\
                (forall i, In i r -> avail s' (Eod k i))
           else r = [] /\ avail s' (Eod k 0))).
    - destruct (c_lmtp cfg).
      + apply ok_bind_get. eapply ok_bind; [apply (lmtp_slots_spec k (lr s) s HI)|].
        * intros stg Hs. destruct (i_lr _ _ HI stg Hs) as [H1 [H2|H2]]; [rewrite Hp in H2; destruct H2|].
          split; [exact H1 | exact H2].
        * intros r s1 (HI1 & Hs1 & H3 & H4). unfold ok, mbind, set_lr. cbn.
          split; [now apply Inv_lr_nil|]. split; [|split; [reflexivity|split]].
          -- destruct Hs1 as (G1 & G2 & G3 & G4). repeat split; auto.
          -- exact H3.
          -- intros i Hi. apply (H4 i Hi).
      + eapply ok_bind; [apply (cmd_spec k (Eod k 0) s _ HI); right; reflexivity|].
        intros ? s1 (HI1 & Hs1 & Ha1). apply ok_ret. split; [exact HI1|]. split; [now apply step_mono|].
        split; [rewrite (proj2 (proj2 (proj2 Hs1))); auto|]. split; [reflexivity | exact Ha1].
    - intros r s1 (HI1 & Hm1 & Hl1 & Hr1). apply ok_bind_get.
      eapply ok_bind; [apply (maybe_flush_spec k _ s1 HI1)|]. intros ? s2 [HI2 Hs2]. apply ok_ret.
      split; [exact HI2|]. split; [eapply mono_trans; eauto; now apply step_mono|].
      split; [rewrite (proj2 (proj2 (proj2 Hs2))); exact Hl1|].
      destruct (c_lmtp cfg).
      + destruct Hr1 as [H3 H4]. split; [exact H3|]. intros i Hi. apply (proj1 Hs2), H4, Hi.
      + destruct Hr1 as [-> H4]. split; [reflexivity|]. apply (proj1 Hs2), H4.
  Qed.

  (* operations that never change the state *)
  Definition pure {A} (m : M A) : Prop := forall s, snd (m s) = s.
  Lemma pure_ret {A} (a : A) : pure (mret a). Proof. intros s; reflexivity. Qed.
  Lemma pure_raise {A} e : pure (@mraise A e). Proof. intros s; reflexivity. Qed.
  Lemma pure_get {A} (f : st -> A) : pure (mget f). Proof. intros s; reflexivity. Qed.
  Lemma pure_bind {A B} (m : M A) (f : A -> M B) : pure m -> (forall a, pure (f a)) -> pure (mbind m f).
  Proof.
    intros Hm Hf s. unfold mbind. specialize (Hm s). destruct (m s) as [[a|e] s']; cbn in *; subst; [apply Hf | reflexivity].
  Qed.
  Lemma pure_is_error_of stg : pure (is_error_of stg).
  Proof.
    apply pure_bind; [apply pure_get|]. intros [c|]; [apply pure_ret | apply pure_raise].
  Qed.
  Lemma pure_raise_factory {A} stg : pure (@raise_factory sc A stg).
  Proof. apply pure_bind; [apply pure_get|]. intros [c|]; apply pure_raise. Qed.
  Lemma pure_rcpt_errors k : forall rs i, pure (rcpt_errors sc k i rs).
  Proof.
    induction rs as [|b rs IH]; intros i; cbn [rcpt_errors]; [apply pure_ret|].
    apply pure_bind; [apply pure_get|]. intros [c|]; [|apply pure_raise].
    apply pure_bind; [apply IH|]. intros r. apply pure_ret.
  Qed.
  Lemma pure_check_replies k rs : pure (check_replies sc k rs).
  Proof.
    unfold check_replies. apply pure_bind; [apply pure_is_error_of|]. intros [|]; [apply pure_raise_factory|].
    apply pure_bind; [apply pure_rcpt_errors|]. intros errs.
    destruct (all_some errs) as [[|c l]|]; [apply pure_raise | destruct (mixed c l); apply pure_raise|].
    apply pure_bind; [apply pure_is_error_of|]. intros [|]; [apply pure_raise_factory | apply pure_ret].
  Qed.
  Lemma ok_pure {A} (m : M A) s (Q : A -> st -> Prop) E :
    pure m -> ok m s Q E -> ok m s (fun a s' => Q a s' /\ s' = s) (fun e s' => E e s' /\ s' = s).
  Proof.
    intros Hp. unfold ok. specialize (Hp s). destruct (m s) as [[a|e] s']; cbn in Hp; subst; auto.
  Qed.

  Lemma EA_mono k e s s' :
    EA k e s -> Inv k s' -> results s' = results s -> EA k e s'.
  Proof.
    intros (Hca & _ & _ & _ & _) HI Hr. split; [exact Hca|]. split; [apply HI|]. split; [apply HI|].
    split; [apply HI|]. intros _; exact HI.
  Qed.

  Lemma send_envelope_spec k msg s :
    Inv k s -> pend s = [] -> lr s = [] -> msg_at k = Some msg ->
    ok (send_envelope sc cfg k msg) s
       (fun errs s' => Inv k s' /\ mono s s' /\ pend s' = [] /\ nonerr (Mail k) /\ nonerr (Data k) /\
                       errs_ok k 0 (m_rcpts msg) errs /\
                       lr s' = (if c_lmtp cfg then rstages k 0 (m_rcpts msg) else []))
       (EA k).
  Proof.
    intros HI Hp Hlr Hm. unfold send_envelope.
    eapply ok_bind; [apply (r_mailfrom_spec k msg s HI Hm)|]. intros ? s1 (HI1 & Hs1 & Ha1).
    eapply ok_bind; [apply (r_rcpttos_spec k msg (m_rcpts msg) 0 s1 HI1 Hm); auto|].
    intros ? s2 (HI2 & Hm2 & Ha2 & Hl2).
    rewrite (proj2 (proj2 (proj2 Hs1))), Hlr in Hl2. cbn [app] in Hl2.
    pose proof (mono_trans _ _ _ (step_mono _ _ Hs1) Hm2) as Hm02.
    eapply ok_bind with (Q := fun _ s' => Inv k s' /\ mono s2 s' /\ pend s' = [] /\ lr s' = lr s2 /\
                                           nonerr (Mail k) /\ nonerr (Data k) /\
                                           forall stg, In stg (rstages k 0 (m_rcpts msg)) -> isfilled s' stg).
    - eapply ok_catch with (E0 := fun e s' => EA k e s' /\
          (is_relay e = true -> isfilled s' (Data k) /\ pend s' = [] /\ lr s' = lr s2 /\ results s' = results s2)).
      + (* c_data ;;; check_replies *)
        eapply ok_bind.
        * eapply ok_weaken; [apply (cmd_flush_spec_n k (Data k) s2 HI2); right; reflexivity| |].
          -- intros ? ? H; exact H.
          -- intros e s' (H1 & H2 & _). split; [exact H1|]. rewrite H2. discriminate.
        * intros ? s3 (HI3 & Hs3 & Hp3 & Hfd & Hfa). cbv beta.
          assert (Hfm : isfilled s3 (Mail k)) by (apply Hfa, (proj1 Hm2), Ha1).
          assert (Hfr : forall stg, In stg (rstages k 0 (m_rcpts msg)) -> isfilled s3 stg)
            by (intros stg Hs; apply Hfa, Ha2, Hs).
          eapply ok_weaken; [apply ok_pure; [apply pure_check_replies|];
                             apply (check_replies_spec k msg s3 HI3 Hm Hfm Hfd Hfr)| |].
          -- intros ? s4 [(-> & Hn1 & Hn2) _]. split; [exact HI3|]. split; [now apply step_mono|].
             split; [exact Hp3|]. split; [apply Hs3|]. auto.
          -- intros e s4 [He ->]. split; [exact He|]. intros _. split; [exact Hfd|]. split; [exact Hp3|].
             split; [apply Hs3 | apply Hs3].
      + intros e s3 [He Hrl]. destruct (is_relay e) eqn:Er; [|exact He].
        destruct (Hrl eq_refl) as (Hfd & Hp3 & Hl3 & Hr3).
        assert (HI3 : Inv k s3) by (apply He; exact Er).
        eapply ok_bind; [apply (is_error_of_spec k (Data k) s3 (fun _ s' => s' = s3)); auto|].
        intros d s' ->.
        eapply ok_bind with (Q := fun _ s' => Inv k s' /\ results s' = results s3).
        * destruct d; [apply ok_ret; auto|].
          eapply ok_bind; [apply (c_send_data_spec k s3 HI3 Hp3)|].
          -- intros Hl. rewrite Hl3, Hl2, Hl. reflexivity.
          -- intros r s4 (HI4 & Hm4 & _). apply ok_ret. split; [exact HI4 | apply Hm4].
        * intros ? s4 [HI4 Hr4]. apply ok_raise. eapply EA_mono; eauto.
    - intros ? s3 (HI3 & Hm3 & Hp3 & Hl3 & Hn1 & Hn2 & Hfr).
      eapply (rcpt_errors_spec k (m_rcpts msg) 0 s3); [apply HI3 | exact Hfr|].
      intros errs He. split; [exact HI3|]. split; [eapply mono_trans; eauto|]. split; [exact Hp3|].
      split; [exact Hn1|]. split; [exact Hn2|]. split; [exact He|]. now rewrite Hl3, Hl2.
  Qed.

  Lemma handle_encoding_spec k msg s :
    Inv k s -> msg_at k = Some msg ->
    ok (handle_encoding msg) s (fun _ s' => s' = s) (EA k).
  Proof.
    intros HI Hm. unfold handle_encoding. apply ok_bind_get.
    destruct (negb (x_8bitmime (xt s)) && m_eightbit msg) eqn:E; [|now apply ok_ret].
    apply ok_raise. apply EA_relay; [exact HI|]. right. left. exists msg. split; [exact Hm|].
    now apply andb_true_iff in E.
  Qed.

  Lemma send_message_data_spec k s :
    Inv k s -> pend s = [] -> (c_lmtp cfg = false -> lr s = []) ->
    ok (send_message_data sc cfg k) s
       (fun r s' => Inv k s' /\ mono s s' /\ pend s' = [] /\ lr s' = [] /\
          (if c_lmtp cfg
           then (forall i, In i r <-> (In (Rcpt k i) (lr s) /\ reply sc (Rcpt k i) = R2)) /\
                (forall i, In i r -> isfilled s' (Eod k i))
           else nonerr (Eod k 0))) (EA k).
  Proof.
    intros HI Hp Hlr. unfold send_message_data.
    eapply ok_bind; [apply (c_send_data_spec k s HI Hp Hlr)|]. intros r s1 (HI1 & Hm1 & Hl1 & Hr1).
    eapply ok_bind; [apply (flush_spec k s1 HI1)|]. intros ? s2 (HI2 & Hs2 & Hp2 & Hf2).
    pose proof (mono_trans _ _ _ Hm1 (step_mono _ _ Hs2)) as Hm02.
    assert (Hl2 : lr s2 = []) by (rewrite (proj2 (proj2 (proj2 Hs2))); exact Hl1).
    destruct (c_lmtp cfg).
    - apply ok_ret. destruct Hr1 as [H3 H4]. split; [exact HI2|]. split; [exact Hm02|]. split; [exact Hp2|].
      split; [exact Hl2|]. split; [exact H3|]. intros i Hi. apply Hf2, H4, Hi.
    - destruct Hr1 as [-> Ha].
      eapply ok_weaken; [apply (check_stage_spec _ k (Eod k 0) s2 HI2); [right; reflexivity | apply Hf2, Ha]| |auto].
      intros ? s3 [-> Hn]. auto 10.
  Qed.

  (* ---- results ---- *)
  Lemma lookup_res_cons m r l k :
    lookup_res ((m, r) :: l) k = if m =? k then Some r else lookup_res l k.
  Proof. reflexivity. Qed.
  Lemma Inv_set_result k s r :
    Inv k s -> Just k r ->
    Inv k (mkSt (sent s) (pend s) (filled s) (xt s) (lr s) (cur s) ((k, r) :: results s)).
  Proof.
    intros [Hf Hr Hp Hl Hc Hsm] Hj. constructor; cbn; auto.
    intros j r0. cbn. destruct (k =? j) eqn:E; [|apply Hr].
    apply N.eqb_eq in E. subst. now intros [= <-].
  Qed.

  Lemma r_rset_spec k s :
    Inv k s -> ok (r_rset sc cfg k) s (fun _ s' => Inv k s' /\ pend s' = [] /\ lr s' = []) (EA k).
  Proof.
    intros HI. unfold r_rset, c_rset.
    eapply ok_bind; [apply (cmd_spec k (Rset k) s _ HI); right; reflexivity|].
    intros ? s0 (HI0 & Hs0 & _).
    eapply ok_bind; [apply (flush_spec k s0 HI0)|]. intros ? s1 (HI1 & Hs1 & Hp1 & _).
    destruct (c_lmtp cfg) eqn:Elm.
    - unfold ok, set_lr. cbn. split; [now apply Inv_lr_nil | auto].
    - apply ok_ret. split; [exact HI1|]. split; [exact Hp1|]. now apply (i_smtp _ _ HI1).
  Qed.

  Lemma set_result_spec k s r E :
    Inv k s -> Just k r ->
    ok (set_result k r) s (fun _ s' => Inv k s' /\ pend s' = pend s /\ lr s' = lr s /\
                                       (forall stg, isfilled s stg -> isfilled s' stg)) E.
  Proof.
    intros HI Hj. unfold ok, set_result. split; [now apply Inv_set_result|]. cbn. auto.
  Qed.

  Lemma set_failure_spec k msg e s :
    EA k e s -> is_relay e = true -> msg_at k = Some msg ->
    ok (set_failure k msg e) s (fun _ s' => Inv k s' /\ pend s' = pend s) (EA k).
  Proof.
    intros (Hca & _ & _ & _ & HI) Hr Hm. specialize (HI Hr). destruct e; try discriminate; cbn [set_failure].
    - eapply ok_weaken; [apply (set_result_spec k s (MExc c) (EA k) HI Hca)| |auto]. intros ? s' H. split; apply H.
    - destruct Hca as (Hc & (msg' & Hm' & Hlen) & Hall). rewrite Hm in Hm'. injection Hm' as <-.
      eapply ok_weaken; [apply (set_result_spec k s _ (EA k) HI)| |auto].
      + exists msg. split; [exact Hm|]. split; [now rewrite read_table_length, m_addrs_length|].
        intros i r Hn. apply read_table_nth in Hn. destruct Hn as (a & Ha & ->).
        destruct (fail_table_char (m_addrs msg) l a i) as (c0 & j & -> & Hj & Hl);
          [now rewrite m_addrs_length | exact Ha|].
        exists j. split; [exists a; auto | now apply Hall].
      + intros ? s' H. split; apply H.
  Qed.

  (* the updates the LMTP data replies make to the mapping *)
  Lemma lmtp_data_spec k addrs : forall owners s (Q : list (N * option tres) * bool -> st -> Prop),
    filled_ok s ->
    (forall j, In j owners -> isfilled s (Eod k j) /\ (N.to_nat j < length addrs)%nat) ->
    (forall ups had,
       (forall a w, In (a, w) ups ->
          exists j cl, In j owners /\ nth_error addrs (N.to_nat j) = Some a /\
                       read_reply (reply sc (Eod k j)) = inl cl /\
                       w = Some (if is_error cl then TFailed (factory cl) else TDelivered)) ->
       (forall j a, In j owners -> nth_error addrs (N.to_nat j) = Some a -> exists w, In (a, w) ups) ->
       Q (ups, had) s) ->
    ok (lmtp_data sc k addrs owners) s Q (EA k).
  Proof.
    induction owners as [|j ow IH]; intros s Q Hf Hown HQ; cbn [lmtp_data].
    - apply ok_ret. apply HQ; [intros a w [] | intros j a []].
    - destruct (Hown j (or_introl eq_refl)) as [Hfl Hlt].
      unfold ok, mbind at 1, code_of, mget.
      destruct (lookup_code (filled s) (Eod k j)) as [c|] eqn:Ec; [|contradiction].
      destruct (nth_error addrs (N.to_nat j)) as [a0|] eqn:Ea.
      2:{ exfalso. apply nth_error_None in Ea. lia. }
      pose proof (Hf _ _ Ec) as Hrd.
      fold (ok (r <- lmtp_data sc k addrs ow ;;
                if is_error c then mret ((a0, Some (TFailed (factory c))) :: fst r, true)
                else mret ((a0, Some TDelivered) :: fst r, snd r)) s Q (EA k)).
      eapply ok_bind; [apply (IH s (fun r s' => s' = s /\
          (forall a w, In (a, w) (fst r) ->
             exists j cl, In j ow /\ nth_error addrs (N.to_nat j) = Some a /\
                          read_reply (reply sc (Eod k j)) = inl cl /\
                          w = Some (if is_error cl then TFailed (factory cl) else TDelivered)) /\
          (forall j a, In j ow -> nth_error addrs (N.to_nat j) = Some a -> exists w, In (a, w) (fst r))) Hf)|].
      + intros j' Hj'. apply Hown. now right.
      + intros ups had H1 H2. cbn [fst]. auto.
      + intros [ups had] s' (-> & H1 & H2). cbn [fst snd] in *.
        assert (G : forall w0 had', w0 = Some (if is_error c then TFailed (factory c) else TDelivered) ->
                      Q ((a0, w0) :: ups, had') s).
        { intros w0 had' ->. apply HQ.
          - intros a w [Hx|Hx].
            + injection Hx as <- <-. exists j, c. split; [now left | auto].
            + destruct (H1 a w Hx) as (j' & cl & Hj' & Hrest). exists j', cl. split; [now right | exact Hrest].
          - intros j' a [<-|Hj'] Hn.
            + rewrite Ea in Hn. injection Hn as <-. eexists. left. reflexivity.
            + destruct (H2 j' a Hj' Hn) as [w Hw]. exists w. now right. }
        destruct (is_error c) eqn:Ee; apply ok_ret; apply G; reflexivity.
  Qed.

  Lemma rstages_in k : forall rs i j, (j < length rs)%nat -> In (Rcpt k (i + N.of_nat j)) (rstages k i rs).
  Proof.
    induction rs as [|b rs IH]; intros i j Hj; cbn in *; [lia|].
    destruct j as [|j]; [left; f_equal; lia|]. right.
    replace (i + N.of_nat (S j)) with (i + 1 + N.of_nat j) by lia. apply IH. lia.
  Qed.

  Lemma rstages_in_inv k : forall rs i j, In (Rcpt k j) (rstages k i rs) -> i <= j /\ (N.to_nat (j - i) < length rs)%nat.
  Proof.
    induction rs as [|b rs IH]; intros i j; cbn; [intros []|]. intros [H|H].
    - injection H as <-. split; [lia|]. replace (i - i) with 0 by lia. cbn. lia.
    - apply IH in H. destruct H as [H1 H2]. split; [lia|]. replace (j - i) with (1 + (j - (i + 1))) by lia.
      rewrite N2Nat.inj_add. cbn. lia.
  Qed.

  Lemma deliver_spec k msg s :
    Inv k s -> pend s = [] -> lr s = [] -> msg_at k = Some msg ->
    ok (deliver sc cfg k msg) s (fun _ s' => Inv k s' /\ pend s' = [] /\ lr s' = []) (EA k).
  Proof.
    intros HI Hp Hlr Hm. unfold deliver.
    set (rs := m_rcpts msg).
    eapply ok_bind with (Q := fun r s' => Inv k s' /\ pend s' = [] /\ lr s' = [] /\
      match r with
      | None => True
      | Some (errs, owners) =>
          nonerr (Mail k) /\ nonerr (Data k) /\ errs_ok k 0 rs errs /\
          if c_lmtp cfg
          then (forall i, In i owners <-> (In (Rcpt k i) (rstages k 0 rs) /\ reply sc (Rcpt k i) = R2)) /\
               (forall i, In i owners -> isfilled s' (Eod k i))
          else nonerr (Eod k 0)
      end).
    - eapply ok_catch with (E0 := EA k).
      + eapply ok_bind; [apply (handle_encoding_spec k msg s HI Hm)|]. intros ? s0 ->.
        eapply ok_bind; [apply (send_envelope_spec k msg s HI Hp Hlr Hm)|].
        intros errs s1 (HI1 & Hm1 & Hp1 & Hn1 & Hn2 & He & Hl1).
        eapply ok_bind; [apply (send_message_data_spec k s1 HI1 Hp1 (i_smtp _ _ HI1))|].
        intros owners s2 (HI2 & Hm2 & Hp2 & Hl2 & Hr2). apply ok_ret.
        split; [exact HI2|]. split; [exact Hp2|]. split; [exact Hl2|]. split; [exact Hn1|].
        split; [exact Hn2|]. split; [exact He|].
        destruct (c_lmtp cfg); [|exact Hr2]. rewrite Hl1 in Hr2. exact Hr2.
      + intros e s1 He. destruct (is_relay e) eqn:Er; [|exact He].
        eapply ok_bind; [apply (set_failure_spec k msg e s1 He Er Hm)|]. intros ? s2 [HI2 _].
        eapply ok_bind; [apply (r_rset_spec k s2 HI2)|]. intros ? s3 (HI3 & Hp3 & Hl3).
        apply ok_ret. auto.
    - intros [[errs owners]|] s1 (HI1 & Hp1 & Hl1 & Hr1); [|apply ok_ret; auto].
      destruct Hr1 as (Hn1 & Hn2 & He & Hown).
      pose proof (errs_ok_length _ _ _ _ He) as Hlen.
      assert (Hal : length errs = length (m_addrs msg)) by (rewrite m_addrs_length; exact Hlen).
      (* what an entry of the per-position error list says about the script *)
      assert (Herr : forall j c, nth_error errs j = Some (Some c) -> occ_failed k j c).
      { intros j c Hn. destruct (errs_ok_nth k rs 0 errs j _ He Hn) as (cl & Hc & Ho).
        replace (0 + N.of_nat j) with (N.of_nat j) in Hc by lia.
        destruct (is_error cl) eqn:Ee; [|discriminate]. injection Ho as ->.
        exists (Rcpt k (N.of_nat j)), cl. auto. }
      assert (Hnoerr : forall j, nth_error errs j = Some None -> nonerr (Rcpt k (N.of_nat j))).
      { intros j Hn. destruct (errs_ok_nth k rs 0 errs j _ He Hn) as (cl & Hc & Ho).
        replace (0 + N.of_nat j) with (N.of_nat j) in Hc by lia.
        destruct (is_error cl) eqn:Ee; [discriminate|]. eapply noerr_nonerr; eauto. }
      destruct (c_lmtp cfg) eqn:Elm.
      + destruct Hown as [Hown1 Hown2].
        assert (Hbound : forall j, In j owners -> (N.to_nat j < length (m_addrs msg))%nat).
        { intros j Hj. apply Hown1 in Hj. destruct Hj as [Hj _]. apply rstages_in_inv in Hj.
          rewrite m_addrs_length. fold rs. replace (j - 0) with j in Hj by lia. apply Hj. }
        eapply ok_bind; [apply (lmtp_data_spec k (m_addrs msg) owners s1
            (fun dr s' => s' = s1 /\ Just k (MMap (read_table
               (apply_updates (fromkeys (m_addrs msg)) (rcpt_updates (m_addrs msg) errs ++ fst dr)) (m_addrs msg)))));
            [apply HI1 | intros j Hj; split; [now apply Hown2 | now apply Hbound] |]|].
        * intros ups had Hu1 Hu2. split; [reflexivity|]. cbn [fst]. exists msg. split; [exact Hm|].
          split; [now rewrite read_table_length, m_addrs_length|].
          intros i r Hn. apply read_table_nth in Hn. destruct Hn as (a & Ha & ->).
          unfold tget. rewrite dget_apply, last_match_app.
          destruct (last_match a ups) as [w|] eqn:Elast.
          -- (* a data reply for this address decides *)
             apply last_match_Some in Elast. destruct (Hu1 a w Elast) as (j & cl & Hj & Hja & Hrd & ->).
             assert (Hownij : own msg i (N.to_nat j)) by (exists a; auto).
             destruct (is_error cl) eqn:Ee; cbn [RJust].
             ++ exists (N.to_nat j). split; [exact Hownij|]. exists (Eod k j), cl.
                rewrite N2Nat.id. auto.
             ++ rewrite Elm. split; [exact Hn1|]. split; [exact Hn2|]. left. exists (N.to_nat j).
                rewrite N2Nat.id. split; [exact Hownij|]. split; [apply Hown1, Hj | eapply noerr_nonerr; eauto].
          -- (* no data reply for this address: the RCPT replies to its occurrences decide *)
             pose proof (smtp_table_char (m_addrs msg) errs a i Hal Ha) as Hc. cbn zeta in Hc.
             unfold tget in Hc. rewrite dget_apply in Hc.
             destruct Hc as [(c & j & -> & Hj & He')|[-> Hall]]; cbn [RJust].
             ++ exists j. split; [exists a; auto | now apply Herr].
             ++ rewrite Elm. split; [exact Hn1|]. split; [exact Hn2|]. right.
                intros j (a' & Ha' & Hj). rewrite Ha in Ha'. injection Ha' as <-.
                specialize (Hnoerr j (Hall j Hj)). destruct Hnoerr as [H2|H3]; [|exact H3].
                exfalso.
                assert (Hjl : (j < length rs)%nat).
                { rewrite <- Hlen, Hal. apply nth_error_Some. congruence. }
                assert (Hin : In (N.of_nat j) owners).
                { apply Hown1. split; [|exact H2]. pose proof (rstages_in k rs 0 j Hjl) as G.
                  now replace (0 + N.of_nat j) with (N.of_nat j) in G by lia. }
                destruct (Hu2 (N.of_nat j) a Hin) as [w Hw]; [now rewrite Nat2N.id|].
                exact (last_match_None _ _ Elast w Hw).
        * intros [ups had] s2 [-> Hj]. cbn [fst snd] in *.
          eapply ok_bind; [apply (set_result_spec k s1 _ (EA k) HI1 Hj)|].
          intros ? s3 (HI3 & Hp3 & Hl3 & _). destruct had.
          -- eapply ok_weaken; [apply (r_rset_spec k s3 HI3)| |auto]. intros ? s4 H; exact H.
          -- apply ok_ret. split; [exact HI3|]. split; congruence.
      + eapply ok_weaken; [apply (set_result_spec k s1 _ (EA k) HI1)| |auto].
        * exists msg. split; [exact Hm|]. split; [now rewrite read_table_length, m_addrs_length|].
          intros i r Hn. apply read_table_nth in Hn. destruct Hn as (a & Ha & ->).
          pose proof (smtp_table_char (m_addrs msg) errs a i Hal Ha) as Hc. cbn zeta in Hc.
          destruct Hc as [(c & j & -> & Hj & He')|[-> Hall]]; cbn [RJust].
          -- exists j. split; [exists a; auto | now apply Herr].
          -- rewrite Elm. split; [exact Hn1|]. split; [exact Hn2|]. split; [|exact Hown].
             intros j (a' & Ha' & Hj). rewrite Ha in Ha'. injection Ha' as <-. apply Hnoerr, Hall, Hj.
        * intros ? s2 (HI2 & Hp2 & Hl2 & _). split; [exact HI2|]. split; congruence.
  Qed.

  Lemma check_server_timeout_spec k s :
    Inv k s -> pend s = [] ->
    ok (check_server_timeout sc k) s
       (fun b s' => Inv k s' /\ lr s' = lr s /\ (b = false -> s' = s)) (EA k).
  Proof.
    intros HI Hp. unfold check_server_timeout.
    assert (G : ok (mcatch (cmd (Idle k) ;;; flush_pipeline sc ;;; mret true) is_smtp (fun _ => mret true)) s
                   (fun b s' => Inv k s' /\ lr s' = lr s /\ (b = false -> s' = s)) (EA k)).
    { eapply ok_catch with (E0 := fun e s' => EA k e s' /\ (e = ASmtp -> Inv k s' /\ lr s' = lr s)).
      - eapply ok_bind; [apply (cmd_spec k (Idle k) s _ HI); right; reflexivity|].
        intros ? s1 (HI1 & Hs1 & _).
        eapply ok_bind with (Q := fun _ s' => Inv k s' /\ lr s' = lr s).
        + unfold ok. pose proof (flush_spec k s1 HI1) as F. unfold ok in F.
          destruct (flush_pipeline sc s1) as [[u|e] s2] eqn:E.
          * destruct F as (HI2 & Hs2 & _). split; [exact HI2|].
            rewrite (proj2 (proj2 (proj2 Hs2))). apply Hs1.
          * split; [exact F|]. intros ->.
            (* the flush only touches pend and filled; rebuild the invariant *)
            unfold flush_pipeline in E.
            destruct (flush_go sc (pend s1) (filled s1)) as [[r p'] f'] eqn:Eg.
            destruct r as [e0|]; [|discriminate]. injection E as -> <-.
            destruct (flush_go_spec _ _ _ _ _ Eg (i_filled _ _ HI1)) as (H1 & H2 & H3 & _).
            destruct HI1 as [Hf1 Hr1 Hp1 Hl1 Hc1 Hsm1]. cbn. split; [|apply Hs1].
            constructor; cbn; auto.
            intros x Hx. destruct (Hl1 x Hx) as [Ha _]. split; [exact Ha|].
            destruct Hs1 as (_ & Hfm1 & _ & Hlr1). rewrite Hlr1 in Hx.
            destruct (i_lr _ _ HI x Hx) as [_ [Hq|Hq]]; [rewrite Hp in Hq; destruct Hq|].
            right. cbn. apply H2. now apply Hfm1.
        + intros ? s2 [HI2 Hl2]. apply ok_ret. split; [exact HI2|]. split; [exact Hl2 | discriminate].
      - intros e s1 [He Hs]. destruct e; cbn [is_smtp]; try exact He.
        apply ok_ret. destruct (Hs eq_refl) as [HI1 Hl1]. split; [exact HI1|]. split; [exact Hl1 | discriminate]. }
    destruct (reply sc (Idle k)); try exact G.
    apply ok_ret. split; [exact HI|]. split; reflexivity.
  Qed.

  (* ---- the connection ---- *)
  Definition InvL (s : st) : Prop := filled_ok s /\ results_ok s /\ pend s = [] /\ lr s = [].
  Lemma InvL_Inv s k :
    InvL s -> Inv k (mkSt (sent s) (pend s) (filled s) (xt s) (lr s) k (results s)).
  Proof.
    intros (Hf & Hr & Hp & Hl). constructor; cbn; auto.
    - rewrite Hp. intros ? [].
    - rewrite Hl. intros ? [].
  Qed.
  Lemma EA_cur k e s : EA k e s -> EA (cur s) e s.
  Proof. intros H. pose proof H as (_ & _ & _ & Hc & _). now rewrite Hc. Qed.

  Lemma run_loop_spec : forall rest k s,
    InvL s ->
    (forall j msg, nth_error rest j = Some msg -> msg_at (k + N.of_nat j) = Some msg) ->
    ok (run_loop sc cfg rest k) s (fun _ s' => filled_ok s' /\ results_ok s') (fun e s' => EA (cur s') e s').
  Proof.
    induction rest as [|msg rest IH]; intros k s HL Hmsgs; cbn [run_loop].
    - apply ok_ret. split; apply HL.
    - assert (Hm : msg_at k = Some msg).
      { specialize (Hmsgs 0%nat msg eq_refl). now replace (k + N.of_nat 0) with k in Hmsgs by lia. }
      unfold ok, mbind at 1, set_cur.
      set (s0 := mkSt (sent s) (pend s) (filled s) (xt s) (lr s) k (results s)).
      pose proof (InvL_Inv s k HL) as HI0. fold s0 in HI0.
      assert (Hp0 : pend s0 = []) by apply HL. assert (Hl0 : lr s0 = []) by apply HL.
      fold (ok (t <- check_server_timeout sc k ;;
                if t then mret tt
                else deliver sc cfg k msg ;;; (if c_reuse cfg then run_loop sc cfg rest (k + 1) else mret tt))
               s0 (fun _ s' => filled_ok s' /\ results_ok s') (fun e s' => EA (cur s') e s')).
      eapply ok_bind.
      + eapply ok_weaken; [apply (check_server_timeout_spec k s0 HI0 Hp0)| |].
        * intros b s1 H; exact H.
        * intros e s1 H. now apply (EA_cur k).
      + intros t s1 (HI1 & Hl1 & Hs1). cbv beta. destruct t.
        * apply ok_ret. split; apply HI1.
        * rewrite (Hs1 eq_refl).
          eapply ok_bind.
          -- eapply ok_weaken; [apply (deliver_spec k msg s0 HI0 Hp0 Hl0 Hm)| |].
             ++ intros u s2 H; exact H.
             ++ intros e s2 H. now apply (EA_cur k).
          -- intros ? s2 (HI2 & Hp2 & Hl2). cbv beta. destruct (c_reuse cfg).
             ++ apply IH.
                ** split; [apply HI2|]. split; [apply HI2|]. auto.
                ** intros j m' Hn. specialize (Hmsgs (S j) m' Hn).
                   now replace (k + 1 + N.of_nat j) with (k + N.of_nat (S j)) by lia.
             ++ apply ok_ret. split; apply HI2.
  Qed.

  Lemma results_ok_cons s k r :
    results_ok s -> Just k r ->
    results_ok (mkSt (sent s) (pend s) (filled s) (xt s) (lr s) (cur s) ((k, r) :: results s)).
  Proof.
    intros Hr Hj j r0. cbn. destruct (k =? j) eqn:E; [|apply Hr].
    apply N.eqb_eq in E. subst. now intros [= <-].
  Qed.

  Lemma trans_of_cause k e :
    Cause k e -> (e = ASmtp \/ e = ATimeout \/ e = ASock) -> TransCause k.
  Proof.
    intros Hc [->|[->| ->]]; cbn in Hc.
    - destruct Hc as (stg & Hr & [H|[H|H]]); left; exists stg; (split; [exact Hr|]); unfold istrans; auto.
    - destruct Hc as [(stg & Hr & H)|H]; [left; exists stg; split; [exact Hr|]; unfold istrans; auto 6|].
      right. congruence.
    - right. congruence.
  Qed.

  Lemma run_arms_spec e s :
    EA (cur s) e s ->
    filled_ok (snd (run_arms e s)) /\ results_ok (snd (run_arms e s)).
  Proof.
    intros (Hca & Hf & Hr & _ & _).
    assert (Hset : forall r, Just (cur s) r ->
              filled_ok (snd (set_if_unset r s)) /\ results_ok (snd (set_if_unset r s))).
    { intros r Hj. unfold set_if_unset, mbind, mget, ready. cbn.
      destruct (lookup_res (results s) (cur s)); cbn; [auto|]. split; [exact Hf|]. now apply results_ok_cons. }
    destruct e; cbn [run_arms].
    - unfold mbind, mget, set_result. cbn. split; [exact Hf|]. now apply results_ok_cons.
    - unfold mbind, mget, set_result. cbn. split; [exact Hf|]. apply results_ok_cons; [exact Hr | apply Hca].
    - apply Hset. cbn. eapply trans_of_cause; eauto.
    - apply Hset. cbn. eapply trans_of_cause; eauto.
    - apply Hset. cbn. eapply trans_of_cause; eauto.
    - apply Hset. exact Hca.
  Qed.

  Lemma flush_results s : results (snd (flush_pipeline sc s)) = results s /\
                          filled_ok s -> True.
  Proof. auto. Qed.

  Lemma r_disconnect_keeps s :
    filled_ok s -> results_ok s -> results_ok (snd (r_disconnect sc s)).
  Proof.
    intros Hf Hr. unfold r_disconnect, mcatch, c_quit, mbind. rewrite cmd_eq. cbn.
    unfold flush_pipeline. cbn.
    destruct (flush_go sc (pend s ++ [Quit]) (filled s)) as [[r p'] f']. destruct r as [e|]; cbn; exact Hr.
  Qed.

  Lemma Inv_st0 : Inv 0 st0.
  Proof.
    constructor; cbn; auto.
    - intros stg c. discriminate.
    - intros k r. discriminate.
    - intros ? [].
    - intros ? [].
  Qed.

  Theorem run_results_ok : results_ok (run_client sc cfg msgs).
  Proof.
    unfold run_client. destruct msgs as [|m0 ms] eqn:Em; [intros k r; discriminate|]. rewrite <- Em.
    assert (G : ok (r_connect cfg ;;; r_handshake sc cfg ;;; run_loop sc cfg msgs 0) st0
                   (fun _ s' => filled_ok s' /\ results_ok s') (fun e s' => EA (cur s') e s')).
    { eapply ok_bind with (Q := fun _ s' => s' = st0).
      - unfold r_connect. destruct (c_conn cfg) eqn:Ec.
        + now apply ok_ret.
        + apply ok_raise. cbn. split; [exact Ec|]. split; [apply Inv_st0|]. split; [apply Inv_st0|].
          split; [reflexivity | discriminate].
        + apply ok_raise. cbn. split; [right; exact Ec|]. split; [apply Inv_st0|]. split; [apply Inv_st0|].
          split; [reflexivity | discriminate].
      - intros ? s0 ->. eapply ok_bind.
        + eapply ok_weaken; [apply (r_handshake_spec 0 st0 Inv_st0)| |].
          * intros u s1 H; exact H.
          * intros e s1 H. now apply (EA_cur 0).
        + intros ? s1 (HI1 & Hp1 & _ & Hl1). cbv beta. apply run_loop_spec.
          * split; [apply HI1|]. split; [apply HI1|]. split; [exact Hp1 | now apply Hl1].
          * intros j msg Hn. unfold msg_at. replace (N.to_nat (0 + N.of_nat j)) with j by lia. exact Hn. }
    unfold ok in G.
    destruct ((r_connect cfg ;;; r_handshake sc cfg ;;; run_loop sc cfg msgs 0) st0) as [[u|e] s1].
    - destruct G as [Hf Hr]. destruct (c_conn cfg); [now apply r_disconnect_keeps | exact Hr | exact Hr].
    - destruct (run_arms_spec e s1 G) as [Hf Hr].
      destruct (c_conn cfg); [now apply r_disconnect_keeps | exact Hr | exact Hr].
  Qed.
End Smtp.


(* ================================================================== *)
(** * SMTP / LMTP: the property theorems *)

(* the entry of the mapping read at position i of envelope.recipients *)
Lemma final_entry r i f : final_of r i = f -> f <> FQueued -> f <> FOther -> f <> FNoResult ->
  (exists c, r = Some (MExc c) /\ f = of_cls c) \/
  (exists l t, r = Some (MMap l) /\ nth_error l i = Some t /\ f = of_tres t).
Proof.
  destruct r as [[l|c|]|]; cbn; intros <- H1 H2 H3; try congruence.
  - destruct (nth_error l i) as [t|] eqn:E; [|congruence]. right. eauto.
  - left. eauto.
Qed.
Lemma final_delivered r i : final_of r i = FDelivered ->
  exists l, r = Some (MMap l) /\ nth_error l i = Some TDelivered.
Proof.
  destruct r as [[l|c|]|]; cbn; try discriminate; [|destruct c; discriminate].
  destruct (nth_error l i) as [[|c|]|] eqn:E; try discriminate; [|destruct c; discriminate].
  intros _. now exists l.
Qed.

(* THE per-recipient statement, for envelopes in which an address may occur any number of times:
   whatever the mapping holds for the address at position i is justified by the replies to the
   occurrences of that same address (own) and by the message replies - never by a reply given
   to a different address *)
Theorem smtp_result_from_own_replies sc cfg msgs m l i t :
  lookup_res (results (run_client sc cfg msgs)) m = Some (MMap l) -> nth_error l i = Some t ->
  exists msg, msg_at msgs m = Some msg /\ length l = length (m_rcpts msg) /\ RJust sc cfg m msg i t.
Proof.
  intros Hl Hn. destruct (run_results_ok sc cfg msgs m (MMap l) Hl) as (msg & Hm & Hlen & Hj).
  exists msg. auto.
Qed.

(* soundness in the client's own terms (Reply.is_error decides), no assumption on duplicates *)
Theorem smtp_success_sound_gen sc cfg msgs m i :
  smtp_final sc cfg msgs m i = FDelivered ->
  exists msg, msg_at msgs m = Some msg /\
    nonerr sc (Mail m) /\ nonerr sc (Data m) /\
    if c_lmtp cfg
    then (exists j, own msg i j /\ reply sc (Rcpt m (N.of_nat j)) = R2 /\ nonerr sc (Eod m (N.of_nat j))) \/
         (forall j, own msg i j -> reply sc (Rcpt m (N.of_nat j)) = R3)
    else (forall j, own msg i j -> nonerr sc (Rcpt m (N.of_nat j))) /\ nonerr sc (Eod m 0).
Proof.
  unfold smtp_final. intros H. apply final_delivered in H. destruct H as (l & Hl & Hn).
  destruct (smtp_result_from_own_replies sc cfg msgs m l i _ Hl Hn) as (msg & Hm & _ & Hj).
  exists msg. split; [exact Hm | exact Hj].
Qed.

Lemma own_refl sc cfg msgs m i :
  smtp_final sc cfg msgs m i = FDelivered -> forall msg, msg_at msgs m = Some msg -> own msg i i.
Proof.
  unfold smtp_final. intros H msg Hm. apply final_delivered in H. destruct H as (l & Hl & Hn).
  destruct (run_results_ok sc cfg msgs m (MMap l) Hl) as (msg' & Hm' & Hlen & _).
  unfold msg_at in *. rewrite Hm in Hm'. injection Hm' as <-.
  assert (Hi : (i < length (m_addrs msg))%nat).
  { rewrite m_addrs_length, <- Hlen. apply nth_error_Some. congruence. }
  destruct (nth_error (m_addrs msg) i) as [a|] eqn:E; [exists a; auto|].
  apply nth_error_None in E. lia.
Qed.
Lemma own_nodup msg i j : NoDup (m_addrs msg) -> own msg i j -> j = i.
Proof.
  intros Hnd (a & Hi & Hj). symmetry. eapply (proj1 (NoDup_nth_error (m_addrs msg)) Hnd).
  - apply nth_error_Some. congruence.
  - congruence.
Qed.

(* the statement over the reply alphabet of the property: no 3xx where the protocol defines none,
   at the occurrences of this address *)
Definition no_r3_own (sc : script) (cfg : config) (m : N) (msg : message) (i : nat) : Prop :=
  reply sc (Mail m) <> R3 /\
  forall j, own msg i j -> reply sc (Rcpt m (N.of_nat j)) <> R3 /\
                           reply sc (Eod m (eodix cfg (N.of_nat j))) <> R3.

Theorem smtp_success_sound sc cfg msgs m msg i :
  msg_at msgs m = Some msg -> no_r3_own sc cfg m msg i ->
  smtp_final sc cfg msgs m i = FDelivered ->
  reply sc (Mail m) = R2 /\ (reply sc (Data m) = R2 \/ reply sc (Data m) = R3) /\
  if c_lmtp cfg
  then exists j, own msg i j /\ reply sc (Rcpt m (N.of_nat j)) = R2 /\ reply sc (Eod m (N.of_nat j)) = R2
  else (forall j, own msg i j -> reply sc (Rcpt m (N.of_nat j)) = R2) /\ reply sc (Eod m 0) = R2.
Proof.
  intros Hm (H1 & H2) H. pose proof (own_refl sc cfg msgs m i H msg Hm) as Hii.
  apply smtp_success_sound_gen in H. destruct H as (msg' & Hm' & Hml & Hd & Hr).
  unfold msg_at in *. rewrite Hm in Hm'. injection Hm' as <-.
  split; [destruct Hml; [assumption | contradiction]|]. split; [exact Hd|].
  unfold eodix in H2. destruct (c_lmtp cfg).
  - destruct Hr as [(j & Hj & Hr2 & He)|Hall].
    + exists j. split; [exact Hj|]. split; [exact Hr2|]. destruct He; [assumption|].
      exfalso. now apply (proj2 (H2 j Hj)).
    + exfalso. apply (proj1 (H2 i Hii)). now apply Hall.
  - destruct Hr as [Hall He]. split.
    + intros j Hj. destruct (Hall j Hj); [assumption|]. exfalso. now apply (proj1 (H2 j Hj)).
    + destruct He; [assumption|]. exfalso. now apply (proj2 (H2 i Hii)).
Qed.

(* pairwise distinct recipients: the statement about position i alone *)
Corollary smtp_success_sound_nodup sc cfg msgs m msg i :
  msg_at msgs m = Some msg -> NoDup (m_addrs msg) ->
  reply sc (Mail m) <> R3 -> reply sc (Rcpt m (N.of_nat i)) <> R3 ->
  reply sc (Eod m (eodix cfg (N.of_nat i))) <> R3 ->
  smtp_final sc cfg msgs m i = FDelivered ->
  reply sc (Mail m) = R2 /\ reply sc (Rcpt m (N.of_nat i)) = R2 /\
  (reply sc (Data m) = R2 \/ reply sc (Data m) = R3) /\
  reply sc (Eod m (eodix cfg (N.of_nat i))) = R2.
Proof.
  intros Hm Hnd H1 H2 H3 H. pose proof (own_refl sc cfg msgs m i H msg Hm) as Hii.
  assert (Hg : no_r3_own sc cfg m msg i).
  { split; [exact H1|]. intros j Hj. rewrite (own_nodup msg i j Hnd Hj). auto. }
  destruct (smtp_success_sound sc cfg msgs m msg i Hm Hg H) as (Hml & Hd & Hr).
  split; [exact Hml|]. unfold eodix in *. destruct (c_lmtp cfg).
  - destruct Hr as (j & Hj & Hr2 & He). rewrite (own_nodup msg i j Hnd Hj) in Hr2, He. auto.
  - destruct Hr as [Hall He]. auto.
Qed.

Definition sc_default (s : stage) : outcome :=
  match s with Idle _ => Stall | Data _ => R3 | _ => R2 end.
Definition sc_eod3 : script :=
  mkScript (fun s => match s with Eod _ _ => R3 | _ => sc_default s end) (fun _ => ENone) no_exts no_exts.
Definition cfg_plain : config := mkConfig false false false false false ConnOk.
Definition msg1 : message := mkMsg true [(0, true)] false.

Theorem smtp_success_sound_3xx_refuted :
  exists sc cfg msgs m i,
    smtp_final sc cfg msgs m i = FDelivered /\ reply sc (Eod m (eodix cfg (N.of_nat i))) = R3.
Proof. exists sc_eod3, cfg_plain, [msg1], 0, 0%nat. vm_compute. split; reflexivity. Qed.

Theorem smtp_classification sc cfg msgs m i :
  (smtp_final sc cfg msgs m i = FPermanent -> PermCause sc cfg msgs m) /\
  (smtp_final sc cfg msgs m i = FTransient -> TransCause sc cfg m).
Proof.
  unfold smtp_final. pose proof (run_results_ok sc cfg msgs m) as Hok.
  destruct (lookup_res (results (run_client sc cfg msgs)) m) as [[l|c|]|] eqn:E; cbn.
  - destruct (Hok _ eq_refl) as (msg & Hm & _ & Hj).
    destruct (nth_error l i) as [[|c|]|] eqn:En; cbn; try (split; discriminate).
    specialize (Hj i (TFailed c) En). apply (failed_excjust sc cfg msgs) in Hj.
    destruct c; cbn in *; split; try discriminate; auto.
  - specialize (Hok _ eq_refl). destruct c; cbn in *; split; try discriminate; auto.
  - split; discriminate.
  - split; discriminate.
Qed.

(* a failure reported for the address at position i has the class of an error reply to an
   occurrence of that very address *)
Theorem smtp_failed_own_class sc cfg msgs m l i c :
  lookup_res (results (run_client sc cfg msgs)) m = Some (MMap l) -> nth_error l i = Some (TFailed c) ->
  exists msg j, msg_at msgs m = Some msg /\ own msg i j /\ occ_failed sc m j c.
Proof.
  intros Hl Hn. destruct (smtp_result_from_own_replies sc cfg msgs m l i _ Hl Hn) as (msg & Hm & _ & j & Hj & Hf).
  eauto.
Qed.

Theorem smtp_other_cause sc cfg msgs m i :
  smtp_final sc cfg msgs m i = FOther -> ForeignCause msgs m.
Proof.
  unfold smtp_final. pose proof (run_results_ok sc cfg msgs m) as Hok.
  destruct (lookup_res (results (run_client sc cfg msgs)) m) as [[l|c|]|] eqn:E; cbn.
  - destruct (nth_error l i) as [[|c|]|]; cbn; try discriminate. destruct c; discriminate.
  - destruct c; discriminate.
  - intros _. exact (Hok _ eq_refl).
  - discriminate.
Qed.

(* every position of every request ends in a result, a relay error, or back on the pool queue:
   never a foreign exception, never a missing key in the mapping *)
Theorem smtp_total sc cfg msgs m msg i :
  msg_at msgs m = Some msg -> (i < length (m_rcpts msg))%nat ->
  let f := smtp_final sc cfg msgs m i in
  f = FDelivered \/ f = FPermanent \/ f = FTransient \/ f = FQueued.
Proof.
  intros Hm Hi. cbn zeta.
  destruct (smtp_final sc cfg msgs m i) eqn:E; auto.
  - exfalso. apply smtp_other_cause in E. destruct E as (msg' & Hm' & Hnil).
    unfold msg_at in *. rewrite Hm in Hm'. injection Hm' as <-. rewrite Hnil in Hi. cbn in Hi. lia.
  - exfalso. unfold smtp_final in E. pose proof (run_results_ok sc cfg msgs m) as Hok.
    destruct (lookup_res (results (run_client sc cfg msgs)) m) as [[l|c|]|] eqn:El; cbn in E; try discriminate.
    + destruct (Hok _ eq_refl) as (msg' & Hm' & Hlen & Hj).
      unfold msg_at in *. rewrite Hm in Hm'. injection Hm' as <-.
      destruct (nth_error l i) as [[|c|]|] eqn:En; try discriminate; [destruct c; discriminate| |].
      * exact (Hj i TMissing En).
      * apply nth_error_None in En. lia.
    + destruct c; discriminate.
Qed.

(* "if" directions: an address all of whose RCPTs were rejected (or a rejected MAIL / DATA) is never
   reported delivered; with no cause of the other class the report has the class of the rejection *)
Definition rcpt_err (sc : script) (stg : stage) : Prop :=
  reply sc stg = R4 \/ reply sc stg = R5 \/ reply sc stg = R500.
Corollary smtp_rejected_not_delivered sc cfg msgs m msg i :
  msg_at msgs m = Some msg ->
  ((forall j, own msg i j -> rcpt_err sc (Rcpt m (N.of_nat j))) \/ rcpt_err sc (Mail m) \/ rcpt_err sc (Data m)) ->
  smtp_final sc cfg msgs m i <> FDelivered.
Proof.
  intros Hm H E. pose proof (own_refl sc cfg msgs m i E msg Hm) as Hii.
  apply smtp_success_sound_gen in E. destruct E as (msg' & Hm' & Hml & Hd & Hr).
  unfold msg_at in *. rewrite Hm in Hm'. injection Hm' as <-. unfold nonerr, rcpt_err in *.
  destruct H as [H|[H|H]]; [|intuition congruence|intuition congruence].
  destruct (c_lmtp cfg).
  - destruct Hr as [(j & Hj & Hr2 & _)|Hall].
    + specialize (H j Hj). intuition congruence.
    + specialize (H i Hii). specialize (Hall i Hii). intuition congruence.
  - destruct Hr as [Hall _]. specialize (H i Hii). specialize (Hall i Hii). intuition congruence.
Qed.

Corollary smtp_5xx_permanent sc cfg msgs m msg i :
  msg_at msgs m = Some msg -> (i < length (m_rcpts msg))%nat ->
  ~ TransCause sc cfg m ->
  ((forall j, own msg i j -> rcpt_err sc (Rcpt m (N.of_nat j))) \/ rcpt_err sc (Mail m) \/ rcpt_err sc (Data m)) ->
  smtp_final sc cfg msgs m i <> FQueued ->
  smtp_final sc cfg msgs m i = FPermanent.
Proof.
  intros Hm Hi Hnt Hrej Hq.
  destruct (smtp_total sc cfg msgs m msg i Hm Hi) as [H|[H|[H|H]]]; auto.
  - exfalso. revert H. now apply (smtp_rejected_not_delivered sc cfg msgs m msg).
  - exfalso. apply Hnt. now apply (smtp_classification sc cfg msgs m i).
  - contradiction.
Qed.

Corollary smtp_4xx_transient sc cfg msgs m msg i :
  msg_at msgs m = Some msg -> (i < length (m_rcpts msg))%nat ->
  ~ PermCause sc cfg msgs m ->
  ((forall j, own msg i j -> rcpt_err sc (Rcpt m (N.of_nat j))) \/ rcpt_err sc (Mail m) \/ rcpt_err sc (Data m)) ->
  smtp_final sc cfg msgs m i <> FQueued ->
  smtp_final sc cfg msgs m i = FTransient.
Proof.
  intros Hm Hi Hnp Hrej Hq.
  destruct (smtp_total sc cfg msgs m msg i Hm Hi) as [H|[H|[H|H]]]; auto.
  - exfalso. revert H. now apply (smtp_rejected_not_delivered sc cfg msgs m msg).
  - exfalso. apply Hnp. now apply (smtp_classification sc cfg msgs m i).
  - contradiction.
Qed.

(* an address that cannot be encoded, a bad reply code: reported, never a foreign exception *)
Definition sc_badcode : script :=
  mkScript (fun s => match s with Banner => BadCode | _ => sc_default s end) (fun _ => ENone) no_exts no_exts.
Example smtp_example_badcode_address :
  smtp_final sc_badcode cfg_plain [msg1] 0 0 = FTransient /\
  smtp_final (mkScript sc_default (fun _ => ENone) no_exts no_exts) cfg_plain [mkMsg true [(0, true); (1, false)] false] 0 0 = FPermanent /\
  smtp_final (mkScript sc_default (fun _ => ENone) no_exts no_exts) cfg_plain [mkMsg false [(0, true)] false] 0 0 = FPermanent.
Proof. vm_compute. repeat split; reflexivity. Qed.

(* non-vacuity *)
Definition sc_mixed : script :=
  mkScript (fun s => match s with Rcpt 0 0 => R5 | Rcpt 0 1 => R4 | _ => sc_default s end)
           (fun _ => ENone) (mkExts true false false true) no_exts.
Example smtp_example_mixed :
  let msgs := [mkMsg true [(0, true); (1, true)] false] in
  smtp_final sc_mixed cfg_plain msgs 0 0 = FPermanent /\ smtp_final sc_mixed cfg_plain msgs 0 1 = FTransient.
Proof. cbn zeta. split; vm_compute; reflexivity. Qed.
Example smtp_example_delivered :
  smtp_final (mkScript sc_default (fun _ => ENone) (mkExts true false false true) no_exts)
             (mkConfig true false false false true ConnOk) [msg1; mkMsg true [(0, true); (1, true)] false] 1 1 = FDelivered /\
  no_r3_own (mkScript sc_default (fun _ => ENone) no_exts no_exts) cfg_plain 0 msg1 0.
Proof. split; [vm_compute; reflexivity|]. split; [discriminate|]. intros j _. split; discriminate. Qed.
(* the same address twice: [alice; alice; nobody] answered 250, 250, 550 - and 250, 550, 250 *)
Definition sc_rcpt (j : N) (o : outcome) : script :=
  mkScript (fun s => match s with Rcpt 0 k => if k =? j then o else R2 | _ => sc_default s end) (fun _ => ENone) no_exts no_exts.
Example smtp_example_duplicates :
  let msgs := [mkMsg true [(7, true); (7, true); (9, true)] false] in
  let lmtp := mkConfig true false false false false ConnOk in
  (smtp_final (sc_rcpt 2 R5) cfg_plain msgs 0 0, smtp_final (sc_rcpt 2 R5) cfg_plain msgs 0 1,
   smtp_final (sc_rcpt 2 R5) cfg_plain msgs 0 2) = (FDelivered, FDelivered, FPermanent) /\
  (smtp_final (sc_rcpt 1 R5) cfg_plain msgs 0 0, smtp_final (sc_rcpt 1 R5) cfg_plain msgs 0 1,
   smtp_final (sc_rcpt 1 R5) cfg_plain msgs 0 2) = (FPermanent, FPermanent, FDelivered) /\
  (smtp_final (sc_rcpt 1 R5) lmtp msgs 0 0, smtp_final (sc_rcpt 1 R5) lmtp msgs 0 1,
   smtp_final (sc_rcpt 1 R5) lmtp msgs 0 2) = (FDelivered, FDelivered, FDelivered).
Proof. cbn zeta. repeat split; vm_compute; reflexivity. Qed.

Theorem attempt_conns_sound cfg scs msg r :
  attempt_conns cfg scs msg = Some r ->
  exists sc, In sc scs /\ lookup_res (results (run_client sc cfg [msg])) 0 = Some r.
Proof.
  induction scs as [|sc scs IH]; cbn [attempt_conns]; [discriminate|].
  destruct (lookup_res (results (run_client sc cfg [msg])) 0) as [r'|] eqn:E.
  - intros [= <-]. exists sc. split; [now left | exact E].
  - intros H. destruct (IH H) as (sc' & Hin & Hr). exists sc'. split; [now right | exact Hr].
Qed.

(* a broken connection (BadReply / ConnectionLost, timeout, socket error) is reported as a transient
   failure of the request being worked on, whatever replies were seen before on the connection *)
Lemma r_disconnect_results sc s : results (snd (r_disconnect sc s)) = results s.
Proof.
  unfold r_disconnect, mcatch, c_quit, mbind. rewrite cmd_eq. cbn. unfold flush_pipeline. cbn.
  destruct (flush_go sc (pend s ++ [Quit]) (filled s)) as [[r p'] f']. destruct r as [e|]; reflexivity.
Qed.

Theorem smtp_hangup_transient sc cfg msgs e s i :
  msgs <> [] ->
  (r_connect cfg ;;; r_handshake sc cfg ;;; run_loop sc cfg msgs 0) st0 = (inr e, s) ->
  (e = ASmtp \/ e = ATimeout \/ e = ASock) ->
  lookup_res (results s) (cur s) = None ->
  smtp_final sc cfg msgs (cur s) i = FTransient.
Proof.
  intros Hne Hrun He Hunset. unfold smtp_final, run_client.
  destruct msgs as [|m0 ms]; [congruence|]. cbv beta iota. rewrite Hrun.
  assert (Hres : results (snd (run_arms e s)) = (cur s, MExc Trans) :: results s).
  { destruct He as [->|[->| ->]]; cbn [run_arms]; unfold set_if_unset, mbind, mget, ready; cbn;
      rewrite Hunset; reflexivity. }
  assert (Hfin : final_of (lookup_res ((cur s, MExc Trans) :: results s) (cur s)) i = FTransient).
  { cbn. rewrite N.eqb_refl. reflexivity. }
  destruct (c_conn cfg); [rewrite r_disconnect_results|..]; rewrite Hres; exact Hfin.
Qed.

Example smtp_hangup_example :
  let sc := mkScript (fun s => match s with Ehlo => R500 | Rcpt 0 0 => R5 | Data 0 => Disconnect | _ => sc_default s end)
                     (fun _ => ENone) no_exts no_exts in
  let msgs := [mkMsg true [(0, true); (1, true)] false] in
  (exists s, (r_connect cfg_plain ;;; r_handshake sc cfg_plain ;;; run_loop sc cfg_plain msgs 0) st0 = (inr ASmtp, s) /\
             lookup_res (results s) (cur s) = None /\ cur s = 0) /\
  smtp_final sc cfg_plain msgs 0 1 = FTransient.
Proof.
  cbn zeta. split; [|vm_compute; reflexivity].
  eexists. split; [vm_compute; reflexivity|]. split; vm_compute; reflexivity.
Qed.

(* ================================================================== *)
(** * the failure class follows the reply code, whatever the reply text says *)
Theorem factory_by_code_only c e e' :
  factory_reply c e = factory_reply c e' /\
  (factory_reply c e = Perm <-> (c = C5 \/ c = C500)) /\
  (factory_reply c e = Trans <-> (c = C2 \/ c = C3 \/ c = C4)).
Proof.
  split; [reflexivity|]. unfold factory_reply.
  destruct c; cbn; split; split; intros H; try discriminate; auto;
    repeat (destruct H as [H|H]; try discriminate); try discriminate.
Qed.
(* at the level of results: a failure entry has the class of the CODE of an error reply to an own
   occurrence; the enhanced status code in its text (rtext) plays no part *)
Theorem smtp_failed_class_by_code sc cfg msgs m l i c :
  lookup_res (results (run_client sc cfg msgs)) m = Some (MMap l) -> nth_error l i = Some (TFailed c) ->
  exists msg j stg cl, msg_at msgs m = Some msg /\ own msg i j /\
    (stg = Rcpt m (N.of_nat j) \/ stg = Eod m (N.of_nat j)) /\
    read_reply (reply sc stg) = inl cl /\ is_error cl = true /\
    (c = Perm <-> (cl = C5 \/ cl = C500)).
Proof.
  intros Hl Hn. destruct (smtp_failed_own_class sc cfg msgs m l i c Hl Hn) as (msg & j & Hm & Hj & stg & cl & Hs & Hr & He & Hf).
  exists msg, j, stg, cl. repeat split; auto; subst c; destruct cl; cbn; intros H; try discriminate; auto;
    repeat (destruct H as [H|H]; try discriminate).
Qed.
Example esc_example :
  let sc := mkScript (fun s => match s with Rcpt 0 0 => R5 | Rcpt 0 1 => R4 | _ => sc_default s end)
                     (fun s => match s with Rcpt 0 0 => E4 | Rcpt 0 1 => E5 | _ => ENone end) no_exts no_exts in
  let msgs := [mkMsg true [(0, true); (1, true)] false] in
  smtp_final sc cfg_plain msgs 0 0 = FPermanent /\ smtp_final sc cfg_plain msgs 0 1 = FTransient /\
  http_attempt (HResp 500 (HCode 550 false E4)) = HExc Perm.
Proof. cbn zeta. repeat split; vm_compute; reflexivity. Qed.

(* ================================================================== *)
(** * MxSmtpRelay as an object: what the MxRecord cache may hold *)
Lemma mx_insert_length p h l : length (mx_insert p h l) = S (length l).
Proof.
  induction l as [|[q g] l IH]; cbn; [reflexivity|]. destruct (p <? q); cbn; [reflexivity | now rewrite IH].
Qed.
Lemma mx_sort_length l : length (mx_sort l) = length l.
Proof.
  unfold mx_sort.
  assert (G : forall ans acc, length (fold_left (fun a r => mx_insert (fst r) (snd r) a) ans acc)
                              = (length ans + length acc)%nat).
  { induction ans as [|[p h] ans IH]; intros acc; cbn [fold_left]; [reflexivity|].
    rewrite IH, mx_insert_length. cbn. lia. }
  rewrite G. cbn. lia.
Qed.
Lemma choose_mx_some x recs a : choose_mx (x :: recs) a <> None.
Proof.
  unfold choose_mx. intros H. apply nth_error_None in H.
  assert (a mod N.of_nat (length (x :: recs)) < N.of_nat (length (x :: recs))) by (apply N.mod_lt; cbn; lia).
  lia.
Qed.

(* a record that counts as fresh always holds usable records: only successful, non-empty lookups
   are ever given an expiration *)
Definition mx_cache_ok (cache : list (N * mxrec)) : Prop :=
  forall d r, dget cache d = Some r -> mr_exp r <> 0 -> exists x recs, mr_records r = Some (x :: recs).

Lemma mx_resolve_ok st recs e :
  mx_resolve st = inl (recs, e) -> e <> 0 -> exists x l, recs = Some (x :: l).
Proof.
  unfold mx_resolve. destruct (s_mx st) as [l| |]; [| |discriminate].
  - intros [= <- <-] He. destruct l as [|p l]; [contradiction|].
    destruct (map (fun r => DHost (snd r)) (mx_sort (p :: l))) as [|x l'] eqn:E; [|eauto].
    apply (f_equal (@length _)) in E. rewrite map_length, mx_sort_length in E. discriminate.
  - destruct (s_a st) as [l| |]; [| |discriminate].
    + intros [= <- <-] He. destruct l as [|u l]; [contradiction|]. cbn. eauto.
    + intros [= <- <-] He. contradiction.
Qed.

Lemma mx_step_keeps cache st :
  mx_cache_ok cache -> mx_cache_ok (snd (mx_attempt_st cache st)).
Proof.
  intros Hok. unfold mx_attempt_st. destruct (s_domain st) as [d|]; [|exact Hok].
  set (r := match dget cache d with Some r => r | None => mxrec0 end).
  assert (Hr : mr_exp r <> 0 -> exists x recs, mr_records r = Some (x :: recs)).
  { unfold r. destruct (dget cache d) as [r0|] eqn:E; [now apply (Hok d) | cbn; congruence]. }
  assert (Hset : forall r', (mr_exp r' <> 0 -> exists x recs, mr_records r' = Some (x :: recs)) ->
                 mx_cache_ok (dset cache d r')).
  { intros r' Hr' d0 r0. rewrite dget_dset. destruct (d =? d0); [intros [= <-]; exact Hr' | apply Hok]. }
  destruct (mx_expired r (s_now st)).
  - destruct (mx_resolve st) as [[recs e]|[]] eqn:E; cbn [snd]; apply Hset; [|exact Hr].
    cbn. intros He. eapply mx_resolve_ok; eauto.
  - cbn [snd]. now apply Hset.
Qed.
Lemma mx_cache_after_ok steps : mx_cache_ok (mx_cache_after steps).
Proof.
  unfold mx_cache_after.
  assert (G : forall steps c, mx_cache_ok c -> mx_cache_ok (fold_left (fun c st => snd (mx_attempt_st c st)) steps c)).
  { induction steps0 as [|st steps0 IH]; intros c Hc; cbn [fold_left]; [exact Hc|]. apply IH. now apply mx_step_keeps. }
  apply G. intros d r. discriminate.
Qed.

(* after any history of attempts on one MxSmtpRelay: the classification of an attempt for domain d is
   the one its OWN resolver answers call for, except for the documented caching of successful lookups *)
Theorem mx_error_not_cached steps st d :
  s_domain st = Some d ->
  let cache := mx_cache_after steps in
  let r := match dget cache d with Some r => r | None => mxrec0 end in
  let '(o, asked, cache') := mx_attempt_st cache st in
  (* the resolver is asked exactly when no fresh record is cached *)
  asked = mx_expired r (s_now st) /\
  (* a resolver error: transient, the record is left as it was, so the next attempt asks again *)
  (asked = true -> mx_resolve st = inr tt ->
     o = MxTrans /\ dget cache' d = Some r /\ forall now', s_now st <= now' -> mx_expired r now' = true) /\
  (* transient only on a resolver error of this very attempt *)
  (o = MxTrans -> asked = true /\ mx_resolve st = inr tt) /\
  (* permanent only if the resolver, asked in this very attempt, answered that there is nothing *)
  (o = MxPerm -> asked = true /\ exists e, mx_resolve st = inl (None, e) \/ mx_resolve st = inl (Some [], e)) /\
  (* a fresh cached record: used as it is *)
  (asked = false -> o = mx_finish r (s_attempts st) /\ exists dst, o = MxRelay dst).
Proof.
  intros Hd. cbn zeta. pose proof (mx_cache_after_ok steps) as Hok.
  set (cache := mx_cache_after steps) in *.
  unfold mx_attempt_st. rewrite Hd.
  set (r := match dget cache d with Some r => r | None => mxrec0 end).
  assert (Hr : mr_exp r <> 0 -> exists x recs, mr_records r = Some (x :: recs)).
  { unfold r. destruct (dget cache d) as [r0|] eqn:E; [now apply (Hok d) | cbn; congruence]. }
  destruct (mx_expired r (s_now st)) eqn:Eexp.
  - destruct (mx_resolve st) as [[recs e]|[]] eqn:Eres.
    + split; [reflexivity|]. split; [intros _ H; discriminate|]. split.
      * unfold mx_finish. cbn. destruct recs as [[|x l]|]; try discriminate.
        destruct (choose_mx (x :: l) (s_attempts st)); discriminate.
      * split; [|intros H; discriminate].
        unfold mx_finish. cbn. intros H. split; [reflexivity|]. exists e.
        destruct recs as [[|x l]|]; auto.
        destruct (choose_mx (x :: l) (s_attempts st)) eqn:Ec; [discriminate|].
        exfalso. now apply (choose_mx_some x l (s_attempts st)).
    + split; [reflexivity|]. split.
      * intros _ _. split; [reflexivity|]. split; [rewrite dget_dset, N.eqb_refl; reflexivity|].
        intros now' Hle. unfold mx_expired in *. apply orb_true_iff in Eexp. apply orb_true_iff.
        destruct Eexp as [E|E]; [left; exact E | right; lia].
      * split; [intros _; split; reflexivity|]. split; intros H; discriminate.
  - assert (He : mr_exp r <> 0).
    { unfold mx_expired in Eexp. apply orb_false_iff in Eexp. destruct Eexp as [E _]. lia. }
    destruct (Hr He) as (x & recs & Hrec).
    assert (Hfin : exists dst, mx_finish r (s_attempts st) = MxRelay dst).
    { unfold mx_finish. rewrite Hrec. destruct (choose_mx (x :: recs) (s_attempts st)) as [dst|] eqn:Ec; [eauto|].
      exfalso. now apply (choose_mx_some x recs (s_attempts st)). }
    destruct Hfin as [dst Hdst].
    split; [reflexivity|]. split; [intros H; discriminate|].
    split; [rewrite Hdst; intros H; discriminate|]. split; [rewrite Hdst; intros H; discriminate|].
    intros _. split; [reflexivity | eauto].
Qed.

Example mx_seq_example :
  let fail := mkMxStep (Some 1) 100 DnsFail DnsFail 60 0 in
  let good := mkMxStep (Some 1) 105 (DnsOk [(10, 7)]) (DnsOk [tt]) 60 1 in
  let later := mkMxStep (Some 1) 120 DnsFail DnsFail 60 2 in
  let expired := mkMxStep (Some 1) 200 DnsFail DnsFail 60 3 in
  mx_run [] [fail; fail; good; later; expired] =
  [(MxTrans, true); (MxTrans, true); (MxRelay (DHost 7), true); (MxRelay (DHost 7), false); (MxTrans, true)].
Proof. vm_compute. reflexivity. Qed.

(* ================================================================== *)
(** * reply codes: only the class of the code counts *)
Theorem class_of_code_only n c :
  read_reply (outcome_of_code n) = inl c ->
  (is_error c = true <-> 400 <= n <= 599) /\
  (factory c = Perm <-> 500 <= n <= 599) /\
  (is_error c = true -> factory c = Trans <-> 400 <= n <= 499).
Proof.
  unfold outcome_of_code.
  destruct (n <? 100) eqn:E1; [discriminate|]. destruct (n <? 300) eqn:E2.
  { intros [= <-]. cbn. repeat split; intros; try discriminate; try lia. }
  destruct (n <? 400) eqn:E3.
  { intros [= <-]. cbn. repeat split; intros; try discriminate; try lia. }
  destruct (n <? 500) eqn:E4.
  { intros [= <-]. cbn. repeat split; intros; try discriminate; try lia; reflexivity. }
  destruct (n =? 500) eqn:E5.
  { intros [= <-]. cbn. repeat split; intros; try discriminate; try lia; reflexivity. }
  destruct (n <? 600) eqn:E6; [|discriminate].
  intros [= <-]. cbn. repeat split; intros; try discriminate; try lia; reflexivity.
Qed.

(* pipe relay: permanent only if the chosen output BEGINS with "5." (then digits "." digits and a
   white space): later lines never matter *)
Theorem pipe_permanent_begins_with_5 st so se :
  raise_error KPipe st so se = Perm ->
  let so' := rstrip_b so in let se' := rstrip_b se in
  let msg := match so' with [] => (match se' with [] => default_msg | _ => se' end) | _ => so' end in
  exists d rest, u8r msg = 53 :: 46 :: d :: rest /\ udigit d = true.
Proof.
  cbn [raise_error]. cbn zeta.
  set (msg := match rstrip_b so with [] => match rstrip_b se with [] => default_msg | _ => rstrip_b se end | _ => rstrip_b so end).
  destruct (perm_pattern (u8r msg)) eqn:E; [|discriminate]. intros _.
  unfold perm_pattern in E. destruct (u8r msg) as [|a [|b t]]; try discriminate.
  - destruct a as [|p]; try discriminate. repeat (destruct p as [p|p|]; try discriminate).
  - destruct a as [|p]; try discriminate. repeat (destruct p as [p|p|]; try discriminate).
    destruct b as [|q]; try discriminate. repeat (destruct q as [q|q|]; try discriminate).
    unfold digits1 in E. destruct t as [|d rest]; [discriminate|].
    destruct (udigit d) eqn:Ed; [|discriminate]. eauto.
Qed.
Example pipe_multiline_example :
  raise_error KPipe 1 [116;101;109;112;10;53;46;49;46;49;32;120] [] = Trans /\
  raise_error KPipe 1 [53;46;49;46;49;32;120;10;116;101;109;112] [] = Perm.
Proof. vm_compute. split; reflexivity. Qed.
