(* C15: every backend model refines the reference store; frame properties. *)
From Coq Require Import List NArith Bool Lia PeanoNat Permutation.
From Coq Require Import ZifyBool ZifyN.
From SV Require Import model.Store.
From SV Require Import proof.Assoc_lemmas proof.Rounds_lemmas proof.Prog_lemmas proof.Disk_lemmas.
Import ListNotations.
Open Scope N_scope.

(* ------------------------------------------------------- N-keyed maps *)
Section NMaps.
  Variable V : Type.
  Implicit Types m : amap N V.
  Lemma nget_set m k v j : alookup N.eqb (aset N.eqb m k v) j = if N.eqb k j then Some v else alookup N.eqb m j.
  Proof. apply (lookup_set N V N.eqb Neqb_eq). Qed.
  Lemma nget_del m k j : alookup N.eqb (adel N.eqb m k) j = if N.eqb k j then None else alookup N.eqb m j.
  Proof. apply (lookup_del N V N.eqb Neqb_eq). Qed.
  Lemma nget_set_same m k v : alookup N.eqb (aset N.eqb m k v) k = Some v.
  Proof. rewrite nget_set, N.eqb_refl. reflexivity. Qed.
  Lemma nget_set_other m k v j : k <> j -> alookup N.eqb (aset N.eqb m k v) j = alookup N.eqb m j.
  Proof. intros H. rewrite nget_set. destruct (N.eqb_spec k j); [contradiction|reflexivity]. Qed.
  Lemma nget_del_same m k : alookup N.eqb (adel N.eqb m k) k = None.
  Proof. rewrite nget_del, N.eqb_refl. reflexivity. Qed.
  Lemma nget_del_other m k j : k <> j -> alookup N.eqb (adel N.eqb m k) j = alookup N.eqb m j.
  Proof. intros H. rewrite nget_del. destruct (N.eqb_spec k j); [contradiction|reflexivity]. Qed.
  Lemma nnodup_set m k v : NoDup (akeys m) -> NoDup (akeys (aset N.eqb m k v)).
  Proof. apply (nodup_set N V N.eqb Neqb_eq). Qed.
  Lemma nnodup_del m k : NoDup (akeys m) -> NoDup (akeys (adel N.eqb m k)).
  Proof. apply (nodup_del N V N.eqb). Qed.
  Lemma nmem_get m k : amem N.eqb m k = match alookup N.eqb m k with Some _ => true | None => false end.
  Proof. reflexivity. Qed.
  Lemma nget_In m k v : alookup N.eqb m k = Some v -> In (k, v) m.
  Proof. apply (lookup_In N V N.eqb Neqb_eq). Qed.
  Lemma nIn_get m k v : NoDup (akeys m) -> In (k, v) m -> alookup N.eqb m k = Some v.
  Proof. apply (In_lookup_nodup N V N.eqb Neqb_eq). Qed.
  Lemma nget_keys m k : alookup N.eqb m k <> None <-> In k (akeys m).
  Proof. apply (lookup_in_keys N V N.eqb Neqb_eq). Qed.
End NMaps.

(* load(): two maps with the same keys and timestamps list the same pairs *)
Lemma load_perm {V1 V2} (m1 : amap N V1) (m2 : amap N V2) (t1 : V1 -> N) (t2 : V2 -> N) :
  NoDup (akeys m1) -> NoDup (akeys m2) ->
  (forall id, option_map t1 (alookup N.eqb m1 id) = option_map t2 (alookup N.eqb m2 id)) ->
  Permutation (map (fun p => (t1 (snd p), fst p)) m1) (map (fun p => (t2 (snd p), fst p)) m2).
Proof.
  intros N1 N2 H.
  assert (ND : forall V (m : amap N V) (t : V -> N), NoDup (akeys m) -> NoDup (map (fun p => (t (snd p), fst p)) m)).
  { intros V m t Hn. apply (NoDup_map_inv snd). rewrite map_map. cbn [snd]. exact Hn. }
  apply NoDup_Permutation; [apply ND; exact N1|apply ND; exact N2|].
  intros [ts id]. rewrite !in_map_iff. split.
  - intros ([k v] & E & Hin). cbn [fst snd] in E. inversion E; subst.
    pose proof (H id) as Hid. rewrite (nIn_get _ _ _ _ N1 Hin) in Hid. cbn [option_map] in Hid.
    destruct (alookup N.eqb m2 id) as [v2|] eqn:E2; [|discriminate]. cbn [option_map] in Hid.
    exists (id, v2). split; [cbn [fst snd]; congruence|apply nget_In; exact E2].
  - intros ([k v] & E & Hin). cbn [fst snd] in E. inversion E; subst.
    pose proof (H id) as Hid. rewrite (nIn_get _ _ _ _ N2 Hin) in Hid. cbn [option_map] in Hid.
    destruct (alookup N.eqb m1 id) as [v1|] eqn:E1; [|discriminate]. cbn [option_map] in Hid.
    exists (id, v1). split; [cbn [fst snd]; congruence|apply nget_In; exact E1].
Qed.

(* ------------------------------------------------------ result matching *)
(* load() order is backend specific: compared as multisets *)
Definition res_match (x y : res) : Prop :=
  match x, y with
  | RLoad a, RLoad b => Permutation a b
  | _, _ => x = y
  end.

Lemma res_match_eq x : res_match x x.
Proof. destruct x; cbn; reflexivity. Qed.

Lemma res_match_of_eq x y : x = y -> res_match x y.
Proof. intros ->. apply res_match_eq. Qed.

(* ------------------------------------------------------ reference store *)
Lemma first_free_spec r cands id :
  first_free r cands = Some id -> rlookup r id = None /\ In id cands.
Proof.
  induction cands as [|c cs IH]; cbn [first_free]; [discriminate|].
  destruct (rlookup r c) eqn:E.
  - intros H. destruct (IH H) as [H1 H2]. split; [exact H1|right; exact H2].
  - intros H; inversion H; subst. split; [exact E|left; reflexivity].
Qed.

Lemma with_rcpts_same e : with_rcpts e (e_rcpts e) = e.
Proof. destruct e; reflexivity. Qed.
Lemma with_rcpts_twice e l l' : with_rcpts (with_rcpts e l) l' = with_rcpts e l'.
Proof. reflexivity. Qed.

Definition ref_ok (r : rstore) : Prop := NoDup (akeys r).

Lemma ref_step_ok r o : ref_ok r -> ref_ok (fst (ref_step r o)).
Proof.
  unfold ref_ok. intros H. destruct o; cbn [ref_step].
  - destruct (first_free r cands); cbn [fst]; [apply nnodup_set|]; exact H.
  - destruct (rlookup r id); cbn [fst]; [apply nnodup_set|]; exact H.
  - destruct (rlookup r id); cbn [fst]; [apply nnodup_set|]; exact H.
  - destruct (rlookup r id) as [en|]; cbn [fst]; [|exact H].
    destruct (round idxs (e_rcpts (en_env en))); cbn [fst]; [apply nnodup_set|]; exact H.
  - exact H.
  - destruct (rlookup r id); exact H.
  - cbn [fst]. apply nnodup_del. exact H.
Qed.

(* the id an operation changes in the reference store *)
Definition ref_target (r : rstore) (o : op) : option N :=
  match o with
  | OWrite _ _ cands _ => first_free r cands
  | _ => op_id o
  end.

Lemma ref_step_frame r o j :
  ref_target r o <> Some j -> rlookup (fst (ref_step r o)) j = rlookup r j.
Proof.
  destruct o; cbn [ref_step ref_target op_id]; unfold rlookup; intros H.
  - destruct (first_free r cands) as [id|]; cbn [fst]; [|reflexivity].
    apply nget_set_other. congruence.
  - destruct (alookup N.eqb r id); cbn [fst]; [apply nget_set_other; congruence|reflexivity].
  - destruct (alookup N.eqb r id); cbn [fst]; [apply nget_set_other; congruence|reflexivity].
  - destruct (alookup N.eqb r id) as [en|]; cbn [fst]; [|reflexivity].
    destruct (round idxs (e_rcpts (en_env en))); cbn [fst]; [apply nget_set_other; congruence|reflexivity].
  - reflexivity.
  - destruct (alookup N.eqb r id); reflexivity.
  - cbn [fst]. apply nget_del_other. congruence.
Qed.

(* ------------------------------------- the accumulating representation *)
(* disk, redis and cloud keep the original envelope and the deletion script *)
Definition accum_entry (e : envelope) (ts att : N) (sc : list N) : option entry :=
  match accum_get sc (e_rcpts e) with
  | Some l => Some (mkEntry (with_rcpts e l) ts att)
  | None => None
  end.

Lemma accum_entry_new e ts : accum_entry e ts 0 [] = Some (mkEntry e ts 0).
Proof. unfold accum_entry, accum_get. rewrite replay_nil, with_rcpts_same. reflexivity. Qed.

Lemma accum_entry_meta e ts att sc en ts' att' :
  accum_entry e ts att sc = Some en -> accum_entry e ts' att' sc = Some (mkEntry (en_env en) ts' att').
Proof.
  unfold accum_entry. destruct (accum_get sc (e_rcpts e)); [|discriminate].
  intros H; inversion H; reflexivity.
Qed.

Lemma accum_entry_fields e ts att sc en :
  accum_entry e ts att sc = Some en -> en_ts en = ts /\ en_att en = att.
Proof.
  unfold accum_entry. destruct (accum_get sc (e_rcpts e)); [|discriminate].
  intros H; inversion H; split; reflexivity.
Qed.

Lemma accum_entry_mark e ts att sc en idxs l :
  accum_entry e ts att sc = Some en -> round idxs (e_rcpts (en_env en)) = Some l ->
  accum_entry e ts att (accum_mark sc idxs) = Some (mkEntry (with_rcpts (en_env en) l) ts att).
Proof.
  unfold accum_entry. destruct (accum_get sc (e_rcpts e)) as [cur|] eqn:E; [|discriminate].
  intros H Hr. inversion H; subst en. cbn [en_env with_rcpts e_rcpts] in Hr.
  rewrite (accum_get_mark sc idxs (e_rcpts e) cur E), Hr. reflexivity.
Qed.

Lemma wf_deliv_round r id idxs tmps en :
  wf_op r (ODeliv id idxs tmps) = true -> rlookup r id = Some en ->
  exists l, round idxs (e_rcpts (en_env en)) = Some l.
Proof.
  cbn [wf_op]. intros H E. rewrite E in H. apply andb_prop in H as [H1 H2].
  apply round_ok; assumption.
Qed.

(* ================================================================== Dict *)
Record RDict (s : dstate) (r : rstore) : Prop := {
  rd_ref : ref_ok r;
  rd_view : forall id, dict_view s id = rlookup r id;
  rd_meta : forall id, alookup N.eqb (d_meta s) id <> None <-> rlookup r id <> None;
  rd_env : forall id, alookup N.eqb (d_env s) id <> None <-> rlookup r id <> None;
  rd_inj : forall i j x, alookup N.eqb (d_env s) i = Some x -> alookup N.eqb (d_env s) j = Some x -> i = j;
  rd_fresh : forall i x, alookup N.eqb (d_env s) i = Some x -> x < d_next s;
  rd_nodup : NoDup (akeys (d_meta s)) }.

Lemma RDict_init : RDict dict_init [].
Proof.
  split; try (intros; cbn; try reflexivity; try tauto; discriminate); try constructor.
Qed.

Lemma dict_pick_first_free s r cands :
  RDict s r -> dict_pick (d_env s) cands = first_free r cands.
Proof.
  intros H. induction cands as [|c cs IH]; cbn [dict_pick first_free]; [reflexivity|].
  rewrite nmem_get. pose proof (rd_env s r H c) as He.
  destruct (alookup N.eqb (d_env s) c) eqn:E1; destruct (rlookup r c) eqn:E2; try reflexivity; try exact IH.
  - exfalso. apply (proj1 He); congruence.
  - exfalso. apply (proj2 He); congruence.
Qed.

Lemma dict_view_some s id m x e :
  alookup N.eqb (d_meta s) id = Some m -> alookup N.eqb (d_env s) id = Some x ->
  alookup N.eqb (d_heap s) x = Some e -> dict_view s id = Some (mkEntry e (dm_ts m) (dm_att m)).
Proof. intros H1 H2 H3. unfold dict_view. rewrite H1, H2, H3. reflexivity. Qed.

Lemma dict_live s r id en :
  RDict s r -> rlookup r id = Some en ->
  exists m x, alookup N.eqb (d_meta s) id = Some m /\ alookup N.eqb (d_env s) id = Some x /\
              alookup N.eqb (d_heap s) x = Some (en_env en) /\ dm_ts m = en_ts en /\ dm_att m = en_att en.
Proof.
  intros H E. pose proof (rd_view s r H id) as Hv. rewrite E in Hv. unfold dict_view in Hv.
  destruct (alookup N.eqb (d_meta s) id) as [m|] eqn:E1; [|discriminate].
  destruct (alookup N.eqb (d_env s) id) as [x|] eqn:E2; [|discriminate].
  destruct (alookup N.eqb (d_heap s) x) as [e|] eqn:E3; [|discriminate].
  inversion Hv; subst. exists m, x. cbn. repeat split; try reflexivity. exact E3.
Qed.

Lemma dict_dead s r id :
  RDict s r -> rlookup r id = None ->
  alookup N.eqb (d_meta s) id = None /\ alookup N.eqb (d_env s) id = None.
Proof.
  intros H E. split.
  - destruct (alookup N.eqb (d_meta s) id) eqn:E1; [|reflexivity].
    exfalso. apply (proj1 (rd_meta s r H id)); congruence.
  - destruct (alookup N.eqb (d_env s) id) eqn:E1; [|reflexivity].
    exfalso. apply (proj1 (rd_env s r H id)); congruence.
Qed.

Lemma iff_some_none {A B} (a : option A) (b : option B) :
  (a <> None <-> b <> None) -> forall x, b = Some x -> a <> None.
Proof. intros H x E. apply H. congruence. Qed.

(* an update of the meta entry of a live id *)
Lemma RDict_set_meta s r id m m' x e :
  RDict s r -> alookup N.eqb (d_meta s) id = Some m -> alookup N.eqb (d_env s) id = Some x ->
  alookup N.eqb (d_heap s) x = Some e ->
  RDict (mkDict (d_env s) (aset N.eqb (d_meta s) id m') (d_heap s) (d_next s))
        (aset N.eqb r id (mkEntry e (dm_ts m') (dm_att m'))).
Proof.
  intros H Hm Hx He. split; cbn [d_env d_meta d_heap d_next].
  - apply nnodup_set, (rd_ref s r H).
  - intros j. unfold dict_view, rlookup. cbn [d_env d_meta d_heap]. rewrite !nget_set.
    destruct (N.eqb_spec id j) as [<-|Hne].
    + rewrite Hx, He. reflexivity.
    + apply (rd_view s r H j).
  - intros j. unfold rlookup. rewrite !nget_set. destruct (N.eqb_spec id j); [split; discriminate|apply (rd_meta s r H j)].
  - intros j. unfold rlookup. rewrite nget_set. destruct (N.eqb_spec id j) as [<-|Hne]; [|apply (rd_env s r H j)].
    split; [discriminate|intros _; congruence].
  - apply (rd_inj s r H).
  - apply (rd_fresh s r H).
  - apply nnodup_set, (rd_nodup s r H).
Qed.

Lemma dict_step_sim s r o :
  RDict s r -> wf_op r o = true ->
  RDict (fst (dict_step s o)) (fst (ref_step r o)) /\ res_match (snd (dict_step s o)) (snd (ref_step r o)).
Proof.
  intros H Hwf. destruct o; cbn [dict_step ref_step].
  - (* write *)
    rewrite (dict_pick_first_free s r cands H).
    destruct (first_free r cands) as [id|] eqn:Ef; cbn [fst snd]; [|split; [exact H|reflexivity]].
    destruct (first_free_spec r cands id Ef) as [Hfree _].
    destruct (dict_dead s r id H Hfree) as [Hm He].
    split; [|reflexivity]. split; cbn [d_env d_meta d_heap d_next].
    + apply nnodup_set, (rd_ref s r H).
    + intros j. unfold dict_view, rlookup. cbn [d_env d_meta d_heap]. rewrite !nget_set.
      destruct (N.eqb_spec id j) as [<-|Hne].
      * rewrite nget_set_same. reflexivity.
      * pose proof (rd_view s r H j) as Hv. unfold dict_view in Hv.
        destruct (alookup N.eqb (d_meta s) j) as [m|]; [|exact Hv].
        destruct (alookup N.eqb (d_env s) j) as [x|] eqn:Ex; [|exact Hv].
        pose proof (rd_fresh s r H j x Ex). rewrite nget_set_other by lia. exact Hv.
    + intros j. unfold rlookup. rewrite !nget_set. destruct (N.eqb_spec id j); [split; discriminate|apply (rd_meta s r H j)].
    + intros j. unfold rlookup. rewrite !nget_set. destruct (N.eqb_spec id j); [split; discriminate|apply (rd_env s r H j)].
    + intros i j x. rewrite !nget_set.
      destruct (N.eqb_spec id i) as [<-|Hi]; destruct (N.eqb_spec id j) as [<-|Hj]; intros E1 E2.
      * reflexivity.
      * inversion E1; subst x. pose proof (rd_fresh s r H j _ E2). lia.
      * inversion E2; subst x. pose proof (rd_fresh s r H i _ E1). lia.
      * eapply (rd_inj s r H); eassumption.
    + intros i x. rewrite nget_set. destruct (N.eqb_spec id i); intros E.
      * inversion E; subst. lia.
      * pose proof (rd_fresh s r H i x E). lia.
    + apply nnodup_set, (rd_nodup s r H).
  - (* set_timestamp *)
    cbn [wf_op] in Hwf. destruct (rlookup r id) as [en|] eqn:E; [|discriminate].
    destruct (dict_live s r id en H E) as (m & x & Hm & Hx & Hh & Hts & Hatt).
    rewrite Hm. cbn [fst snd]. split; [|reflexivity].
    rewrite <- Hatt. apply (RDict_set_meta s r id m (mkDMeta ts (dm_att m)) x (en_env en) H Hm Hx Hh).
  - (* increment_attempts *)
    cbn [wf_op] in Hwf. destruct (rlookup r id) as [en|] eqn:E; [|discriminate].
    destruct (dict_live s r id en H E) as (m & x & Hm & Hx & Hh & Hts & Hatt).
    rewrite Hm. cbn [fst snd]. rewrite <- Hatt, <- Hts. split; [|reflexivity].
    apply (RDict_set_meta s r id m (mkDMeta (dm_ts m) (dm_att m + 1)) x (en_env en) H Hm Hx Hh).
  - (* set_recipients_delivered: in place on the shared object *)
    destruct (rlookup r id) as [en|] eqn:E; [|cbn [wf_op] in Hwf; rewrite E in Hwf; discriminate].
    destruct (wf_deliv_round r id idxs tmps en Hwf E) as (l & Hl).
    destruct (dict_live s r id en H E) as (m & x & Hm & Hx & Hh & Hts & Hatt).
    rewrite Hx, Hh, Hl, (round_round_p idxs _ l Hl). cbn [fst snd]. split; [|reflexivity].
    split; cbn [d_env d_meta d_heap d_next].
    + apply nnodup_set, (rd_ref s r H).
    + intros j. unfold dict_view, rlookup. cbn [d_env d_meta d_heap]. rewrite nget_set.
      destruct (N.eqb_spec id j) as [<-|Hne].
      * rewrite Hm, Hx, nget_set_same, Hts, Hatt. reflexivity.
      * pose proof (rd_view s r H j) as Hv. unfold dict_view in Hv.
        destruct (alookup N.eqb (d_meta s) j) as [mj|]; [|exact Hv].
        destruct (alookup N.eqb (d_env s) j) as [xj|] eqn:Exj; [|exact Hv].
        assert (x <> xj) by (intros ->; apply Hne; eapply (rd_inj s r H); eassumption).
        rewrite nget_set_other by assumption. exact Hv.
    + intros j. unfold rlookup. rewrite nget_set. destruct (N.eqb_spec id j) as [<-|Hne]; [|apply (rd_meta s r H j)].
      split; [discriminate|intros _; congruence].
    + intros j. unfold rlookup. rewrite nget_set. destruct (N.eqb_spec id j) as [<-|Hne]; [|apply (rd_env s r H j)].
      split; [discriminate|intros _; congruence].
    + apply (rd_inj s r H).
    + apply (rd_fresh s r H).
    + apply (rd_nodup s r H).
  - (* load *)
    cbn [fst snd]. split; [exact H|]. cbn [res_match].
    apply load_perm; [apply (rd_nodup s r H)|apply (rd_ref s r H)|].
    intros id. pose proof (rd_view s r H id) as Hv. unfold dict_view in Hv.
    destruct (rlookup r id) as [en|] eqn:E.
    + destruct (dict_live s r id en H E) as (m & x & Hm & Hx & Hh & Hts & Hatt).
      unfold rlookup in E. rewrite Hm, E. cbn [option_map]. congruence.
    + destruct (dict_dead s r id H E) as [Hm _]. unfold rlookup in E. rewrite Hm, E. reflexivity.
  - (* get *)
    unfold dict_get_ref. destruct (rlookup r id) as [en|] eqn:E.
    + destruct (dict_live s r id en H E) as (m & x & Hm & Hx & Hh & Hts & Hatt).
      rewrite Hm, Hx, Hh. cbn [fst snd]. split; [exact H|]. rewrite Hatt. reflexivity.
    + destruct (dict_dead s r id H E) as [Hm _]. rewrite Hm. cbn [fst snd]. split; [exact H|reflexivity].
  - (* remove *)
    cbn [fst snd]. split; [|reflexivity]. split; cbn [d_env d_meta d_heap d_next].
    + apply nnodup_del, (rd_ref s r H).
    + intros j. unfold dict_view, rlookup. cbn [d_env d_meta d_heap]. rewrite !nget_del.
      destruct (N.eqb_spec id j); [reflexivity|apply (rd_view s r H j)].
    + intros j. unfold rlookup. rewrite !nget_del. destruct (N.eqb_spec id j); [tauto|apply (rd_meta s r H j)].
    + intros j. unfold rlookup. rewrite !nget_del. destruct (N.eqb_spec id j); [tauto|apply (rd_env s r H j)].
    + intros i j x. rewrite !nget_del. destruct (N.eqb_spec id i); [discriminate|].
      destruct (N.eqb_spec id j); [discriminate|]. apply (rd_inj s r H).
    + intros i x. rewrite nget_del. destruct (N.eqb_spec id i); [discriminate|apply (rd_fresh s r H)].
    + apply nnodup_del, (rd_nodup s r H).
Qed.

(* whole operation sequences, generic in the backend *)
Section Runs.
  Variable St : Type.
  Variable step : St -> op -> St * res.
  Variable R : St -> rstore -> Prop.
  Variable ok : St -> op -> Prop.      (* backend-specific demands on the environment choices *)
  Hypothesis step_sim : forall s r o, R s r -> wf_op r o = true -> ok s o ->
      R (fst (step s o)) (fst (ref_step r o)) /\ res_match (snd (step s o)) (snd (ref_step r o)).

  Fixpoint brun (s : St) (ops : list op) : St * list res :=
    match ops with
    | [] => (s, [])
    | o :: ops' => let (s1, x) := step s o in let (s2, xs) := brun s1 ops' in (s2, x :: xs)
    end.

  Fixpoint oks (s : St) (ops : list op) : Prop :=
    match ops with
    | [] => True
    | o :: ops' => ok s o /\ oks (fst (step s o)) ops'
    end.

  Lemma run_sim ops : forall s r, R s r -> wf_ops r ops = true -> oks s ops ->
      R (fst (brun s ops)) (fst (ref_run r ops)) /\
      Forall2 res_match (snd (brun s ops)) (snd (ref_run r ops)).
  Proof.
    induction ops as [|o ops IH]; intros s r HR Hwf Hok; cbn [brun ref_run].
    - split; [exact HR|constructor].
    - cbn [wf_ops] in Hwf. apply andb_prop in Hwf as [Hw1 Hw2]. destruct Hok as [Hok1 Hok2].
      destruct (step_sim s r o HR Hw1 Hok1) as [HR1 Hm].
      destruct (step s o) as [s1 x]. destruct (ref_step r o) as [r1 y]. cbn [fst snd] in *.
      destruct (IH s1 r1 HR1 Hw2 Hok2) as [HR2 Hms].
      destruct (brun s1 ops) as [s2 xs]. destruct (ref_run r1 ops) as [r2 ys]. cbn [fst snd] in *.
      split; [exact HR2|constructor; assumption].
  Qed.
End Runs.

Lemma dict_run_brun s ops : dict_run s ops = brun dstate dict_step s ops.
Proof. revert s; induction ops as [|o ops IH]; intros s; cbn [dict_run brun]; [reflexivity|].
  destruct (dict_step s o) as [s1 x]. rewrite IH. reflexivity. Qed.

Lemma oks_true {St} step s ops : oks St step (fun _ _ => True) s ops.
Proof. revert s; induction ops as [|o ops IH]; intros s; cbn [oks]; [exact I|split; [exact I|apply IH]]. Qed.

Theorem refines_dict ops s r :
  RDict s r -> wf_ops r ops = true ->
  RDict (fst (dict_run s ops)) (fst (ref_run r ops)) /\
  Forall2 res_match (snd (dict_run s ops)) (snd (ref_run r ops)).
Proof.
  intros HR Hwf. rewrite dict_run_brun.
  apply (run_sim dstate dict_step RDict (fun _ _ => True)); try assumption.
  - intros s0 r0 o H1 H2 _. apply dict_step_sim; assumption.
  - apply oks_true.
Qed.

(* ========================= Dict over copy-on-access mappings (shelve) *)
Definition cdict_rep (s : cdstate) (r : rstore) (id : N) : Prop :=
  match rlookup r id with
  | Some en => alookup N.eqb (cd_env s) id = Some (en_env en) /\
               alookup N.eqb (cd_meta s) id = Some (mkDMeta (en_ts en) (en_att en))
  | None => alookup N.eqb (cd_env s) id = None /\ alookup N.eqb (cd_meta s) id = None
  end.

Record RCDict (s : cdstate) (r : rstore) : Prop := {
  rcd_ref : ref_ok r;
  rcd_nodup : NoDup (akeys (cd_meta s));
  rcd_rep : forall id, cdict_rep s r id }.

Lemma RCDict_init : RCDict cdict_init [].
Proof. split; [constructor|constructor|intros id; split; reflexivity]. Qed.

Lemma cdict_view_rep s r id : RCDict s r -> cdict_view s id = rlookup r id.
Proof.
  intros H. pose proof (rcd_rep s r H id) as Hr. unfold cdict_rep in Hr. unfold cdict_view.
  destruct (rlookup r id) as [en|]; destruct Hr as [-> ->]; [destruct en|]; reflexivity.
Qed.

Lemma cdict_pick_first_free s r cands : RCDict s r -> cdict_pick (cd_env s) cands = first_free r cands.
Proof.
  intros H. induction cands as [|c cs IH]; cbn [cdict_pick first_free]; [reflexivity|].
  rewrite nmem_get. pose proof (rcd_rep s r H c) as Hc. unfold cdict_rep in Hc.
  destruct (rlookup r c) as [en|]; destruct Hc as [-> _]; [exact IH|reflexivity].
Qed.

Lemma RCDict_put s r id e ts att :
  RCDict s r ->
  RCDict (mkCDict (aset N.eqb (cd_env s) id e) (aset N.eqb (cd_meta s) id (mkDMeta ts att)))
         (aset N.eqb r id (mkEntry e ts att)).
Proof.
  intros H. split; cbn [cd_env cd_meta].
  - apply nnodup_set, (rcd_ref s r H).
  - apply nnodup_set, (rcd_nodup s r H).
  - intros j. unfold cdict_rep, rlookup. cbn [cd_env cd_meta]. rewrite !nget_set.
    destruct (N.eqb_spec id j) as [<-|Hne]; [split; reflexivity|apply (rcd_rep s r H j)].
Qed.

(* updating one of the two maps with the value the other already agrees with *)
Lemma RCDict_put_meta s r id en ts att :
  RCDict s r -> rlookup r id = Some en ->
  RCDict (mkCDict (cd_env s) (aset N.eqb (cd_meta s) id (mkDMeta ts att)))
         (aset N.eqb r id (mkEntry (en_env en) ts att)).
Proof.
  intros H E. split; cbn [cd_env cd_meta].
  - apply nnodup_set, (rcd_ref s r H).
  - apply nnodup_set, (rcd_nodup s r H).
  - intros j. unfold cdict_rep, rlookup. cbn [cd_env cd_meta]. rewrite !nget_set.
    destruct (N.eqb_spec id j) as [<-|Hne]; [|apply (rcd_rep s r H j)].
    pose proof (rcd_rep s r H id) as Hr. unfold cdict_rep in Hr. rewrite E in Hr. destruct Hr as [He _].
    split; [exact He|reflexivity].
Qed.

Lemma RCDict_put_env s r id en e :
  RCDict s r -> rlookup r id = Some en ->
  RCDict (mkCDict (aset N.eqb (cd_env s) id e) (cd_meta s))
         (aset N.eqb r id (mkEntry e (en_ts en) (en_att en))).
Proof.
  intros H E. split; cbn [cd_env cd_meta].
  - apply nnodup_set, (rcd_ref s r H).
  - apply (rcd_nodup s r H).
  - intros j. unfold cdict_rep, rlookup. cbn [cd_env cd_meta]. rewrite !nget_set.
    destruct (N.eqb_spec id j) as [<-|Hne]; [|apply (rcd_rep s r H j)].
    pose proof (rcd_rep s r H id) as Hr. unfold cdict_rep in Hr. rewrite E in Hr. destruct Hr as [_ Hm].
    split; [reflexivity|exact Hm].
Qed.

Lemma cdict_step_sim s r o :
  RCDict s r -> wf_op r o = true ->
  RCDict (fst (cdict_step true s o)) (fst (ref_step r o)) /\
  res_match (snd (cdict_step true s o)) (snd (ref_step r o)).
Proof.
  intros H Hwf. destruct o; cbn [cdict_step ref_step].
  - rewrite (cdict_pick_first_free s r cands H).
    destruct (first_free r cands) as [id|]; cbn [fst snd]; [|split; [exact H|reflexivity]].
    split; [apply RCDict_put; exact H|reflexivity].
  - cbn [wf_op] in Hwf. destruct (rlookup r id) as [en|] eqn:E; [|discriminate].
    pose proof (rcd_rep s r H id) as Hr. unfold cdict_rep in Hr. rewrite E in Hr. destruct Hr as [_ Hm].
    rewrite Hm. cbn [fst snd dm_att]. split; [apply RCDict_put_meta; assumption|reflexivity].
  - cbn [wf_op] in Hwf. destruct (rlookup r id) as [en|] eqn:E; [|discriminate].
    pose proof (rcd_rep s r H id) as Hr. unfold cdict_rep in Hr. rewrite E in Hr. destruct Hr as [_ Hm].
    rewrite Hm. cbn [fst snd dm_att dm_ts]. split; [apply RCDict_put_meta; assumption|reflexivity].
  - destruct (rlookup r id) as [en|] eqn:E; [|cbn [wf_op] in Hwf; rewrite E in Hwf; discriminate].
    destruct (wf_deliv_round r id idxs tmps en Hwf E) as (l & Hl).
    pose proof (rcd_rep s r H id) as Hr. unfold cdict_rep in Hr. rewrite E in Hr. destruct Hr as [He _].
    rewrite He, Hl, (round_round_p idxs _ l Hl). cbn [fst snd].
    split; [apply RCDict_put_env; assumption|reflexivity].
  - cbn [fst snd]. split; [exact H|]. cbn [res_match].
    apply load_perm; [apply (rcd_nodup s r H)|apply (rcd_ref s r H)|].
    intros id. pose proof (rcd_rep s r H id) as Hr. unfold cdict_rep, rlookup in Hr.
    destruct (alookup N.eqb r id) as [en|]; destruct Hr as [_ ->]; reflexivity.
  - pose proof (rcd_rep s r H id) as Hr. unfold cdict_rep in Hr.
    destruct (rlookup r id) as [en|]; destruct Hr as [-> ->]; cbn [fst snd]; (split; [exact H|reflexivity]).
  - cbn [fst snd]. split; [|reflexivity]. split; cbn [cd_env cd_meta].
    + apply nnodup_del, (rcd_ref s r H).
    + apply nnodup_del, (rcd_nodup s r H).
    + intros j. unfold cdict_rep, rlookup. cbn [cd_env cd_meta]. rewrite !nget_del.
      destruct (N.eqb_spec id j); [split; reflexivity|apply (rcd_rep s r H j)].
Qed.

Lemma cdict_run_brun ab s ops : cdict_run ab s ops = brun cdstate (cdict_step ab) s ops.
Proof. revert s; induction ops as [|o ops IH]; intros s; cbn [cdict_run brun]; [reflexivity|].
  destruct (cdict_step ab s o) as [s1 x]. rewrite IH. reflexivity. Qed.

Theorem refines_dict_copying ops s r :
  RCDict s r -> wf_ops r ops = true ->
  RCDict (fst (cdict_run true s ops)) (fst (ref_run r ops)) /\
  Forall2 res_match (snd (cdict_run true s ops)) (snd (ref_run r ops)).
Proof.
  intros HR Hwf. rewrite cdict_run_brun.
  apply (run_sim cdstate (cdict_step true) RCDict (fun _ _ => True)); try assumption.
  - intros s0 r0 o H1 H2 _. apply cdict_step_sim; assumption.
  - apply oks_true.
Qed.

(* mutating the copy without assigning it back (the pre-d35 set_recipients_
   delivered; the same shape as a set_timestamp / increment_attempts that
   forgets `self.meta_db[id] = meta`) loses the update on this substrate *)
Lemma dict_copying_noassign_refuted :
  exists ops, wf_ops [] ops = true /\
              ~ Forall2 res_match (snd (cdict_run false cdict_init ops)) (snd (ref_run [] ops)).
Proof.
  exists [OWrite (mkEnv [1] [[2]; [3]] [4]) 5 [7] []; ODeliv 7 [0] []; OIncr 7 []; OSetTs 7 9 []; OGet 7; OLoad 0].
  split; [vm_compute; reflexivity|].
  vm_compute. intros H.
  inversion H as [|? ? ? ? _ H1]; subst. inversion H1 as [|? ? ? ? _ H2]; subst.
  inversion H2 as [|? ? ? ? _ H3]; subst. inversion H3 as [|? ? ? ? _ H4]; subst.
  inversion H4 as [|? ? ? ? E5 _]; subst. discriminate E5.
Qed.

Example dict_copying_noassign_witness :
  snd (cdict_run false cdict_init [OWrite (mkEnv [1] [[2]; [3]] [4]) 5 [7] []; ODeliv 7 [0] []; OIncr 7 []; OSetTs 7 9 []; OGet 7; OLoad 0])
    = [RId 7; RUnit; RAtt 1; RUnit; RGot (mkEnv [1] [[2]; [3]] [4]) 0; RLoad [(5, 7)]] /\
  snd (cdict_run true cdict_init [OWrite (mkEnv [1] [[2]; [3]] [4]) 5 [7] []; ODeliv 7 [0] []; OIncr 7 []; OSetTs 7 9 []; OGet 7; OLoad 0])
    = [RId 7; RUnit; RAtt 1; RUnit; RGot (mkEnv [1] [[3]] [4]) 1; RLoad [(9, 7)]].
Proof. split; vm_compute; reflexivity. Qed.

Lemma load_perm_ids {V2} (ids : list N) (g : N -> N) (m2 : amap N V2) (t2 : V2 -> N) :
  NoDup ids -> NoDup (akeys m2) ->
  (forall id, In id ids <-> alookup N.eqb m2 id <> None) ->
  (forall id v, alookup N.eqb m2 id = Some v -> g id = t2 v) ->
  Permutation (map (fun id => (g id, id)) ids) (map (fun p => (t2 (snd p), fst p)) m2).
Proof.
  intros N1 N2 Hdom Hg.
  apply NoDup_Permutation.
  - apply (NoDup_map_inv snd). rewrite map_map. cbn [snd]. rewrite map_id. exact N1.
  - apply (NoDup_map_inv snd). rewrite map_map. cbn [snd]. exact N2.
  - intros [ts id]. rewrite !in_map_iff. split.
    + intros (k & E & Hin). inversion E; subst k ts. apply Hdom in Hin.
      destruct (alookup N.eqb m2 id) as [v|] eqn:E2; [|congruence].
      exists (id, v). split; [cbn [fst snd]; rewrite (Hg id v E2); reflexivity|apply nget_In; exact E2].
    + intros ([k v] & E & Hin). cbn [fst snd] in E. inversion E; subst k ts.
      pose proof (nIn_get _ _ _ _ N2 Hin) as E2.
      exists id. split; [rewrite (Hg id v E2); reflexivity|apply Hdom; congruence].
Qed.

Lemma NoDup_app_intro {A} (a b : list A) :
  NoDup a -> NoDup b -> (forall x, In x a -> In x b -> False) -> NoDup (a ++ b).
Proof.
  intros Ha Hb Hd. induction Ha as [|x a Hx Ha IH]; [exact Hb|].
  cbn [app]. constructor.
  - intros Hin. apply in_app_or in Hin as [Hin|Hin]; [contradiction|]. apply (Hd x); [left; reflexivity|exact Hin].
  - apply IH. intros y Hy. apply Hd. right; exact Hy.
Qed.

(* ================================================================= Redis *)
Definition odef {A} (d : A) (o : option A) : A := match o with Some x => x | None => d end.

(* orph: the half-written entries (a writer died between the HSETNX of the
   envelope and the pipeline): hashes with the envelope field only, for ids the
   reference store does not know *)
Definition orphan_hash (e : envelope) : rhash := mkHash (Some e) None None None.

Definition redis_rep (orph : amap N envelope) (s : rstate) (r : rstore) (id : N) : Prop :=
  match rlookup r id with
  | Some en => alookup N.eqb orph id = None /\ exists e ts att dl,
      alookup N.eqb (r_hashes s) id = Some (mkHash (Some e) (Some ts) att dl) /\
      accum_entry e ts (odef 0 att) (odef [] dl) = Some en
  | None => alookup N.eqb (r_hashes s) id = option_map orphan_hash (alookup N.eqb orph id)
  end.

Record RRedisO (orph : amap N envelope) (s : rstate) (r : rstore) : Prop := {
  rr_ref : ref_ok r;
  rr_nodup : NoDup (akeys (r_hashes s));
  rr_orph : NoDup (akeys orph);
  rr_rep : forall id, redis_rep orph s r id }.

Notation RRedis := (RRedisO []).

Lemma RRedis_init : RRedis redis_init [].
Proof. split; [constructor|constructor|constructor|intros id; reflexivity]. Qed.

Lemma redis_view_rep orph s r id : RRedisO orph s r -> redis_view s id = rlookup r id.
Proof.
  intros H. pose proof (rr_rep orph s r H id) as Hr. unfold redis_rep in Hr. unfold redis_view.
  destruct (rlookup r id) as [en|].
  - destruct Hr as (_ & e & ts & att & dl & Hh & Ha). rewrite Hh. unfold accum_entry in Ha.
    destruct dl as [l|]; cbn [odef] in Ha.
    + destruct (accum_get l (e_rcpts e)); [|discriminate]. destruct att; exact Ha.
    + unfold accum_get in Ha. rewrite replay_nil, with_rcpts_same in Ha. destruct att; exact Ha.
  - rewrite Hr. destruct (alookup N.eqb orph id); reflexivity.
Qed.

Lemma redis_rep_other orph s s' r r' id :
  alookup N.eqb (r_hashes s') id = alookup N.eqb (r_hashes s) id -> rlookup r' id = rlookup r id ->
  redis_rep orph s r id -> redis_rep orph s' r' id.
Proof. unfold redis_rep. intros -> ->. tauto. Qed.

Lemma live_not_orphan orph s r id en : RRedisO orph s r -> rlookup r id = Some en -> alookup N.eqb orph id = None.
Proof. intros H E. pose proof (rr_rep orph s r H id) as Hr. unfold redis_rep in Hr. rewrite E in Hr. apply Hr. Qed.

(* replacing the hash of one id and the reference entry of the same id *)
Lemma RRedis_put orph s r id h en q :
  RRedisO orph s r -> alookup N.eqb orph id = None ->
  (exists e ts att dl, h = mkHash (Some e) (Some ts) att dl /\ accum_entry e ts (odef 0 att) (odef [] dl) = Some en) ->
  RRedisO orph (mkRedis (aset N.eqb (r_hashes s) id h) q) (aset N.eqb r id en).
Proof.
  intros H Ho (e & ts & att & dl & -> & Ha). split; cbn [r_hashes].
  - apply nnodup_set, (rr_ref orph s r H).
  - apply nnodup_set, (rr_nodup orph s r H).
  - apply (rr_orph orph s r H).
  - intros j. unfold redis_rep, rlookup. cbn [r_hashes]. rewrite !nget_set.
    destruct (N.eqb_spec id j) as [<-|Hne].
    + split; [exact Ho|]. exists e, ts, att, dl. split; [reflexivity|exact Ha].
    + apply (rr_rep orph s r H j).
Qed.

Lemma hget_live s id h : alookup N.eqb (r_hashes s) id = Some h -> hget s id = h.
Proof. unfold hget. intros ->. reflexivity. Qed.
Lemma hget_dead s id : alookup N.eqb (r_hashes s) id = None -> hget s id = empty_hash.
Proof. unfold hget. intros ->. reflexivity. Qed.

(* what the operation must stay clear of while half-written entries exist *)
Definition avoids (orph : amap N envelope) (o : op) : Prop :=
  match o with
  | OWrite _ _ cands _ => forall c, In c cands -> alookup N.eqb orph c = None   (* uuid4 does not draw their ids *)
  | OGet id => alookup N.eqb orph id = None                                     (* get(orphan): see redis_get_orphan *)
  | OLoad _ => orph = []                                                        (* load with orphans: see redis_load_with_orphans *)
  | _ => True
  end.

Lemma r_write_run orph s r e ts cands :
  RRedisO orph s r -> (forall c, In c cands -> alookup N.eqb orph c = None) ->
  run rexec (r_write e ts cands) s =
  match first_free r cands with
  | Some id => (mkRedis (aset N.eqb (aset N.eqb (r_hashes s) id (mkHash (Some e) None None None)) id
                              (mkHash (Some e) (Some ts) (Some 0) None))
                        (r_queue s ++ [(ts, id)]), RId id)
  | None => (s, RNoId)
  end.
Proof.
  intros H Hav. induction cands as [|c cs IH]; cbn [r_write run first_free]; [reflexivity|].
  pose proof (rr_rep orph s r H c) as Hc. unfold redis_rep in Hc.
  destruct (rlookup r c) as [en|].
  - destruct Hc as (_ & e' & ts' & att & dl & Hh & _). cbn [rexec]. rewrite (hget_live s c _ Hh). cbn [h_env].
    apply IH. intros c' Hc'. apply Hav. right; exact Hc'.
  - rewrite (Hav c (or_introl eq_refl)) in Hc. cbn [option_map] in Hc.
    cbn [rexec]. rewrite (hget_dead s c Hc). cbn [h_env empty_hash h_ts h_att h_deliv run rexec].
    unfold hput, hget. cbn [r_hashes r_queue]. rewrite nget_set_same. reflexivity.
Qed.

(* the announcement list key, wherever KEYS lists it, is skipped *)
Lemma r_load_loop_run s now ids qs acc :
  Forall (fun k => k = KQueue) qs ->
  run rexec (r_load_loop (map KId ids ++ qs) now acc) s =
  (s, RLoad (rev acc ++ map (fun id => (odef now (h_ts (hget s id)), id)) ids)).
Proof.
  intros Hq. revert acc; induction ids as [|id ids IH]; intros acc; cbn [map app r_load_loop].
  - rewrite app_nil_r. induction Hq as [|k qs -> _ IHq]; cbn [r_load_loop run]; [reflexivity|exact IHq].
  - cbn [run rexec]. destruct (h_ts (hget s id)) as [t|]; rewrite IH; cbn [rev odef];
      rewrite <- app_assoc; reflexivity.
Qed.

Definition rkeys (s : rstate) : list N := rev (sort_desc (akeys (r_hashes s))).

Lemma rkeys_perm s : Permutation (akeys (r_hashes s)) (rkeys s).
Proof. unfold rkeys. eapply Permutation_trans; [apply sort_desc_perm_self|apply Permutation_rev]. Qed.

Lemma rkeys_In s id : In id (rkeys s) <-> In id (akeys (r_hashes s)).
Proof.
  split; intros H; [eapply Permutation_in; [apply Permutation_sym, rkeys_perm|exact H]|
                    eapply Permutation_in; [apply rkeys_perm|exact H]].
Qed.

Lemma redis_load_run s now :
  run rexec (redis_prog (OLoad now)) s =
  (s, RLoad (map (fun id => (odef now (h_ts (hget s id)), id)) (rkeys s))).
Proof.
  cbn [redis_prog run rexec]. unfold rkeys. rewrite r_load_loop_run; [reflexivity|].
  destruct (r_queue s); repeat constructor.
Qed.

(* load() does not depend on the announcement list (and leaves it alone) *)
Lemma redis_load_queue_independent s q now :
  snd (run rexec (redis_prog (OLoad now)) (mkRedis (r_hashes s) q)) = snd (run rexec (redis_prog (OLoad now)) s) /\
  fst (run rexec (redis_prog (OLoad now)) s) = s.
Proof. rewrite !redis_load_run. split; reflexivity. Qed.

(* load() with half-written entries present: it does not raise, changes
   nothing, lists every live message with its timestamp and every half-written
   entry with the current clock *)
Lemma redis_load_with_orphans orph s r now :
  RRedisO orph s r ->
  fst (run rexec (redis_prog (OLoad now)) s) = s /\
  exists l, snd (run rexec (redis_prog (OLoad now)) s) = RLoad l /\
            Permutation l (map (fun p => (en_ts (snd p), fst p)) r ++ map (fun p => (now, fst p)) orph).
Proof.
  intros H. rewrite redis_load_run. cbn [fst snd]. split; [reflexivity|]. eexists. split; [reflexivity|].
  assert (Hdis : forall id, rlookup r id <> None -> alookup N.eqb orph id = None).
  { intros id Hl. destruct (rlookup r id) as [en|] eqn:E; [|congruence]. eapply live_not_orphan; eassumption. }
  apply NoDup_Permutation.
  - apply (NoDup_map_inv snd). rewrite map_map. cbn [snd]. rewrite map_id.
    eapply Permutation_NoDup; [apply rkeys_perm|apply (rr_nodup orph s r H)].
  - apply (NoDup_map_inv snd). rewrite map_app, !map_map. cbn [snd].
    apply NoDup_app_intro; [apply (rr_ref orph s r H)|apply (rr_orph orph s r H)|].
    intros id H1 H2. change (In id (akeys r)) in H1. change (In id (akeys orph)) in H2.
    apply nget_keys in H1. apply nget_keys in H2. apply H2. apply Hdis. exact H1.
  - intros [t id]. rewrite in_app_iff, !in_map_iff.
    pose proof (rr_rep orph s r H id) as Hr. unfold redis_rep, rlookup in Hr. split.
    + intros (k & E & Hin). inversion E; subst k t. apply rkeys_In in Hin. apply nget_keys in Hin.
      destruct (alookup N.eqb r id) as [en|] eqn:Er.
      * left. destruct Hr as (_ & e & ts0 & att & dl & Hh & Ha). exists (id, en). split; [|apply nget_In; exact Er].
        cbn [fst snd]. unfold hget. rewrite Hh. cbn [h_ts odef].
        destruct (accum_entry_fields _ _ _ _ _ Ha) as [-> _]. reflexivity.
      * right. destruct (alookup N.eqb orph id) as [e|] eqn:Eo; [|cbn in Hr; congruence].
        exists (id, e). split; [|apply nget_In; exact Eo].
        cbn [fst snd]. unfold hget. rewrite Hr. reflexivity.
    + intros [([k en] & E & Hin)|([k e] & E & Hin)]; cbn [fst snd] in E; inversion E; subst k t.
      * pose proof (nIn_get _ _ _ _ (rr_ref orph s r H) Hin) as Er. rewrite Er in Hr.
        destruct Hr as (_ & e & ts0 & att & dl & Hh & Ha). exists id. split.
        -- unfold hget. rewrite Hh. cbn [h_ts odef]. destruct (accum_entry_fields _ _ _ _ _ Ha) as [-> _]. reflexivity.
        -- apply rkeys_In. apply nget_keys. congruence.
      * pose proof (nIn_get _ _ _ _ (rr_orph orph s r H) Hin) as Eo.
        assert (Er : alookup N.eqb r id = None).
        { destruct (alookup N.eqb r id) as [en|] eqn:Er; [|reflexivity].
          rewrite (Hdis id) in Eo; [discriminate|unfold rlookup; congruence]. }
        rewrite Er, Eo in Hr. cbn [option_map] in Hr. exists id. split.
        -- unfold hget. rewrite Hr. reflexivity.
        -- apply rkeys_In. apply nget_keys. congruence.
Qed.

(* get() of a half-written entry: the envelope with attempts 0 *)
Lemma redis_get_orphan orph s r id e :
  RRedisO orph s r -> alookup N.eqb orph id = Some e ->
  run rexec (redis_prog (OGet id)) s = (s, RGot e 0).
Proof.
  intros H Eo. pose proof (rr_rep orph s r H id) as Hr. unfold redis_rep in Hr.
  destruct (rlookup r id) as [en|]; [destruct Hr as [Hn _]; congruence|].
  rewrite Eo in Hr. cbn [option_map] in Hr. cbn [redis_prog run rexec]. rewrite (hget_live s id _ Hr). reflexivity.
Qed.

(* the half-write itself: HSETNX of the envelope for an id nobody has *)
Lemma redis_orphan_injection orph s r id e :
  RRedisO orph s r -> rlookup r id = None -> alookup N.eqb orph id = None ->
  RRedisO (aset N.eqb orph id e) (fst (rexec s (QHsetnxEnv id e))) r.
Proof.
  intros H Er Eo. pose proof (rr_rep orph s r H id) as Hid. unfold redis_rep in Hid. rewrite Er, Eo in Hid.
  cbn [option_map] in Hid. cbn [rexec]. rewrite (hget_dead s id Hid). cbn [empty_hash h_env h_ts h_att h_deliv fst].
  unfold hput. split; cbn [r_hashes].
  - apply (rr_ref orph s r H).
  - apply nnodup_set, (rr_nodup orph s r H).
  - apply nnodup_set, (rr_orph orph s r H).
  - intros j. pose proof (rr_rep orph s r H j) as Hr. unfold redis_rep in *. cbn [r_hashes]. rewrite !nget_set.
    destruct (N.eqb_spec id j) as [<-|Hne].
    + rewrite Er. reflexivity.
    + exact Hr.
Qed.

Lemma redis_step_sim orph s r o :
  RRedisO orph s r -> wf_op r o = true -> avoids orph o ->
  RRedisO orph (fst (redis_step s o)) (fst (ref_step r o)) /\ res_match (snd (redis_step s o)) (snd (ref_step r o)).
Proof.
  intros H Hwf Hav. destruct o; unfold redis_step; cbn [redis_prog ref_step avoids] in *.
  - (* write *)
    rewrite (r_write_run orph s r e ts cands H Hav).
    destruct (first_free r cands) as [id|] eqn:Ef; cbn [fst snd]; [|split; [exact H|reflexivity]].
    split; [|reflexivity].
    assert (E : aset N.eqb (aset N.eqb (r_hashes s) id (mkHash (Some e) None None None)) id (mkHash (Some e) (Some ts) (Some 0) None)
                = aset N.eqb (r_hashes s) id (mkHash (Some e) (Some ts) (Some 0) None)).
    { unfold aset at 1 3. f_equal. unfold aset. cbn [adel]. rewrite N.eqb_refl.
      rewrite (del_absent N rhash N.eqb (adel N.eqb (r_hashes s) id) id); [reflexivity|apply nget_del_same]. }
    rewrite E. apply RRedis_put; [exact H|apply Hav; apply (first_free_spec r cands id Ef)|].
    exists e, ts, (Some 0), None. split; [reflexivity|apply accum_entry_new].
  - (* set_timestamp *)
    cbn [wf_op] in Hwf. destruct (rlookup r id) as [en|] eqn:E; [|discriminate].
    pose proof (rr_rep orph s r H id) as Hr. unfold redis_rep in Hr. rewrite E in Hr.
    destruct Hr as (Ho & e & ts0 & att & dl & Hh & Ha).
    cbn [run rexec fst snd]. rewrite (hget_live s id _ Hh). cbn [h_env h_ts h_att h_deliv]. unfold hput.
    split; [|reflexivity]. apply RRedis_put; [exact H|exact Ho|].
    exists e, ts, att, dl. split; [reflexivity|].
    rewrite (accum_entry_meta e ts0 _ _ en ts (odef 0 att) Ha).
    destruct (accum_entry_fields _ _ _ _ _ Ha) as [_ <-]. reflexivity.
  - (* increment_attempts *)
    cbn [wf_op] in Hwf. destruct (rlookup r id) as [en|] eqn:E; [|discriminate].
    pose proof (rr_rep orph s r H id) as Hr. unfold redis_rep in Hr. rewrite E in Hr.
    destruct Hr as (Ho & e & ts0 & att & dl & Hh & Ha).
    cbn [run rexec fst snd]. rewrite (hget_live s id _ Hh). cbn [h_env h_ts h_att h_deliv]. unfold hput.
    destruct (accum_entry_fields _ _ _ _ _ Ha) as [Hts Hatt].
    assert (En : match att with Some a => a + 1 | None => 1 end = en_att en + 1).
    { rewrite Hatt. destruct att; reflexivity. }
    rewrite En. split; [|reflexivity]. apply RRedis_put; [exact H|exact Ho|].
    exists e, ts0, (Some (en_att en + 1)), dl. split; [reflexivity|].
    cbn [odef]. rewrite (accum_entry_meta e ts0 _ _ en ts0 (en_att en + 1) Ha). rewrite Hts. reflexivity.
  - (* set_recipients_delivered *)
    destruct (rlookup r id) as [en|] eqn:E; [|cbn [wf_op] in Hwf; rewrite E in Hwf; discriminate].
    destruct (wf_deliv_round r id idxs tmps en Hwf E) as (l & Hl). rewrite Hl.
    pose proof (rr_rep orph s r H id) as Hr. unfold redis_rep in Hr. rewrite E in Hr.
    destruct Hr as (Ho & e & ts0 & att & dl & Hh & Ha).
    cbn [run rexec fst snd]. rewrite (hget_live s id _ Hh). cbn [h_env h_ts h_att h_deliv]. unfold hput.
    split; [|reflexivity].
    destruct (accum_entry_fields _ _ _ _ _ Ha) as [Hts Hatt].
    apply RRedis_put; [exact H|exact Ho|].
    exists e, ts0, att, (Some (accum_mark (odef [] dl) idxs)). split.
    + destruct dl; reflexivity.
    + cbn [odef]. rewrite (accum_entry_mark e ts0 _ _ en idxs l Ha Hl). rewrite Hts, Hatt. reflexivity.
  - (* load, whatever is on the announcement list *)
    subst orph. destruct (redis_load_with_orphans [] s r now H) as (Es & l & El & Hp).
    cbn [redis_prog] in Es, El. rewrite Es, El. split; [exact H|].
    cbn [res_match map] in *. rewrite app_nil_r in Hp. exact Hp.
  - (* get *)
    pose proof (rr_rep orph s r H id) as Hr. unfold redis_rep in Hr.
    cbn [run rexec fst snd]. destruct (rlookup r id) as [en|] eqn:E.
    + destruct Hr as (_ & e & ts0 & att & dl & Hh & Ha). rewrite (hget_live s id _ Hh). cbn [h_env h_att h_deliv].
      unfold accum_entry in Ha. destruct dl as [sc|]; cbn [odef] in Ha.
      * destruct (accum_get sc (e_rcpts e)); [|discriminate]. inversion Ha; subst en. cbn [run fst snd en_env en_att].
        split; [exact H|]. destruct att; reflexivity.
      * unfold accum_get in Ha. rewrite replay_nil, with_rcpts_same in Ha. inversion Ha; subst en.
        cbn [run fst snd en_env en_att]. split; [exact H|]. destruct att; reflexivity.
    + rewrite Hav in Hr. cbn [option_map] in Hr.
      rewrite (hget_dead s id Hr). cbn [empty_hash h_env run fst snd]. split; [exact H|reflexivity].
  - (* remove *)
    cbn [wf_op] in Hwf. destruct (rlookup r id) as [en|] eqn:E; [|discriminate].
    pose proof (live_not_orphan orph s r id en H E) as Ho.
    cbn [run rexec fst snd]. split; [|reflexivity]. split; cbn [r_hashes].
    + apply nnodup_del, (rr_ref orph s r H).
    + apply nnodup_del, (rr_nodup orph s r H).
    + apply (rr_orph orph s r H).
    + intros j. unfold redis_rep, rlookup. cbn [r_hashes]. rewrite !nget_del.
      destruct (N.eqb_spec id j) as [<-|Hne]; [rewrite Ho; reflexivity|apply (rr_rep orph s r H j)].
Qed.

Lemma redis_run_brun s ops : redis_run s ops = brun rstate redis_step s ops.
Proof. revert s; induction ops as [|o ops IH]; intros s; cbn [redis_run brun]; [reflexivity|].
  destruct (redis_step s o) as [s1 x]. rewrite IH. reflexivity. Qed.

Lemma oks_avoids orph s ops : Forall (avoids orph) ops -> oks rstate redis_step (fun _ o => avoids orph o) s ops.
Proof. intros H; revert s; induction H as [|o ops Ho Hops IH]; intros s; cbn [oks]; [exact I|split; [exact Ho|apply IH]]. Qed.

(* with half-written entries around, every operation that stays clear of them
   still answers like the reference store, and they stay as they are *)
Theorem refines_redis_orphans orph ops s r :
  RRedisO orph s r -> wf_ops r ops = true -> Forall (avoids orph) ops ->
  RRedisO orph (fst (redis_run s ops)) (fst (ref_run r ops)) /\
  Forall2 res_match (snd (redis_run s ops)) (snd (ref_run r ops)).
Proof.
  intros HR Hwf Hav. rewrite redis_run_brun.
  apply (run_sim rstate redis_step (RRedisO orph) (fun _ o => avoids orph o)); try assumption.
  - intros s0 r0 o H1 H2 H3. apply redis_step_sim; assumption.
  - apply oks_avoids. exact Hav.
Qed.

Lemma avoids_nil o : avoids [] o.
Proof. destruct o; cbn; try exact I; try reflexivity; intros; reflexivity. Qed.

Theorem refines_redis ops s r :
  RRedis s r -> wf_ops r ops = true ->
  RRedis (fst (redis_run s ops)) (fst (ref_run r ops)) /\
  Forall2 res_match (snd (redis_run s ops)) (snd (ref_run r ops)).
Proof.
  intros HR Hwf. apply refines_redis_orphans; [exact HR|exact Hwf|].
  apply Forall_forall. intros o _. apply avoids_nil.
Qed.

(* wait() only pops the announcement list: the hashes, hence every view and
   every later answer, are untouched *)
Lemma redis_wait_hashes s : r_hashes (fst (run rexec redis_wait s)) = r_hashes s.
Proof. cbn [redis_wait run rexec]. destruct (r_queue s) as [|x q]; reflexivity. Qed.

Lemma RRedis_wait orph s r : RRedisO orph s r -> RRedisO orph (fst (run rexec redis_wait s)) r.
Proof.
  intros H. pose proof (redis_wait_hashes s) as E.
  split; [apply (rr_ref orph s r H)|rewrite E; apply (rr_nodup orph s r H)|apply (rr_orph orph s r H)|].
  intros id. eapply redis_rep_other; [rewrite E; reflexivity|reflexivity|apply (rr_rep orph s r H id)].
Qed.

(* results of the storage operations of a run with wait() calls and
   half-writes in between *)
Fixpoint op_results (its : list ritem) (xs : list res) : list res :=
  match its, xs with
  | RIop _ :: its', x :: xs' => x :: op_results its' xs'
  | RIwait :: its', _ :: xs' => op_results its' xs'
  | RIorphan _ _ :: its', _ :: xs' => op_results its' xs'
  | _, _ => []
  end.

(* the runs the theorem covers: operations well-formed and clear of the
   half-written entries present at that moment; a half-write uses a fresh id *)
Fixpoint items_wf (orph : amap N envelope) (r : rstore) (its : list ritem) : Prop :=
  match its with
  | [] => True
  | RIop o :: its' => wf_op r o = true /\ avoids orph o /\ items_wf orph (fst (ref_step r o)) its'
  | RIwait :: its' => items_wf orph r its'
  | RIorphan id e :: its' => rlookup r id = None /\ alookup N.eqb orph id = None /\ items_wf (aset N.eqb orph id e) r its'
  end.

Theorem refines_redis_items its : forall orph s r,
  RRedisO orph s r -> items_wf orph r its ->
  (exists orph', RRedisO orph' (fst (redis_run_items s its)) (fst (ref_run r (ritem_ops its)))) /\
  Forall2 res_match (op_results its (snd (redis_run_items s its))) (snd (ref_run r (ritem_ops its))).
Proof.
  induction its as [|it its IH]; intros orph s r HR Hwf; cbn [redis_run_items ritem_ops].
  - cbn [ref_run fst snd op_results]. split; [exists orph; exact HR|constructor].
  - destruct it as [o| |id e]; cbn [ritem_step ritem_ops items_wf] in *.
    + destruct Hwf as (Hw1 & Hav & Hw2). cbn [ref_run].
      destruct (redis_step_sim orph s r o HR Hw1 Hav) as [HR1 Hm].
      destruct (redis_step s o) as [s1 x]. destruct (ref_step r o) as [r1 y]. cbn [fst snd] in *.
      destruct (IH orph s1 r1 HR1 Hw2) as [HR2 Hms].
      destruct (redis_run_items s1 its) as [s2 xs]. destruct (ref_run r1 (ritem_ops its)) as [r2 ys].
      cbn [fst snd op_results] in *. split; [exact HR2|constructor; assumption].
    + pose proof (RRedis_wait orph s r HR) as HR1.
      destruct (run rexec redis_wait s) as [s1 x]. cbn [fst] in HR1.
      destruct (IH orph s1 r HR1 Hwf) as [HR2 Hms].
      destruct (redis_run_items s1 its) as [s2 xs]. cbn [fst snd op_results] in *. split; assumption.
    + destruct Hwf as (Er & Eo & Hw2).
      pose proof (redis_orphan_injection orph s r id e HR Er Eo) as HR1.
      destruct (IH _ _ r HR1 Hw2) as [HR2 Hms].
      destruct (redis_run_items (fst (rexec s (QHsetnxEnv id e))) its) as [s2 xs]. cbn [fst snd op_results] in *.
      split; assumption.
Qed.

(* what wait() itself returns: the announcements in the order of the writes *)
Lemma redis_wait_fifo s x q :
  r_queue s = x :: q -> run rexec redis_wait s = (mkRedis (r_hashes s) q, RLoad [x]).
Proof. intros E. cbn [redis_wait run rexec]. rewrite E. reflexivity. Qed.

Lemma redis_write_announces orph s r e ts cands tmps id :
  RRedisO orph s r -> (forall c, In c cands -> alookup N.eqb orph c = None) ->
  snd (redis_step s (OWrite e ts cands tmps)) = RId id ->
  r_queue (fst (redis_step s (OWrite e ts cands tmps))) = r_queue s ++ [(ts, id)].
Proof.
  intros H Hav. unfold redis_step. cbn [redis_prog]. rewrite (r_write_run orph s r e ts cands H Hav).
  destruct (first_free r cands); cbn [fst snd r_queue]; [|discriminate]. intros E; inversion E; reflexivity.
Qed.

(* ================================================================= Cloud *)
Definition cloud_rep (s : cstate) (r : rstore) (id : N) : Prop :=
  match rlookup r id with
  | Some en => exists o, alookup N.eqb (c_objs s) id = Some o /\
                         accum_entry (o_env o) (o_ts o) (odef 0 (o_att o)) (odef [] (o_deliv o)) = Some en
  | None => alookup N.eqb (c_objs s) id = None
  end.

Record RCloud (s : cstate) (r : rstore) : Prop := {
  rc_ref : ref_ok r;
  rc_nodup : NoDup (akeys (c_objs s));
  rc_rep : forall id, cloud_rep s r id }.

Lemma RCloud_init fails : RCloud (cloud_init fails) [].
Proof. split; [constructor|constructor|intros id; reflexivity]. Qed.

Lemma cloud_view_rep s r id : RCloud s r -> cloud_view s id = rlookup r id.
Proof.
  intros H. pose proof (rc_rep s r H id) as Hr. unfold cloud_rep in Hr. unfold cloud_view.
  destruct (rlookup r id) as [en|].
  - destruct Hr as (o & Ho & Ha). rewrite Ho. unfold accum_entry in Ha.
    destruct (o_deliv o); destruct (o_att o); exact Ha.
  - rewrite Hr. reflexivity.
Qed.

Lemma cloud_pick_first_free s r cands :
  RCloud s r -> cloud_pick (c_objs s) cands = first_free r cands.
Proof.
  intros H. induction cands as [|c cs IH]; cbn [cloud_pick first_free]; [reflexivity|].
  rewrite nmem_get. pose proof (rc_rep s r H c) as Hc. unfold cloud_rep in Hc.
  destruct (rlookup r c) as [en|].
  - destruct Hc as (o & -> & _). exact IH.
  - rewrite Hc. reflexivity.
Qed.

Lemma RCloud_put s r id o en q f :
  RCloud s r -> accum_entry (o_env o) (o_ts o) (odef 0 (o_att o)) (odef [] (o_deliv o)) = Some en ->
  RCloud (mkCloud (aset N.eqb (c_objs s) id o) q f) (aset N.eqb r id en).
Proof.
  intros H Ha. split; cbn [c_objs].
  - apply nnodup_set, (rc_ref s r H).
  - apply nnodup_set, (rc_nodup s r H).
  - intros j. unfold cloud_rep, rlookup. cbn [c_objs]. rewrite !nget_set.
    destruct (N.eqb_spec id j) as [<-|Hne]; [exists o; split; [reflexivity|exact Ha]|apply (rc_rep s r H j)].
Qed.

Lemma RCloud_mq s r q f : RCloud s r -> RCloud (mkCloud (c_objs s) q f) r.
Proof. intros H. split; [apply (rc_ref s r H)|apply (rc_nodup s r H)|apply (rc_rep s r H)]. Qed.

Lemma cexec_mqueue_objs s id ts : c_objs (fst (cexec s (MQueue id ts))) = c_objs s.
Proof. cbn [cexec]. destruct (c_mqfail s) as [|[|] fl]; reflexivity. Qed.

Lemma cloud_step_sim mq s r o :
  RCloud s r -> wf_op r o = true ->
  RCloud (fst (cloud_step mq s o)) (fst (ref_step r o)) /\ res_match (snd (cloud_step mq s o)) (snd (ref_step r o)).
Proof.
  intros H Hwf. unfold cloud_step. destruct o; cbn [cloud_prog ref_step].
  - (* write *)
    cbn [run cexec]. rewrite (cloud_pick_first_free s r cands H).
    destruct (first_free r cands) as [id|] eqn:Ef; cbn [run fst snd]; [|split; [exact H|reflexivity]].
    assert (H1 : RCloud (mkCloud (aset N.eqb (c_objs s) id (mkObj e ts None None)) (c_mq s) (c_mqfail s))
                        (aset N.eqb r id (mkEntry e ts 0))).
    { apply RCloud_put; [exact H|]. cbn [o_env o_ts o_att o_deliv odef]. apply accum_entry_new. }
    destruct mq; cbn [run]; [|split; [exact H1|reflexivity]].
    destruct (cexec _ (MQueue id ts)) as [s2 a] eqn:E2. cbn [run fst snd]. split; [|reflexivity].
    pose proof (cexec_mqueue_objs (mkCloud (aset N.eqb (c_objs s) id (mkObj e ts None None)) (c_mq s) (c_mqfail s)) id ts) as Hobj.
    rewrite E2 in Hobj. cbn [fst c_objs] in Hobj.
    destruct s2 as [objs2 q2 f2]. cbn [c_objs] in Hobj. subst objs2.
    apply (RCloud_mq _ _ q2 f2) in H1. exact H1.
  - (* set_timestamp *)
    cbn [wf_op] in Hwf. destruct (rlookup r id) as [en|] eqn:E; [|discriminate].
    pose proof (rc_rep s r H id) as Hr. unfold cloud_rep in Hr. rewrite E in Hr. destruct Hr as (o & Ho & Ha).
    cbn [run cexec]. rewrite Ho. cbn [run fst snd or_else]. split; [|reflexivity].
    apply RCloud_put; [exact H|]. cbn [o_env o_ts o_att o_deliv].
    rewrite (accum_entry_meta _ _ _ _ en ts (odef 0 (o_att o)) Ha).
    destruct (accum_entry_fields _ _ _ _ _ Ha) as [_ <-]. reflexivity.
  - (* increment_attempts *)
    cbn [wf_op] in Hwf. destruct (rlookup r id) as [en|] eqn:E; [|discriminate].
    pose proof (rc_rep s r H id) as Hr. unfold cloud_rep in Hr. rewrite E in Hr. destruct Hr as (o & Ho & Ha).
    destruct (accum_entry_fields _ _ _ _ _ Ha) as [Hts Hatt].
    cbn [run cexec]. rewrite Ho. cbn [run cexec]. rewrite Ho. cbn [run fst snd or_else].
    assert (En : match o_att o with Some n => n | None => 0 end + 1 = en_att en + 1) by (rewrite Hatt; destruct (o_att o); reflexivity).
    rewrite En. split; [|reflexivity].
    apply RCloud_put; [exact H|]. cbn [o_env o_ts o_att o_deliv odef].
    rewrite (accum_entry_meta _ _ _ _ en (o_ts o) (en_att en + 1) Ha). rewrite Hts. reflexivity.
  - (* set_recipients_delivered *)
    destruct (rlookup r id) as [en|] eqn:E; [|cbn [wf_op] in Hwf; rewrite E in Hwf; discriminate].
    destruct (wf_deliv_round r id idxs tmps en Hwf E) as (l & Hl). rewrite Hl.
    pose proof (rc_rep s r H id) as Hr. unfold cloud_rep in Hr. rewrite E in Hr. destruct Hr as (o & Ho & Ha).
    destruct (accum_entry_fields _ _ _ _ _ Ha) as [Hts Hatt].
    cbn [run cexec]. rewrite Ho. cbn [run cexec]. rewrite Ho. cbn [run fst snd or_else]. split; [|reflexivity].
    apply RCloud_put; [exact H|]. cbn [o_env o_ts o_att o_deliv odef].
    assert (Ed : match o_deliv o with Some l0 => l0 | None => [] end = odef [] (o_deliv o)) by reflexivity.
    rewrite Ed, (accum_entry_mark _ _ _ _ en idxs l Ha Hl), Hts, Hatt. reflexivity.
  - (* load *)
    cbn [run cexec fst snd]. split; [exact H|]. cbn [res_match].
    apply load_perm; [apply (rc_nodup s r H)|apply (rc_ref s r H)|].
    intros id. pose proof (rc_rep s r H id) as Hr. unfold cloud_rep, rlookup in Hr.
    destruct (alookup N.eqb r id) as [en|].
    + destruct Hr as (o & -> & Ha). cbn [option_map]. destruct (accum_entry_fields _ _ _ _ _ Ha) as [-> _]. reflexivity.
    + rewrite Hr. reflexivity.
  - (* get *)
    pose proof (rc_rep s r H id) as Hr. unfold cloud_rep in Hr. cbn [run cexec].
    destruct (rlookup r id) as [en|] eqn:E.
    + destruct Hr as (o & Ho & Ha). rewrite Ho. unfold accum_entry in Ha.
      assert (Ed : match o_deliv o with Some l0 => l0 | None => [] end = odef [] (o_deliv o)) by reflexivity.
      rewrite Ed. destruct (accum_get (odef [] (o_deliv o)) (e_rcpts (o_env o))); [|discriminate].
      inversion Ha; subst en. cbn [run fst snd en_env en_att]. split; [exact H|]. destruct (o_att o); reflexivity.
    + rewrite Hr. cbn [run fst snd]. split; [exact H|reflexivity].
  - (* remove *)
    cbn [wf_op] in Hwf. destruct (rlookup r id) as [en|] eqn:E; [|discriminate].
    pose proof (rc_rep s r H id) as Hr. unfold cloud_rep in Hr. rewrite E in Hr. destruct Hr as (o & Ho & Ha).
    cbn [run cexec]. rewrite Ho. cbn [run fst snd]. split; [|reflexivity]. split; cbn [c_objs].
    + apply nnodup_del, (rc_ref s r H).
    + apply nnodup_del, (rc_nodup s r H).
    + intros j. unfold cloud_rep, rlookup. cbn [c_objs]. rewrite !nget_del.
      destruct (N.eqb_spec id j); [reflexivity|apply (rc_rep s r H j)].
Qed.

Lemma cloud_run_brun mq s ops : cloud_run mq s ops = brun cstate (cloud_step mq) s ops.
Proof. revert s; induction ops as [|o ops IH]; intros s; cbn [cloud_run brun]; [reflexivity|].
  destruct (cloud_step mq s o) as [s1 x]. rewrite IH. reflexivity. Qed.

Theorem refines_cloud mq ops s r :
  RCloud s r -> wf_ops r ops = true ->
  RCloud (fst (cloud_run mq s ops)) (fst (ref_run r ops)) /\
  Forall2 res_match (snd (cloud_run mq s ops)) (snd (ref_run r ops)).
Proof.
  intros HR Hwf. rewrite cloud_run_brun.
  apply (run_sim cstate (cloud_step mq) RCloud (fun _ _ => True)); try assumption.
  - intros s0 r0 o H1 H2 _. apply cloud_step_sim; assumption.
  - apply oks_true.
Qed.

(* ================================================================== Disk *)
Lemma first_free_split r cands id :
  first_free r cands = Some id ->
  exists pre post, cands = pre ++ id :: post /\ (forall c, In c pre -> rlookup r c <> None) /\ rlookup r id = None.
Proof.
  induction cands as [|c cs IH]; cbn [first_free]; [discriminate|].
  destruct (rlookup r c) eqn:E.
  - intros H. destruct (IH H) as (pre & post & -> & Hp & Hi).
    exists (c :: pre), post. split; [reflexivity|]. split; [|exact Hi].
    intros c' [<-|Hc']; [congruence|apply Hp; exact Hc'].
  - intros H; inversion H; subst. exists [], cs. split; [reflexivity|]. split; [intros c' []|exact E].
Qed.

Lemma first_free_none r cands : first_free r cands = None -> forall c, In c cands -> rlookup r c <> None.
Proof.
  induction cands as [|c cs IH]; cbn [first_free]; [intros _ c []|].
  destruct (rlookup r c) eqn:E; [|discriminate].
  intros H c' [<-|Hc']; [congruence|apply IH; assumption].
Qed.

Definition tmps_ok (o : op) : Prop :=
  match o with
  | OWrite _ _ _ tmps => (2 <= length tmps)%nat
  | OSetTs _ _ tmps | OIncr _ tmps | ODeliv _ _ tmps => (1 <= length tmps)%nat
  | _ => True
  end.

Section DiskRefine.
  Variable enc_env : envelope -> bytes.
  Variable dec_env : bytes -> option envelope.
  Variable enc_meta : meta -> bytes.
  Variable dec_meta : bytes -> option meta.
  Variable chunk : wcfg.
  Hypothesis dec_enc_env : forall e, dec_env (enc_env e) = Some e.
  Hypothesis dec_enc_meta : forall m, dec_meta (enc_meta m) = Some m.
  Hypothesis enc_env_nonempty : forall e, enc_env e <> [].
  Hypothesis enc_meta_nonempty : forall m, enc_meta m <> [].
  Hypothesis chunk_pos : wcfg_ok chunk.

  Notation dprog_of := (disk_prog enc_env dec_env enc_meta dec_meta chunk).
  Notation dstep := (disk_step enc_env dec_env enc_meta dec_meta chunk).
  Notation drun := (disk_run enc_env dec_env enc_meta dec_meta chunk).
  Notation dview := (disk_view dec_env dec_meta).

  Definition disk_rep (s : fs) (r : rstore) (id : N) : Prop :=
    match rlookup r id with
    | Some en => exists e m, fget s (PEnv id) = Some (enc_env e) /\ fget s (PMeta id) = Some (enc_meta m) /\
                             accum_entry e (m_ts m) (m_att m) (deliv_list m) = Some en
    | None => fget s (PEnv id) = None /\ fget s (PMeta id) = None
    end.

  Record RDisk (s : fs) (r : rstore) : Prop := {
    rk_ref : ref_ok r;
    rk_tmp : forall t, fget s (PTmp t) = None;
    rk_rep : forall id, disk_rep s r id }.

  Lemma RDisk_init : RDisk [] [].
  Proof. split; [constructor|reflexivity|intros id; split; reflexivity]. Qed.

  Lemma disk_view_rep s r id : RDisk s r -> dview s id = rlookup r id.
  Proof.
    intros H. pose proof (rk_rep s r H id) as Hr. unfold disk_rep in Hr. unfold disk_view.
    destruct (rlookup r id) as [en|].
    - destruct Hr as (e & m & -> & -> & Ha). rewrite dec_enc_meta, dec_enc_env. exact Ha.
    - destruct Hr as [-> ->]. reflexivity.
  Qed.

  Lemma RDisk_metas_ok s r : RDisk s r -> metas_ok dec_meta s.
  Proof.
    intros H id b E. pose proof (rk_rep s r H id) as Hr. unfold disk_rep in Hr.
    destruct (rlookup r id) as [en|].
    - destruct Hr as (e & m & _ & Hm & _). rewrite Hm in E. inversion E; subst. rewrite dec_enc_meta. discriminate.
    - destruct Hr as [_ Hm]. congruence.
  Qed.

  (* the state after an operation that rewrote the two files of id *)
  Lemma RDisk_put s s2 r id e m en ps :
    RDisk s r -> agree_but ps s s2 ->
    (forall q, In q ps -> q = PEnv id \/ q = PMeta id \/ exists t, q = PTmp t) ->
    fget s2 (PEnv id) = Some (enc_env e) -> fget s2 (PMeta id) = Some (enc_meta m) ->
    (forall t, In (PTmp t) ps -> fget s2 (PTmp t) = None) ->
    accum_entry e (m_ts m) (m_att m) (deliv_list m) = Some en ->
    RDisk s2 (aset N.eqb r id en).
  Proof.
    intros H Hag Hps He Hm Ht Ha. split.
    - apply nnodup_set, (rk_ref s r H).
    - intros t. destruct (in_dec path_eq_dec (PTmp t) ps) as [Hin|Hni]; [apply Ht; exact Hin|].
      rewrite (Hag _ Hni). apply (rk_tmp s r H).
    - intros j. unfold disk_rep, rlookup. rewrite nget_set. destruct (N.eqb_spec id j) as [<-|Hne].
      + exists e, m. repeat split; assumption.
      + assert (N1 : ~ In (PEnv j) ps) by (intros Hin; destruct (Hps _ Hin) as [E|[E|[t E]]]; inversion E; congruence).
        assert (N2 : ~ In (PMeta j) ps) by (intros Hin; destruct (Hps _ Hin) as [E|[E|[t E]]]; inversion E; congruence).
        pose proof (rk_rep s r H j) as Hr. unfold disk_rep, rlookup in Hr.
        rewrite (Hag _ N1), (Hag _ N2). exact Hr.
  Qed.

  Lemma disk_step_sim s r o :
    RDisk s r -> wf_op r o = true -> tmps_ok o ->
    RDisk (fst (dstep s o)) (fst (ref_step r o)) /\ res_match (snd (dstep s o)) (snd (ref_step r o)).
  Proof.
    intros H Hwf Htm.
    set (I := fun (_ : list (op * res)) (_ : op) (_ : fs) => True).
    set (B := fun (d : list (op * res)) (s' : fs) =>
                exists x, d = [(o, x)] /\ RDisk s' (fst (ref_step r o)) /\ res_match x (snd (ref_step r o))).
    assert (Hok : okrun fs dcmd dans dexec I B [] o s (dprog_of o)).
    2:{ pose proof (okrun_run I B [] o s _ Hok) as (x & E & HR & Hm). cbn [app] in E. inversion E; subst x.
        split; assumption. }
    destruct o; cbn [disk_prog tmps_ok] in *.
    - (* write *)
      destruct tmps as [|t1 [|t2 tmps]]; cbn [length] in Htm; try lia.
      cbn [ref_step] in B. destruct (first_free r cands) as [id|] eqn:Ef.
      + destruct (first_free_split r cands id Ef) as (pre & post & -> & Hpre & Hid).
        pose proof (rk_rep s r H id) as Hrid. unfold disk_rep in Hrid. rewrite Hid in Hrid. destruct Hrid as [He Hm].
        apply (okrun_write enc_env enc_meta chunk enc_env_nonempty enc_meta_nonempty chunk_pos I B);
          try exact He; try apply (rk_tmp s r H); try (intros; exact Logic.I).
        * intros c Hc. pose proof (rk_rep s r H c) as Hr. unfold disk_rep in Hr.
          destruct (rlookup r c) as [en|] eqn:Ec; [|exfalso; apply (Hpre c Hc Ec)].
          destruct Hr as (e' & m' & -> & _). discriminate.
        * intros s2 A G1 G2 F1 F2. split; [exact Logic.I|]. exists (RId id). split; [reflexivity|]. split; [|reflexivity].
          cbn [fst]. eapply (RDisk_put s s2 r id e (mkMeta ts 0 None)); try eassumption.
          -- intros q [<-|[<-|[<-|[<-|[]]]]]; eauto.
          -- intros t [E|[E|[E|[E|[]]]]]; inversion E; subst; assumption.
          -- cbn [m_ts m_att deliv_list m_deliv]. apply accum_entry_new.
      + apply (okrun_write_noid enc_env enc_meta chunk I B); [|exact Logic.I|].
        * intros c Hc. pose proof (first_free_none r cands Ef c Hc) as Hl.
          pose proof (rk_rep s r H c) as Hr. unfold disk_rep in Hr.
          destruct (rlookup r c) as [en|]; [|congruence]. destruct Hr as (e' & m' & -> & _). discriminate.
        * exists RNoId. split; [reflexivity|]. split; [exact H|reflexivity].
    - (* set_timestamp *)
      destruct tmps as [|t tmps]; cbn [length] in Htm; try lia.
      cbn [wf_op] in Hwf. cbn [ref_step] in B. destruct (rlookup r id) as [en|] eqn:E; [|discriminate].
      pose proof (rk_rep s r H id) as Hr. unfold disk_rep in Hr. rewrite E in Hr. destruct Hr as (e & m & He & Hm & Ha).
      apply (okrun_update enc_meta dec_meta chunk dec_enc_meta enc_meta_nonempty chunk_pos I B [] _ id (t :: tmps) t _ _ s m);
        try reflexivity; try exact Hm; try apply (rk_tmp s r H); try (intros; exact Logic.I).
      intros s2 A G F. split; [exact Logic.I|]. exists RUnit. split; [reflexivity|]. split; [|reflexivity]. cbn [fst].
      eapply (RDisk_put s s2 r id e _ _ [PTmp t; PMeta id]); try eassumption.
      + intros q [<-|[<-|[]]]; eauto.
      + rewrite A; [exact He|]. intros [E'|[E'|[]]]; discriminate.
      + intros t' [E'|[E'|[]]]; inversion E'; subst; assumption.
      + unfold deliv_list in *. cbn [m_ts m_att m_deliv].
        rewrite (accum_entry_meta e _ _ _ en ts (m_att m) Ha).
        destruct (accum_entry_fields _ _ _ _ _ Ha) as [_ <-]. reflexivity.
    - (* increment_attempts *)
      destruct tmps as [|t tmps]; cbn [length] in Htm; try lia.
      cbn [wf_op] in Hwf. cbn [ref_step] in B. destruct (rlookup r id) as [en|] eqn:E; [|discriminate].
      pose proof (rk_rep s r H id) as Hr. unfold disk_rep in Hr. rewrite E in Hr. destruct Hr as (e & m & He & Hm & Ha).
      destruct (accum_entry_fields _ _ _ _ _ Ha) as [Hts Hatt].
      apply (okrun_update enc_meta dec_meta chunk dec_enc_meta enc_meta_nonempty chunk_pos I B [] _ id (t :: tmps) t _ _ s m);
        try reflexivity; try exact Hm; try apply (rk_tmp s r H); try (intros; exact Logic.I).
      intros s2 A G F. split; [exact Logic.I|]. exists (RAtt (m_att m + 1)). split; [reflexivity|]. cbn [fst snd]. rewrite <- Hatt.
      split; [|reflexivity].
      eapply (RDisk_put s s2 r id e _ _ [PTmp t; PMeta id]); try eassumption.
      + intros q [<-|[<-|[]]]; eauto.
      + rewrite A; [exact He|]. intros [E'|[E'|[]]]; discriminate.
      + intros t' [E'|[E'|[]]]; inversion E'; subst; assumption.
      + unfold deliv_list in *. cbn [m_ts m_att m_deliv].
        rewrite (accum_entry_meta e _ _ _ en (m_ts m) (m_att m + 1) Ha). rewrite Hts, Hatt. reflexivity.
    - (* set_recipients_delivered *)
      destruct tmps as [|t tmps]; cbn [length] in Htm; try lia.
      cbn [ref_step] in B. destruct (rlookup r id) as [en|] eqn:E; [|cbn [wf_op] in Hwf; rewrite E in Hwf; discriminate].
      destruct (wf_deliv_round r id idxs (t :: tmps) en Hwf E) as (l & Hl).
      pose proof (rk_rep s r H id) as Hr. unfold disk_rep in Hr. rewrite E in Hr. destruct Hr as (e & m & He & Hm & Ha).
      destruct (accum_entry_fields _ _ _ _ _ Ha) as [Hts Hatt].
      apply (okrun_update enc_meta dec_meta chunk dec_enc_meta enc_meta_nonempty chunk_pos I B [] _ id (t :: tmps) t _ _ s m);
        try reflexivity; try exact Hm; try apply (rk_tmp s r H); try (intros; exact Logic.I).
      intros s2 A G F. split; [exact Logic.I|]. exists RUnit. split; [reflexivity|]. rewrite Hl. split; [|reflexivity]. cbn [fst].
      eapply (RDisk_put s s2 r id e _ _ [PTmp t; PMeta id]); try eassumption.
      + intros q [<-|[<-|[]]]; eauto.
      + rewrite A; [exact He|]. intros [E'|[E'|[]]]; discriminate.
      + intros t' [E'|[E'|[]]]; inversion E'; subst; assumption.
      + unfold deliv_list in *. cbn [m_ts m_att m_deliv].
        rewrite (accum_entry_mark e _ _ _ en idxs l Ha Hl), Hts, Hatt. reflexivity.
    - (* load *)
      apply (okrun_readonly I B); [apply (readonly_load enc_env dec_env enc_meta dec_meta chunk now)|exact Logic.I|].
      change (Do CListdir _) with (dprog_of (OLoad now)).
      rewrite (load_run enc_env dec_env enc_meta dec_meta chunk s now (RDisk_metas_ok s r H)). cbn [snd].
      eexists. split; [reflexivity|]. split; [exact H|]. cbn [ref_step snd res_match].
      apply NoDup_Permutation.
      + apply NoDup_load_list, env_ids_NoDup.
      + apply (NoDup_map_inv snd). rewrite map_map. cbn [snd]. apply (rk_ref s r H).
      + intros [t id]. rewrite In_load_list, env_ids_In, in_map_iff.
        pose proof (rk_rep s r H id) as Hr. unfold disk_rep, rlookup in Hr. split.
        * intros (Henv & b & m & Eb & Ed & Et). destruct (alookup N.eqb r id) as [en|] eqn:Er.
          -- destruct Hr as (e & m' & _ & Hm' & Ha). rewrite Hm' in Eb. inversion Eb; subst b.
             rewrite dec_enc_meta in Ed. inversion Ed; subst m'.
             destruct (accum_entry_fields _ _ _ _ _ Ha) as [Hts _].
             exists (id, en). split; [cbn [fst snd]; congruence|apply nget_In; exact Er].
          -- destruct Hr as [He _]. contradiction.
        * intros ([k en] & Ek & Hin). cbn [fst snd] in Ek. inversion Ek; subst k t.
          rewrite (nIn_get _ _ _ _ (rk_ref s r H) Hin) in Hr. destruct Hr as (e & m & He & Hm & Ha).
          destruct (accum_entry_fields _ _ _ _ _ Ha) as [Hts _].
          split; [congruence|]. exists (enc_meta m), m. repeat split; [exact Hm|apply dec_enc_meta|symmetry; exact Hts].
    - (* get *)
      apply (okrun_readonly I B); [apply readonly_get|exact Logic.I|].
      change (d_get dec_env dec_meta id) with (dprog_of (OGet id)).
      cbn [disk_prog]. pose proof (rk_rep s r H id) as Hr. unfold disk_rep in Hr. cbn [ref_step].
      destruct (rlookup r id) as [en|] eqn:E.
      + destruct Hr as (e & m & He & Hm & Ha).
        rewrite (get_run_live enc_env dec_env enc_meta dec_meta dec_enc_env dec_enc_meta s id e m Hm He). cbn [snd].
        unfold accum_entry in Ha. destruct (accum_get (deliv_list m) (e_rcpts e)); [|discriminate].
        inversion Ha; subst en. eexists. split; [reflexivity|]. cbn [ref_step]. rewrite E. cbn [fst snd].
        split; [exact H|reflexivity].
      + destruct Hr as [He Hm]. rewrite (get_run_nometa dec_env dec_meta s id Hm). cbn [snd].
        eexists. split; [reflexivity|]. cbn [ref_step]. rewrite E. cbn [fst snd]. split; [exact H|reflexivity].
    - (* remove *)
      apply (okrun_remove enc_env dec_env enc_meta dec_meta chunk I B); try exact Logic.I.
      exists RUnit. split; [reflexivity|]. split; [|reflexivity]. cbn [ref_step fst]. split.
      + apply nnodup_del, (rk_ref s r H).
      + intros t. rewrite !fget_fdel_other by discriminate. apply (rk_tmp s r H).
      + intros j. unfold disk_rep, rlookup. rewrite nget_del. destruct (N.eqb_spec id j) as [<-|Hne].
        * split; [rewrite fget_fdel_other by discriminate; apply fget_fdel_same|apply fget_fdel_same].
        * rewrite !fget_fdel_other by congruence. apply (rk_rep s r H j).
  Qed.

  Lemma disk_run_brun s ops : drun s ops = brun fs dstep s ops.
  Proof. revert s; induction ops as [|o ops IH]; intros s; cbn [disk_run brun]; [reflexivity|].
    destruct (dstep s o) as [s1 x]. rewrite IH. reflexivity. Qed.

  Lemma oks_tmps s ops : Forall tmps_ok ops -> oks fs dstep (fun _ o => tmps_ok o) s ops.
  Proof. intros H; revert s; induction H as [|o ops Ho Hops IH]; intros s; cbn [oks]; [exact I|split; [exact Ho|apply IH]]. Qed.

  Theorem refines_disk ops s r :
    RDisk s r -> wf_ops r ops = true -> Forall tmps_ok ops ->
    RDisk (fst (drun s ops)) (fst (ref_run r ops)) /\
    Forall2 res_match (snd (drun s ops)) (snd (ref_run r ops)).
  Proof.
    intros HR Hwf Ht. rewrite disk_run_brun.
    apply (run_sim fs dstep RDisk (fun _ o => tmps_ok o)); try assumption.
    - intros s0 r0 o H1 H2 H3. apply disk_step_sim; assumption.
    - apply oks_tmps. exact Ht.
  Qed.
End DiskRefine.

(* ===================================== frame: sequential, every backend *)
Section SeqFrame.
  Variable St : Type.
  Variable step : St -> op -> St * res.
  Variable R : St -> rstore -> Prop.
  Variable view : St -> N -> option entry.
  Variable ok : St -> op -> Prop.
  Hypothesis view_rep : forall s r id, R s r -> view s id = rlookup r id.
  Hypothesis step_sim : forall s r o, R s r -> wf_op r o = true -> ok s o ->
      R (fst (step s o)) (fst (ref_step r o)) /\ res_match (snd (step s o)) (snd (ref_step r o)).

  (* an operation leaves every message it does not address exactly as it was *)
  Lemma seq_frame s r o j :
    R s r -> wf_op r o = true -> ok s o -> ref_target r o <> Some j ->
    view (fst (step s o)) j = view s j.
  Proof.
    intros HR Hwf Hok Hj. destruct (step_sim s r o HR Hwf Hok) as [HR' _].
    rewrite (view_rep _ _ j HR'), (view_rep _ _ j HR). apply ref_step_frame. exact Hj.
  Qed.
End SeqFrame.

(* ============================ frame: interleaved, the yielding backends *)
(* the operations of a thread all address one message: a write whose only
   candidate id is that message's id, and operations on that id *)
Definition owns (id : N) (o : op) : Prop :=
  match o with
  | OWrite _ _ cands _ => cands = [id]
  | OLoad _ => False
  | _ => op_id o = Some id
  end.

(* ---- redis *)
Lemma rexec_frame s c f k : rfp c = Some f -> f k = false -> rloc (fst (rexec s c)) k = rloc s k.
Proof.
  unfold rloc. destruct c as [id e|id ts|id ts|id|id|id l| |[id|]|id|id|]; cbn [rfp]; intros Hf Hk;
    inversion Hf; subst f; clear Hf; cbn [rexec]; unfold hput;
    try (apply N.eqb_neq in Hk);
    try reflexivity;
    try (cbn [fst r_hashes]; apply nget_set_other; exact Hk).
  - destruct (h_env (hget s id)); cbn [fst r_hashes]; [reflexivity|apply nget_set_other; exact Hk].
  - cbn [fst r_hashes]. apply nget_del_other. exact Hk.
Qed.

Lemma hget_loc s t id : rloc s id = rloc t id -> hget s id = hget t id.
Proof. unfold rloc, hget. intros ->. reflexivity. Qed.

Lemma rexec_local s t c f :
  rfp c = Some f -> (forall k, f k = true -> rloc s k = rloc t k) ->
  snd (rexec s c) = snd (rexec t c) /\ forall k, f k = true -> rloc (fst (rexec s c)) k = rloc (fst (rexec t c)) k.
Proof.
  destruct c as [id e|id ts|id ts|id|id|id l| |[id|]|id|id|]; cbn [rfp]; intros Hf Hag;
    inversion Hf; subst f; clear Hf;
    pose proof (hget_loc s t id (Hag id (N.eqb_refl id))) as Hh;
    cbn [rexec]; try rewrite Hh; unfold hput, rloc.
  - destruct (h_env (hget t id)); cbn [fst snd r_hashes]; (split; [reflexivity|]); intros k Hk.
    + apply Hag. exact Hk.
    + apply N.eqb_eq in Hk. subst k. rewrite !nget_set_same. reflexivity.
  - cbn [fst snd r_hashes]. split; [reflexivity|]. intros k Hk. apply N.eqb_eq in Hk. subst k.
    rewrite !nget_set_same. reflexivity.
  - cbn [fst snd r_hashes]. split; [reflexivity|]. intros k Hk. apply N.eqb_eq in Hk. subst k.
    rewrite !nget_set_same. reflexivity.
  - cbn [fst snd r_hashes]. split; [reflexivity|]. intros k Hk. apply N.eqb_eq in Hk. subst k.
    rewrite !nget_set_same. reflexivity.
  - cbn [fst snd]. split; [reflexivity|]. intros k Hk. apply Hag. exact Hk.
  - cbn [fst snd r_hashes]. split; [reflexivity|]. intros k Hk. apply N.eqb_eq in Hk. subst k.
    rewrite !nget_set_same. reflexivity.
  - cbn [fst snd]. split; [reflexivity|]. intros k Hk. apply Hag. exact Hk.
  - cbn [fst snd]. split; [reflexivity|]. intros k Hk. apply Hag. exact Hk.
  - cbn [fst snd r_hashes]. split; [reflexivity|]. intros k Hk. apply N.eqb_eq in Hk. subst k.
    rewrite !nget_del_same. reflexivity.
Qed.

Lemma redis_confined id o : owns id o -> confined rfp (N.eqb id) (redis_prog o).
Proof.
  assert (Hsub : forall x, N.eqb id x = true -> N.eqb id x = true) by (intros; assumption).
  destruct o; cbn [owns op_id redis_prog]; intros H; try contradiction; try (inversion H; subst).
  - cbn [r_write]. eapply conf_do; [reflexivity|exact Hsub|]. intros a.
    destruct a as [|[|]| | | | | | |]; try constructor.
    eapply conf_do; [reflexivity|exact Hsub|]. intros; constructor.
  - eapply conf_do; [reflexivity|exact Hsub|]. intros; constructor.
  - eapply conf_do; [reflexivity|exact Hsub|]. intros a. destruct a; constructor.
  - eapply conf_do; [reflexivity|exact Hsub|]. intros a.
    eapply conf_do; [reflexivity|exact Hsub|]. intros; constructor.
  - eapply conf_do; [reflexivity|exact Hsub|]. intros a.
    destruct a as [| | | | | |[e|] att dl| |]; try constructor.
    destruct dl as [l|]; [|constructor]. destruct (accum_get l (e_rcpts e)); constructor.
  - eapply conf_do; [reflexivity|exact Hsub|]. intros; constructor.
Qed.

Lemma redis_starts id o : owns id o -> exists c k, redis_prog o = Do c k.
Proof.
  destruct o; cbn [owns redis_prog]; intros H; try contradiction; try (subst; cbn [r_write]); eauto.
Qed.

Lemma redis_view_loc s t id : rloc s id = rloc t id -> redis_view s id = redis_view t id.
Proof. unfold rloc, redis_view. intros ->. reflexivity. Qed.

Lemma specs_disjoint {K} (F : N -> K -> bool) (specs : list (N * list op)) :
  NoDup (map fst specs) ->
  (forall a b k, a <> b -> F a k = true -> F b k = false) ->
  forall i j (spi spj : (K -> bool) * list op) k,
    i <> j -> nth_error (map (fun sp => (F (fst sp), snd sp)) specs) i = Some spi ->
    nth_error (map (fun sp => (F (fst sp), snd sp)) specs) j = Some spj ->
    fst spi k = true -> fst spj k = false.
Proof.
  intros Hnd HF i j spi spj k Hne Hi Hj Hk. rewrite nth_error_map in Hi, Hj.
  destruct (nth_error specs i) as [[a oa]|] eqn:Ei; [|discriminate].
  destruct (nth_error specs j) as [[b ob]|] eqn:Ej; [|discriminate].
  cbn [option_map fst snd] in Hi, Hj. inversion Hi; inversion Hj; subst. cbn [fst] in *.
  apply (HF a b k); [|exact Hk]. intros ->.
  apply Hne. apply (proj1 (NoDup_nth_error (map fst specs)) Hnd).
  - apply nth_error_Some. rewrite nth_error_map, Ei. discriminate.
  - rewrite !nth_error_map, Ei, Ej. reflexivity.
Qed.

Theorem frame_interleaved_redis s0 (specs : list (N * list op)) sch :
  NoDup (map fst specs) -> Forall (fun sp => Forall (owns (fst sp)) (snd sp)) specs ->
  let out := sched rexec (th_next redis_prog) sch s0 (map (fun sp => th_start (snd sp)) specs) in
  (forall i id ops, nth_error specs i = Some (id, ops) ->
     exists n si th,
       asteps rexec (th_next redis_prog) n s0 (th_start ops) = (si, th) /\
       nth_error (snd out) i = Some th /\
       redis_view (fst out) id = redis_view si id /\
       (th_next redis_prog th = None ->
        map fst (th_done th) = ops /\ seq_run rstate rcmd rans rexec redis_prog s0 ops = (si, map snd (th_done th)))) /\
  (forall j, ~ In j (map fst specs) -> redis_view (fst out) j = redis_view s0 j).
Proof.
  intros Hnd Hown out.
  pose proof (interleave_solo rstate rcmd rans N (option rhash) rexec rloc rfp rexec_frame rexec_local redis_prog s0
                (map (fun sp => (N.eqb (fst sp), snd sp)) specs)) as HI.
  assert (Hconf : Forall (fun sp : (N -> bool) * list op => Forall (fun o => confined rfp (fst sp) (redis_prog o)) (snd sp))
                         (map (fun sp => (N.eqb (fst sp), snd sp)) specs)).
  { rewrite Forall_map. eapply Forall_impl; [|exact Hown]. intros [id ops] H. cbn [fst snd] in *.
    eapply Forall_impl; [|exact H]. intros o Ho. apply redis_confined. exact Ho. }
  assert (Hdis := specs_disjoint N.eqb specs Hnd).
  specialize (HI Hconf).
  assert (Hd : forall a b k : N, a <> b -> N.eqb a k = true -> N.eqb b k = false).
  { intros a b k Hab Hk. apply N.eqb_eq in Hk. subst k. apply N.eqb_neq. congruence. }
  specialize (HI (Hdis Hd) sch). rewrite map_map in HI. cbn [snd] in HI. fold out in HI.
  destruct HI as [H1 H2]. split.
  - intros i id ops E.
    destruct (H1 i (N.eqb id) ops) as (n & si & th & R1 & R2 & R3).
    { rewrite nth_error_map, E. reflexivity. }
    exists n, si, th. split; [exact R1|]. split; [exact R2|]. split.
    + apply redis_view_loc. apply R3. apply N.eqb_refl.
    + intros Hfin. eapply solo_finished; [|exact R1|exact Hfin].
      rewrite Forall_forall in Hown. pose proof (Hown (id, ops) (nth_error_In _ _ E)) as Ho. cbn [fst snd] in Ho.
      eapply Forall_impl; [|exact Ho]. intros o Hoo. eapply redis_starts; exact Hoo.
  - intros j Hj. apply redis_view_loc. apply H2. intros i sp E. rewrite nth_error_map in E.
    destruct (nth_error specs i) as [[a oa]|] eqn:Ei; [|discriminate]. inversion E; subst. cbn [fst].
    apply N.eqb_neq. intros ->. apply Hj. apply in_map_iff. exists (j, oa). split; [reflexivity|].
    eapply nth_error_In; exact Ei.
Qed.

(* ---- cloud *)
Lemma cloud_pick_in objs cands id : cloud_pick objs cands = Some id -> In id cands.
Proof.
  induction cands as [|c cs IH]; cbn [cloud_pick]; [discriminate|].
  destruct (amem N.eqb objs c); [intros H; right; apply IH; exact H|intros H; inversion H; left; reflexivity].
Qed.

Lemma cloud_pick_agree o1 o2 cands :
  (forall c, In c cands -> alookup N.eqb o1 c = alookup N.eqb o2 c) -> cloud_pick o1 cands = cloud_pick o2 cands.
Proof.
  induction cands as [|c cs IH]; intros H; cbn [cloud_pick]; [reflexivity|].
  rewrite !nmem_get, (H c (or_introl eq_refl)). rewrite IH; [reflexivity|].
  intros c' Hc'. apply H. right; exact Hc'.
Qed.

Lemma existsb_eqb_In k l : existsb (N.eqb k) l = true <-> In k l.
Proof.
  rewrite existsb_exists. split.
  - intros (x & Hx & E). apply N.eqb_eq in E. subst. exact Hx.
  - intros H. exists k. split; [exact H|apply N.eqb_refl].
Qed.

Lemma cexec_frame s c f k : cfp c = Some f -> f k = false -> cloc (fst (cexec s c)) k = cloc s k.
Proof.
  unfold cloc. destruct c; cbn [cfp]; intros Hf Hk; inversion Hf; subst f; clear Hf; cbn [cexec];
    try (apply N.eqb_neq in Hk); try reflexivity.
  - destruct (cloud_pick (c_objs s) cands) as [id|] eqn:E; cbn [fst c_objs]; [|reflexivity].
    apply nget_set_other. intros ->. apply cloud_pick_in in E. apply existsb_eqb_In in E. congruence.
  - destruct (alookup N.eqb (c_objs s) id); cbn [fst c_objs]; [apply nget_set_other; exact Hk|reflexivity].
  - destruct (alookup N.eqb (c_objs s) id); cbn [fst c_objs]; [apply nget_del_other; exact Hk|reflexivity].
  - destruct (c_mqfail s) as [|[|] fl]; reflexivity.
Qed.

Lemma cexec_local s t c f :
  cfp c = Some f -> (forall k, f k = true -> cloc s k = cloc t k) ->
  snd (cexec s c) = snd (cexec t c) /\ forall k, f k = true -> cloc (fst (cexec s c)) k = cloc (fst (cexec t c)) k.
Proof.
  unfold cloc. destruct c; cbn [cfp]; intros Hf Hag; inversion Hf; subst f; clear Hf; cbn [cexec].
  - rewrite (cloud_pick_agree (c_objs s) (c_objs t) cands)
      by (intros c Hc; apply Hag; apply existsb_eqb_In; exact Hc).
    destruct (cloud_pick (c_objs t) cands) as [id|]; cbn [fst snd c_objs]; (split; [reflexivity|]); [|exact Hag].
    intros k Hk. rewrite !nget_set. destruct (id =? k); [reflexivity|apply Hag; exact Hk].
  - rewrite (Hag id (N.eqb_refl id)). destruct (alookup N.eqb (c_objs t) id); cbn [fst snd c_objs];
      (split; [reflexivity|]); [|exact Hag].
    intros k Hk. apply N.eqb_eq in Hk. subst k. rewrite !nget_set_same. reflexivity.
  - rewrite (Hag id (N.eqb_refl id)). cbn [fst snd]. split; [reflexivity|exact Hag].
  - rewrite (Hag id (N.eqb_refl id)). cbn [fst snd]. split; [reflexivity|exact Hag].
  - rewrite (Hag id (N.eqb_refl id)). destruct (alookup N.eqb (c_objs t) id); cbn [fst snd c_objs];
      (split; [reflexivity|]); [|exact Hag].
    intros k Hk. apply N.eqb_eq in Hk. subst k. rewrite !nget_del_same. reflexivity.
  - split; [destruct (c_mqfail s) as [|[|] ?]; destruct (c_mqfail t) as [|[|] ?]; reflexivity|].
    intros k Hk. discriminate.
Qed.

Lemma cloud_confined mq id o : owns id o -> confined cfp (N.eqb id) (cloud_prog mq o).
Proof.
  assert (Hsub : forall x, N.eqb id x = true -> N.eqb id x = true) by (intros; assumption).
  destruct o; cbn [owns op_id cloud_prog]; intros H; try contradiction; try (inversion H; subst).
  - eapply conf_do; [reflexivity| |].
    + intros x Hx. cbn [existsb] in Hx. rewrite orb_false_r in Hx. rewrite N.eqb_sym. exact Hx.
    + intros a. destruct a as [|[j|]| | | |]; try constructor.
      destruct mq; [|constructor]. eapply conf_do; [reflexivity|discriminate|]. intros; constructor.
  - eapply conf_do; [reflexivity|exact Hsub|]. intros a. destruct a; constructor.
  - eapply conf_do; [reflexivity|exact Hsub|]. intros a.
    destruct a as [| |[[[t a'] d]|]| | |]; try constructor.
    eapply conf_do; [reflexivity|exact Hsub|]. intros b. destruct b; constructor.
  - eapply conf_do; [reflexivity|exact Hsub|]. intros a.
    destruct a as [| |[[[t a'] d]|]| | |]; try constructor.
    eapply conf_do; [reflexivity|exact Hsub|]. intros b. destruct b; constructor.
  - eapply conf_do; [reflexivity|exact Hsub|]. intros a.
    destruct a as [| | |[[[[e t] a'] d]|]| |]; try constructor.
    destruct (accum_get _ _); constructor.
  - eapply conf_do; [reflexivity|exact Hsub|]. intros a. destruct a; constructor.
Qed.

Lemma cloud_starts mq id o : owns id o -> exists c k, cloud_prog mq o = Do c k.
Proof. destruct o; cbn [owns cloud_prog]; intros H; try contradiction; eauto. Qed.

Lemma cloud_view_loc s t id : cloc s id = cloc t id -> cloud_view s id = cloud_view t id.
Proof. unfold cloc, cloud_view. intros ->. reflexivity. Qed.

Theorem frame_interleaved_cloud mq s0 (specs : list (N * list op)) sch :
  NoDup (map fst specs) -> Forall (fun sp => Forall (owns (fst sp)) (snd sp)) specs ->
  let out := sched cexec (th_next (cloud_prog mq)) sch s0 (map (fun sp => th_start (snd sp)) specs) in
  (forall i id ops, nth_error specs i = Some (id, ops) ->
     exists n si th,
       asteps cexec (th_next (cloud_prog mq)) n s0 (th_start ops) = (si, th) /\
       nth_error (snd out) i = Some th /\
       cloud_view (fst out) id = cloud_view si id /\
       (th_next (cloud_prog mq) th = None ->
        map fst (th_done th) = ops /\ seq_run cstate ccmd cans cexec (cloud_prog mq) s0 ops = (si, map snd (th_done th)))) /\
  (forall j, ~ In j (map fst specs) -> cloud_view (fst out) j = cloud_view s0 j).
Proof.
  intros Hnd Hown out.
  pose proof (interleave_solo cstate ccmd cans N (option cobj) cexec cloc cfp cexec_frame cexec_local (cloud_prog mq) s0
                (map (fun sp => (N.eqb (fst sp), snd sp)) specs)) as HI.
  assert (Hconf : Forall (fun sp : (N -> bool) * list op => Forall (fun o => confined cfp (fst sp) (cloud_prog mq o)) (snd sp))
                         (map (fun sp => (N.eqb (fst sp), snd sp)) specs)).
  { rewrite Forall_map. eapply Forall_impl; [|exact Hown]. intros [id ops] H. cbn [fst snd] in *.
    eapply Forall_impl; [|exact H]. intros o Ho. apply cloud_confined. exact Ho. }
  assert (Hdis := specs_disjoint N.eqb specs Hnd).
  specialize (HI Hconf).
  assert (Hd : forall a b k : N, a <> b -> N.eqb a k = true -> N.eqb b k = false).
  { intros a b k Hab Hk. apply N.eqb_eq in Hk. subst k. apply N.eqb_neq. congruence. }
  specialize (HI (Hdis Hd) sch). rewrite map_map in HI. cbn [snd] in HI. fold out in HI.
  destruct HI as [H1 H2]. split.
  - intros i id ops E.
    destruct (H1 i (N.eqb id) ops) as (n & si & th & R1 & R2 & R3).
    { rewrite nth_error_map, E. reflexivity. }
    exists n, si, th. split; [exact R1|]. split; [exact R2|]. split.
    + apply cloud_view_loc. apply R3. apply N.eqb_refl.
    + intros Hfin. eapply solo_finished; [|exact R1|exact Hfin].
      rewrite Forall_forall in Hown. pose proof (Hown (id, ops) (nth_error_In _ _ E)) as Ho. cbn [fst snd] in Ho.
      eapply Forall_impl; [|exact Ho]. intros o Hoo. eapply cloud_starts; exact Hoo.
  - intros j Hj. apply cloud_view_loc. apply H2. intros i sp E. rewrite nth_error_map in E.
    destruct (nth_error specs i) as [[a oa]|] eqn:Ei; [|discriminate]. inversion E; subst. cbn [fst].
    apply N.eqb_neq. intros ->. apply Hj. apply in_map_iff. exists (j, oa). split; [reflexivity|].
    eapply nth_error_In; exact Ei.
Qed.

(* ---- disk *)
Definition dfoot (id : N) (tmps : list N) (q : path) : bool :=
  match q with
  | PEnv c | PMeta c => N.eqb id c
  | PTmp t => existsb (N.eqb t) tmps
  end.

Definition op_tmps (o : op) : list N :=
  match o with
  | OWrite _ _ _ tmps | OSetTs _ _ tmps | OIncr _ tmps | ODeliv _ _ tmps => tmps
  | _ => []
  end.

Section DiskFrame.
  Variable enc_env : envelope -> bytes.
  Variable dec_env : bytes -> option envelope.
  Variable enc_meta : meta -> bytes.
  Variable dec_meta : bytes -> option meta.
  Variable chunk : wcfg.
  Notation dprog_of := (disk_prog enc_env dec_env enc_meta dec_meta chunk).

  Lemma path_eqb_sub F p : F p = true -> forall x, path_eqb p x = true -> F x = true.
  Proof. intros H x E. apply path_eqb_eq in E. subst. exact H. Qed.

  Lemma confined_write_loop F t p k fuel : forall off rest,
    F p = true -> F (PTmp t) = true -> confined dfp F k ->
    confined dfp F (write_loop chunk fuel t off rest p k).
  Proof.
    assert (Hren : confined dfp F k -> F p = true -> F (PTmp t) = true ->
                   confined dfp F (Do (CRename t p) (fun _ => Do (CClose t) (fun _ => k)))).
    { intros Hk Hp Ht. eapply conf_do; [reflexivity| |intros; eapply conf_do; [reflexivity|apply path_eqb_sub; exact Ht|intros; exact Hk]].
      intros x Hx. apply orb_prop in Hx as [Hx|Hx]; [apply (path_eqb_sub F (PTmp t) Ht x Hx)|apply (path_eqb_sub F p Hp x Hx)]. }
    assert (Hcl : forall r : res, F (PTmp t) = true -> confined dfp F (Do (CClose t) (fun _ : dans => Ret r) : dprog)).
    { intros r Ht. eapply conf_do; [reflexivity|apply path_eqb_sub; exact Ht|intros; constructor]. }
    induction fuel as [|f IH]; intros off rest Hp Ht Hk; cbn [write_loop].
    - destruct (firstn (w_chunk chunk) rest) as [|x l].
      + eapply conf_do; [reflexivity|apply path_eqb_sub; exact Ht|intros; apply Hcl; exact Ht].
      + destruct (written chunk t off (length (x :: l))) as [w|]; [|apply Hcl; exact Ht].
        eapply conf_do; [reflexivity|apply path_eqb_sub; exact Ht|]. intros a.
        destruct (skipn w rest); [apply Hren; assumption|constructor].
    - destruct (firstn (w_chunk chunk) rest) as [|x l].
      + eapply conf_do; [reflexivity|apply path_eqb_sub; exact Ht|intros; apply Hcl; exact Ht].
      + destruct (written chunk t off (length (x :: l))) as [w|]; [|apply Hcl; exact Ht].
        eapply conf_do; [reflexivity|apply path_eqb_sub; exact Ht|]. intros a.
        destruct (skipn w rest); [apply Hren; assumption|apply IH; assumption].
  Qed.

  Lemma confined_dump F data t p k :
    F p = true -> F (PTmp t) = true -> confined dfp F k -> confined dfp F (dump chunk data p t k).
  Proof.
    intros Hp Ht Hk. unfold dump. eapply conf_do; [reflexivity|apply path_eqb_sub; exact Ht|].
    intros a. destruct a; try constructor; apply confined_write_loop; assumption.
  Qed.

  Lemma confined_update F id tmps f result :
    F (PMeta id) = true -> (forall t, In t tmps -> F (PTmp t) = true) ->
    confined dfp F (update_meta enc_meta dec_meta chunk id tmps f result).
  Proof.
    intros Hm Ht. unfold update_meta, read_meta.
    eapply conf_do; [reflexivity|apply path_eqb_sub; exact Hm|]. intros a.
    destruct a as [| | |[b|]|]; try constructor. destruct (dec_meta b); [|constructor].
    destruct tmps as [|t tmps]; [constructor|].
    apply confined_dump; [exact Hm|apply Ht; left; reflexivity|constructor].
  Qed.

  Lemma disk_confined id tmps o :
    owns id o -> (forall t, In t (op_tmps o) -> In t tmps) -> confined dfp (dfoot id tmps) (dprog_of o).
  Proof.
    assert (He : dfoot id tmps (PEnv id) = true) by apply N.eqb_refl.
    assert (Hm : dfoot id tmps (PMeta id) = true) by apply N.eqb_refl.
    assert (Htm : forall t, In t tmps -> dfoot id tmps (PTmp t) = true) by (intros t Ht; apply existsb_eqb_In; exact Ht).
    destruct o; cbn [owns op_id disk_prog op_tmps]; intros H Hsub; try contradiction; try (inversion H; subst).
    - cbn [d_write]. eapply conf_do; [reflexivity|apply path_eqb_sub; exact He|]. intros a.
      destruct a as [| |[|]| |]; try constructor;
        (destruct tmps0 as [|t1 [|t2 tmps0]]; try constructor;
         apply confined_dump; [exact He|apply Htm, Hsub; left; reflexivity|];
         apply confined_dump; [exact Hm|apply Htm, Hsub; right; left; reflexivity|constructor]).
    - apply confined_update; [exact Hm|intros t Ht; apply Htm, Hsub, Ht].
    - apply confined_update; [exact Hm|intros t Ht; apply Htm, Hsub, Ht].
    - apply confined_update; [exact Hm|intros t Ht; apply Htm, Hsub, Ht].
    - unfold d_get, read_meta. eapply conf_do; [reflexivity|apply path_eqb_sub; exact Hm|]. intros a.
      destruct a as [| | |[b|]|]; try constructor. destruct (dec_meta b); [|constructor].
      eapply conf_do; [reflexivity|apply path_eqb_sub; exact He|]. intros a.
      destruct a as [| | |[b'|]|]; try constructor. destruct (dec_env b'); [|constructor].
      destruct (accum_get _ _); constructor.
    - eapply conf_do; [reflexivity|apply path_eqb_sub; exact He|]. intros a.
      eapply conf_do; [reflexivity|apply path_eqb_sub; exact Hm|]. intros; constructor.
  Qed.

  Lemma disk_starts id o : owns id o -> exists c k, dprog_of o = Do c k.
  Proof.
    destruct o; cbn [owns disk_prog]; intros H; try contradiction; try (subst; cbn [d_write]);
      unfold update_meta, d_get, read_meta; eauto.
  Qed.

  (* threads = (message id, the temp names its operations may be handed, its operations) *)
  Definition dspec := (N * list N * list op)%type.
  Definition dspec_ok (sp : dspec) : Prop :=
    let '(id, tmps, ops) := sp in
    Forall (fun o => owns id o /\ forall t, In t (op_tmps o) -> In t tmps) ops.

  Theorem frame_interleaved_disk s0 (specs : list dspec) sch :
    NoDup (map (fun sp => fst (fst sp)) specs) ->
    (forall i j spi spj t, i <> j -> nth_error specs i = Some spi -> nth_error specs j = Some spj ->
                           In t (snd (fst spi)) -> ~ In t (snd (fst spj))) ->
    Forall dspec_ok specs ->
    let out := sched dexec (th_next dprog_of) sch s0 (map (fun sp => th_start (snd sp)) specs) in
    (forall i id tmps ops, nth_error specs i = Some (id, tmps, ops) ->
       exists n si th,
         asteps dexec (th_next dprog_of) n s0 (th_start ops) = (si, th) /\
         nth_error (snd out) i = Some th /\
         fget (fst out) (PEnv id) = fget si (PEnv id) /\ fget (fst out) (PMeta id) = fget si (PMeta id) /\
         disk_view dec_env dec_meta (fst out) id = disk_view dec_env dec_meta si id /\
         (th_next dprog_of th = None ->
          map fst (th_done th) = ops /\ seq_run fs dcmd dans dexec dprog_of s0 ops = (si, map snd (th_done th)))) /\
    (forall q, (forall sp, In sp specs -> dfoot (fst (fst sp)) (snd (fst sp)) q = false) -> fget (fst out) q = fget s0 q).
  Proof.
    intros Hnd Htd Hok out.
    pose proof (interleave_solo fs dcmd dans path (option bytes) dexec dloc dfp dexec_frame dexec_local dprog_of s0
                  (map (fun sp : dspec => (dfoot (fst (fst sp)) (snd (fst sp)), snd sp)) specs)) as HI.
    assert (Hconf : Forall (fun sp : (path -> bool) * list op => Forall (fun o => confined dfp (fst sp) (dprog_of o)) (snd sp))
                           (map (fun sp : dspec => (dfoot (fst (fst sp)) (snd (fst sp)), snd sp)) specs)).
    { rewrite Forall_map. eapply Forall_impl; [|exact Hok]. intros [[id tmps] ops] H. cbn [fst snd dspec_ok] in *.
      eapply Forall_impl; [|exact H]. intros o [Ho Ht]. apply disk_confined; assumption. }
    specialize (HI Hconf).
    assert (Hdis : forall i j (spi spj : (path -> bool) * list op) k,
               i <> j ->
               nth_error (map (fun sp : dspec => (dfoot (fst (fst sp)) (snd (fst sp)), snd sp)) specs) i = Some spi ->
               nth_error (map (fun sp : dspec => (dfoot (fst (fst sp)) (snd (fst sp)), snd sp)) specs) j = Some spj ->
               fst spi k = true -> fst spj k = false).
    { intros i j spi spj k Hne Hi Hj Hk. rewrite nth_error_map in Hi, Hj.
      destruct (nth_error specs i) as [[[a ta] oa]|] eqn:Ei; [|discriminate].
      destruct (nth_error specs j) as [[[b tb] ob]|] eqn:Ej; [|discriminate].
      cbn [option_map fst snd] in Hi, Hj. inversion Hi; inversion Hj; subst. cbn [fst] in *.
      assert (Hab : a <> b).
      { intros ->. apply Hne. apply (proj1 (NoDup_nth_error (map (fun sp : dspec => fst (fst sp)) specs)) Hnd).
        - apply nth_error_Some. rewrite nth_error_map, Ei. discriminate.
        - rewrite !nth_error_map, Ei, Ej. reflexivity. }
      destruct k as [c|c|t]; cbn [dfoot] in *.
      - apply N.eqb_eq in Hk. subst c. apply N.eqb_neq. congruence.
      - apply N.eqb_eq in Hk. subst c. apply N.eqb_neq. congruence.
      - apply existsb_eqb_In in Hk. destruct (existsb (N.eqb t) tb) eqn:E; [|reflexivity].
        apply existsb_eqb_In in E. exfalso. eapply (Htd i j _ _ t Hne Ei Ej); cbn [fst snd]; assumption. }
    specialize (HI Hdis sch). rewrite map_map in HI. cbn [snd] in HI. fold out in HI.
    destruct HI as [H1 H2]. split.
    - intros i id tmps ops E.
      destruct (H1 i (dfoot id tmps) ops) as (n & si & th & R1 & R2 & R3).
      { rewrite nth_error_map, E. reflexivity. }
      assert (Le : fget (fst out) (PEnv id) = fget si (PEnv id)) by (apply R3; apply N.eqb_refl).
      assert (Lm : fget (fst out) (PMeta id) = fget si (PMeta id)) by (apply R3; apply N.eqb_refl).
      exists n, si, th. split; [exact R1|]. split; [exact R2|]. split; [exact Le|]. split; [exact Lm|]. split.
      + apply disk_view_ext; assumption.
      + intros Hfin. eapply solo_finished; [|exact R1|exact Hfin].
        rewrite Forall_forall in Hok. pose proof (Hok (id, tmps, ops) (nth_error_In _ _ E)) as Ho. cbn [dspec_ok] in Ho.
        eapply Forall_impl; [|exact Ho]. intros o [Hoo _]. eapply disk_starts; exact Hoo.
    - intros q Hq. apply H2. intros i sp E. rewrite nth_error_map in E.
      destruct (nth_error specs i) as [sp'|] eqn:Ei; [|discriminate]. inversion E; subst. cbn [fst].
      apply Hq. eapply nth_error_In; exact Ei.
  Qed.
End DiskFrame.

(* ===================================== what the reference store promises *)
Lemma ref_write_fresh r e ts cands tmps r' id :
  ref_step r (OWrite e ts cands tmps) = (r', RId id) ->
  rlookup r id = None /\ In id cands /\ rlookup r' id = Some (mkEntry e ts 0).
Proof.
  cbn [ref_step]. destruct (first_free r cands) as [c|] eqn:E; [|discriminate].
  intros H; inversion H; subst. destruct (first_free_spec r cands id E) as [H1 H2].
  repeat split; [exact H1|exact H2|apply nget_set_same].
Qed.

Lemma ref_incr r id tmps en :
  rlookup r id = Some en ->
  snd (ref_step r (OIncr id tmps)) = RAtt (en_att en + 1) /\
  rlookup (fst (ref_step r (OIncr id tmps))) id = Some (mkEntry (en_env en) (en_ts en) (en_att en + 1)).
Proof. intros E. cbn [ref_step]. rewrite E. cbn [fst snd]. split; [reflexivity|apply nget_set_same]. Qed.

Lemma ref_get r id :
  snd (ref_step r (OGet id)) = match rlookup r id with Some en => RGot (en_env en) (en_att en) | None => RMissing end.
Proof. cbn [ref_step]. destruct (rlookup r id); reflexivity. Qed.

Lemma ref_load_spec r now ts id :
  ref_ok r ->
  (exists l, snd (ref_step r (OLoad now)) = RLoad l /\
             (In (ts, id) l <-> exists en, rlookup r id = Some en /\ en_ts en = ts)).
Proof.
  intros Hok. eexists. split; [reflexivity|]. rewrite in_map_iff. split.
  - intros ([k en] & E & Hin). cbn [fst snd] in E. inversion E; subst.
    exists en. split; [apply nIn_get; assumption|reflexivity].
  - intros (en & E & Hts). exists (id, en). split; [cbn [fst snd]; congruence|apply nget_In; exact E].
Qed.

Definition writes_avoid (id : N) (o : op) : Prop :=
  match o with OWrite _ _ cands _ => ~ In id cands | _ => True end.

(* removed is gone for good: until a write draws the very same id again *)
Lemma ref_removed_gone r id ops :
  rlookup (fst (ref_step r (ORemove id))) id = None /\
  (rlookup r id = None -> Forall (writes_avoid id) ops -> rlookup (fst (ref_run r ops)) id = None).
Proof.
  split; [cbn [ref_step fst]; apply nget_del_same|].
  revert r; induction ops as [|o ops IH]; intros r Hr Hops; cbn [ref_run]; [exact Hr|].
  inversion Hops as [|? ? Ho Hops']; subst.
  destruct (ref_step r o) as [r1 x] eqn:E1. destruct (ref_run r1 ops) as [r2 xs] eqn:E2. cbn [fst].
  assert (Hr1 : rlookup r1 id = None).
  { change r1 with (fst (r1, x)). rewrite <- E1.
    destruct (N.eq_dec 0 0) as [_|]; [|congruence].
    destruct o; cbn [ref_step writes_avoid] in *.
    - destruct (first_free r cands) as [c|] eqn:Ef; cbn [fst]; [|exact Hr].
      destruct (first_free_spec r cands c Ef) as [_ Hin].
      unfold rlookup. rewrite nget_set_other; [exact Hr|]. intros ->. contradiction.
    - destruct (N.eq_dec id0 id) as [->|Hne]; [rewrite Hr; exact Hr|].
      destruct (rlookup r id0); cbn [fst]; [unfold rlookup; rewrite nget_set_other by exact Hne|]; exact Hr.
    - destruct (N.eq_dec id0 id) as [->|Hne]; [rewrite Hr; exact Hr|].
      destruct (rlookup r id0); cbn [fst]; [unfold rlookup; rewrite nget_set_other by exact Hne|]; exact Hr.
    - destruct (N.eq_dec id0 id) as [->|Hne]; [rewrite Hr; exact Hr|].
      destruct (rlookup r id0) as [en|]; cbn [fst]; [|exact Hr].
      destruct (round idxs (e_rcpts (en_env en))); cbn [fst]; [unfold rlookup; rewrite nget_set_other by exact Hne|]; exact Hr.
    - exact Hr.
    - destruct (rlookup r id0); exact Hr.
    - cbn [fst]. unfold rlookup. rewrite nget_del. destruct (id0 =? id); [reflexivity|exact Hr]. }
  change r2 with (fst (r2, xs)). rewrite <- E2. apply IH; assumption.
Qed.

(* marked recipients are absent from later gets, the others stay, in order *)
Lemma ref_marked_absent r id tmps en (p : bytes -> bool) :
  rlookup r id = Some en ->
  let o := ODeliv id (positions p (e_rcpts (en_env en)) 0) tmps in
  snd (ref_step r o) = RUnit /\
  snd (ref_step (fst (ref_step r o)) (OGet id)) =
    RGot (with_rcpts (en_env en) (filter (fun x => negb (p x)) (e_rcpts (en_env en)))) (en_att en).
Proof.
  intros E o. unfold o. cbn [ref_step]. rewrite E, round_positions. cbn [fst snd]. split; [reflexivity|].
  unfold rlookup. rewrite nget_set_same. reflexivity.
Qed.

Example wf_ops_example :
  wf_ops [] [OWrite (mkEnv [1] [[2]; [3]; [4]] [5]) 10 [7; 8] [1; 2]; OWrite (mkEnv [] [[2]] []) 11 [7; 8] [3; 4];
             OIncr 7 [5]; ODeliv 7 [2; 0] [6]; OSetTs 8 12 [7]; OLoad 0; OGet 7; ORemove 7; OGet 7] = true /\
  snd (ref_run [] [OWrite (mkEnv [1] [[2]; [3]; [4]] [5]) 10 [7; 8] [1; 2]; OWrite (mkEnv [] [[2]] []) 11 [7; 8] [3; 4];
             OIncr 7 [5]; ODeliv 7 [2; 0] [6]; OSetTs 8 12 [7]; OLoad 0; OGet 7; ORemove 7; OGet 7]) =
  [RId 7; RId 8; RAtt 1; RUnit; RUnit; RLoad [(12, 8); (10, 7)]; RGot (mkEnv [1] [[3]] [5]) 1; RUnit; RMissing].
Proof. split; vm_compute; reflexivity. Qed.

(* ============================ load and get are read-only on every substrate *)
Definition is_read (o : op) : bool := match o with OLoad _ | OGet _ => true | _ => false end.

Lemma redis_read_ro o : is_read o = true -> ro_prog rstate rcmd rans rexec (redis_prog o).
Proof.
  destruct o; cbn [is_read]; try discriminate; intros _; cbn [redis_prog].
  - apply rop_do; [reflexivity|]. intros a. destruct a; try apply rop_ret.
    generalize (@nil (N * N)) as acc. induction l as [|k ks IH]; intros acc; cbn [r_load_loop]; [apply rop_ret|].
    destruct k as [id|]; [|apply IH].
    apply rop_do; [reflexivity|]. intros a. destruct a as [| | |[t|]| | | | |]; try apply rop_ret; apply IH.
  - apply rop_do; [reflexivity|]. intros a. destruct a as [| | | | | |[e|] att dl| |]; try apply rop_ret.
    destruct dl as [l|]; [|apply rop_ret]. destruct (accum_get l (e_rcpts e)); apply rop_ret.
Qed.

Lemma cloud_read_ro mq o : is_read o = true -> ro_prog cstate ccmd cans cexec (cloud_prog mq o).
Proof.
  destruct o; cbn [is_read]; try discriminate; intros _; cbn [cloud_prog].
  - apply rop_do; [reflexivity|]. intros a. destruct a; apply rop_ret.
  - apply rop_do; [reflexivity|]. intros a. destruct a as [| | |[[[[e t] a'] d]|]| |]; try apply rop_ret.
    destruct (accum_get _ _); apply rop_ret.
Qed.

Lemma readonly_ro p : readonly p -> ro_prog fs dcmd dans dexec p.
Proof. induction 1; [apply rop_ret|apply rop_do; [reflexivity|assumption]..]. Qed.

Section DiskReaders.
  Variable enc_env : envelope -> bytes.
  Variable dec_env : bytes -> option envelope.
  Variable enc_meta : meta -> bytes.
  Variable dec_meta : bytes -> option meta.
  Variable chunk : wcfg.
  Notation dprog_of := (disk_prog enc_env dec_env enc_meta dec_meta chunk).

  Lemma disk_read_ro o : is_read o = true -> ro_prog fs dcmd dans dexec (dprog_of o).
  Proof.
    destruct o; cbn [is_read]; try discriminate; intros _; apply readonly_ro.
    - apply (readonly_load enc_env dec_env enc_meta dec_meta chunk).
    - apply readonly_get.
  Qed.

  Theorem readers_invisible_disk sch s (owners : list disk_thread) (reader_ops : list (list op)) :
    Forall (Forall (fun o => is_read o = true)) reader_ops ->
    let own_sch := filter (fun i => Nat.ltb i (length owners)) sch in
    fst (sched dexec (th_next dprog_of) sch s (owners ++ map th_start reader_ops)) =
      fst (sched dexec (th_next dprog_of) own_sch s owners) /\
    firstn (length owners) (snd (sched dexec (th_next dprog_of) sch s (owners ++ map th_start reader_ops))) =
      snd (sched dexec (th_next dprog_of) own_sch s owners).
  Proof.
    intros H. apply readers_invisible. eapply Forall_impl; [|exact H]. intros ops Ho.
    eapply Forall_impl; [|exact Ho]. intros o. apply disk_read_ro.
  Qed.
End DiskReaders.

Theorem readers_invisible_redis sch s (owners : list (thread rcmd rans)) (reader_ops : list (list op)) :
  Forall (Forall (fun o => is_read o = true)) reader_ops ->
  let own_sch := filter (fun i => Nat.ltb i (length owners)) sch in
  fst (sched rexec (th_next redis_prog) sch s (owners ++ map th_start reader_ops)) =
    fst (sched rexec (th_next redis_prog) own_sch s owners) /\
  firstn (length owners) (snd (sched rexec (th_next redis_prog) sch s (owners ++ map th_start reader_ops))) =
    snd (sched rexec (th_next redis_prog) own_sch s owners).
Proof.
  intros H. apply readers_invisible. eapply Forall_impl; [|exact H]. intros ops Ho.
  eapply Forall_impl; [|exact Ho]. intros o. apply redis_read_ro.
Qed.

Theorem readers_invisible_cloud mq sch s (owners : list (thread ccmd cans)) (reader_ops : list (list op)) :
  Forall (Forall (fun o => is_read o = true)) reader_ops ->
  let own_sch := filter (fun i => Nat.ltb i (length owners)) sch in
  fst (sched cexec (th_next (cloud_prog mq)) sch s (owners ++ map th_start reader_ops)) =
    fst (sched cexec (th_next (cloud_prog mq)) own_sch s owners) /\
  firstn (length owners) (snd (sched cexec (th_next (cloud_prog mq)) sch s (owners ++ map th_start reader_ops))) =
    snd (sched cexec (th_next (cloud_prog mq)) own_sch s owners).
Proof.
  intros H. apply readers_invisible. eapply Forall_impl; [|exact H]. intros ops Ho.
  eapply Forall_impl; [|exact Ho]. intros o. apply cloud_read_ro.
Qed.
