(* Proofs about model/Server.v (property C07). *)
From Coq Require Import List NArith ZArith Bool Lia.
From Coq Require Import ZifyBool ZifyN.
From SV Require Import lib.Bytes model.Reply model.Server.
Import ListNotations.
Open Scope N_scope.

Lemma beqb_refl : forall b, beqb b b = true.
Proof. induction b as [|x b IH]; cbn; [reflexivity|]. rewrite N.eqb_refl. exact IH. Qed.

Lemma list_beq_refl : forall l, list_beq l l = true.
Proof. induction l as [|x l IH]; cbn; [reflexivity|]. rewrite beqb_refl. exact IH. Qed.

(* parsing helpers are only case-split on their results *)
Local Opaque gather_params utf8_dec find_gt match_path_prefix check_size py_int get_param too_big au_gate N.eqb N.leb N.ltb.

(* ------------------------------------------------------------------ tactics *)
(* case split on the left-most atomic boolean / option scrutinee *)
Ltac atom x :=
  lazymatch x with
  | negb ?y => atom y
  | ?y && _ => atom y
  | ?y || _ => atom y
  | _ => destruct x eqn:?
  end.

Ltac brk_on x :=
  lazymatch x with
  | context [match ?y with _ => _ end] => brk_on y
  | _ => lazymatch type of x with
         | bool => atom x
         | _ => destruct x eqn:?
         end
  end.

Ltac brk1 :=
  match goal with
  | |- context [match ?x with _ => _ end] => brk_on x
  end.

Ltac eqb_subst :=
  repeat match goal with
  | H : (?c =? ?k) = true |- _ => apply N.eqb_eq in H; subst
  end.

(* ------------------------------------------------------------------ automaton basics *)
Lemma aut_run_app : forall l1 l2 a,
  aut_run a (l1 ++ l2) = match aut_run a l1 with Some a' => aut_run a' l2 | None => None end.
Proof.
  induction l1 as [|e l1 IH]; intros l2 a; cbn [aut_run app]; [reflexivity|].
  destruct (aut_step a e); [apply IH|reflexivity].
Qed.

(* the relation between a live session state and the automaton state *)
Definition R (st : sstate) (a : ast) : Prop :=
  a_started a = true /\
  a_greeted a = s_bannered (sv st) /\
  a_helo a = is_some (s_ehlo (sv st)) /\
  a_env a = e_env (ed st) /\
  s_mail (sv st) = is_some (e_env (ed st)) /\
  s_rcpt (sv st) = has_rcpt (e_env (ed st)) /\
  a_data a = false /\
  a_queued a = false /\
  a_tls a = s_encrypted (sv st) /\
  a_authed a = s_authed (sv st) /\
  a_dead a = false /\
  (x_starttls (ex st) = true -> s_encrypted (sv st) = false).

Definition sim (st : sstate) (a : ast) (r : res) : Prop :=
  exists a', aut_run a (r_events r) = Some a' /\ (r_exc r = XNone -> R (r_st r) a').

Ltac use_R :=
  match goal with HR : R ?st ?a |- _ =>
    destruct a as [a1 a2 a3 a4 a5 a6 a7 a8 a9];
    destruct HR as (H1 & H2 & H3 & H4 & H5 & H6 & H7 & H8 & H9 & H10 & H11 & H12);
    cbn in H1, H2, H3, H4, H5, H6, H7, H8, H9, H10, H11; subst
  end.
Ltac start_sim := intros st a; intros; use_R.

Ltac spec_true :=
  repeat match goal with H : true = true -> _ |- _ => specialize (H eq_refl) end.

(* propagate decided atoms into the other hypotheses (destruct only rewrites the goal) *)
Ltac orient :=
  repeat match goal with
  | H : true = ?x |- _ => lazymatch x with true => fail | false => fail | _ => symmetry in H end
  | H : false = ?x |- _ => lazymatch x with true => fail | false => fail | _ => symmetry in H end
  end.

Ltac rw_hyps :=
  orient;
  repeat match goal with
  | H : ?x = ?b, H' : context [?x] |- _ =>
      lazymatch b with true => idtac | false => idtac | None => idtac | Some _ => idtac end;
      lazymatch x with true => fail | false => fail | None => fail | Some _ => fail | _ => idtac end;
      lazymatch H' with H => fail | _ => rewrite H in H' end
  end.

Ltac brk := repeat (brk1; eqb_subst; cbn in *; rewrite ?beqb_refl, ?list_beq_refl in *; unfold is_close, allowed, allowed_tls in *; cbn in *;
                    spec_true; try discriminate; try congruence).

Ltac leaf :=
  cbn; eexists; (split; [reflexivity|]); intros HX; try discriminate HX;
  unfold R; cbn; repeat split; auto; try (intros; congruence);
  try (repeat match goal with H : _ = _ |- _ => rewrite H end; reflexivity);
  try (match goal with |- context [match ?l ++ [_] with _ => _ end] => destruct l; reflexivity end);
  try (match goal with st : sstate |- _ => destruct (e_env (ed st)) as [[? [|? ?]]|]; cbn in *; congruence end).

Ltac auto_sim := unfold sim, a_upd; cbn; unfold is_close, allowed, allowed_tls in *; cbn; brk; leaf.

Lemma sim_just : forall st a c, R st a -> sim st a (just st c).
Proof. intros st a c HR. exists a. split; [reflexivity|]. intros _. exact HR. Qed.

Lemma sim_EHLO : forall st a arg v, R st a -> sim st a (command_EHLO st arg v).
Proof.
  start_sim. unfold command_EHLO, apply_verdict, close_exc, is_close, just, mk. auto_sim.
Qed.

Lemma sim_HELO : forall st a arg v, R st a -> sim st a (command_HELO st arg v).
Proof.
  start_sim. unfold command_HELO, apply_verdict, close_exc, just, mk, mkx, fam_of. auto_sim.
Qed.

Lemma sim_STARTTLS : forall st a arg ok, R st a -> sim st a (command_STARTTLS st arg ok).
Proof.
  start_sim. unfold command_STARTTLS, encrypted_state, just, mk. auto_sim.
Qed.

Lemma sim_AUTH : forall st a arg resps out v, R st a -> sim st a (command_AUTH st arg resps out v).
Proof.
  start_sim. unfold command_AUTH, apply_verdict, close_exc, just, mk, mkx, fam_of. auto_sim.
Qed.

Lemma sim_MAIL : forall st a arg v, R st a -> sim st a (command_MAIL st arg v).
Proof.
  start_sim. unfold command_MAIL, apply_verdict, close_exc, just, mk, mkx, fam_of. auto_sim.
Qed.

Lemma sim_RCPT : forall st a arg v, R st a -> sim st a (command_RCPT st arg v).
Proof.
  start_sim. unfold command_RCPT, apply_verdict, close_exc, just, mk, mkx, fam_of. auto_sim.
Qed.

Lemma sim_DATA : forall st a arg it, R st a -> sim st a (command_DATA st arg it).
Proof.
  start_sim. unfold command_DATA, get_message_data, session_HAVE_DATA, failure_code, apply_verdict, close_exc, just, mk, mkx, fam_of, have_data_fam, with_ed.
  auto_sim.
Qed.

Lemma sim_RSET : forall st a arg, R st a -> sim st a (command_RSET st arg).
Proof.
  start_sim. unfold command_RSET, just, mk. auto_sim.
Qed.

Lemma sim_QUIT : forall st a arg, R st a -> sim st a (command_QUIT st arg).
Proof.
  start_sim. unfold command_QUIT, just, mk. auto_sim.
Qed.

Lemma sim_handle_command : forall st a it, R st a -> sim st a (handle_command st it).
Proof.
  intros st a it HR. unfold handle_command.
  destruct (classify (it_line it));
    auto using sim_just, sim_EHLO, sim_HELO, sim_STARTTLS, sim_AUTH, sim_MAIL, sim_RCPT, sim_DATA,
               sim_RSET, sim_QUIT.
  - apply sim_just; exact HR.
  - apply sim_just; exact HR.
Qed.

(* ------------------------------------------------------------------ one loop iteration, the loop, the session *)
Lemma step_sim : forall st a it, R st a ->
  exists a', aut_run a (o_events (snd (step st it))) = Some a' /\
             (o_fin (snd (step st it)) = Continue -> R (fst (step st it)) a').
Proof.
  intros st a it HR. destruct (sim_handle_command st a it HR) as (a' & Hrun & HR').
  exists a'. unfold step, finish. destruct (r_exc (handle_command st it)) eqn:Hx;
    try destruct (r_fam (handle_command st it)); cbn [fst snd o_events o_fin];
    (split; [exact Hrun|]); intros Hf; try discriminate Hf; apply HR'; reflexivity.
Qed.

Lemma trace_cons : forall o os, trace (o :: os) = o_events o ++ trace os.
Proof. reflexivity. Qed.

Lemma run_loop_sim : forall items st a, R st a ->
  exists a', aut_run a (trace (fst (fst (run_loop st items)))) = Some a' /\
             (snd (run_loop st items) = Continue -> R (snd (fst (run_loop st items))) a').
Proof.
  induction items as [|it items IH]; intros st a HR.
  - exists a. cbn. split; [reflexivity|]. intros _. exact HR.
  - cbn [run_loop]. destruct (step_sim st a it HR) as (a1 & Hrun & HR1).
    destruct (step st it) as [st1 o] eqn:Hs. cbn [fst snd] in *.
    destruct (o_fin o) eqn:Hf.
    + specialize (HR1 eq_refl). destruct (IH st1 a1 HR1) as (a2 & Hrun2 & HR2).
      destruct (run_loop st1 items) as [[os stf] f]. cbn [fst snd] in *.
      exists a2. rewrite trace_cons, aut_run_app, Hrun. split; assumption.
    + exists a1. cbn [fst snd]. rewrite trace_cons, aut_run_app, Hrun. cbn. split; [reflexivity|discriminate].
    + exists a1. cbn [fst snd]. rewrite trace_cons, aut_run_app, Hrun. cbn. split; [reflexivity|discriminate].
Qed.

(* the state in which the banner pseudo command runs *)
Definition pre_state (cfg : config) : sstate :=
  if cfg_context cfg && cfg_tls_immediately cfg then encrypted_state (init_state cfg) else init_state cfg.
Definition pre_events (cfg : config) : list event :=
  if cfg_context cfg && cfg_tls_immediately cfg then [EvTls] else [].

Lemma banner_sim : forall cfg vb,
  exists a', aut_run a_init (pre_events cfg ++ r_events (command_BANNER vb (pre_state cfg))) = Some a' /\
             (r_exc (command_BANNER vb (pre_state cfg)) = XNone -> R (r_st (command_BANNER vb (pre_state cfg))) a').
Proof.
  intros [c i o au m] vb. unfold pre_events, pre_state, command_BANNER, apply_verdict, close_exc, init_state, encrypted_state, mk.
  cbn [cfg_context cfg_tls_immediately cfg_tls_imm_ok cfg_auth cfg_max_size].
  destruct c, i; cbn; unfold a_upd, is_close, allowed, allowed_tls in *; cbn; brk; leaf.
Qed.

Definition all_events (cfg : config) (vb : verdict) (items : list item) : list event :=
  trace (fst (fst (run_session cfg vb items))).

Lemma run_session_sim : forall cfg vb items,
  exists a', aut_run a_init (all_events cfg vb items) = Some a' /\
             (snd (run_session cfg vb items) = Continue -> R (snd (fst (run_session cfg vb items))) a').
Proof.
  intros cfg vb items. unfold all_events, run_session.
  destruct (cfg_context cfg && cfg_tls_immediately cfg && negb (cfg_tls_imm_ok cfg)) eqn:Hfail.
  - exists a_init. cbn. split; [reflexivity|discriminate].
  - destruct (banner_sim cfg vb) as (a1 & Hrun & HR1).
    unfold pre_state, pre_events in *.
    set (tls := cfg_context cfg && cfg_tls_immediately cfg) in *.
    set (st1 := if tls then encrypted_state (init_state cfg) else init_state cfg) in *.
    set (r := command_BANNER vb st1) in *.
    unfold finish. destruct (r_exc r) eqn:Hx; cbn [o_fin o_events o_replies fst snd].
    + specialize (HR1 eq_refl).
      destruct (run_loop_sim items (r_st r) a1 HR1) as (a2 & Hrun2 & HR2).
      destruct (run_loop (r_st r) items) as [[os stf] f]. cbn [fst snd] in *.
      exists a2. rewrite trace_cons. cbn [o_events]. rewrite aut_run_app, Hrun. split; assumption.
    + exists a1. cbn [fst snd]. rewrite trace_cons. cbn [o_events trace flat_map]. rewrite app_nil_r, Hrun.
      split; [reflexivity|discriminate].
    + exists a1. cbn [fst snd]. rewrite trace_cons. cbn [o_events trace flat_map]. rewrite app_nil_r, Hrun.
      split; [reflexivity|discriminate].
    + destruct (r_fam r); cbn [o_fin o_events o_replies fst snd];
        exists a1; cbn [fst snd]; rewrite trace_cons; cbn [o_events trace flat_map]; rewrite app_nil_r, Hrun;
        (split; [reflexivity|discriminate]).
Qed.

Theorem callbacks_in_order : forall cfg vb items,
  accepts (all_events cfg vb items) = true.
Proof.
  intros cfg vb items. unfold accepts. destruct (run_session_sim cfg vb items) as (a & H & _).
  rewrite H. reflexivity.
Qed.

(* ------------------------------------------------------------------ malformed / out-of-order commands *)
Definition error_out (o : out) : Prop :=
  o_events o = [] /\ exists c, o_replies o = [c] /\ 400 <= c /\ c < 600.

Ltac err_leaf :=
  unfold error_out; cbn; (split; [reflexivity|]); eexists; (split; [reflexivity|]); lia.

Local Transparent check_size.

Ltac rw_into Hb :=
  orient;
  repeat match goal with
  | H : ?x = ?b |- _ =>
      lazymatch H with Hb => fail | _ => idtac end;
      lazymatch b with true => idtac | false => idtac | None => idtac | Some _ => idtac end;
      lazymatch x with true => fail | false => fail | None => fail | Some _ => fail | _ => idtac end;
      lazymatch type of Hb with context [x] => rewrite H in Hb end
  end.

Ltac brkH Hb :=
  repeat (brk1; eqb_subst; rw_into Hb; cbn in Hb |- *; spec_true; try discriminate; try congruence).

Lemma error_step : forall st a it, R st a ->
  malformed (it_line it) = true \/ out_of_order a (it_line it) = true ->
  error_out (snd (step st it)).
Proof.
  intros st a it HR Hbad. use_R.
  unfold step, handle_command, malformed, out_of_order in *.
  destruct (classify (it_line it)) eqn:Hc; cbn in Hbad.
  - (* EHLO *) unfold command_EHLO, apply_verdict, close_exc, just, mk, mkx, fam_of, finish, allowed, arg_bytes in *; cbn in *.
    destruct Hbad as [Hbad|Hbad]; brkH Hbad; try err_leaf.
  - unfold command_HELO, apply_verdict, close_exc, just, mk, mkx, fam_of, finish, allowed, arg_bytes in *; cbn in *.
    destruct Hbad as [Hbad|Hbad]; brkH Hbad; try err_leaf.
  - unfold command_STARTTLS, just, mk, mkx, fam_of, finish, allowed_tls in *; cbn in *.
    destruct Hbad as [Hbad|Hbad]; brkH Hbad; try err_leaf.
  - unfold command_AUTH, apply_verdict, close_exc, just, mk, mkx, fam_of, finish, allowed in *; cbn in *.
    destruct Hbad as [Hbad|Hbad]; brkH Hbad; try err_leaf.
  - unfold command_MAIL, check_size, bad_path, bad_size, apply_verdict, close_exc, just, mk, mkx, fam_of, finish, allowed in *; cbn in *.
    destruct Hbad as [Hbad|Hbad]; brkH Hbad; try err_leaf.
  - unfold command_RCPT, bad_path, apply_verdict, close_exc, just, mk, mkx, fam_of, finish, allowed in *; cbn in *.
    destruct Hbad as [Hbad|Hbad]; brkH Hbad; try err_leaf.
  - unfold command_DATA, apply_verdict, close_exc, just, mk, mkx, fam_of, finish, allowed in *; cbn in *.
    destruct Hbad as [Hbad|Hbad]; brkH Hbad; try err_leaf.
  - unfold command_RSET, just, mk, mkx, fam_of, finish in *; cbn in *.
    destruct Hbad as [Hbad|Hbad]; [|discriminate]. rewrite Hbad. err_leaf.
  - destruct Hbad; discriminate.
  - unfold command_QUIT, just, mk, mkx, fam_of, finish in *; cbn in *.
    destruct Hbad as [Hbad|Hbad]; [|discriminate]. rewrite Hbad. err_leaf.
  - err_leaf.
  - err_leaf.
Qed.

Theorem error_no_callback : forall cfg vb pre outs st a it,
  run_session cfg vb pre = (outs, st, Continue) ->
  aut_run a_init (trace outs) = Some a ->
  malformed (it_line it) = true \/ out_of_order a (it_line it) = true ->
  error_out (snd (step st it)).
Proof.
  intros cfg vb pre outs st a it Hrun Ha Hbad.
  destruct (run_session_sim cfg vb pre) as (a' & Ha' & HR).
  unfold all_events in Ha'. rewrite Hrun in Ha', HR. cbn [fst snd] in *.
  rewrite Ha in Ha'. injection Ha' as <-. apply (error_step st a it (HR eq_refl) Hbad).
Qed.

(* ------------------------------------------------------------------ transaction reset *)
Definition tx_empty (st : sstate) : Prop :=
  s_mail (sv st) = false /\ s_rcpt (sv st) = false /\ e_env (ed st) = None.

Ltac kill_replies Hb :=
  try discriminate Hb;
  try (injection Hb as Hb; subst; rewrite ?N.eqb_refl in *; discriminate);
  try (cbn in Hb; repeat (destruct Hb as [Hb|Hb]; [try discriminate Hb; try (subst; rewrite ?N.eqb_refl in *; discriminate)|]);
       try contradiction).

Lemma reset_step_reset : forall st it,
  resets (it_line it) = true ->
  o_replies (snd (step st it)) = [250] ->
  tx_empty (fst (step st it)).
Proof.
  intros st it Hr Hrep. unfold step, handle_command, resets in *.
  destruct (classify (it_line it)); try discriminate Hr.
  - unfold command_EHLO, apply_verdict, close_exc, just, mk, mkx, fam_of, finish in *; cbn in *.
    brkH Hrep; try (unfold tx_empty; cbn; auto); kill_replies Hrep.
  - unfold command_HELO, apply_verdict, close_exc, just, mk, mkx, fam_of, finish in *; cbn in *.
    brkH Hrep; try (unfold tx_empty; cbn; auto); kill_replies Hrep.
  - unfold command_RSET, just, mk, mkx, fam_of, finish in *; cbn in *.
    brkH Hrep; try (unfold tx_empty; cbn; auto); kill_replies Hrep.
Qed.

Lemma reset_step_data : forall st it,
  classify (it_line it) = CData ->
  In 354 (o_replies (snd (step st it))) ->
  raised (snd (step st it)) = false ->
  tx_empty (fst (step st it)).
Proof.
  intros st it Hc Hrep Hfin. unfold step, handle_command in *. rewrite Hc in *.
  unfold command_DATA, get_message_data, session_HAVE_DATA, failure_code, apply_verdict, close_exc, just, mk, mkx, fam_of, have_data_fam, finish, with_ed in *; cbn in *.
  unfold raised in Hfin. pose proof (conj Hrep Hfin) as Hboth. clear Hrep Hfin.
  brkH Hboth; destruct Hboth as [Hrep Hfin]; try (unfold tx_empty; cbn; auto); try discriminate Hfin; kill_replies Hrep.
Qed.

(* ------------------------------------------------------------------ shape of the replies to one command line *)
Definition inter_ok (it : item) (o : out) (inter : list N) (c : N) : Prop :=
  match classify (it_line it) with
  | CData => inter = [] \/ inter = [354]
  | CAuth => inter = [] \/ inter = map (fun _ => 334) (it_au_resps it)
  | CStarttls => inter = [] \/ (inter = [220] /\ c = 421 /\ it_tls_ok it = false /\ o_fin o = Closed)
  | _ => inter = []
  end.

Definition replied_shape (it : item) (o : out) : Prop :=
  exists inter c, o_replies o = inter ++ [c] /\ inter_ok it o inter c /\
                  (is_close c = true -> o_fin o <> Continue) /\
                  (o_fin o = Closed -> is_close c = true).

(* the documented exception: a callback of this line was killed (GreenletExit family): the
   line gets no final reply (only the intermediates already written) and the session is over *)
Definition killed_shape (it : item) (o : out) : Prop :=
  has_kill it = true /\ raised o = true /\ o_fin o = Crashed /\
  (o_replies o = [] \/
   (classify (it_line it) = CData /\ o_replies o = [354]) \/
   (classify (it_line it) = CAuth /\ o_replies o = map (fun _ => 334) (it_au_resps it))).

Definition shape (it : item) (o : out) : Prop := replied_shape it o \/ killed_shape it o.

Ltac rw_verdicts :=
  repeat match goal with
  | H : it_v1 _ = _ |- _ => rewrite H
  | H : it_v2 _ = _ |- _ => rewrite H
  | H : it_v3 _ = _ |- _ => rewrite H
  end.

Ltac kill_leaf :=
  unfold killed_shape, has_kill, raised; rw_verdicts; cbn;
  (split; [reflexivity|]); (split; [reflexivity|]); (split; [reflexivity|]);
  first [ left; reflexivity
        | right; left; split; [assumption|reflexivity]
        | right; right; split; [assumption|reflexivity] ].

Ltac close1 :=
  let Hx := fresh "Hx" in
  intros Hx; try (let Hy := fresh in intros Hy; discriminate Hy); exfalso; unfold is_close in Hx;
  repeat match goal with H : (_ =? _) = _ |- _ => rewrite H in Hx end;
  vm_compute in Hx; discriminate Hx.

Ltac close2 :=
  let Hy := fresh "Hy" in
  intros Hy; try discriminate Hy; vm_compute; reflexivity.

Ltac side := first [ reflexivity | left; reflexivity | right; reflexivity
                   | right; repeat split; first [reflexivity | assumption] ].

Ltac cand i := exists i; eexists; split; [reflexivity|]; split; [side|]; split; [close1|close2].

Ltac shape_leaf it :=
  unfold shape;
  first [ left; unfold replied_shape, inter_ok; cbn;
          match goal with Hc : classify _ = _ |- _ => rewrite ?Hc end;
          first [ cand (@nil N) | cand [354] | cand [220] | cand (map (fun _ : bytes => 334) (it_au_resps it)) ]
        | right; kill_leaf ].

Lemma step_shape : forall st it, shape it (snd (step st it)).
Proof.
  intros st it. unfold step, handle_command.
  destruct (classify (it_line it)) eqn:Hc.
  - unfold command_EHLO, apply_verdict, close_exc, just, mk, mkx, fam_of, finish; cbn. brk; shape_leaf it.
  - unfold command_HELO, apply_verdict, close_exc, just, mk, mkx, fam_of, finish; cbn. brk; shape_leaf it.
  - unfold command_STARTTLS, just, mk, mkx, fam_of, finish; cbn. brk; shape_leaf it.
  - unfold command_AUTH, apply_verdict, close_exc, just, mk, mkx, fam_of, finish; cbn. brk; shape_leaf it.
  - unfold command_MAIL, apply_verdict, close_exc, just, mk, mkx, fam_of, finish; cbn. brk; shape_leaf it.
  - unfold command_RCPT, apply_verdict, close_exc, just, mk, mkx, fam_of, finish; cbn. brk; shape_leaf it.
  - unfold command_DATA, get_message_data, session_HAVE_DATA, failure_code, apply_verdict, close_exc, just, mk, mkx, fam_of, have_data_fam, finish, with_ed; cbn.
    brk; shape_leaf it.
  - unfold command_RSET, just, mk, mkx, fam_of, finish; cbn. brk; shape_leaf it.
  - unfold command_NOOP, just, mk, mkx, fam_of, finish; cbn. shape_leaf it.
  - unfold command_QUIT, just, mk, mkx, fam_of, finish; cbn. brk; shape_leaf it.
  - unfold command_custom, just, mk, mkx, fam_of, finish; cbn. shape_leaf it.
  - unfold just, mk, mkx, fam_of, finish; cbn. shape_leaf it.
Qed.

(* ------------------------------------------------------------------ run-level structure *)
Definition out_ok (o : out) : Prop :=
  (exists inter c, o_replies o = inter ++ [c] /\ Forall (fun x => is_close x = false) inter /\
                  (is_close c = true -> o_fin o <> Continue) /\
                  (o_fin o = Closed -> is_close c = true)) \/
  (Forall (fun x => is_close x = false) (o_replies o) /\ o_fin o = Crashed).

Lemma Forall_map_334 : forall (l : list bytes), Forall (fun x => is_close x = false) (map (fun _ => 334) l).
Proof. induction l; cbn; constructor; [reflexivity|assumption]. Qed.

Lemma shape_out_ok : forall it o, shape it o -> out_ok o.
Proof.
  intros it o [(inter & c & Hrep & Hin & H1 & H2)|(_ & _ & Hf & Hrep)].
  2:{ right. split; [|exact Hf]. destruct Hrep as [->|[[_ ->]|[_ ->]]];
      [constructor|repeat constructor|apply Forall_map_334]. }
  left. exists inter, c. repeat split; auto.
  unfold inter_ok in Hin.
  destruct (classify (it_line it)); try (subst inter; constructor);
    destruct Hin as [->|Hin]; try constructor.
  - destruct Hin as (-> & _). repeat constructor.
  - subst inter. apply Forall_map_334.
  - subst inter. repeat constructor.
Qed.

(* every out but the last has fin = Continue; the last has fin = f *)
Ltac split5 := split; [|split; [|split; [|split]]].
Ltac split3 := split; [|split].

Definition fins_ok (outs : list out) (f : fin) : Prop :=
  forall pre o post, outs = pre ++ o :: post ->
    (post <> [] -> o_fin o = Continue) /\ (post = [] -> o_fin o = f).

Lemma fins_ok_cons : forall o os f, o_fin o = Continue -> fins_ok os f -> os <> [] -> fins_ok (o :: os) f.
Proof.
  intros o os f Ho Hos Hne pre o' post Heq. destruct pre as [|p pre]; cbn in Heq.
  - injection Heq as <- <-. split; [intros _; exact Ho|intros ->; contradiction].
  - injection Heq as <- Heq. apply (Hos pre o' post Heq).
Qed.

Lemma fins_ok_single : forall o, fins_ok [o] (o_fin o).
Proof.
  intros o pre o' post Heq. destruct pre as [|p pre]; cbn in Heq.
  - injection Heq as <- <-. split; [intros H; contradiction|reflexivity].
  - injection Heq as _ Heq. destruct pre; discriminate Heq.
Qed.

Lemma run_loop_struct : forall items st os stf f,
  run_loop st items = (os, stf, f) ->
  Forall2 shape (firstn (length os) items) os /\
  (length os <= length items)%nat /\
  (f = Continue -> length os = length items) /\
  (os = [] -> f = Continue) /\
  fins_ok os f.
Proof.
  induction items as [|it items IH]; intros st os stf f Hrun; cbn [run_loop] in Hrun.
  - injection Hrun as <- <- <-. cbn. split5; auto. intros pre o post Heq. destruct pre; discriminate Heq.
  - pose proof (step_shape st it) as Hsh.
    destruct (step st it) as [st1 o] eqn:Hs. cbn [snd] in Hsh.
    destruct (o_fin o) eqn:Hf.
    + destruct (run_loop st1 items) as [[os1 stf1] f1] eqn:Hl. injection Hrun as <- <- <-.
      destruct (IH st1 os1 stf1 f1 Hl) as (H1 & H2 & H3 & H4 & H5).
      cbn [length firstn]. split5.
      * constructor; assumption.
      * lia.
      * intros Hc. rewrite (H3 Hc). reflexivity.
      * discriminate.
      * destruct os1 as [|o1 os1].
        -- rewrite (H4 eq_refl). rewrite <- Hf. apply fins_ok_single.
        -- apply fins_ok_cons; [exact Hf|exact H5|discriminate].
    + injection Hrun as <- <- <-. cbn [length firstn]. split5.
      * constructor; [assumption|constructor].
      * lia.
      * discriminate.
      * discriminate.
      * rewrite <- Hf. apply fins_ok_single.
    + injection Hrun as <- <- <-. cbn [length firstn]. split5.
      * constructor; [assumption|constructor].
      * lia.
      * discriminate.
      * discriminate.
      * rewrite <- Hf. apply fins_ok_single.
Qed.

(* the connection start: one reply, unless the banner callback itself is killed *)
Definition banner_shape (vb : verdict) (o : out) : Prop :=
  (exists c, o_replies o = [c]) \/ (vb = VRaise FKill /\ o_replies o = [] /\ o_fin o = Crashed).

Lemma banner_out_ok : forall vb st,
  let o := snd (finish (command_BANNER vb st)) in
  banner_shape vb o /\ out_ok o.
Proof.
  intros vb st. unfold command_BANNER, apply_verdict, close_exc, mk, mkx, fam_of, finish, out_ok, banner_shape. cbn.
  brk;
    first [ (split; [left; eexists; reflexivity|]); left; exists (@nil N); eexists; (split; [reflexivity|]);
            (split; [constructor|]); (split; [close1|close2])
          | split; [right; repeat split; reflexivity | right; split; [constructor|reflexivity]] ].
Qed.

Theorem one_reply_per_command : forall cfg vb items outs st f,
  run_session cfg vb items = (outs, st, f) ->
  exists o0 os, outs = o0 :: os /\
    banner_shape vb o0 /\
    Forall2 shape (firstn (length os) items) os /\
    (length os <= length items)%nat /\
    (f = Continue -> length os = length items).
Proof.
  intros cfg vb items outs st f Hrun. unfold run_session in Hrun.
  destruct (cfg_context cfg && cfg_tls_immediately cfg && negb (cfg_tls_imm_ok cfg)).
  - injection Hrun as <- <- <-. eexists; exists []. cbn.
    split; [reflexivity|]. split; [left; eexists; reflexivity|]. repeat split; try constructor; try lia. discriminate.
  - set (st1 := if cfg_context cfg && cfg_tls_immediately cfg then encrypted_state (init_state cfg) else init_state cfg) in *.
    destruct (banner_out_ok vb st1) as (Hc & _).
    destruct (finish (command_BANNER vb st1)) as [st2 o] eqn:Hb. cbn [snd] in Hc.
    set (o' := {| o_replies := o_replies o; o_events := _; o_fin := o_fin o |}) in *.
    assert (Hc' : banner_shape vb o') by exact Hc.
    destruct (o_fin o) eqn:Hf.
    + destruct (run_loop st2 items) as [[os stf] f1] eqn:Hl. injection Hrun as <- <- <-.
      destruct (run_loop_struct items st2 os stf f1 Hl) as (H1 & H2 & H3 & _ & _).
      exists o', os. split; [reflexivity|]. split; [exact Hc'|]. repeat split; auto.
    + injection Hrun as <- <- <-. exists o', []. split; [reflexivity|]. split; [exact Hc'|]. cbn.
      repeat split; try constructor; try lia; try discriminate.
    + injection Hrun as <- <- <-. exists o', []. split; [reflexivity|]. split; [exact Hc'|]. cbn.
      repeat split; try constructor; try lia; try discriminate.
Qed.

Lemma run_session_struct : forall cfg vb items outs st f,
  run_session cfg vb items = (outs, st, f) -> Forall out_ok outs /\ fins_ok outs f /\ outs <> [].
Proof.
  intros cfg vb items outs st f Hrun. unfold run_session in Hrun.
  destruct (cfg_context cfg && cfg_tls_immediately cfg && negb (cfg_tls_imm_ok cfg)).
  - injection Hrun as <- <- <-. split3; try discriminate.
    + constructor; [|constructor]. left. exists (@nil N), 421. cbn. repeat split; try constructor; try discriminate.
    + apply (fins_ok_single {| o_replies := [421]; o_events := []; o_fin := Closed |}).
  - set (st1 := if cfg_context cfg && cfg_tls_immediately cfg then encrypted_state (init_state cfg) else init_state cfg) in *.
    destruct (banner_out_ok vb st1) as (_ & Hok).
    destruct (finish (command_BANNER vb st1)) as [st2 o] eqn:Hb. cbn [snd] in Hok.
    set (o' := {| o_replies := o_replies o; o_events := _; o_fin := o_fin o |}) in *.
    assert (Hok' : out_ok o') by exact Hok.
    destruct (o_fin o) eqn:Hf.
    + destruct (run_loop st2 items) as [[os stf] f1] eqn:Hl. injection Hrun as <- <- <-.
      destruct (run_loop_struct items st2 os stf f1 Hl) as (H1 & _ & _ & H4 & H5).
      split3; try discriminate.
      * constructor; [exact Hok'|].
        clear - H1. revert H1. generalize (firstn (length os) items). intros l H. induction H; constructor; eauto using shape_out_ok.
      * destruct os as [|o1 os].
        -- rewrite (H4 eq_refl). exact (fins_ok_single o').
        -- apply fins_ok_cons; [reflexivity|exact H5|discriminate].
    + injection Hrun as <- <- <-. split3; try discriminate.
      * constructor; [exact Hok'|constructor].
      * exact (fins_ok_single o').
    + injection Hrun as <- <- <-. split3; try discriminate.
      * constructor; [exact Hok'|constructor].
      * exact (fins_ok_single o').
Qed.

Theorem close_codes_end_session : forall cfg vb items outs st f pre o post c,
  run_session cfg vb items = (outs, st, f) ->
  outs = pre ++ o :: post ->
  In c (o_replies o) -> is_close c = true ->
  post = [] /\ f <> Continue /\ exists before, o_replies o = before ++ [c].
Proof.
  intros cfg vb items outs st f pre o post c Hrun Heq Hin Hcl.
  destruct (run_session_struct _ _ _ _ _ _ Hrun) as (Hall & Hfins & _).
  assert (Hok : out_ok o).
  { rewrite Forall_forall in Hall. apply Hall. rewrite Heq. apply in_or_app. right. left. reflexivity. }
  destruct Hok as [(inter & c' & Hrep & Hinter & H1 & _)|(Hnc & _)].
  2:{ rewrite Forall_forall in Hnc. rewrite (Hnc c Hin) in Hcl. discriminate. }
  assert (c = c').
  { rewrite Hrep in Hin. apply in_app_or in Hin. destruct Hin as [Hin|[Hin|[]]]; [|auto].
    rewrite Forall_forall in Hinter. rewrite (Hinter c Hin) in Hcl. discriminate. }
  subst c'. specialize (H1 Hcl).
  destruct (Hfins pre o post Heq) as (Hmid & Hlast).
  assert (post = []). { destruct post; [reflexivity|]. exfalso. apply H1. apply Hmid. discriminate. }
  subst post. rewrite (Hlast eq_refl) in H1. repeat split; auto. exists inter. exact Hrep.
Qed.

Theorem closed_only_by_close_code : forall cfg vb items outs st,
  run_session cfg vb items = (outs, st, Closed) ->
  exists pre o before c, outs = pre ++ [o] /\ o_replies o = before ++ [c] /\ is_close c = true.
Proof.
  intros cfg vb items outs st Hrun.
  destruct (run_session_struct _ _ _ _ _ _ Hrun) as (Hall & Hfins & Hne).
  destruct (exists_last Hne) as (pre & o & Heq).
  destruct (Hfins pre o [] Heq) as (_ & Hlast). specialize (Hlast eq_refl).
  assert (Hok : out_ok o).
  { rewrite Forall_forall in Hall. apply Hall. rewrite Heq. apply in_or_app. right. left. reflexivity. }
  destruct Hok as [(inter & c & Hrep & _ & _ & H2)|(_ & Hcr)].
  2:{ rewrite Hcr in Hlast. discriminate. }
  exists pre, o, inter, c. repeat split; auto.
Qed.

(* ------------------------------------------------------------------ a callback that raises *)
Ltac rw_verdicts_in H :=
  repeat match goal with
  | E : it_v1 _ = _ |- _ => rewrite E in H
  | E : it_v2 _ = _ |- _ => rewrite E in H
  | E : it_v3 _ = _ |- _ => rewrite E in H
  end.

Ltac raise_leaf :=
  (split; [let Hy := fresh in intros Hy; discriminate Hy|]);
  first [ left; eexists; reflexivity
        | left; exists (@nil N); reflexivity
        | left; exists [354]; reflexivity
        | right; unfold has_kill; rw_verdicts; cbn; split; reflexivity ].

Theorem raising_callback : forall st it,
  raised (snd (step st it)) = true ->
  o_fin (snd (step st it)) <> Continue /\
  ((exists inter, o_replies (snd (step st it)) = inter ++ [421]) \/
   (has_kill it = true /\ o_fin (snd (step st it)) = Crashed)).
Proof.
  intros st it Hr. unfold raised, step, handle_command in *.
  destruct (classify (it_line it)) eqn:Hc.
  - unfold command_EHLO, apply_verdict, close_exc, just, mk, mkx, fam_of, finish in *; cbn in *. brkH Hr; try discriminate Hr; raise_leaf.
  - unfold command_HELO, apply_verdict, close_exc, just, mk, mkx, fam_of, finish in *; cbn in *. brkH Hr; try discriminate Hr; raise_leaf.
  - unfold command_STARTTLS, just, mk, mkx, fam_of, finish in *; cbn in *. brkH Hr; try discriminate Hr; raise_leaf.
  - unfold command_AUTH, apply_verdict, close_exc, just, mk, mkx, fam_of, finish in *; cbn in *. brkH Hr; try discriminate Hr; raise_leaf.
  - unfold command_MAIL, apply_verdict, close_exc, just, mk, mkx, fam_of, finish in *; cbn in *. brkH Hr; try discriminate Hr; raise_leaf.
  - unfold command_RCPT, apply_verdict, close_exc, just, mk, mkx, fam_of, finish in *; cbn in *. brkH Hr; try discriminate Hr; raise_leaf.
  - unfold command_DATA, get_message_data, session_HAVE_DATA, failure_code, apply_verdict, close_exc, just, mk, mkx, fam_of, have_data_fam, finish, with_ed in *; cbn in *.
    brkH Hr; try discriminate Hr; raise_leaf.
  - unfold command_RSET, just, mk, mkx, fam_of, finish in *; cbn in *. brkH Hr; try discriminate Hr; raise_leaf.
  - discriminate Hr.
  - unfold command_QUIT, just, mk, mkx, fam_of, finish in *; cbn in *. brkH Hr; try discriminate Hr; raise_leaf.
  - discriminate Hr.
  - discriminate Hr.
Qed.

(* ------------------------------------------------------------------ reset, server/edge agreement *)
Theorem reset_after_command : forall st it,
  raised (snd (step st it)) = false ->
  (resets (it_line it) = true /\ o_replies (snd (step st it)) = [250]) \/
  (classify (it_line it) = CData /\ In 354 (o_replies (snd (step st it)))) ->
  tx_empty (fst (step st it)).
Proof.
  intros st it Hfin [[Hr Hrep]|[Hc Hin]].
  - apply reset_step_reset; assumption.
  - apply reset_step_data; assumption.
Qed.

Theorem server_edge_agree : forall cfg vb items outs st,
  run_session cfg vb items = (outs, st, Continue) ->
  s_mail (sv st) = is_some (e_env (ed st)) /\ s_rcpt (sv st) = has_rcpt (e_env (ed st)).
Proof.
  intros cfg vb items outs st Hrun.
  destruct (run_session_sim cfg vb items) as (a & _ & HR). rewrite Hrun in HR. cbn [fst snd] in HR.
  destruct (HR eq_refl) as (_ & _ & _ & _ & H5 & H6 & _). split; assumption.
Qed.

(* ------------------------------------------------------------------ the hypotheses of the theorems are satisfiable *)
Definition ex_cfg : config :=
  {| cfg_context := true; cfg_tls_immediately := false; cfg_tls_imm_ok := true; cfg_auth := true;
     cfg_max_size := Some 120 |}.

Definition ex_item (raw : bytes) (v1 : verdict) : item :=
  {| it_line := parse_line raw; it_v1 := v1; it_v2 := VKeep; it_v3 := VKeep;
     it_data := [104; 105; 13; 10]; it_wire := 7; it_q := QOk; it_au_resps := []; it_au := ARaise;
     it_tls_ok := true |}.

Definition L_EHLO : bytes := [69; 72; 76; 79; 32; 97].                                   (* "EHLO a" *)
Definition L_MAIL : bytes := [77; 65; 73; 76; 32; 70; 82; 79; 77; 58; 60; 115; 62].         (* "MAIL FROM:<s>" *)
Definition L_RCPT : bytes := [82; 67; 80; 84; 32; 84; 79; 58; 60; 114; 62].                 (* "RCPT TO:<r>" *)
Definition L_DATA : bytes := [68; 65; 84; 65].
Definition L_RSET : bytes := [82; 83; 69; 84].
Definition L_MAIL_BAD : bytes := [77; 65; 73; 76; 32; 115].                                (* "MAIL s" *)

(* RCPT right after EHLO is out of order; "MAIL s" is malformed *)
Example error_no_callback_hyps_sat :
  exists outs st a,
    run_session ex_cfg VKeep [ex_item L_EHLO VKeep] = (outs, st, Continue) /\
    aut_run a_init (trace outs) = Some a /\
    out_of_order a (it_line (ex_item L_RCPT VKeep)) = true /\
    malformed (it_line (ex_item L_MAIL_BAD VKeep)) = true /\
    malformed (it_line (ex_item L_RCPT VKeep)) = false.
Proof. do 3 eexists. split; [vm_compute; reflexivity|]. split; [vm_compute; reflexivity|]. vm_compute. auto. Qed.

(* a complete transaction whose content is rejected with 550: DATA's replies contain 354, not crashed;
   and an accepted RSET *)
Example reset_hyps_sat :
  exists outs st,
    run_session ex_cfg VKeep [ex_item L_EHLO VKeep; ex_item L_MAIL VKeep; ex_item L_RCPT VKeep] = (outs, st, Continue) /\
    let it := {| it_line := parse_line L_DATA; it_v1 := VKeep; it_v2 := VCode 550; it_v3 := VKeep;
                 it_data := [104; 105; 13; 10]; it_wire := 7; it_q := QOk; it_au_resps := [];
                 it_au := ARaise; it_tls_ok := true |} in
    classify (it_line it) = CData /\ o_replies (snd (step st it)) = [354; 550] /\
    raised (snd (step st it)) = false /\ e_env (ed st) = Some ([115], [[114]]) /\
    resets (it_line (ex_item L_RSET VKeep)) = true /\ o_replies (snd (step st (ex_item L_RSET VKeep))) = [250].
Proof. do 2 eexists. split; [vm_compute; reflexivity|]. vm_compute. repeat split; reflexivity. Qed.

(* a 421 set by the message-received callback closes the session (D12 fixed) *)
Example close_code_hyps_sat :
  exists outs st,
    run_session ex_cfg VKeep
      [ex_item L_EHLO VKeep; ex_item L_MAIL VKeep; ex_item L_RCPT VKeep;
       {| it_line := parse_line L_DATA; it_v1 := VKeep; it_v2 := VCode 421; it_v3 := VKeep;
          it_data := [104; 105; 13; 10]; it_wire := 7; it_q := QOk; it_au_resps := [];
          it_au := ARaise; it_tls_ok := true |};
       ex_item L_RSET VKeep] = (outs, st, Closed) /\
    map o_replies outs = [[220]; [250]; [250]; [250]; [354; 421]].
Proof. do 2 eexists. split; vm_compute; reflexivity. Qed.

(* a MAIL callback that runs into a gevent.Timeout: 421 and the session is closed; one that is
   killed: no reply *)
Example raising_callback_hyps_sat :
  exists outs st,
    run_session ex_cfg VKeep [ex_item L_EHLO VKeep] = (outs, st, Continue) /\
    raised (snd (step st (ex_item L_MAIL (VRaise FTimeout)))) = true /\
    snd (step st (ex_item L_MAIL (VRaise FTimeout))) =
      {| o_replies := [421]; o_events := [EvCall KMail [115] [] None]; o_fin := Closed |} /\
    snd (step st (ex_item L_MAIL (VRaise FException))) =
      {| o_replies := [421]; o_events := [EvCall KMail [115] [] None]; o_fin := Crashed |} /\
    snd (step st (ex_item L_MAIL (VRaise FKill))) =
      {| o_replies := []; o_events := [EvCall KMail [115] [] None]; o_fin := Crashed |}.
Proof. do 2 eexists. split; [vm_compute; reflexivity|]. vm_compute. repeat split; reflexivity. Qed.
