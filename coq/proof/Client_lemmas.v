(* Proofs for C10 (model/Client.v).  Self-contained: the line / parser lemmas
   needed about model/Reply.v's recv_loop are proved here (prefix cl_). *)
From Coq Require Import String.
From Coq Require Import List NArith Bool Lia Arith Sorting.Sorted.
From Coq Require Import ZifyBool ZifyN.
From SV Require Import lib.Val lib.Bytes model.Reply model.Client.
Import ListNotations.
Open Scope N_scope.

Local Arguments firstn : simpl never.
Local Arguments skipn : simpl never.

(* ------------------------------------------------------------------ *)
(* split_lf                                                            *)

Lemma cl_split_lf_cons : forall b s,
  split_lf (b :: s) =
  let '(ls, t) := split_lf s in
  if b =? 10 then ([] :: ls, t)
  else match ls with [] => ([], b :: t) | l :: ls' => ((b :: l) :: ls', t) end.
Proof. reflexivity. Qed.

Lemma cl_split_lf_unraw : forall s, unraw (fst (split_lf s)) ++ snd (split_lf s) = s.
Proof.
  induction s as [|b s IH]; [reflexivity|].
  rewrite cl_split_lf_cons. destruct (split_lf s) as [ls t]. cbn [fst snd] in IH.
  destruct (b =? 10) eqn:E.
  - apply N.eqb_eq in E. subst b. cbn. f_equal. exact IH.
  - destruct ls as [|l ls']; cbn in *.
    + f_equal. exact IH.
    + f_equal. rewrite <- app_assoc in *. exact IH.
Qed.

Lemma cl_split_lf_app : forall a b,
  split_lf (a ++ b) =
  let '(la, ta) := split_lf a in
  let '(lb, tb) := split_lf (ta ++ b) in (la ++ lb, tb).
Proof.
  induction a as [|x a IH]; intros b.
  - cbn. destruct (split_lf b); reflexivity.
  - rewrite <- app_comm_cons. rewrite !cl_split_lf_cons. rewrite IH.
    destruct (split_lf a) as [la ta].
    destruct (x =? 10) eqn:E.
    + destruct (split_lf (ta ++ b)) as [lb tb]. reflexivity.
    + destruct la as [|l r].
      * rewrite <- app_comm_cons. rewrite cl_split_lf_cons.
        destruct (split_lf (ta ++ b)) as [lb tb]. rewrite E. cbn.
        destruct lb; reflexivity.
      * destruct (split_lf (ta ++ b)) as [lb tb]. reflexivity.
Qed.

Lemma cl_split_lf_line : forall l s,
  no_lf l = true ->
  split_lf (l ++ 10 :: s) = (l :: fst (split_lf s), snd (split_lf s)).
Proof.
  induction l as [|x l IH]; intros s H.
  - cbn [app]. rewrite cl_split_lf_cons. destruct (split_lf s). reflexivity.
  - cbn in H. apply andb_prop in H. destruct H as [Hx Hl].
    rewrite <- app_comm_cons. rewrite cl_split_lf_cons. rewrite (IH s Hl).
    destruct (x =? 10); [discriminate|]. reflexivity.
Qed.

(* ------------------------------------------------------------------ *)
(* scan / recv_loop: incremental = batch                               *)

Lemma cl_scan_app : forall l1 l2 code msgs,
  scan code msgs (l1 ++ l2) =
  match scan code msgs l1 with
  | SMore c m => scan c m l2
  | SDone c m rest => SDone c m (rest ++ l2)
  | SBad rest => SBad (rest ++ l2)
  end.
Proof.
  induction l1 as [|raw l1 IH]; intros l2 code msgs; [reflexivity|].
  cbn [app scan]. destruct (parse_reply_line raw) as [[[c sep] txt]|]; [|reflexivity].
  destruct (code_conflict code c); [reflexivity|].
  destruct (sep =? 45); [apply IH|reflexivity].
Qed.

Lemma cl_recv_loop_eq : forall code msgs buf chunks,
  recv_loop code msgs buf chunks =
  let '(ls, tail) := split_lf buf in
  match scan code msgs ls with
  | SDone c m rest => ROk c (join CRLF m) (unraw rest ++ tail) chunks
  | SBad rest => RBad (unraw rest ++ tail) chunks
  | SMore c m =>
      match chunks with
      | [] => RLost
      | ch :: chunks' =>
          match ch with
          | [] => RLost
          | _ => recv_loop c m (tail ++ ch) chunks'
          end
      end
  end.
Proof. intros. destruct chunks; reflexivity. Qed.

Lemma cl_unraw_app : forall a b, unraw (a ++ b) = unraw a ++ unraw b.
Proof. intros. unfold unraw. rewrite map_app, concat_app. reflexivity. Qed.

Definition nonempty (c : bytes) : Prop := c <> [].

(* If the whole stream (buffer followed by everything the socket will deliver)
   contains a complete reply, the incremental reader returns it whatever the
   segmentation, and what it leaves (buffer + unread chunks) is exactly the
   rest of the stream. *)
Lemma cl_recv_loop_done : forall chunks code msgs buf c m rest,
  Forall nonempty chunks ->
  scan code msgs (fst (split_lf (buf ++ concat chunks))) = SDone c m rest ->
  exists buf' ch',
    recv_loop code msgs buf chunks = ROk c (join CRLF m) buf' ch' /\
    buf' ++ concat ch' = unraw rest ++ snd (split_lf (buf ++ concat chunks)) /\
    Forall nonempty ch'.
Proof.
  induction chunks as [|ch chunks IH]; intros code msgs buf c m rest Hne Hscan.
  - cbn [concat] in *. rewrite app_nil_r in *. rewrite cl_recv_loop_eq.
    destruct (split_lf buf) as [ls tail]. cbn [fst snd] in *. rewrite Hscan.
    eexists _, []. split; [reflexivity|]. split; [cbn; now rewrite app_nil_r|constructor].
  - inversion Hne as [|? ? Hch Hne']; subst.
    cbn [concat] in Hscan |- *. rewrite cl_recv_loop_eq.
    rewrite cl_split_lf_app in Hscan |- *.
    destruct (split_lf buf) as [ls1 t1].
    destruct (split_lf (t1 ++ ch ++ concat chunks)) as [ls2 t2] eqn:E2.
    cbn [fst snd] in *. rewrite cl_scan_app in Hscan.
    destruct (scan code msgs ls1) as [c1 m1 rest1|rest1|c1 m1] eqn:E1.
    + inversion Hscan; subst. eexists _, (ch :: chunks). split; [reflexivity|].
      split; [|constructor; assumption].
      cbn [concat]. rewrite cl_unraw_app, <- !app_assoc. f_equal.
      pose proof (cl_split_lf_unraw (t1 ++ ch ++ concat chunks)) as U. rewrite E2 in U.
      cbn [fst snd] in U. rewrite U. reflexivity.
    + discriminate.
    + destruct ch as [|b ch]; [exfalso; apply Hch; reflexivity|].
      specialize (IH c1 m1 (t1 ++ b :: ch) c m rest Hne').
      rewrite <- app_assoc in IH. rewrite E2 in IH. cbn [fst snd] in IH.
      apply IH. exact Hscan.
Qed.

(* ------------------------------------------------------------------ *)
(* the lines the server writes                                         *)

Lemma cl_strip_cr_snoc : forall x, strip_cr (x ++ [13]) = x.
Proof.
  induction x as [|a x IH]; [reflexivity|].
  cbn [app]. destruct x as [|b x].
  - reflexivity.
  - cbn [app] in *. cbn [strip_cr]. f_equal. exact IH.
Qed.

Lemma cl_beqb_refl : forall a, beqb a a = true.
Proof. induction a; cbn; [reflexivity|]. rewrite N.eqb_refl. exact IHa. Qed.

Lemma cl_beqb_eq : forall a b, beqb a b = true -> a = b.
Proof.
  induction a; destruct b; cbn; intros H; try discriminate; [reflexivity|].
  apply andb_prop in H. destruct H as [H1 H2]. apply N.eqb_eq in H1. subst. f_equal. auto.
Qed.

(* a three-digit code *)
Definition code3 (c : bytes) : Prop :=
  exists d1 d2 d3, c = [d1; d2; d3] /\ (((49 <=? d1) && (d1 <=? 53)) = true /\ is_digit d1 = true) /\ is_digit d2 = true /\ is_digit d3 = true.

Lemma cl_code_ok_code3 : forall c, code_ok c = true -> forallb is_digit c = true -> code3 c.
Proof.
  intros c H D. destruct c as [|a [|b [|d [|? ?]]]]; try discriminate.
  cbn in D. repeat (apply andb_prop in D; destruct D as [? D]).
  exists a, b, d. cbn in H. auto.
Qed.

Lemma cl_parse_line : forall c sep l,
  code3 c -> is_sep sep = true ->
  parse_reply_line (c ++ [sep] ++ l ++ [13]) = Some (c, sep, l).
Proof.
  intros c sep l (d1 & d2 & d3 & -> & [H1 _] & H2 & H3) Hs.
  unfold parse_reply_line.
  replace ([d1; d2; d3] ++ [sep] ++ l ++ [13]) with ((d1 :: d2 :: d3 :: sep :: l) ++ [13]) by reflexivity.
  rewrite cl_strip_cr_snoc. rewrite H1, H2, H3, Hs. reflexivity.
Qed.

Lemma cl_digit_not_lf : forall d, is_digit d = true -> negb (d =? 10) = true.
Proof. intros d H. unfold is_digit in H. lia. Qed.

Lemma cl_code3_no_lf : forall c, code3 c -> no_lf c = true.
Proof.
  intros c (d1 & d2 & d3 & -> & [_ H1] & H2 & H3). cbn.
  rewrite !cl_digit_not_lf by assumption. reflexivity.
Qed.

Lemma cl_no_lf_app : forall a b, no_lf (a ++ b) = no_lf a && no_lf b.
Proof. intros. unfold no_lf. apply forallb_app. Qed.

(* raw lines (LF removed) of emit_lines *)
Fixpoint raws (c : bytes) (ls : list bytes) : list bytes :=
  match ls with
  | [] => []
  | [l] => [c ++ [32] ++ l ++ [13]]
  | l :: ls' => (c ++ [45] ++ l ++ [13]) :: raws c ls'
  end.

Lemma cl_split_emit : forall c ls t,
  code3 c -> forallb no_lf ls = true ->
  split_lf (emit_lines c ls ++ t) = (raws c ls ++ fst (split_lf t), snd (split_lf t)).
Proof.
  intros c ls t Hc. induction ls as [|l ls IH]; intros Hls.
  - cbn. destruct (split_lf t); reflexivity.
  - cbn [forallb] in Hls. apply andb_prop in Hls. destruct Hls as [Hl Hls].
    assert (Hline : forall sep, negb (sep =? 10) = true -> no_lf (c ++ [sep] ++ l ++ [13]) = true).
    { intros sep Hsep. rewrite !cl_no_lf_app, (cl_code3_no_lf c Hc), Hl. cbn. rewrite Hsep. reflexivity. }
    destruct ls as [|l2 ls].
    + cbn [emit_lines raws]. unfold CRLF.
      replace ((c ++ [32] ++ l ++ [13; 10]) ++ t) with ((c ++ [32] ++ l ++ [13]) ++ 10 :: t)
        by (rewrite <- !app_assoc; reflexivity).
      rewrite cl_split_lf_line by (apply Hline; reflexivity). reflexivity.
    + specialize (IH Hls).
      change (emit_lines c (l :: l2 :: ls)) with (c ++ [45] ++ l ++ CRLF ++ emit_lines c (l2 :: ls)).
      change (raws c (l :: l2 :: ls)) with ((c ++ [45] ++ l ++ [13]) :: raws c (l2 :: ls)).
      unfold CRLF.
      replace ((c ++ [45] ++ l ++ [13; 10] ++ emit_lines c (l2 :: ls)) ++ t)
        with ((c ++ [45] ++ l ++ [13]) ++ 10 :: (emit_lines c (l2 :: ls) ++ t))
        by (rewrite <- !app_assoc; reflexivity).
      rewrite cl_split_lf_line by (apply Hline; reflexivity). rewrite IH. reflexivity.
Qed.

Lemma cl_conflict_same : forall c, code_conflict (Some c) c = false.
Proof. intros. cbn. rewrite cl_beqb_refl. reflexivity. Qed.

Lemma cl_scan_raws : forall c ls more code0 msgs0,
  code3 c -> ls <> [] -> (code0 = None \/ code0 = Some c) ->
  scan code0 msgs0 (raws c ls ++ more) = SDone c (msgs0 ++ ls) more.
Proof.
  intros c ls more code0 msgs0 Hc. revert code0 msgs0.
  induction ls as [|l ls IH]; intros code0 msgs0 Hne Hcode; [congruence|].
  assert (Hconf : code_conflict code0 c = false).
  { destruct Hcode as [->| ->]; [reflexivity|apply cl_conflict_same]. }
  destruct ls as [|l2 ls].
  - change (raws c [l] ++ more) with ((c ++ [32] ++ l ++ [13]) :: more).
    cbn [scan]. rewrite cl_parse_line by (auto; reflexivity).
    rewrite Hconf. reflexivity.
  - change (raws c (l :: l2 :: ls) ++ more)
      with ((c ++ [45] ++ l ++ [13]) :: (raws c (l2 :: ls) ++ more)).
    cbn [scan]. rewrite cl_parse_line by (auto; reflexivity).
    rewrite Hconf. change (45 =? 45) with true. cbv iota.
    rewrite IH by (auto; congruence).
    rewrite <- app_assoc. reflexivity.
Qed.

(* C17-style round trip, any segmentation, exact consumption *)
Lemma cl_recv_reply_wire : forall c ls t buf chunks,
  code3 c -> ls <> [] -> forallb no_lf ls = true ->
  Forall nonempty chunks ->
  buf ++ concat chunks = emit_lines c ls ++ t ->
  exists buf' ch',
    recv_reply buf chunks = ROk c (join CRLF ls) buf' ch' /\
    buf' ++ concat ch' = t /\ Forall nonempty ch'.
Proof.
  intros c ls t buf chunks Hc Hne Hlf Hch Hstream.
  unfold recv_reply.
  destruct (cl_recv_loop_done chunks None [] buf c ls (fst (split_lf t)) Hch) as (buf' & ch' & H1 & H2 & H3).
  - rewrite Hstream, cl_split_emit by assumption. cbn [fst].
    rewrite cl_scan_raws by (auto). reflexivity.
  - exists buf', ch'. split; [exact H1|]. split; [|exact H3].
    rewrite H2, Hstream, cl_split_emit by assumption. cbn [snd].
    apply cl_split_lf_unraw.
Qed.

(* ------------------------------------------------------------------ *)
(* lists                                                               *)
Local Open Scope nat_scope.

Lemma cl_upd_length : forall A (l : list A) i f, length (upd l i f) = length l.
Proof. induction l; destruct i; cbn; auto. Qed.

Lemma cl_nth_upd_eq : forall A (l : list A) i f d, i < length l -> nth i (upd l i f) d = f (nth i l d).
Proof.
  induction l; intros i f d H; cbn in H; [lia|].
  destruct i; cbn; [reflexivity|]. apply IHl. lia.
Qed.

Lemma cl_nth_upd_neq : forall A (l : list A) i j f d, i <> j -> nth j (upd l i f) d = nth j l d.
Proof.
  induction l; intros i j f d H; [destruct i, j; reflexivity|].
  destruct i, j; cbn; try reflexivity; try lia. apply IHl. lia.
Qed.

Lemma cl_skipn_nth : forall A (l : list A) f d, f < length l -> skipn f l = nth f l d :: skipn (S f) l.
Proof.
  induction l; intros f d H; cbn in H; [lia|].
  destruct f; [reflexivity|]. cbn [nth]. change (skipn (S f) (a :: l)) with (skipn f l).
  change (skipn (S (S f)) (a :: l)) with (skipn (S f) l). apply IHl. lia.
Qed.

Lemma cl_seq_snoc : forall f k, seq f (S k) = seq f k ++ [f + k].
Proof. intros. rewrite seq_S. reflexivity. Qed.

(* ------------------------------------------------------------------ *)
(* Reply objects                                                       *)
Section Pairing.
  Variable udigit : N -> bool.
  Variable uspace : N -> bool.

  Lemma cl_set_message_code : forall r v, r_code (set_message udigit uspace r v) = r_code r.
  Proof.
    intros r v. unfold set_message. destruct v; [reflexivity|].
    destruct (if peel_allowed (r_code r) then match_esc udigit uspace (n :: v) else None) as [[[[? ?] ?] ?]|];
      reflexivity.
  Qed.

  Lemma cl_wf_reply_inv : forall c ls,
    wf_reply (c, ls) = true ->
    code_ok c = true /\ code3 c /\ ls <> [] /\ forallb no_lf ls = true /\
    exists t, utf8_dec (join CRLF ls) = Some t.
  Proof.
    intros c ls H. unfold wf_reply in H.
    repeat (apply andb_prop in H; destruct H as [H ?]).
    split; [assumption|]. split; [apply cl_code_ok_code3; assumption|].
    split; [destruct ls; [discriminate|congruence]|]. split; [assumption|].
    destruct (utf8_dec (join CRLF ls)); [eauto|discriminate].
  Qed.

  Lemma cl_recv_into_wire : forall old r t buf chunks,
    wf_reply r = true -> Forall nonempty chunks ->
    (buf ++ concat chunks = wire1 r ++ t)%list ->
    exists buf' ch',
      recv_into udigit uspace old buf chunks =
        FGot (set_message udigit uspace (mkReply (fst r) (r_esc old) []) (rtext r)) buf' ch' /\
      (buf' ++ concat ch' = t)%list /\ Forall nonempty ch'.
  Proof.
    intros old [c ls] t buf chunks Hwf Hch Hs.
    destruct (cl_wf_reply_inv c ls Hwf) as (Hok & Hc3 & Hne & Hlf & t' & Hdec).
    destruct (cl_recv_reply_wire c ls t buf chunks Hc3 Hne Hlf Hch Hs) as (buf' & ch' & H1 & H2 & H3).
    exists buf', ch'. split; [|split; assumption].
    unfold recv_into, rtext. cbn [fst snd]. rewrite H1, Hdec, Hok. reflexivity.
  Qed.

  Lemma cl_bad_utf8_inv : forall c ls,
    bad_utf8 (c, ls) = true ->
    code3 c /\ ls <> [] /\ forallb no_lf ls = true /\ utf8_dec (join CRLF ls) = None.
  Proof.
    intros c ls H. unfold bad_utf8 in H.
    apply andb_prop in H. destruct H as [H E]. apply andb_prop in H. destruct H as [H D].
    apply andb_prop in H. destruct H as [H C]. apply andb_prop in H. destruct H as [A B].
    split; [apply cl_code_ok_code3; assumption|].
    split; [destruct ls; [discriminate|congruence]|]. split; [assumption|].
    destruct (utf8_dec (join CRLF ls)); [discriminate|reflexivity].
  Qed.

  (* BadReply for an undecodable reply is raised AFTER the reply has been consumed:
     what is left is exactly the rest of the stream *)
  Lemma cl_recv_into_bad : forall old r t buf chunks,
    bad_utf8 r = true -> Forall nonempty chunks ->
    (buf ++ concat chunks = wire1 r ++ t)%list ->
    exists buf' ch',
      recv_into udigit uspace old buf chunks = FBadReply buf' ch' /\
      (buf' ++ concat ch' = t)%list /\ Forall nonempty ch'.
  Proof.
    intros old [c ls] t buf chunks Hb Hch Hs.
    destruct (cl_bad_utf8_inv c ls Hb) as (Hc3 & Hne & Hlf & Hdec).
    destruct (cl_recv_reply_wire c ls t buf chunks Hc3 Hne Hlf Hch Hs) as (buf' & ch' & H1 & H2 & H3).
    exists buf', ch'. split; [|split; assumption].
    unfold recv_into. rewrite H1, Hdec. reflexivity.
  Qed.

  Variable script : list sreply.
  Variable extra : bytes.
  (* every scripted reply is either well-formed or well-formed-but-not-UTF-8 *)
  Hypothesis Hscript : forallb script_ok script = true.

  Definition scr (j : nat) : sreply := nth j script dflt.
  Definition good (j : nat) : bool := wf_reply (scr j).

  Lemma cl_scr_ok : forall j, j < length script ->
    good j = true \/ (good j = false /\ bad_utf8 (scr j) = true).
  Proof.
    intros j H. pose proof Hscript as Hs. rewrite forallb_forall in Hs.
    specialize (Hs (scr j) (nth_In _ _ H)). unfold script_ok in Hs. unfold good.
    destruct (wf_reply (scr j)); [left; reflexivity|right; split; [reflexivity|exact Hs]].
  Qed.

  Definition obj_at (st : cstate) (j : nat) : robj := nth j (s_objs st) dummy_obj.
  Definition fill_obj (o : robj) (r : sreply) : robj :=
    mkObj (o_cmd o) (o_kind o) (raw_filled udigit uspace (o_kind o) r).

  Definition in_range (f k j : nat) : bool := (f <=? j) && (j <? f + k).

  Lemma cl_wire_skipn : forall f, f < length script ->
    wire (skipn f script) = (wire1 (scr f) ++ wire (skipn (S f) script))%list.
  Proof. intros f H. rewrite (cl_skipn_nth _ script f dflt H). reflexivity. Qed.

  (* the loop of _flush_pipeline: the owed slots, in order, receive the next scripted
     replies; an undecodable reply costs its own slot a BadReply - the slot is popped,
     the reply consumed - and the loop stops there (g = replies consumed) *)
  Lemma cl_flush_loop_gen : forall k f st,
    f + k <= length script ->
    f + k <= length (s_objs st) ->
    (forall j, f <= j < f + k -> r_esc (o_r (obj_at st j)) = esc0 (o_kind (obj_at st j))) ->
    (s_rbuf st ++ concat (s_chunks st) = wire (skipn f script) ++ extra)%list ->
    Forall nonempty (s_chunks st) ->
    exists st' e g,
      flush_loop udigit uspace (seq f k) st = (st', e) /\ g <= k /\
      s_queue st' = seq (f + g) (k - g) /\ s_lmtp st' = s_lmtp st /\ s_sendbuf st' = s_sendbuf st /\
      s_sent st' = s_sent st /\ s_exts st' = s_exts st /\ s_rcpttos st' = s_rcpttos st /\
      s_dead st' = s_dead st /\
      (s_rbuf st' ++ concat (s_chunks st') = wire (skipn (f + g) script) ++ extra)%list /\
      Forall nonempty (s_chunks st') /\
      length (s_objs st') = length (s_objs st) /\
      (forall j, obj_at st' j = if in_range f g j && good j then fill_obj (obj_at st j) (scr j) else obj_at st j) /\
      ((e = None /\ g = k /\ forall j, f <= j < f + k -> good j = true) \/
       (e = Some XBadReply /\ 0 < g /\ good (f + g - 1) = false)).
  Proof.
    induction k as [|k IH]; intros f st Hs Hn Hesc Hstream Hch.
    - exists (set_queue st []%list), None, 0. cbn [seq flush_loop]. rewrite Nat.add_0_r.
      repeat (split; [first [reflexivity | assumption | lia]|]).
      split.
      + intros j. unfold in_range. replace ((f <=? j) && (j <? f + 0)) with false by lia. reflexivity.
      + left. repeat split. intros j Hj. lia.
    - cbn [seq flush_loop].
      set (st0 := set_queue st (seq (S f) k)).
      assert (Hf : f < length script) by lia.
      rewrite (cl_wire_skipn f Hf), <- app_assoc in Hstream.
      destruct (cl_scr_ok f Hf) as [Hg|[Hng Hbad]].
      + destruct (cl_recv_into_wire (o_r (get_obj st0 f)) (scr f) _ (s_rbuf st0) (s_chunks st0)
                    Hg Hch Hstream) as (buf' & ch' & Hrecv & Hrest & Hch').
        rewrite Hrecv. clear Hrecv.
        set (r := set_message udigit uspace (mkReply (fst (scr f)) (r_esc (o_r (get_obj st0 f))) []%list) (rtext (scr f))).
        set (st2 := if is_error r then set_lasterr (set_obj (set_recv st0 buf' ch') f r) (Some f)
                    else set_obj (set_recv st0 buf' ch') f r).
        assert (E2 : s_objs st2 = upd (s_objs st) f (fun o => mkObj (o_cmd o) (o_kind o) r) /\
                     s_rbuf st2 = buf' /\ s_chunks st2 = ch' /\ s_lmtp st2 = s_lmtp st /\
                     s_sendbuf st2 = s_sendbuf st /\ s_sent st2 = s_sent st /\ s_exts st2 = s_exts st /\
                     s_rcpttos st2 = s_rcpttos st /\ s_dead st2 = s_dead st).
        { subst st2. destruct (is_error r); cbn; repeat split; reflexivity. }
        destruct E2 as (Eo & Eb & Ec & El & Esb & Est & Ee & Er & Ed).
        assert (Hobj2 : forall j, obj_at st2 j =
                   if Nat.eqb j f then mkObj (o_cmd (obj_at st f)) (o_kind (obj_at st f)) r else obj_at st j).
        { intros j. unfold obj_at. rewrite Eo. destruct (Nat.eqb j f) eqn:E.
          - apply Nat.eqb_eq in E. subst j. rewrite cl_nth_upd_eq by lia. reflexivity.
          - apply Nat.eqb_neq in E. rewrite cl_nth_upd_neq by lia. reflexivity. }
        destruct (IH (S f) st2) as (st' & e & g & Hfl & Hgk & Hq & Hl & Hsb & Hst & He & Hr & Hd & Hstr & Hc & Hlen & Hobjs & Hout).
        * lia.
        * rewrite Eo, cl_upd_length. lia.
        * intros j Hj. rewrite Hobj2. replace (Nat.eqb j f) with false by (symmetry; apply Nat.eqb_neq; lia).
          apply Hesc. lia.
        * rewrite Eb, Ec. exact Hrest.
        * rewrite Ec. exact Hch'.
        * exists st', e, (S g). split; [exact Hfl|]. split; [lia|].
          rewrite Hl, Hsb, Hst, He, Hr, Hd, Hlen, El, Esb, Est, Ee, Er, Ed, Eo, cl_upd_length.
          split; [rewrite Hq; f_equal; lia|].
          repeat (split; [reflexivity|]).
          split; [replace (f + S g) with (S f + g) by lia; exact Hstr|].
          split; [exact Hc|]. split; [reflexivity|].
          split.
          { intros j. rewrite Hobjs, Hobj2. unfold in_range.
            destruct (Nat.eqb j f) eqn:E.
            - apply Nat.eqb_eq in E. subst j.
              replace ((S f <=? f) && (f <? S f + g)) with false by lia.
              replace ((f <=? f) && (f <? f + S g)) with true by lia.
              cbn [andb]. unfold good in Hg |- *. rewrite Hg.
              unfold fill_obj, raw_filled. f_equal. subst r.
              change (get_obj st0 f) with (obj_at st f). rewrite (Hesc f) by lia. reflexivity.
            - apply Nat.eqb_neq in E.
              replace ((S f <=? j) && (j <? S f + g)) with ((f <=? j) && (j <? f + S g)) by lia.
              destruct ((f <=? j) && (j <? f + S g) && good j); reflexivity. }
          destruct Hout as [(-> & -> & Hall)|(-> & Hpos & Hbadj)].
          { left. repeat split. intros j Hj. destruct (Nat.eq_dec j f) as [->|Hne]; [exact Hg|]. apply Hall. lia. }
          { right. split; [reflexivity|]. split; [lia|].
            replace (f + S g - 1) with (S f + g - 1) by lia. exact Hbadj. }
      + destruct (cl_recv_into_bad (o_r (get_obj st0 f)) (scr f) _ (s_rbuf st0) (s_chunks st0)
                    Hbad Hch Hstream) as (buf' & ch' & Hrecv & Hrest & Hch').
        rewrite Hrecv. clear Hrecv.
        exists (set_recv st0 buf' ch'), (Some XBadReply), 1.
        split; [reflexivity|]. split; [lia|].
        split; [cbn; f_equal; lia|].
        repeat (split; [reflexivity|]).
        split; [cbn [s_rbuf s_chunks set_recv]; replace (f + 1) with (S f) by lia; exact Hrest|].
        split; [exact Hch'|]. split; [reflexivity|].
        split.
        { intros j. change (obj_at (set_recv st0 buf' ch') j) with (obj_at st j). unfold in_range.
          destruct (Nat.eq_dec j f) as [->|Hne].
          - rewrite Hng, andb_false_r. reflexivity.
          - replace ((f <=? j) && (j <? f + 1)) with false by lia. reflexivity. }
        right. split; [reflexivity|]. split; [lia|]. replace (f + 1 - 1) with f by lia. exact Hng.
  Qed.


  (* ---------------------------------------------------------------- *)
  (* unconditional facts: the heap only grows                          *)

  Lemma cl_flush_loop_len : forall q st,
    length (s_objs (fst (flush_loop udigit uspace q st))) = length (s_objs st).
  Proof.
    induction q as [|id q IH]; intros st; [reflexivity|].
    cbn [flush_loop].
    destruct (recv_into udigit uspace (o_r (get_obj (set_queue st q) id)) (s_rbuf (set_queue st q))
                        (s_chunks (set_queue st q))) as [r buf ch|buf ch|buf ch|]; try reflexivity.
    rewrite IH. destruct (is_error r); cbn; apply cl_upd_length.
  Qed.

  Lemma cl_flush_send_objs : forall st, s_objs (flush_send st) = s_objs st.
  Proof. intros st. unfold flush_send. destruct (s_sendbuf st); reflexivity. Qed.

  Lemma cl_flush_len : forall st,
    length (s_objs (fst (flush udigit uspace st))) = length (s_objs st).
  Proof. intros st. unfold flush. rewrite cl_flush_loop_len, cl_flush_send_objs. reflexivity. Qed.

  Lemma cl_command_method_len : forall cmd k w fl st,
    length (s_objs (fst (command_method udigit uspace cmd k w fl st))) = S (length (s_objs st)).
  Proof.
    intros. unfold command_method, new_slot. cbv beta iota zeta.
    match goal with |- context [buffered_send w ?x] => set (st1 := x) end.
    assert (H1 : length (s_objs (buffered_send w st1)) = S (length (s_objs st))).
    { cbn. rewrite app_length. cbn. lia. }
    destruct fl; [|exact H1].
    pose proof (cl_flush_len (buffered_send w st1)) as H2.
    destruct (flush udigit uspace (buffered_send w st1)) as [st3 [e|]]; cbn [fst] in *; lia.
  Qed.

  Lemma cl_hello_post_len : forall id st,
    length (s_objs (hello_post udigit uspace id st)) = length (s_objs st).
  Proof.
    intros. unfold hello_post. destruct (beqb _ C250); [|cbn; apply cl_upd_length].
    destruct (parse_string uspace _) as [hdr exts].
    destruct (s_lmtp st); cbn; apply cl_upd_length.
  Qed.

  Lemma cl_lmtp_slots_len : forall rs st acc,
    length (s_objs st) <= length (s_objs (fst (lmtp_slots rs st acc))).
  Proof.
    induction rs as [|[a rid] rs IH]; intros st acc; [cbn; lia|].
    cbn [lmtp_slots]. destruct (r_code (o_r (get_obj st rid))) as [|k c]; [apply IH|].
    destruct (k =? 50)%N; [|apply IH].
    unfold new_slot. cbv beta iota zeta.
    eapply Nat.le_trans; [|apply IH]. cbn [s_objs set_queue set_objs].
    rewrite app_length. cbn [length]. lia.
  Qed.

  Lemma cl_custom_len : forall cmd arg st,
    length (s_objs (fst (custom udigit uspace cmd arg st))) = S (length (s_objs st)).
  Proof. intros. unfold custom. apply cl_command_method_len. Qed.

  Lemma cl_lmtp_data_len : forall w st,
    length (s_objs st) <= length (s_objs (fst (lmtp_data udigit uspace w st))).
  Proof.
    intros. unfold lmtp_data.
    pose proof (cl_flush_len st) as H0.
    destruct (flush udigit uspace st) as [st0 [e|]]; cbn [fst] in *; [lia|].
    pose proof (cl_lmtp_slots_len (s_rcpttos st0) st0 []%list) as H1.
    destruct (lmtp_slots (s_rcpttos st0) st0 []%list) as [st1 ret]; cbn [fst] in *.
    match goal with |- context [pipelining ?x] => set (st2 := x) end.
    assert (H2 : length (s_objs st2) = length (s_objs st1)) by reflexivity.
    destruct (pipelining st2); [cbn [fst]; lia|].
    pose proof (cl_flush_len st2) as H3.
    destruct (flush udigit uspace st2) as [st3 [e|]]; cbn [fst] in *; lia.
  Qed.

  Lemma cl_step_mono : forall o st,
    length (s_objs st) <= length (s_objs (fst (step udigit uspace o st))).
  Proof.
    intros o st. unfold step. destruct (s_dead st); [cbn; lia|].
    destruct o.
    - rewrite cl_command_method_len. lia.
    - rewrite cl_command_method_len. lia.
    - destruct (s_lmtp st); [cbn; lia|]. unfold hello_method.
      destruct (enc_ascii a); [|cbn; lia].
      match goal with |- context [command_method ?a ?b ?c ?d ?e ?f ?g] =>
        pose proof (cl_command_method_len c d e f g) as H;
        destruct (command_method a b c d e f g) as [st1 [id|l0|e0]] end; cbn [fst] in *; try lia.
      rewrite cl_hello_post_len. lia.
    - destruct (s_lmtp st); [cbn; lia|]. destruct (enc_ascii a); [|cbn; lia].
      rewrite cl_command_method_len. lia.
    - destruct (s_lmtp st); [|cbn; lia]. unfold hello_method.
      destruct (enc_ascii a); [|cbn; lia].
      match goal with |- context [command_method ?a ?b ?c ?d ?e ?f ?g] =>
        pose proof (cl_command_method_len c d e f g) as H;
        destruct (command_method a b c d e f g) as [st1 [id|l0|e0]] end; cbn [fst] in *; try lia.
      rewrite cl_hello_post_len. lia.
    - destruct (mail_command st addr size auth); [|cbn; lia]. rewrite cl_command_method_len. lia.
    - destruct (encode st addr); [|cbn; lia].
      match goal with |- context [command_method ?a ?b ?c ?d ?e ?f ?g] =>
        pose proof (cl_command_method_len c d e f g) as H;
        destruct (command_method a b c d e f g) as [st1 [id|l0|e0]] end; cbn [fst] in *; try lia.
      destruct (s_lmtp st1); cbn; lia.
    - rewrite cl_custom_len. lia.
    - destruct (s_lmtp st); [apply cl_lmtp_data_len|]. rewrite cl_command_method_len. lia.
    - destruct (s_lmtp st); [apply cl_lmtp_data_len|]. rewrite cl_command_method_len. lia.
    - pose proof (cl_custom_len (bs "RSET") []%list st) as H.
      destruct (custom udigit uspace (bs "RSET") []%list st) as [st1 [id|l0|e0]]; cbn [fst] in *; try lia.
      destruct (s_lmtp st1); cbn; lia.
    - rewrite cl_custom_len. lia.
    - rewrite cl_custom_len. lia.
  Qed.

  Lemma cl_run_mono : forall ops st,
    length (s_objs st) <= length (s_objs (fst (run udigit uspace ops st))).
  Proof.
    induction ops as [|o ops IH]; intros st; [cbn; lia|].
    cbn [run]. pose proof (cl_step_mono o st) as H1.
    destruct (step udigit uspace o st) as [st1 r]. specialize (IH st1).
    destruct (run udigit uspace ops st1) as [st2 rs]. cbn [fst] in *. lia.
  Qed.


  (* ---------------------------------------------------------------- *)
  (* the invariant                                                     *)

  Definition RCPT : bytes := bs "RCPT".

  (* f = number of scripted replies consumed so far.  Object j < f holds the server's
     j-th reply, unless that reply was undecodable: then its slot was popped and left
     empty (the call that was flushing raised BadReply). *)
  Record Inv (st : cstate) (f : nat) : Prop := mkInv {
    I_dead : s_dead st = false;
    I_queue : s_queue st = seq f (length (s_objs st) - f);
    I_fle : f <= length (s_objs st);
    I_fscript : f <= length script;
    I_stream : (s_rbuf st ++ concat (s_chunks st) = wire (skipn f script) ++ extra)%list;
    I_chunks : Forall nonempty (s_chunks st);
    I_filled : forall j, j < f ->
        o_r (obj_at st j) =
          if good j then filled udigit uspace (o_kind (obj_at st j)) (scr j)
          else unfilled (o_kind (obj_at st j));
    I_unfilled : forall j, f <= j < length (s_objs st) ->
        o_r (obj_at st j) = unfilled (o_kind (obj_at st j)) /\ o_kind (obj_at st j) <> KHello;
    I_rcpt : Forall (fun p => snd p < length (s_objs st) /\
                              o_kind (obj_at st (snd p)) = KPlain /\
                              o_cmd (obj_at st (snd p)) = RCPT) (s_rcpttos st)
  }.

  Lemma cl_filled_raw : forall k r, k <> KHello -> filled udigit uspace k r = raw_filled udigit uspace k r.
  Proof. intros k r H. destruct k; try reflexivity. congruence. Qed.

  Lemma cl_obj_at_app_l : forall st1 st o j,
    s_objs st1 = (s_objs st ++ [o])%list -> j < length (s_objs st) -> obj_at st1 j = obj_at st j.
  Proof. intros st1 st o j E H. unfold obj_at. rewrite E. apply app_nth1. exact H. Qed.

  Lemma cl_obj_at_app_r : forall st1 st o,
    s_objs st1 = (s_objs st ++ [o])%list -> obj_at st1 (length (s_objs st)) = o.
  Proof.
    intros st1 st o E. unfold obj_at. rewrite E. rewrite app_nth2 by lia.
    rewrite Nat.sub_diag. reflexivity.
  Qed.

  (* queueing one more slot *)
  Lemma cl_new_slot_inv : forall cmd k st f,
    k <> KHello -> Inv st f -> Inv (fst (new_slot cmd k st)) f.
  Proof.
    intros cmd k st f Hk I. set (n := length (s_objs st)).
    set (o := mkObj cmd k (unfilled k)).
    assert (Eo : s_objs (fst (new_slot cmd k st)) = (s_objs st ++ [o])%list) by reflexivity.
    assert (Elen : length (s_objs (fst (new_slot cmd k st))) = S n).
    { rewrite Eo, app_length. cbn. lia. }
    destruct I as [Id Iq Ifl Ifs Is Ic Ifi Iun Ir].
    constructor; try assumption.
    - rewrite Elen. change (s_queue (fst (new_slot cmd k st))) with (s_queue st ++ [n])%list. rewrite Iq.
      replace (S n - f) with (S (n - f)) by (fold n in Ifl; lia).
      rewrite cl_seq_snoc. fold n. replace (f + (n - f)) with n by (fold n in Ifl; lia). reflexivity.
    - rewrite Elen. fold n in Ifl. lia.
    - intros j Hj. rewrite (cl_obj_at_app_l _ st o j Eo) by (fold n in Ifl |- *; lia). apply Ifi. exact Hj.
    - intros j Hj. rewrite Elen in Hj.
      destruct (Nat.eq_dec j n) as [->|Hne].
      + unfold n. rewrite (cl_obj_at_app_r _ st o Eo). cbn. split; [reflexivity|exact Hk].
      + rewrite (cl_obj_at_app_l _ st o j Eo) by (fold n; lia). apply Iun. fold n. lia.
    - rewrite Elen. change (s_rcpttos (fst (new_slot cmd k st))) with (s_rcpttos st).
      eapply Forall_impl; [|exact Ir]. intros p (H1 & H2 & H3). fold n in H1.
      rewrite (cl_obj_at_app_l _ st o (snd p) Eo) by (fold n; lia). repeat split; try assumption. lia.
  Qed.

  (* states that differ only in fields the invariant does not read *)
  Lemma cl_inv_same : forall st st' f,
    Inv st f ->
    s_dead st' = s_dead st -> s_queue st' = s_queue st -> s_objs st' = s_objs st ->
    s_rbuf st' = s_rbuf st -> s_chunks st' = s_chunks st -> s_rcpttos st' = s_rcpttos st ->
    Inv st' f.
  Proof.
    intros st st' f [Id Iq Ifl Ifs Is Ic Ifi Iun Ir] E1 E2 E3 E4 E5 E6.
    constructor; unfold obj_at in *; rewrite ?E1, ?E2, ?E3, ?E4, ?E5, ?E6; assumption.
  Qed.

  Lemma cl_inv_clear_rcpttos : forall st f, Inv st f -> Inv (set_rcpttos st []%list) f.
  Proof.
    intros st f [Id Iq Ifl Ifs Is Ic Ifi Iun Ir].
    constructor; try assumption. constructor.
  Qed.

  Lemma cl_buffered_send_inv : forall b st f, Inv st f -> Inv (buffered_send b st) f.
  Proof. intros. eapply cl_inv_same; eauto. Qed.

  Lemma cl_flush_send_inv : forall st f, Inv st f -> Inv (flush_send st) f.
  Proof.
    intros. eapply cl_inv_same; eauto; unfold flush_send; destruct (s_sendbuf st); reflexivity.
  Qed.

  Lemma cl_in_range_true : forall f k j, in_range f k j = true <-> f <= j < f + k.
  Proof. intros. unfold in_range. lia. Qed.

  Definition has_bad : Prop := exists j, j < length script /\ good j = false.

  (* _flush_pipeline when the server has scripted a reply for every slot: either every
     owed reply is read, or the loop stops behind the first undecodable one *)
  Lemma cl_flush_inv : forall st f,
    Inv st f -> length (s_objs st) <= length script ->
    exists st' e f',
      flush udigit uspace st = (st', e) /\
      Inv st' f' /\ f <= f' <= length (s_objs st) /\
      length (s_objs st') = length (s_objs st) /\
      s_lmtp st' = s_lmtp st /\ s_exts st' = s_exts st /\ s_rcpttos st' = s_rcpttos st /\
      (forall j, o_kind (obj_at st' j) = o_kind (obj_at st j) /\ o_cmd (obj_at st' j) = o_cmd (obj_at st j)) /\
      ((e = None /\ f' = length (s_objs st) /\ forall j, f <= j < length (s_objs st) -> good j = true) \/
       (e = Some XBadReply /\ f < f' /\ good (f' - 1) = false)).
  Proof.
    intros st f I Hlen. apply cl_flush_send_inv in I.
    unfold flush. set (st1 := flush_send st) in *.
    assert (E1 : s_objs st1 = s_objs st) by apply cl_flush_send_objs.
    assert (E2 : s_lmtp st1 = s_lmtp st /\ s_exts st1 = s_exts st /\ s_rcpttos st1 = s_rcpttos st).
    { subst st1. unfold flush_send. destruct (s_sendbuf st); repeat split; reflexivity. }
    destruct E2 as (E2 & E3 & E4).
    assert (Eat : forall j, obj_at st1 j = obj_at st j) by (intros; unfold obj_at; rewrite E1; reflexivity).
    rewrite <- E1 in *. rewrite <- E2, <- E3, <- E4. clearbody st1. clear E1 E2 E3 E4.
    setoid_rewrite <- Eat. clear Eat st.
    destruct I as [Id Iq Ifl Ifs Is Ic Ifi Iun Ir].
    set (n := length (s_objs st1)) in *.
    destruct (cl_flush_loop_gen (n - f) f st1) as
        (st' & e & g & Hfl & Hgk & Hq & Hl & Hsb & Hst & He & Hr & Hd & Hstr & Hc & Hlen' & Hobjs & Hout); try assumption.
    - lia.
    - fold n. lia.
    - intros j Hj. destruct (Iun j) as [H1 _]; [fold n; lia|]. rewrite H1. reflexivity.
    - assert (Hkc : forall j, o_kind (obj_at st' j) = o_kind (obj_at st1 j) /\
                              o_cmd (obj_at st' j) = o_cmd (obj_at st1 j)).
      { intros j. rewrite Hobjs. destruct (in_range f g j && good j); split; reflexivity. }
      exists st', e, (f + g). rewrite Iq. split; [exact Hfl|].
      split.
      { constructor.
        + rewrite Hd. exact Id.
        + rewrite Hq, Hlen'. fold n. f_equal. lia.
        + rewrite Hlen'. fold n. lia.
        + lia.
        + exact Hstr.
        + exact Hc.
        + intros j Hj. destruct (Hkc j) as [Hk _]. rewrite Hk. rewrite Hobjs.
          destruct (in_range f g j) eqn:Er; cbn [andb].
          * apply cl_in_range_true in Er. destruct (good j) eqn:Eg.
            -- cbn [fill_obj o_r]. rewrite cl_filled_raw; [reflexivity|].
               destruct (Iun j) as [_ H2]; [fold n; lia|exact H2].
            -- destruct (Iun j) as [H1 _]; [fold n; lia|exact H1].
          * apply Ifi. assert (~ (f <= j < f + g)) by (rewrite <- cl_in_range_true; congruence). lia.
        + intros j Hj. rewrite Hlen' in Hj. fold n in Hj. destruct (Hkc j) as [Hk _]. rewrite Hk, Hobjs.
          replace (in_range f g j) with false by (symmetry; unfold in_range; lia). cbn [andb].
          apply Iun. fold n. lia.
        + rewrite Hr, Hlen'. eapply Forall_impl; [|exact Ir]. intros p (H1 & H2 & H3).
          destruct (Hkc (snd p)) as [Hk Hcm]. rewrite Hk, Hcm. auto. }
      split; [lia|]. split; [exact Hlen'|]. split; [exact Hl|]. split; [exact He|]. split; [exact Hr|].
      split; [exact Hkc|].
      destruct Hout as [(-> & -> & Hall)|(-> & Hpos & Hb)].
      + left. split; [reflexivity|]. split; [lia|]. intros j Hj. apply Hall. lia.
      + right. split; [reflexivity|]. split; [lia|exact Hb].
  Qed.

  Lemma cl_bad_has_bad : forall j, j < length script -> good j = false -> has_bad.
  Proof. intros j H1 H2. exists j. auto. Qed.

  (* the tail of ehlo()/lhlo(): the slot becomes a returned hello *)
  Lemma cl_hello_post_inv : forall id st f,
    Inv st f -> id < f -> o_kind (obj_at st id) = KNoEsc -> good id = true ->
    Inv (hello_post udigit uspace id st) f.
  Proof.
    intros id st f I Hid Hk Hg. destruct I as [Id Iq Ifl Ifs Is Ic Ifi Iun Ir].
    set (n := length (s_objs st)) in *.
    pose proof (Ifi id Hid) as Hr. rewrite Hg, Hk in Hr. cbn [filled] in Hr.
    unfold hello_post. change (get_obj st id) with (obj_at st id). rewrite Hr.
    change (raw_filled udigit uspace KNoEsc (scr id)) with (raw_filled udigit uspace KHello (scr id)).
    set (x := raw_filled udigit uspace KHello (scr id)) in *.
    (* both branches: object id gets kind KHello and the reply `filled KHello` *)
    assert (Hgen : forall st' r',
               s_objs st' = upd (s_objs st) id (fun o => mkObj (o_cmd o) KHello r') ->
               r' = filled udigit uspace KHello (scr id) ->
               s_dead st' = s_dead st -> s_queue st' = s_queue st -> s_rbuf st' = s_rbuf st ->
               s_chunks st' = s_chunks st ->
               (s_rcpttos st' = s_rcpttos st \/ s_rcpttos st' = []%list) ->
               Inv st' f).
    { intros st' r' Eobjs Er' Ed Eq Eb Ech Erc.
      assert (Eat : forall j, obj_at st' j =
                 if Nat.eqb j id then mkObj (o_cmd (obj_at st id)) KHello r' else obj_at st j).
      { intros j. unfold obj_at. rewrite Eobjs. destruct (Nat.eqb j id) eqn:E.
        - apply Nat.eqb_eq in E. subst j. rewrite cl_nth_upd_eq by (fold n; lia). reflexivity.
        - apply Nat.eqb_neq in E. rewrite cl_nth_upd_neq by lia. reflexivity. }
      assert (Elen : length (s_objs st') = n) by (rewrite Eobjs, cl_upd_length; reflexivity).
      constructor; rewrite ?Elen, ?Ed, ?Eq, ?Eb, ?Ech; try assumption.
      + intros j Hj. rewrite Eat. destruct (Nat.eqb j id) eqn:E.
        * apply Nat.eqb_eq in E. subst j. cbn [o_r o_kind]. rewrite Hg. exact Er'.
        * apply Ifi. exact Hj.
      + intros j Hj. rewrite Eat. replace (Nat.eqb j id) with false by (symmetry; apply Nat.eqb_neq; lia).
        apply Iun. exact Hj.
      + assert (Hr' : Forall (fun p => snd p < n /\ o_kind (obj_at st' (snd p)) = KPlain /\
                                        o_cmd (obj_at st' (snd p)) = RCPT) (s_rcpttos st)).
        { eapply Forall_impl; [|exact Ir]. intros p (H1 & H2 & H3). rewrite Eat.
          destruct (Nat.eqb (snd p) id) eqn:E; [|auto].
          apply Nat.eqb_eq in E. rewrite E in H2. congruence. }
        destruct Erc as [->| ->]; [exact Hr'|constructor]. }
    destruct (beqb (r_code x) C250) eqn:E250.
    - destruct (parse_string uspace (get_message x)) as [hdr exts] eqn:Eps.
      eapply (Hgen _ (set_message udigit uspace x hdr)).
      + destruct (s_lmtp st); reflexivity.
      + cbn [filled]. fold x. rewrite E250, Eps. reflexivity.
      + destruct (s_lmtp st); reflexivity.
      + destruct (s_lmtp st); reflexivity.
      + destruct (s_lmtp st); reflexivity.
      + destruct (s_lmtp st); reflexivity.
      + destruct (s_lmtp st); [right|left]; reflexivity.
    - eapply (Hgen _ x); try reflexivity.
      + cbn [filled]. fold x. rewrite E250. reflexivity.
      + left. reflexivity.
  Qed.

  (* ---------------------------------------------------------------- *)
  (* the methods                                                       *)

  Lemma cl_command_method_inv : forall cmd k w fl st f st' res,
    Inv st f -> k <> KHello ->
    command_method udigit uspace cmd k w fl st = (st', res) ->
    length (s_objs st') <= length script ->
    let n := length (s_objs st) in
    exists f', Inv st' f' /\ f <= f' /\
      length (s_objs st') = S n /\
      s_lmtp st' = s_lmtp st /\ s_rcpttos st' = s_rcpttos st /\ s_exts st' = s_exts st /\
      o_kind (obj_at st' n) = k /\ o_cmd (obj_at st' n) = cmd /\
      ((res = RObj n /\ f' = (if fl then S n else f) /\
        (fl = true -> forall j, f <= j < S n -> good j = true)) \/
       (fl = true /\ res = RExn XBadReply /\ has_bad)).
  Proof.
    intros cmd k w fl st f st' res I Hk H Hlen n.
    pose proof (cl_command_method_len cmd k w fl st) as Hl. rewrite H in Hl. cbn [fst] in Hl.
    pose proof (cl_new_slot_inv cmd k st f Hk I) as I1.
    unfold command_method in H.
    destruct (new_slot cmd k st) as [st1 id] eqn:Ens. cbn [fst] in I1.
    assert (Eid : id = n) by (unfold new_slot in Ens; inversion Ens; reflexivity).
    assert (Eo : s_objs st1 = (s_objs st ++ [mkObj cmd k (unfilled k)])%list)
      by (unfold new_slot in Ens; inversion Ens; reflexivity).
    assert (Efr : s_lmtp st1 = s_lmtp st /\ s_rcpttos st1 = s_rcpttos st /\ s_exts st1 = s_exts st)
      by (unfold new_slot in Ens; inversion Ens; repeat split; reflexivity).
    destruct Efr as (Ef1 & Ef2 & Ef3). subst id.
    apply (cl_buffered_send_inv w) in I1.
    set (st2 := buffered_send w st1) in *.
    assert (Eo2 : s_objs st2 = s_objs st1) by reflexivity.
    assert (Elen2 : length (s_objs st2) = S n).
    { rewrite Eo2, Eo, app_length. cbn. fold n. lia. }
    assert (Hnew : obj_at st2 n = mkObj cmd k (unfilled k)).
    { unfold obj_at. rewrite Eo2. apply (cl_obj_at_app_r st1 st _ Eo). }
    destruct fl.
    - destruct (cl_flush_inv st2 f I1) as (st3 & e & f' & Hfl & I3 & Hff & Hl3 & Hlm & Hex & Hrc & Hkc & Hout); [lia|].
      rewrite Hfl in H. rewrite Elen2 in *.
      destruct (Hkc n) as [Hk' Hc]. rewrite Hnew in Hk', Hc. cbn [o_kind o_cmd] in Hk', Hc.
      destruct Hout as [(-> & -> & Hall)|(-> & Hlt & Hb)]; inversion H; subst st' res; clear H.
      + exists (S n). split; [exact I3|]. split; [lia|]. rewrite Hlm, Hex, Hrc.
        repeat (split; [first [assumption | reflexivity]|]). left. auto.
      + exists f'. split; [exact I3|]. split; [lia|]. rewrite Hlm, Hex, Hrc.
        repeat (split; [first [assumption | reflexivity]|]). right.
        split; [reflexivity|]. split; [reflexivity|]. apply (cl_bad_has_bad (f' - 1)); [lia|exact Hb].
    - inversion H; subst st' res. clear H. exists f. split; [exact I1|]. split; [lia|].
      rewrite Hnew. cbn [o_kind o_cmd].
      repeat (split; [first [assumption | reflexivity]|]). left.
      split; [reflexivity|]. split; [reflexivity|]. intros Hx. discriminate.
  Qed.

  Lemma cl_hello_method_inv : forall verb a st f st' res,
    Inv st f ->
    hello_method udigit uspace verb a st = (st', res) ->
    length (s_objs st') <= length script ->
    (res = RExn XEncode /\ st' = st) \/
    (exists f', Inv st' f' /\ length (s_objs st') = S (length (s_objs st)) /\ s_lmtp st' = s_lmtp st /\
        ((res = RObj (length (s_objs st)) /\ (s_rcpttos st' = s_rcpttos st \/ s_rcpttos st' = []%list)) \/
         (res = RExn XBadReply /\ has_bad /\ s_rcpttos st' = s_rcpttos st))).
  Proof.
    intros verb a st f st' res I H Hlen. unfold hello_method in H.
    destruct (enc_ascii a) as [ab|]; [|inversion H; left; auto].
    right.
    destruct (command_method udigit uspace verb KNoEsc (verb ++ [32%N] ++ ab ++ CRLF)%list true st)
      as [st1 r1] eqn:Ecm.
    assert (Hl1 : length (s_objs st1) = S (length (s_objs st))).
    { pose proof (cl_command_method_len verb KNoEsc (verb ++ [32%N] ++ ab ++ CRLF)%list true st) as X.
      rewrite Ecm in X. exact X. }
    assert (Hlen1 : length (s_objs st1) <= length script).
    { destruct r1; inversion H; subst; try assumption. rewrite cl_hello_post_len in Hlen. exact Hlen. }
    assert (Hkn : KNoEsc <> KHello) by discriminate.
    destruct (cl_command_method_inv _ _ _ _ _ _ _ _ I Hkn Ecm Hlen1)
      as (f' & I1 & Hff & _ & Hlm & Hrc1 & _ & Hk1 & _ & Hout).
    destruct Hout as [(-> & -> & Hall)|(_ & -> & Hb)]; inversion H; subst st' res; clear H.
    - exists (S (length (s_objs st))).
      split.
      { apply cl_hello_post_inv; [exact I1|lia|exact Hk1|]. apply Hall; [reflexivity|].
        pose proof (I_fle _ _ I). lia. }
      split; [rewrite cl_hello_post_len; exact Hl1|].
      assert (Hp : s_lmtp (hello_post udigit uspace (length (s_objs st)) st1) = s_lmtp st1 /\
                   (s_rcpttos (hello_post udigit uspace (length (s_objs st)) st1) = s_rcpttos st1 \/
                    s_rcpttos (hello_post udigit uspace (length (s_objs st)) st1) = []%list)).
      { unfold hello_post. destruct (beqb _ C250); [|cbn; auto].
        destruct (parse_string uspace _). destruct (s_lmtp st1) eqn:E; cbn; auto. }
      destruct Hp as [Hp1 Hp2]. split; [congruence|]. left. split; [reflexivity|].
      rewrite <- Hrc1. exact Hp2.
    - exists f'. split; [exact I1|]. split; [exact Hl1|]. split; [exact Hlm|]. right. auto.
  Qed.

  (* LMTP: which recipients get an end-of-data reply *)
  Definition accepted (rs : list (list N * nat)) : list (list N * nat) :=
    filter (fun p => good (snd p) && class2 (fst (scr (snd p)))) rs.

  Lemma cl_number_fst : forall l n, map fst (number n l) = l.
  Proof. induction l; intros; cbn; [reflexivity|]. f_equal. apply IHl. Qed.
  Lemma cl_number_snd : forall l n, map snd (number n l) = seq n (length l).
  Proof. induction l; intros; cbn; [reflexivity|]. f_equal. apply IHl. Qed.

  (* the recipient loop of LmtpClient.send_data: it either pairs the accepted recipients
     with new slots, or dies (AttributeError) on a recipient whose RCPT reply was a
     BadReply - leaving the slots queued so far *)
  Lemma cl_lmtp_slots_gen : forall rs st acc f,
    Inv st f ->
    Forall (fun p => snd p < f /\ o_kind (obj_at st (snd p)) = KPlain) rs ->
    exists st1,
      lmtp_slots rs st acc =
        (st1, (acc ++ number (length (s_objs st)) (map fst (accepted rs)))%list) /\
      Inv st1 f /\
      length (s_objs st1) = length (s_objs st) + length (accepted rs) /\
      s_lmtp st1 = s_lmtp st /\ s_exts st1 = s_exts st /\ s_rcpttos st1 = s_rcpttos st.
  Proof.
    induction rs as [|[a rid] rs IH]; intros st acc f I Hrs.
    - exists st. cbn. rewrite app_nil_r, Nat.add_0_r. auto 10.
    - inversion Hrs as [|? ? [Hrid Hkind] Hrs']; subst. cbn [snd] in *.
      cbn [lmtp_slots]. change (get_obj st rid) with (obj_at st rid).
      pose proof (I_filled _ _ I rid Hrid) as Hr. rewrite Hkind in Hr.
      unfold accepted. cbn [filter snd]. fold (accepted rs).
      destruct (good rid) eqn:Eg; cbn [andb].
      + rewrite Hr. cbn [filled]. unfold raw_filled.
        rewrite cl_set_message_code. cbn [r_code].
        destruct (scr rid) as [c ls] eqn:Escr.
        assert (Hwf1 : wf_reply (c, ls) = true) by (rewrite <- Escr; exact Eg).
        destruct (cl_wf_reply_inv c ls Hwf1) as (_ & (d1 & d2 & d3 & -> & _) & _).
        cbn [fst class2].
        destruct (d1 =? 50)%N.
        * assert (Hkp : KPlain <> KHello) by discriminate.
          pose proof (cl_new_slot_inv SEND_DATA KPlain st f Hkp I) as I1.
          destruct (new_slot SEND_DATA KPlain st) as [st1 id] eqn:Ens. cbn [fst] in I1.
          assert (Eid : id = length (s_objs st)) by (unfold new_slot in Ens; inversion Ens; reflexivity).
          assert (Eo : s_objs st1 = (s_objs st ++ [mkObj SEND_DATA KPlain (unfilled KPlain)])%list)
            by (unfold new_slot in Ens; inversion Ens; reflexivity).
          assert (Efr : s_lmtp st1 = s_lmtp st /\ s_rcpttos st1 = s_rcpttos st /\ s_exts st1 = s_exts st)
            by (unfold new_slot in Ens; inversion Ens; repeat split; reflexivity).
          destruct Efr as (Ef1 & Ef2 & Ef3).
          assert (El : length (s_objs st1) = S (length (s_objs st))).
          { rewrite Eo, app_length. cbn. lia. }
          destruct (IH st1 (acc ++ [(a, id)])%list f I1) as (st2 & Hsl & I2 & Hl2 & Hlm & Hex & Hrc).
          { eapply Forall_impl; [|exact Hrs']. intros p [H1 H2].
            rewrite (cl_obj_at_app_l st1 st _ (snd p) Eo); [auto|].
            pose proof (I_fle _ _ I). lia. }
          exists st2. rewrite Hsl. subst id. rewrite El.
          cbn [map fst number length]. rewrite <- app_assoc. cbn [app].
          split; [reflexivity|]. split; [exact I2|]. split; [rewrite Hl2, El; lia|].
          rewrite Hlm, Hex, Hrc. auto.
        * apply IH; assumption.
      + (* the recipient's RCPT reply was a BadReply: the object is empty, no slot *)
        rewrite Hr. cbn [unfilled r_code]. apply IH; assumption.
  Qed.

  Lemma cl_lmtp_data_gen : forall w st f st' res,
    Inv st f ->
    lmtp_data udigit uspace w st = (st', res) ->
    length (s_objs st') <= length script ->
    exists f', Inv st' f' /\ length (s_objs st) <= length (s_objs st') /\ s_lmtp st' = s_lmtp st /\
      ((res = RPairs (number (length (s_objs st)) (map fst (accepted (s_rcpttos st)))) /\
        length (s_objs st') = length (s_objs st) + length (accepted (s_rcpttos st)) /\
        s_rcpttos st' = []%list) \/
       (res = RExn XBadReply /\ has_bad /\
        ((s_rcpttos st' = s_rcpttos st /\ length (s_objs st') = length (s_objs st)) \/
         (s_rcpttos st' = []%list /\
          length (s_objs st') = length (s_objs st) + length (accepted (s_rcpttos st)))))).
  Proof.
    intros w st f st' res I H Hlen.
    pose proof (cl_lmtp_data_len w st) as Hmono. rewrite H in Hmono. cbn [fst] in Hmono.
    unfold lmtp_data in H.
    destruct (cl_flush_inv st f I) as (st0 & e0 & f0 & Hfl & I0 & Hff0 & Hl0 & Hlm0 & Hex0 & Hrc0 & Hkc0 & Hout0); [lia|].
    rewrite Hfl in H.
    destruct Hout0 as [(-> & -> & Hall0)|(-> & Hlt0 & Hb0)].
    2:{ inversion H; subst st' res. exists f0. split; [exact I0|]. split; [lia|]. split; [exact Hlm0|].
        right. split; [reflexivity|]. split; [|left; auto].
        apply (cl_bad_has_bad (f0 - 1)); [pose proof (I_fscript _ _ I0); lia|exact Hb0]. }
    assert (Hrs : Forall (fun p => snd p < length (s_objs st) /\ o_kind (obj_at st0 (snd p)) = KPlain)
                         (s_rcpttos st0)).
    { pose proof (I_rcpt _ _ I0) as Ir. rewrite Hl0 in Ir.
      eapply Forall_impl; [|exact Ir]. intros p (H1 & H2 & _). auto. }
    destruct (cl_lmtp_slots_gen (s_rcpttos st0) st0 []%list _ I0 Hrs)
      as (st1 & Hsl & I1 & Hl1 & Hlm1 & Hex1 & Hrc1).
    rewrite Hsl in H. rewrite Hl0, Hrc0 in *. cbn [app] in H.
    set (ret := number (length (s_objs st)) (map fst (accepted (s_rcpttos st)))) in *.
    apply cl_inv_clear_rcpttos in I1. apply (cl_buffered_send_inv w) in I1.
    set (st2 := buffered_send w (set_rcpttos st1 []%list)) in *.
    assert (E2 : length (s_objs st2) = length (s_objs st1) /\ s_lmtp st2 = s_lmtp st1 /\
                 s_rcpttos st2 = []%list) by (repeat split; reflexivity).
    destruct E2 as (El2 & Elm2 & Erc2).
    destruct (pipelining st2).
    - inversion H; subst st' res. exists (length (s_objs st)).
      split; [exact I1|]. split; [lia|]. split; [congruence|]. left. rewrite El2, Hl1. auto.
    - pose proof (cl_flush_len st2) as Hfl2.
      destruct (cl_flush_inv st2 _ I1) as (st3 & e3 & f3 & Hfl3 & I3 & Hff3 & Hl3 & Hlm3 & Hex3 & Hrc3 & _ & Hout3).
      + destruct (flush udigit uspace st2) as [stx [ex|]]; inversion H; subst; cbn [fst] in Hfl2; lia.
      + rewrite Hfl3 in H.
        destruct Hout3 as [(-> & -> & _)|(-> & Hlt3 & Hb3)]; inversion H; subst st' res.
        * eexists. split; [exact I3|]. split; [lia|]. split; [congruence|]. left.
          rewrite Hl3, Hrc3, El2, Hl1. auto.
        * exists f3. split; [exact I3|]. split; [lia|]. split; [congruence|]. right.
          split; [reflexivity|]. split; [|right; rewrite Hl3, Hrc3, El2, Hl1; auto].
          apply (cl_bad_has_bad (f3 - 1)); [pose proof (I_fscript _ _ I3); lia|exact Hb3].
  Qed.

  (* what a call may return *)
  Definition res_gen (n n' : nat) (res : result) : Prop :=
    match res with
    | RObj id => id = n /\ n' = S n
    | RPairs l => map snd l = seq n (length l) /\ n' = n + length l
    | RExn XEncode => n' = n
    | RExn XNotImpl => n' = n
    | RExn XBadReply => n <= n' /\ has_bad
    | RExn _ => False
    end.

  Lemma cl_inv_add_rcpt : forall st f a id,
    Inv st f -> id < length (s_objs st) ->
    o_kind (obj_at st id) = KPlain -> o_cmd (obj_at st id) = RCPT ->
    Inv (set_rcpttos st (s_rcpttos st ++ [(a, id)])%list) f.
  Proof.
    intros st f a id [Id Iq Ifl Ifs Is Ic Ifi Iun Ir] H1 H2 H3.
    constructor; try assumption.
    cbn [s_rcpttos set_rcpttos]. apply Forall_app. split; [exact Ir|]. constructor; [|constructor].
    cbn [snd]. auto.
  Qed.

  (* how a call changes LmtpClient.rcpttos; a call that raises before the wire is a no-op *)
  Definition rc_step (o : op) (st st' : cstate) (res : result) : Prop :=
    (s_rcpttos st' = s_rcpttos st \/ s_rcpttos st' = []%list \/
     exists a, o = ORcpt a /\ res = RObj (length (s_objs st)) /\
               s_rcpttos st' = (s_rcpttos st ++ [(a, length (s_objs st))])%list) /\
    (res = RExn XEncode \/ res = RExn XNotImpl -> st' = st).

  Lemma cl_step_gen : forall o st f st' res,
    Inv st f ->
    step udigit uspace o st = (st', res) ->
    length (s_objs st') <= length script ->
    exists f', Inv st' f' /\
               res_gen (length (s_objs st)) (length (s_objs st')) res /\
               s_lmtp st' = s_lmtp st /\ rc_step o st st' res.
  Proof.
    intros o st f st' res I H Hlen. unfold step in H. rewrite (I_dead _ _ I) in H.
    assert (CM : forall cmd k w fl st1 r1,
               k <> KHello ->
               command_method udigit uspace cmd k w fl st = (st1, r1) ->
               length (s_objs st1) <= length script ->
               exists f', Inv st1 f' /\ res_gen (length (s_objs st)) (length (s_objs st1)) r1 /\
                          s_lmtp st1 = s_lmtp st /\ s_rcpttos st1 = s_rcpttos st /\
                          length (s_objs st1) = S (length (s_objs st)) /\
                          (r1 = RObj (length (s_objs st)) \/ r1 = RExn XBadReply) /\
                          o_kind (obj_at st1 (length (s_objs st))) = k /\
                          o_cmd (obj_at st1 (length (s_objs st))) = cmd).
    { intros cmd k w fl st1 r1 Hk Hcm Hl.
      destruct (cl_command_method_inv _ _ _ _ _ _ _ _ I Hk Hcm Hl)
        as (f' & I1 & _ & Hl1 & Hlm & Hrc & _ & Hk1 & Hc1 & Hout).
      exists f'. split; [exact I1|].
      destruct Hout as [(-> & _ & _)|(_ & -> & Hb)]; cbn [res_gen]; rewrite Hl1; auto 12. }
    assert (EXN : forall e, (e = XEncode \/ e = XNotImpl) -> (st, RExn e) = (st', res) ->
               exists f', Inv st' f' /\ res_gen (length (s_objs st)) (length (s_objs st')) res /\
                          s_lmtp st' = s_lmtp st /\ rc_step o st st' res).
    { intros e He Heq. inversion Heq; subst. exists f. split; [exact I|]. unfold rc_step.
      destruct He; subst; cbn; auto 6. }
    assert (HELLO : forall verb a,
               hello_method udigit uspace verb a st = (st', res) ->
               exists f', Inv st' f' /\ res_gen (length (s_objs st)) (length (s_objs st')) res /\
                          s_lmtp st' = s_lmtp st /\ rc_step o st st' res).
    { intros verb a Hh.
      destruct (cl_hello_method_inv _ _ _ _ _ _ I Hh Hlen) as [[-> ->]|(f' & I1 & Hl1 & Hlm & Hout)].
      - exists f. unfold rc_step. cbn. auto 6.
      - exists f'. split; [exact I1|]. unfold rc_step. rewrite Hl1.
        destruct Hout as [(-> & Hrc)|(-> & Hb & Hrc)]; cbn [res_gen].
        + split; [auto|]. split; [exact Hlm|]. split; [destruct Hrc; auto|]. intros [X|X]; discriminate.
        + split; [split; [lia|exact Hb]|]. split; [exact Hlm|]. split; [auto|]. intros [X|X]; discriminate. }
    assert (CM' : forall cmd k w fl, k <> KHello ->
               command_method udigit uspace cmd k w fl st = (st', res) ->
               exists f', Inv st' f' /\ res_gen (length (s_objs st)) (length (s_objs st')) res /\
                          s_lmtp st' = s_lmtp st /\ rc_step o st st' res).
    { intros cmd k w fl Hk Hcm. destruct (CM _ _ _ _ _ _ Hk Hcm Hlen) as (f' & ? & ? & ? & ? & ? & Hr & _).
      exists f'. split; [assumption|]. split; [assumption|]. split; [assumption|].
      unfold rc_step. split; [left; assumption|]. intros [X|X]; destruct Hr; congruence. }
    assert (LD : forall w, lmtp_data udigit uspace w st = (st', res) ->
               exists f', Inv st' f' /\ res_gen (length (s_objs st)) (length (s_objs st')) res /\
                          s_lmtp st' = s_lmtp st /\ rc_step o st st' res).
    { intros w Hd. destruct (cl_lmtp_data_gen _ _ _ _ _ I Hd Hlen) as (f' & I1 & Hmono & Hlm & Hout).
      exists f'. split; [exact I1|]. unfold rc_step.
      destruct Hout as [(-> & Hl1 & Hrc)|(-> & Hb & Hrc)]; cbn [res_gen].
      - rewrite cl_number_snd, Hl1.
        assert (HL : length (number (length (s_objs st)) (map fst (accepted (s_rcpttos st)))) =
                length (accepted (s_rcpttos st))).
        { rewrite <- (map_length fst (number _ _)), cl_number_fst, map_length. reflexivity. }
        rewrite HL, map_length. split; [auto|]. split; [exact Hlm|]. split; [auto|]. intros [X|X]; discriminate.
      - split; [auto|]. split; [exact Hlm|]. split; [destruct Hrc as [[? _]|[? _]]; auto|]. intros [X|X]; discriminate. }
    assert (Hkp : KPlain <> KHello) by discriminate.
    destruct o.
    - eapply CM'; [|exact H]. discriminate.
    - eapply CM'; [|exact H]. discriminate.
    - destruct (s_lmtp st); [apply (EXN XNotImpl); auto|]. eapply HELLO; exact H.
    - destruct (s_lmtp st); [apply (EXN XNotImpl); auto|].
      destruct (enc_ascii a); [|apply (EXN XEncode); auto]. eapply CM'; [|exact H]. discriminate.
    - destruct (s_lmtp st); [|apply (EXN XNotImpl); auto]. eapply HELLO; exact H.
    - destruct (mail_command st addr size auth); [|apply (EXN XEncode); auto].
      eapply CM'; [|exact H]. discriminate.
    - destruct (encode st addr) as [ab|]; [|apply (EXN XEncode); auto].
      destruct (command_method udigit uspace (bs "RCPT") KPlain _ _ st) as [st1 r1] eqn:Ecm.
      assert (Hl1 : length (s_objs st1) <= length script).
      { destruct r1; inversion H; subst; try assumption. destruct (s_lmtp st1); exact Hlen. }
      destruct (CM _ _ _ _ _ _ Hkp Ecm Hl1) as (f' & I1 & Hres & Hlm & Hrc & Hn & Hr & Hk & Hc).
      destruct Hr as [-> | ->]; inversion H; subst st' res; clear H.
      + destruct (s_lmtp st1) eqn:E1.
        * exists f'. split; [|split; [exact Hres|split; [cbn; congruence|]]].
          -- apply cl_inv_add_rcpt; try assumption. lia.
          -- unfold rc_step. split; [|intros [X|X]; discriminate]. right. right. exists addr. rewrite Hrc. auto.
        * exists f'. split; [exact I1|]. split; [exact Hres|]. split; [congruence|]. unfold rc_step.
          split; [auto|intros [X|X]; discriminate].
      + exists f'. split; [exact I1|]. split; [exact Hres|]. split; [exact Hlm|]. unfold rc_step.
        split; [auto|intros [X|X]; discriminate].
    - unfold custom in H. eapply CM'; [|exact H]. discriminate.
    - destruct (s_lmtp st); [eapply LD; exact H|]. eapply CM'; [|exact H]. discriminate.
    - destruct (s_lmtp st); [eapply LD; exact H|]. eapply CM'; [|exact H]. discriminate.
    - unfold custom in H.
      destruct (command_method udigit uspace _ KPlain _ true st) as [st1 r1] eqn:Ecm.
      assert (Hl1 : length (s_objs st1) <= length script).
      { destruct r1; inversion H; subst; try assumption. destruct (s_lmtp st1); exact Hlen. }
      destruct (CM _ _ _ _ _ _ Hkp Ecm Hl1) as (f' & I1 & Hres & Hlm & Hrc & Hn & Hr & Hk & Hc).
      destruct Hr as [-> | ->]; inversion H; subst st' res; clear H.
      + destruct (s_lmtp st1) eqn:E1.
        * exists f'. split; [apply cl_inv_clear_rcpttos; exact I1|]. split; [exact Hres|].
          split; [cbn; congruence|]. unfold rc_step. cbn. split; [auto|intros [X|X]; discriminate].
        * exists f'. split; [exact I1|]. split; [exact Hres|]. split; [congruence|]. unfold rc_step.
          split; [auto|intros [X|X]; discriminate].
      + exists f'. split; [exact I1|]. split; [exact Hres|]. split; [exact Hlm|]. unfold rc_step.
        split; [auto|intros [X|X]; discriminate].
    - unfold custom in H. eapply CM'; [|exact H]. discriminate.
    - unfold custom in H. eapply CM'; [|exact H]. discriminate.
  Qed.

  (* ---------------------------------------------------------------- *)
  (* sequences of calls, arbitrary (possibly undecodable) replies      *)

  Lemma cl_sorted_snoc : forall l n,
    StronglySorted lt l -> Forall (fun x => x < n) l -> StronglySorted lt (l ++ [n]).
  Proof.
    induction l as [|x l IH]; intros n Hs Hf; cbn.
    - constructor; constructor.
    - inversion Hs; subst. inversion Hf; subst. constructor; [apply IH; assumption|].
      apply Forall_app. split; [assumption|]. constructor; [assumption|constructor].
  Qed.

  Lemma cl_sorted_app : forall a b m,
    StronglySorted lt a -> StronglySorted lt b ->
    Forall (fun i => i < m) a -> Forall (fun i => m <= i) b -> StronglySorted lt (a ++ b).
  Proof.
    induction a as [|x a IH]; intros b m Ha Hb Fa Fb; cbn; [exact Hb|].
    inversion Ha; subst. inversion Fa; subst. constructor; [eapply IH; eassumption|].
    apply Forall_app. split; [assumption|]. eapply Forall_impl; [|exact Fb]. cbn. intros. lia.
  Qed.

  Lemma cl_seq_sorted : forall k n, StronglySorted lt (seq n k) /\ Forall (fun i => n <= i < n + k) (seq n k).
  Proof.
    induction k as [|k IH]; intros n; cbn; [split; constructor|].
    destruct (IH (S n)) as [H1 H2]. split.
    - constructor; [exact H1|]. eapply Forall_impl; [|exact H2]. cbn. intros. lia.
    - constructor; [lia|]. eapply Forall_impl; [|exact H2]. cbn. intros. lia.
  Qed.

  Lemma cl_res_gen_ids : forall n n' r, res_gen n n' r ->
    StronglySorted lt (result_ids r) /\ Forall (fun i => n <= i < n') (result_ids r) /\
    result_ok_gen r /\ n <= n'.
  Proof.
    intros n n' r H. destruct r as [id|l|e]; cbn in *.
    - destruct H as [-> ->]. split; [repeat constructor|]. split; [repeat constructor; lia|]. split; [exact I|lia].
    - destruct H as [H ->]. rewrite H. destruct (cl_seq_sorted (length l) n) as [H1 H2]. auto with arith.
    - destruct e; try contradiction; cbn; repeat split; try constructor; try lia; destruct H; lia.
  Qed.

  Lemma cl_run_gen : forall ops st f st' results,
    Inv st f ->
    StronglySorted lt (map snd (s_rcpttos st)) ->
    run udigit uspace ops st = (st', results) ->
    length (s_objs st') <= length script ->
    exists f', Inv st' f' /\
      StronglySorted lt (flat_map result_ids results) /\
      Forall (fun i => length (s_objs st) <= i < length (s_objs st')) (flat_map result_ids results) /\
      Forall result_ok_gen results /\ s_lmtp st' = s_lmtp st /\
      length (s_objs st) <= length (s_objs st') /\
      StronglySorted lt (map snd (s_rcpttos st')) /\
      Forall (fun p => In p (s_rcpttos st) \/ from_call ops results p) (s_rcpttos st').
  Proof.
    induction ops as [|o ops IH]; intros st f st' results I Hsort H Hlen.
    - cbn in H. inversion H; subst. exists f. cbn.
      repeat (split; [first [assumption | reflexivity | constructor | lia]|]).
      apply Forall_forall. intros p Hp. left. exact Hp.
    - cbn [run] in H. destruct (step udigit uspace o st) as [st1 r] eqn:Es.
      destruct (run udigit uspace ops st1) as [st2 rs] eqn:Er. inversion H; subst st' results. clear H.
      pose proof (cl_run_mono ops st1) as Hm. rewrite Er in Hm. cbn [fst] in Hm.
      assert (Hlen1 : length (s_objs st1) <= length script) by lia.
      destruct (cl_step_gen o st f st1 r I Es Hlen1) as (f1 & I1 & Hres & Hlm1 & Hrc & _).
      destruct (cl_res_gen_ids _ _ _ Hres) as (Hs1 & Hb1 & Hok1 & Hle).
      assert (Hsort1 : StronglySorted lt (map snd (s_rcpttos st1))).
      { destruct Hrc as [->|[->|(a & _ & _ & ->)]]; [assumption|constructor|].
        rewrite map_app. cbn [map snd]. apply cl_sorted_snoc; [assumption|].
        pose proof (I_rcpt _ _ I) as Ir. rewrite Forall_map.
        eapply Forall_impl; [|exact Ir]. intros p (Hp & _). exact Hp. }
      destruct (IH st1 f1 st2 rs I1 Hsort1 Er Hlen) as (f2 & I2 & Hs2 & Hb2 & Hok2 & Hlm2 & Hle2 & Hsort2 & Hhist).
      exists f2. split; [exact I2|]. split.
      { cbn [flat_map]. eapply (cl_sorted_app _ _ (length (s_objs st1))); try assumption.
        - eapply Forall_impl; [|exact Hb1]. cbn. intros. lia.
        - eapply Forall_impl; [|exact Hb2]. cbn. intros. lia. }
      split.
      { cbn [flat_map]. apply Forall_app. split; (eapply Forall_impl; [|eassumption]); cbn; intros; lia. }
      split; [constructor; assumption|]. split; [congruence|]. split; [lia|]. split; [exact Hsort2|].
      eapply Forall_impl; [|exact Hhist]. intros p [Hin|(k & Hk1 & Hk2)].
      + destruct Hrc as [E|[E|(a & -> & -> & E)]]; rewrite E in Hin.
        * left. exact Hin.
        * destruct Hin.
        * apply in_app_or in Hin. destruct Hin as [Hin|[<-|[]]]; [left; exact Hin|].
          right. exists 0. cbn. auto.
      + right. exists (S k). cbn. auto.
  Qed.

  Lemma cl_init_inv : forall lmtp exts chunks,
    Forall nonempty chunks -> (concat chunks = wire script ++ extra)%list ->
    Inv (init lmtp exts chunks) 0.
  Proof.
    intros lmtp exts chunks Hc Hs. constructor.
    - reflexivity.
    - reflexivity.
    - cbn. lia.
    - lia.
    - cbn [init s_rbuf s_chunks app]. rewrite Hs. reflexivity.
    - exact Hc.
    - intros j Hj. lia.
    - intros j Hj. cbn in Hj. lia.
    - constructor.
  Qed.

  (* C10_pairing_with_bad_replies: the script may contain undecodable replies.  Every
     such reply costs exactly one call a BadReply and leaves exactly its own slot empty;
     every other object j < f holds the server's j-th reply, the unread ones are the
     reply_queue in order, and what is left of the stream starts right behind reply f-1. *)
  Lemma cl_pairing_gen : forall lmtp exts0 ops chunks st results,
    Forall nonempty chunks -> (concat chunks = wire script ++ extra)%list ->
    run udigit uspace ops (init lmtp exts0 chunks) = (st, results) ->
    length (s_objs st) <= length script ->
    let n := length (s_objs st) in
    let f := n - length (s_queue st) in
    StronglySorted lt (flat_map result_ids results) /\
    Forall (fun i => i < n) (flat_map result_ids results) /\
    Forall result_ok_gen results /\
    s_queue st = seq f (n - f) /\
    (forall j, j < n ->
      o_r (nth j (s_objs st) dummy_obj) =
        if (j <? f) && wf_reply (nth j script dflt)
        then filled udigit uspace (o_kind (nth j (s_objs st) dummy_obj)) (nth j script dflt)
        else unfilled (o_kind (nth j (s_objs st) dummy_obj))) /\
    (s_rbuf st ++ concat (s_chunks st) = wire (skipn f script) ++ extra)%list /\
    Forall nonempty (s_chunks st) /\ s_dead st = false.
  Proof.
    intros lmtp exts0 ops chunks st results Hc Hs Hrun Hlen n f.
    assert (Hs0 : StronglySorted lt (map snd (s_rcpttos (init lmtp exts0 chunks)))) by constructor.
    destruct (cl_run_gen ops _ 0 st results (cl_init_inv lmtp exts0 chunks Hc Hs) Hs0 Hrun Hlen)
      as (f' & I & Hsort & Hb & Hok' & _).
    assert (Ef : f = f').
    { subst f n. rewrite (I_queue _ _ I), seq_length. pose proof (I_fle _ _ I). lia. }
    rewrite Ef. split; [exact Hsort|].
    split; [eapply Forall_impl; [|exact Hb]; cbn; intros a Ha; fold n in Ha; lia|].
    split; [exact Hok'|]. split; [exact (I_queue _ _ I)|].
    split.
    { intros j Hj. destruct (j <? f') eqn:E; cbn [andb].
      - apply Nat.ltb_lt in E. exact (I_filled _ _ I j E).
      - apply Nat.ltb_ge in E. destruct (I_unfilled _ _ I j) as [H _]; [fold n; lia|exact H]. }
    split; [exact (I_stream _ _ I)|]. split; [exact (I_chunks _ _ I)|exact (I_dead _ _ I)].
  Qed.

  (* a call that raises before the wire is a no-op, whatever the script; the two
     exceptions that can be raised after the wire need an undecodable reply *)
  Lemma cl_raise_gen : forall lmtp exts0 ops chunks st results o st' e,
    Forall nonempty chunks -> (concat chunks = wire script ++ extra)%list ->
    run udigit uspace ops (init lmtp exts0 chunks) = (st, results) ->
    step udigit uspace o st = (st', RExn e) ->
    length (s_objs st') <= length script ->
    (e = XEncode \/ e = XNotImpl) /\ st' = st \/
    e = XBadReply /\ (exists j, j < length script /\ wf_reply (nth j script dflt) = false).
  Proof.
    intros lmtp exts0 ops chunks st results o st' e Hc Hs Hrun Hstep Hlen.
    pose proof (cl_step_mono o st) as Hm. rewrite Hstep in Hm. cbn [fst] in Hm.
    assert (Hlen0 : length (s_objs st) <= length script) by lia.
    assert (Hs0 : StronglySorted lt (map snd (s_rcpttos (init lmtp exts0 chunks)))) by constructor.
    destruct (cl_run_gen ops _ 0 st results (cl_init_inv lmtp exts0 chunks Hc Hs) Hs0 Hrun Hlen0)
      as (f & I & _).
    destruct (cl_step_gen _ _ _ _ _ I Hstep Hlen) as (f' & _ & Hres & _ & _ & Hno).
    destruct e; cbn in Hres; try contradiction.
    - left. auto.
    - left. auto.
    - right. split; [auto|]. exact (proj2 Hres).
  Qed.

  (* LmtpClient.send_data / send_empty_data after ANY history, whatever the script: one new
     end-of-data slot per recipient of the transaction whose RCPT reply is a filled 2xx
     (a recipient whose RCPT reply was a BadReply has an empty Reply and gets none), in the
     order of the rcptto calls, as the consecutive new objects; it never raises
     AttributeError - the only exception it can raise is the BadReply of an undecodable
     reply one of its two flushes had to read. *)
  Lemma cl_lmtp_pairing_gen : forall exts0 ops chunks st results o st' res,
    Forall nonempty chunks -> (concat chunks = wire script ++ extra)%list ->
    run udigit uspace ops (init true exts0 chunks) = (st, results) ->
    (o = OSendEmpty \/ exists payload, o = OSendData payload) ->
    step udigit uspace o st = (st', res) ->
    length (s_objs st') <= length script ->
    let n := length (s_objs st) in
    let acc := filter (fun p => wf_reply (nth (snd p) script dflt) &&
                                class2 (fst (nth (snd p) script dflt))) (s_rcpttos st) in
    (res = RPairs (number n (map fst acc)) /\
     length (s_objs st') = n + length acc /\ s_rcpttos st' = []%list) \/
    (res = RExn XBadReply /\
     ((s_rcpttos st' = s_rcpttos st /\ length (s_objs st') = n) \/
      (s_rcpttos st' = []%list /\ length (s_objs st') = n + length acc))).
  Proof.
    intros exts0 ops chunks st results o st' res Hc Hs Hrun Ho Hstep Hlen n acc.
    pose proof (cl_step_mono o st) as Hm. rewrite Hstep in Hm. cbn [fst] in Hm.
    assert (Hlen0 : length (s_objs st) <= length script) by lia.
    assert (Hs0 : StronglySorted lt (map snd (s_rcpttos (init true exts0 chunks)))) by constructor.
    destruct (cl_run_gen ops _ 0 st results (cl_init_inv true exts0 chunks Hc Hs) Hs0 Hrun Hlen0)
      as (f & I & _ & _ & _ & Hlm & _).
    assert (Hd : exists w, lmtp_data udigit uspace w st = (st', res)).
    { unfold step in Hstep. rewrite (I_dead _ _ I), Hlm in Hstep. cbn [init s_lmtp] in Hstep.
      destruct Ho as [->|[payload ->]]; eauto. }
    destruct Hd as [w Hd].
    destruct (cl_lmtp_data_gen _ _ _ _ _ I Hd Hlen) as (f' & _ & _ & _ & Hout).
    change (accepted (s_rcpttos st)) with acc in Hout. fold n in Hout.
    destruct Hout as [H|(H1 & _ & H2)]; [left; exact H|right; auto].
  Qed.

  (* ---------------------------------------------------------------- *)
  (* scripts without undecodable replies: nothing raises after the wire *)
  Hypothesis Hwf : forallb wf_reply script = true.

  Lemma cl_all_good : forall j, j < length script -> good j = true.
  Proof. intros j H. rewrite forallb_forall in Hwf. apply Hwf. apply nth_In. exact H. Qed.

  Lemma cl_no_bad : has_bad -> False.
  Proof. intros (j & H1 & H2). rewrite (cl_all_good j H1) in H2. discriminate. Qed.

  Lemma cl_accepted_good : forall rs,
    Forall (fun p => snd p < length script) rs ->
    accepted rs = filter (fun p => class2 (fst (scr (snd p)))) rs.
  Proof.
    induction rs as [|p rs IH]; intros H; [reflexivity|]. inversion H; subst.
    unfold accepted in *. cbn [filter]. rewrite (cl_all_good (snd p)) by assumption. cbn [andb].
    rewrite IH by assumption. reflexivity.
  Qed.

  Definition res_ok (n n' : nat) (res : result) : Prop :=
    match res with
    | RObj id => id = n /\ n' = S n
    | RPairs l => map snd l = seq n (length l) /\ n' = n + length l
    | RExn XEncode => n' = n
    | RExn XNotImpl => n' = n
    | RExn _ => False
    end.

  Definition rc_step_good (o : op) (st st' : cstate) (res : result) : Prop :=
    (s_rcpttos st' = s_rcpttos st \/ s_rcpttos st' = []%list \/
     exists a, o = ORcpt a /\ res = RObj (length (s_objs st)) /\
               s_rcpttos st' = (s_rcpttos st ++ [(a, length (s_objs st))])%list) /\
    (forall e, res = RExn e -> st' = st).

  Lemma cl_step_inv : forall o st f st' res,
    Inv st f ->
    step udigit uspace o st = (st', res) ->
    length (s_objs st') <= length script ->
    exists f', Inv st' f' /\
               res_ok (length (s_objs st)) (length (s_objs st')) res /\
               s_lmtp st' = s_lmtp st /\ rc_step_good o st st' res.
  Proof.
    intros o st f st' res I H Hlen.
    destruct (cl_step_gen o st f st' res I H Hlen) as (f' & I1 & Hres & Hlm & Hrc & Hno).
    exists f'. split; [exact I1|].
    assert (Hres' : res_ok (length (s_objs st)) (length (s_objs st')) res).
    { destruct res as [id|l|e]; cbn in *; try assumption.
      destruct e; try assumption; destruct Hres as [_ Hb]; exact (cl_no_bad Hb). }
    split; [exact Hres'|]. split; [exact Hlm|]. split; [exact Hrc|].
    intros e ->. apply Hno. destruct e; cbn in Hres'; try contradiction; auto.
  Qed.

  Lemma cl_lmtp_data_inv : forall w st f st' res,
    Inv st f ->
    lmtp_data udigit uspace w st = (st', res) ->
    length (s_objs st') <= length script ->
    exists f',
      res = RPairs (number (length (s_objs st)) (map fst (accepted (s_rcpttos st)))) /\
      Inv st' f' /\
      length (s_objs st') = length (s_objs st) + length (accepted (s_rcpttos st)) /\
      s_lmtp st' = s_lmtp st /\ s_rcpttos st' = []%list.
  Proof.
    intros w st f st' res I H Hlen.
    destruct (cl_lmtp_data_gen _ _ _ _ _ I H Hlen) as (f' & I1 & _ & Hlm & Hout).
    exists f'. destruct Hout as [(-> & Hl & Hrc)|(_ & Hb & _)]; [auto|destruct (cl_no_bad Hb)].
  Qed.


  Lemma cl_res_ok_ids : forall n n' r, res_ok n n' r -> result_ids r = seq n (n' - n) /\ result_ok r /\ n <= n'.
  Proof.
    intros n n' r H. destruct r as [id|l|e]; cbn in *.
    - destruct H as [-> ->]. replace (S n - n) with 1 by lia. cbn. auto with arith.
    - destruct H as [H ->]. replace (n + length l - n) with (length l) by lia. split; [exact H|]. split; [exact I|lia].
    - destruct e; try contradiction; subst; rewrite Nat.sub_diag; cbn; auto.
  Qed.

  Lemma cl_run_inv : forall ops st f st' results,
    Inv st f ->
    StronglySorted lt (map snd (s_rcpttos st)) ->
    run udigit uspace ops st = (st', results) ->
    length (s_objs st') <= length script ->
    exists f', Inv st' f' /\
      flat_map result_ids results = seq (length (s_objs st)) (length (s_objs st') - length (s_objs st)) /\
      Forall result_ok results /\ s_lmtp st' = s_lmtp st /\
      StronglySorted lt (map snd (s_rcpttos st')) /\
      Forall (fun p => In p (s_rcpttos st) \/ from_call ops results p) (s_rcpttos st').
  Proof.
    induction ops as [|o ops IH]; intros st f st' results I Hsort H Hlen.
    - cbn in H. inversion H; subst. exists f. rewrite Nat.sub_diag. cbn.
      repeat (split; [first [assumption | reflexivity | constructor]|]).
      apply Forall_forall. intros p Hp. left. exact Hp.
    - cbn [run] in H. destruct (step udigit uspace o st) as [st1 r] eqn:Es.
      destruct (run udigit uspace ops st1) as [st2 rs] eqn:Er. inversion H; subst st' results. clear H.
      pose proof (cl_run_mono ops st1) as Hm. rewrite Er in Hm. cbn [fst] in Hm.
      assert (Hlen1 : length (s_objs st1) <= length script) by lia.
      destruct (cl_step_inv o st f st1 r I Es Hlen1) as (f1 & I1 & Hres & Hlm1 & Hrc & _).
      destruct (cl_res_ok_ids _ _ _ Hres) as (Hids & Hok & Hle).
      assert (Hsort1 : StronglySorted lt (map snd (s_rcpttos st1))).
      { destruct Hrc as [->|[->|(a & _ & _ & ->)]]; [assumption|constructor|].
        rewrite map_app. cbn [map snd]. apply cl_sorted_snoc; [assumption|].
        pose proof (I_rcpt _ _ I) as Ir. rewrite Forall_map.
        eapply Forall_impl; [|exact Ir]. intros p (Hp & _). exact Hp. }
      destruct (IH st1 f1 st2 rs I1 Hsort1 Er Hlen) as (f2 & I2 & Hids2 & Hok2 & Hlm2 & Hsort2 & Hhist).
      exists f2. split; [exact I2|]. split.
      { cbn [flat_map]. rewrite Hids, Hids2.
        replace (length (s_objs st2) - length (s_objs st))
          with ((length (s_objs st1) - length (s_objs st)) + (length (s_objs st2) - length (s_objs st1))) by lia.
        rewrite seq_app. f_equal. f_equal. lia. }
      split; [constructor; assumption|]. split; [congruence|]. split; [exact Hsort2|].
      eapply Forall_impl; [|exact Hhist]. intros p [Hin|(k & Hk1 & Hk2)].
      + destruct Hrc as [E|[E|(a & -> & -> & E)]]; rewrite E in Hin.
        * left. exact Hin.
        * destruct Hin.
        * apply in_app_or in Hin. destruct Hin as [Hin|[<-|[]]]; [left; exact Hin|].
          right. exists 0. cbn. auto.
      + right. exists (S k). cbn. auto.
  Qed.


  (* everything the theorems of prop/C10.v are read off from *)
  Lemma cl_run_final : forall lmtp exts0 ops chunks st results,
    Forall nonempty chunks -> (concat chunks = wire script ++ extra)%list ->
    run udigit uspace ops (init lmtp exts0 chunks) = (st, results) ->
    length (s_objs st) <= length script ->
    Inv st (length (s_objs st) - length (s_queue st)) /\
    flat_map result_ids results = seq 0 (length (s_objs st)) /\
    Forall result_ok results /\ s_lmtp st = lmtp /\
    StronglySorted lt (map snd (s_rcpttos st)) /\
    Forall (from_call ops results) (s_rcpttos st).
  Proof.
    intros lmtp exts0 ops chunks st results Hc Hs Hrun Hlen.
    destruct (cl_run_inv ops _ 0 st results (cl_init_inv lmtp exts0 chunks Hc Hs) ltac:(constructor) Hrun Hlen)
      as (f & I & Hids & Hok & Hlm & Hsort & Hhist).
    cbn [init s_objs length s_lmtp s_rcpttos] in *. rewrite Nat.sub_0_r in Hids.
    assert (Ef : length (s_objs st) - length (s_queue st) = f).
    { rewrite (I_queue _ _ I), seq_length. pose proof (I_fle _ _ I). lia. }
    rewrite Ef. repeat (split; [assumption|]).
    eapply Forall_impl; [|exact Hhist]. intros p [[]|H]. exact H.
  Qed.

  Lemma cl_pairing : forall lmtp exts0 ops chunks st results,
    Forall nonempty chunks -> (concat chunks = wire script ++ extra)%list ->
    run udigit uspace ops (init lmtp exts0 chunks) = (st, results) ->
    length (s_objs st) <= length script ->
    let n := length (s_objs st) in
    let f := n - length (s_queue st) in
    flat_map result_ids results = seq 0 n /\
    Forall result_ok results /\
    s_queue st = seq f (n - f) /\
    forall j, j < n ->
      o_r (nth j (s_objs st) dummy_obj) =
        if j <? f then filled udigit uspace (o_kind (nth j (s_objs st) dummy_obj)) (nth j script dflt)
        else unfilled (o_kind (nth j (s_objs st) dummy_obj)).
  Proof.
    intros lmtp exts0 ops chunks st results Hc Hs Hrun Hlen n f.
    destruct (cl_run_final _ _ _ _ _ _ Hc Hs Hrun Hlen) as (I & Hids & Hok & _).
    fold n f in I. repeat (split; [first [assumption | exact (I_queue _ _ I)]|]).
    intros j Hj. destruct (j <? f) eqn:E.
    - apply Nat.ltb_lt in E. pose proof (I_filled _ _ I j E) as Hfj. unfold obj_at in Hfj. rewrite Hfj.
      replace (good j) with true; [reflexivity|]. symmetry. apply cl_all_good.
      pose proof (I_fscript _ _ I). lia.
    - apply Nat.ltb_ge in E. destruct (I_unfilled _ _ I j) as [H _]; [fold n; lia|exact H].
  Qed.

  Lemma cl_no_overread : forall lmtp exts0 ops chunks st results,
    Forall nonempty chunks -> (concat chunks = wire script ++ extra)%list ->
    run udigit uspace ops (init lmtp exts0 chunks) = (st, results) ->
    length (s_objs st) <= length script ->
    (s_rbuf st ++ concat (s_chunks st) =
       wire (skipn (length (s_objs st) - length (s_queue st)) script) ++ extra)%list /\
    Forall nonempty (s_chunks st) /\ s_dead st = false.
  Proof.
    intros lmtp exts0 ops chunks st results Hc Hs Hrun Hlen.
    destruct (cl_run_final _ _ _ _ _ _ Hc Hs Hrun Hlen) as (I & _).
    split; [exact (I_stream _ _ I)|]. split; [exact (I_chunks _ _ I)|exact (I_dead _ _ I)].
  Qed.

  Lemma cl_lmtp_pairing : forall exts0 ops chunks st results o st' res,
    Forall nonempty chunks -> (concat chunks = wire script ++ extra)%list ->
    run udigit uspace ops (init true exts0 chunks) = (st, results) ->
    (o = OSendEmpty \/ exists payload, o = OSendData payload) ->
    step udigit uspace o st = (st', res) ->
    length (s_objs st') <= length script ->
    let n := length (s_objs st) in
    let acc := filter (fun p => class2 (fst (nth (snd p) script dflt))) (s_rcpttos st) in
    res = RPairs (number n (map fst acc)) /\
    length (s_objs st') = n + length acc /\
    s_rcpttos st' = []%list /\
    StronglySorted lt (map snd (s_rcpttos st)) /\
    Forall (fun p => from_call ops results p /\ snd p < n /\
                     o_cmd (nth (snd p) (s_objs st) dummy_obj) = bs "RCPT") (s_rcpttos st).
  Proof.
    intros exts0 ops chunks st results o st' res Hc Hs Hrun Ho Hstep Hlen n acc.
    pose proof (cl_step_mono o st) as Hm. rewrite Hstep in Hm. cbn [fst] in Hm.
    assert (Hlen0 : length (s_objs st) <= length script) by lia.
    destruct (cl_run_final _ _ _ _ _ _ Hc Hs Hrun Hlen0) as (I & _ & _ & Hlm & Hsort & Hhist).
    assert (Hd : exists w, lmtp_data udigit uspace w st = (st', res)).
    { unfold step in Hstep. rewrite (I_dead _ _ I), Hlm in Hstep.
      destruct Ho as [->|[payload ->]]; eauto. }
    destruct Hd as [w Hd].
    destruct (cl_lmtp_data_inv _ _ _ _ _ I Hd Hlen) as (f' & Hres & _ & Hl & _ & Hrc).
    assert (Eacc : accepted (s_rcpttos st) = acc).
    { apply cl_accepted_good. pose proof (I_rcpt _ _ I) as Ir0.
      eapply Forall_impl; [|exact Ir0]. intros p (Hp & _). lia. }
    rewrite Eacc in Hres, Hl.
    split; [exact Hres|]. split; [exact Hl|]. split; [exact Hrc|]. split; [exact Hsort|].
    pose proof (I_rcpt _ _ I) as Ir. rewrite Forall_forall in *. intros p Hp.
    destruct (Ir p Hp) as (H1 & _ & H3). auto.
  Qed.

  (* a call that raises has changed nothing: no reply slot is left without its command *)
  Lemma cl_raise_is_noop : forall lmtp exts0 ops chunks st results o st' e,
    Forall nonempty chunks -> (concat chunks = wire script ++ extra)%list ->
    run udigit uspace ops (init lmtp exts0 chunks) = (st, results) ->
    step udigit uspace o st = (st', RExn e) ->
    length (s_objs st') <= length script ->
    st' = st /\ (e = XEncode \/ e = XNotImpl).
  Proof.
    intros lmtp exts0 ops chunks st results o st' e Hc Hs Hrun Hstep Hlen.
    pose proof (cl_step_mono o st) as Hm. rewrite Hstep in Hm. cbn [fst] in Hm.
    assert (Hlen0 : length (s_objs st) <= length script) by lia.
    destruct (cl_run_final _ _ _ _ _ _ Hc Hs Hrun Hlen0) as (I & _).
    destruct (cl_step_inv _ _ _ _ _ I Hstep Hlen) as (f' & _ & Hres & _ & _ & Hno).
    split; [apply (Hno e); reflexivity|]. destruct e; cbn in Hres; auto; contradiction.
  Qed.
End Pairing.

(* ------------------------------------------------------------------ *)
(* the theorems of prop/C10.v for scripts of well-formed replies only   *)
Lemma cl_wf_all_ok : forall script, forallb wf_reply script = true -> forallb script_ok script = true.
Proof.
  intros script H. rewrite forallb_forall in *. intros r Hr. unfold script_ok. rewrite (H r Hr). reflexivity.
Qed.

Lemma clw_pairing : forall udigit uspace script extra lmtp exts0 ops chunks st results,
  forallb wf_reply script = true ->
  Forall nonempty chunks -> (concat chunks = wire script ++ extra)%list ->
  run udigit uspace ops (init lmtp exts0 chunks) = (st, results) ->
  length (s_objs st) <= length script ->
  let n := length (s_objs st) in
  let f := n - length (s_queue st) in
  flat_map result_ids results = seq 0 n /\
  Forall result_ok results /\
  s_queue st = seq f (n - f) /\
  forall j, j < n ->
    o_r (nth j (s_objs st) dummy_obj) =
      if j <? f then filled udigit uspace (o_kind (nth j (s_objs st) dummy_obj)) (nth j script dflt)
      else unfilled (o_kind (nth j (s_objs st) dummy_obj)).
Proof. intros. eapply cl_pairing; try eassumption. apply cl_wf_all_ok. assumption. Qed.

Lemma clw_no_overread : forall udigit uspace script extra lmtp exts0 ops chunks st results,
  forallb wf_reply script = true ->
  Forall nonempty chunks -> (concat chunks = wire script ++ extra)%list ->
  run udigit uspace ops (init lmtp exts0 chunks) = (st, results) ->
  length (s_objs st) <= length script ->
  (s_rbuf st ++ concat (s_chunks st) =
     wire (skipn (length (s_objs st) - length (s_queue st)) script) ++ extra)%list /\
  Forall nonempty (s_chunks st) /\ s_dead st = false.
Proof. intros. eapply cl_no_overread; try eassumption. apply cl_wf_all_ok. assumption. Qed.

Lemma clw_lmtp_pairing : forall udigit uspace script extra exts0 ops chunks st results o st' res,
  forallb wf_reply script = true ->
  Forall nonempty chunks -> (concat chunks = wire script ++ extra)%list ->
  run udigit uspace ops (init true exts0 chunks) = (st, results) ->
  (o = OSendEmpty \/ exists payload, o = OSendData payload) ->
  step udigit uspace o st = (st', res) ->
  length (s_objs st') <= length script ->
  let n := length (s_objs st) in
  let acc := filter (fun p => class2 (fst (nth (snd p) script dflt))) (s_rcpttos st) in
  res = RPairs (number n (map fst acc)) /\
  length (s_objs st') = n + length acc /\
  s_rcpttos st' = []%list /\
  StronglySorted lt (map snd (s_rcpttos st)) /\
  Forall (fun p => from_call ops results p /\ snd p < n /\
                   o_cmd (nth (snd p) (s_objs st) dummy_obj) = bs "RCPT") (s_rcpttos st).
Proof. intros. eapply cl_lmtp_pairing; try eassumption. apply cl_wf_all_ok. assumption. Qed.

Lemma clw_raise_is_noop : forall udigit uspace script extra lmtp exts0 ops chunks st results o st' e,
  forallb wf_reply script = true ->
  Forall nonempty chunks -> (concat chunks = wire script ++ extra)%list ->
  run udigit uspace ops (init lmtp exts0 chunks) = (st, results) ->
  step udigit uspace o st = (st', RExn e) ->
  length (s_objs st') <= length script ->
  st' = st /\ (e = XEncode \/ e = XNotImpl).
Proof. intros. eapply cl_raise_is_noop; try eassumption. apply cl_wf_all_ok. assumption. Qed.

(* ------------------------------------------------------------------ *)
(* the hypotheses of the theorems are satisfiable, on a non-trivial case:
   banner, EHLO advertising PIPELINING, MAIL + two RCPT pipelined (the second
   address is not encodable and raises before anything is queued), DATA flushes;
   a five-line multi-reply script delivered byte by byte plus an unsolicited
   extra reply that must stay unread. *)
Definition ex_udigit (c : N) : bool := ((48 <=? c) && (c <=? 57))%N.
Definition ex_uspace (c : N) : bool := (c =? 32)%N.
Definition ex_script : list sreply :=
  [(bs "220", [bs "mx ESMTP"]);
   (bs "250", [bs "mx greets you"; bs "PIPELINING"; bs "8BITMIME"]);
   (bs "250", [bs "2.1.0 sender ok"]);
   (bs "550", [bs "5.1.1 no such"; bs "user"]);
   (bs "354", [bs "go ahead"])].
Definition ex_extra : bytes := bs "250 unsolicited".
Definition ex_chunks : list bytes := map (fun b => [b]) (wire ex_script ++ ex_extra).
Definition ex_ops : list op :=
  [OBanner; OEhlo (bs "client"); OMail (bs "a@b") None None; ORcpt (bs "r1@c");
   ORcpt [233%N; 64%N; 120%N]; OData].

Example cl_example_hypotheses :
  forallb wf_reply ex_script = true /\
  forallb (fun c => match c with [] => false | _ => true end) ex_chunks = true /\
  concat ex_chunks = (wire ex_script ++ ex_extra)%list /\
  let '(st, results) := run ex_udigit ex_uspace ex_ops (init false [] ex_chunks) in
  results = [RObj 0; RObj 1; RObj 2; RObj 3; RExn XEncode; RObj 4]%nat /\
  (length (s_objs st) <= length ex_script)%nat /\
  s_queue st = [] /\ s_rbuf st = [] /\ concat (s_chunks st) = ex_extra /\
  map (fun o => (r_code (o_r o), get_message (o_r o))) (s_objs st) =
    [(bs "220", bs "mx ESMTP"); (bs "250", bs "mx greets you"); (bs "250", bs "2.1.0 sender ok");
     (bs "550", (bs "5.1.1 no such" ++ [13; 10]%N ++ bs "user")%list); (bs "354", bs "go ahead")].
Proof. vm_compute. repeat split; reflexivity. Qed.

(* LMTP: three recipients, the second rejected; end-of-data replies pair with the 1st and 3rd *)
Definition ex_lscript : list sreply :=
  [(bs "250", [bs "lmtp"; bs "PIPELINING"]); (bs "250", [bs "ok"]);
   (bs "250", [bs "r1 ok"]); (bs "550", [bs "r2 no"]); (bs "250", [bs "r3 ok"]);
   (bs "354", [bs "go"]); (bs "250", [bs "delivered r1"]); (bs "452", [bs "r3 over quota"])].
Definition ex_lops : list op :=
  [OLhlo (bs "client"); OMail (bs "a@b") None None; ORcpt (bs "r1"); ORcpt (bs "r2"); ORcpt (bs "r3"); OData].

Example cl_example_lmtp :
  forallb wf_reply ex_lscript = true /\
  let '(st, results) := run ex_udigit ex_uspace ex_lops (init true [] [wire ex_lscript]) in
  let '(st', res) := step ex_udigit ex_uspace OSendEmpty st in
  (length (s_objs st') <= length ex_lscript)%nat /\
  s_rcpttos st = [(bs "r1", 2); (bs "r2", 3); (bs "r3", 4)]%nat /\
  res = RPairs [(bs "r1", 6); (bs "r3", 7)]%nat.
Proof. vm_compute. repeat split; reflexivity. Qed.

(* hypotheses of C10_reply_consumed_exactly on a concrete multi-line reply cut mid-line,
   part of it already buffered *)
Example cl_example_reply :
  let code := bs "250" in let lines := [bs "first"; bs "second"] in
  forallb is_digit code = true /\ forallb no_lf lines = true /\
  (bs "250-fi" ++ concat [bs "rst"; [13; 10]%N; bs "250 second"; [13; 10; 50; 53]%N])%list =
    (emit_lines code lines ++ bs "25")%list /\
  recv_reply (bs "250-fi") [bs "rst"; [13; 10]%N; bs "250 second"; [13; 10; 50; 53]%N] =
    ROk code (join CRLF lines) (bs "25") [].
Proof. vm_compute. repeat split; reflexivity. Qed.

(* ------------------------------------------------------------------ *)
(* undecodable replies.  Hypotheses of C10_pairing_with_bad_replies on a concrete case:
   the reply to the first RCPT is ISO-8859-1 ("550 Empf\xe4nger unbekannt"); without
   PIPELINING rcptto() raises BadReply, the conversation continues and every later
   Reply holds its own reply; the bad reply's slot (object 3) stays empty. *)
Definition ex_bscript : list sreply :=
  [(bs "220", [bs "mx"]); (bs "250", [bs "mx"; bs "8BITMIME"]); (bs "250", [bs "ok"]);
   (bs "550", [(bs "Empf" ++ [228%N] ++ bs "nger unbekannt")%list]);
   (bs "250", [bs "r2 ok"]); (bs "354", [bs "go"]); (bs "250", [bs "queued"]); (bs "221", [bs "bye"])].
Definition ex_bops : list op :=
  [OBanner; OEhlo (bs "client"); OMail (bs "a@b") None None; ORcpt (bs "r1"); ORcpt (bs "r2");
   OData; OSendEmpty; OQuit].

Example cl_example_bad_reply :
  forallb script_ok ex_bscript = true /\ forallb wf_reply ex_bscript = false /\
  let '(st, results) := run ex_udigit ex_uspace ex_bops (init false [] (map (fun b => [b]) (wire ex_bscript))) in
  results = [RObj 0; RObj 1; RObj 2; RExn XBadReply; RObj 4; RObj 5; RObj 6; RObj 7]%nat /\
  (length (s_objs st) <= length ex_bscript)%nat /\ s_queue st = [] /\ s_rbuf st = [] /\ s_chunks st = [] /\
  map (fun o => r_code (o_r o)) (s_objs st) =
    [bs "220"; bs "250"; bs "250"; []; bs "250"; bs "354"; bs "250"; bs "221"].
Proof. vm_compute. repeat split; reflexivity. Qed.

(* Hypotheses of C10_lmtp_data_never_fails_on_unanswered_rcpt on the case that used to be the
   known finding c10:lmtp-data-after-bad-rcpt-reply: LMTP with PIPELINING, the reply to the
   second RCPT is undecodable; data() raises the BadReply; send_empty_data() now returns the
   pair for the first recipient only (object 5) and clears the recipient list. *)
Definition ex_fscript : list sreply :=
  [(bs "250", [bs "lmtp"; bs "PIPELINING"]); (bs "250", [bs "ok"]); (bs "250", [bs "r1 ok"]);
   (bs "550", [[228%N]]); (bs "354", [bs "go"]); (bs "250", [bs "x"]); (bs "250", [bs "y"])].
Definition ex_fops : list op :=
  [OLhlo (bs "client"); OMail (bs "a@b") None None; ORcpt (bs "r1"); ORcpt (bs "r2"); OData].

Example cl_example_lmtp_unanswered_rcpt :
  forallb script_ok ex_fscript = true /\
  let '(st, results) := run ex_udigit ex_uspace ex_fops (init true [] [wire ex_fscript]) in
  let '(st', res) := step ex_udigit ex_uspace OSendEmpty st in
  (length (s_objs st') <= length ex_fscript)%nat /\
  results = [RObj 0; RObj 1; RObj 2; RObj 3; RExn XBadReply]%nat /\
  s_rcpttos st = [(bs "r1", 2); (bs "r2", 3)]%nat /\
  res = RPairs [(bs "r1", 5)]%nat /\ s_queue st' = [5]%nat /\ s_rcpttos st' = [].
Proof. vm_compute. repeat split; try reflexivity; repeat constructor. Qed.
