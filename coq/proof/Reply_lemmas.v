(* Proofs about model/Reply.v (C17; reused by C10). *)
From Coq Require Import List NArith ZArith Bool Lia ZifyBool ZifyN.
From SV Require Import lib.Bytes model.Reply proof.Bytes_lemmas.
Import ListNotations.
Open Scope N_scope.
Ltac Zify.zify_post_hook ::= Z.to_euclidean_division_equations.

(* ------------------------------------------------------------------ UTF-8 *)
Lemma utf8_dec_enc1 : forall c s, valid_cp c = true ->
  utf8_dec (utf8_enc1 c ++ s) = ocons c (utf8_dec s).
Proof.
  intros c s Hv. unfold valid_cp, is_surrogate in Hv. unfold utf8_enc1.
  destruct (c <? 128) eqn:E1.
  - cbn [app utf8_dec]. rewrite E1. reflexivity.
  - destruct (c <? 2048) eqn:E2.
    + cbn [app]. cbn [utf8_dec].
      assert (H1 : (192 + c / 64 <? 128) = false) by lia. rewrite H1.
      assert (H2 : (192 + c / 64 <? 194) = false) by lia. rewrite H2.
      assert (H3 : (192 + c / 64 <? 224) = true) by lia. rewrite H3.
      assert (H4 : is_cont (128 + c mod 64) = true) by (unfold is_cont; lia). rewrite H4.
      assert (H5 : (192 + c / 64 - 192) * 64 + (128 + c mod 64 - 128) = c) by lia. rewrite H5. reflexivity.
    + destruct (c <? 65536) eqn:E3.
      * cbn [app]. cbn [utf8_dec].
        assert (H1 : (224 + c / 4096 <? 128) = false) by lia. rewrite H1.
        assert (H2 : (224 + c / 4096 <? 194) = false) by lia. rewrite H2.
        assert (H3 : (224 + c / 4096 <? 224) = false) by lia. rewrite H3.
        assert (H3' : (224 + c / 4096 <? 240) = true) by lia. rewrite H3'.
        assert (H5 : (224 + c / 4096 - 224) * 4096 + (128 + (c / 64) mod 64 - 128) * 64 + (128 + c mod 64 - 128) = c) by lia.
        rewrite H5.
        assert (H4 : is_cont (128 + (c / 64) mod 64) && is_cont (128 + c mod 64) && (2048 <=? c) && negb (is_surrogate c) = true) by (unfold is_cont, is_surrogate; lia).
        rewrite H4. reflexivity.
      * cbn [app]. cbn [utf8_dec].
        assert (H1 : (240 + c / 262144 <? 128) = false) by lia. rewrite H1.
        assert (H2 : (240 + c / 262144 <? 194) = false) by lia. rewrite H2.
        assert (H3 : (240 + c / 262144 <? 224) = false) by lia. rewrite H3.
        assert (H3' : (240 + c / 262144 <? 240) = false) by lia. rewrite H3'.
        assert (H3'' : (240 + c / 262144 <? 245) = true) by lia. rewrite H3''.
        assert (H5 : (240 + c / 262144 - 240) * 262144 + (128 + (c / 4096) mod 64 - 128) * 4096 + (128 + (c / 64) mod 64 - 128) * 64 + (128 + c mod 64 - 128) = c) by lia.
        rewrite H5.
        assert (H4 : is_cont (128 + (c / 4096) mod 64) && is_cont (128 + (c / 64) mod 64) && is_cont (128 + c mod 64) && (65536 <=? c) && (c <? 1114112) = true) by (unfold is_cont; lia).
        rewrite H4. reflexivity.
Qed.

Definition valid_text (t : list N) : Prop := Forall (fun c => valid_cp c = true) t.

Lemma utf8_dec_enc : forall t, valid_text t -> utf8_dec (utf8_enc t) = Some t.
Proof.
  induction t as [|c t IH]; intro H; [reflexivity|].
  inversion H as [|? ? Hc Ht]; subst. cbn [utf8_enc flat_map].
  rewrite utf8_dec_enc1 by assumption. fold (utf8_enc t). rewrite (IH Ht). reflexivity.
Qed.

Definition clean (b : N) : Prop := b <> 10 /\ b <> 13.

Lemma enc1_clean : forall c, c <> 10 -> c <> 13 -> Forall clean (utf8_enc1 c).
Proof.
  intros c H10 H13. unfold utf8_enc1, clean.
  destruct (c <? 128) eqn:E1; [repeat constructor; assumption|].
  destruct (c <? 2048) eqn:E2; [repeat constructor; lia|].
  destruct (c <? 65536) eqn:E3; repeat constructor; lia.
Qed.

(* ------------------------------------------------------------------ norm *)
Lemma norm_clean_cons : forall b x, clean b -> norm (b :: x) = b :: norm x.
Proof.
  intros b x [H10 H13]. cbn [norm].
  destruct (N.eqb_spec b 10); [contradiction|]. destruct (N.eqb_spec b 13); [contradiction|]. reflexivity.
Qed.

Lemma norm_app_clean : forall p x, Forall clean p -> norm (p ++ x) = p ++ norm x.
Proof.
  induction p as [|b p IH]; intros x H; [reflexivity|].
  inversion H as [|? ? Hb Hp]; subst. cbn [app]. rewrite norm_clean_cons by assumption.
  rewrite IH by assumption. reflexivity.
Qed.

Lemma norm_lf : forall x, norm (10 :: x) = 13 :: 10 :: norm x.
Proof. reflexivity. Qed.

Lemma norm_crlf : forall x, norm (13 :: 10 :: x) = 13 :: 10 :: norm x.
Proof. reflexivity. Qed.

Lemma norm_cr_other : forall b x, b <> 10 -> norm (13 :: b :: x) = 13 :: norm (b :: x).
Proof. intros b x H. cbn [norm]. cbn. destruct (N.eqb_spec b 10); [contradiction|reflexivity]. Qed.

Lemma enc1_head : forall c, exists b r, utf8_enc1 c = b :: r /\ (b = 10 <-> c = 10).
Proof.
  intro c. unfold utf8_enc1.
  destruct (c <? 128) eqn:E1; [exists c, []; split; [reflexivity|tauto]|].
  destruct (c <? 2048) eqn:E2; [eexists _, _; split; [reflexivity|lia]|].
  destruct (c <? 65536) eqn:E3; eexists _, _; (split; [reflexivity|lia]).
Qed.

Lemma norm_enc : forall t, norm (utf8_enc t) = utf8_enc (norm t).
Proof.
  induction t as [|c t IH]; [reflexivity|].
  cbn [utf8_enc flat_map]. fold (utf8_enc t).
  destruct (N.eq_dec c 10) as [E10|N10].
  - subst c. change (utf8_enc1 10) with [10]. cbn [app]. rewrite !norm_lf.
    cbn [utf8_enc flat_map]. fold (utf8_enc (norm t)). rewrite IH. reflexivity.
  - destruct (N.eq_dec c 13) as [E13|N13].
    + subst c. change (utf8_enc1 13) with [13]. cbn [app].
      destruct t as [|d t'].
      * reflexivity.
      * destruct (N.eq_dec d 10) as [Ed|Nd].
        -- subst d. cbn [utf8_enc flat_map] in *. fold (utf8_enc t') in *.
           change (utf8_enc1 10) with [10] in *. cbn [app] in *.
           rewrite norm_crlf. rewrite norm_lf in IH. rewrite norm_lf in IH.
           cbn [utf8_enc flat_map] in IH. fold (utf8_enc (norm t')) in IH.
           change (utf8_enc1 13) with [13] in IH. change (utf8_enc1 10) with [10] in IH. cbn [app] in IH.
           rewrite norm_crlf. cbn [utf8_enc flat_map]. fold (utf8_enc (norm t')).
           change (utf8_enc1 13) with [13]. change (utf8_enc1 10) with [10]. cbn [app].
           exact IH.
        -- rewrite (norm_cr_other d t' Nd).
           cbn [utf8_enc flat_map]. fold (utf8_enc t'). fold (utf8_enc (norm (d :: t'))).
           destruct (enc1_head d) as [b [r [Hb Hi]]]. rewrite Hb. cbn [app].
           rewrite norm_cr_other by (intro Hx; apply Hi in Hx; contradiction).
           change (utf8_enc1 13) with [13]. cbn [app]. f_equal.
           rewrite <- IH. cbn [utf8_enc flat_map]. fold (utf8_enc t'). rewrite Hb. reflexivity.
    + rewrite norm_app_clean by (apply enc1_clean; assumption).
      rewrite norm_clean_cons by (split; assumption).
      cbn [utf8_enc flat_map]. fold (utf8_enc (norm t)). rewrite IH. reflexivity.
Qed.

Lemma norm_forall : forall (P : N -> Prop) t, P 13 -> P 10 -> Forall P t -> Forall P (norm t).
Proof.
  intros P t H13 H10.
  induction t as [|c t IH]; intro H; [constructor|].
  inversion H as [|? ? Hc Ht]; subst.
  destruct (N.eq_dec c 10) as [E|NE].
  - subst c. rewrite norm_lf. repeat constructor; auto.
  - destruct (N.eq_dec c 13) as [E13|N13].
    + subst c. destruct t as [|b t']; [repeat constructor; assumption|].
      destruct (N.eq_dec b 10) as [Eb|Nb].
      * subst b. rewrite norm_crlf. specialize (IH Ht). rewrite norm_lf in IH.
        inversion IH as [|? ? _ IH2]; subst. inversion IH2; subst. repeat constructor; assumption.
      * rewrite norm_cr_other by assumption. constructor; [assumption|]. apply IH. assumption.
    + rewrite norm_clean_cons by (split; assumption). constructor; [assumption|]. apply IH. assumption.
Qed.

Lemma norm_valid : forall t, valid_text t -> valid_text (norm t).
Proof. intros t H. apply norm_forall; [reflexivity|reflexivity|exact H]. Qed.

(* ------------------------------------------------------------------ lines <-> norm *)
Lemma norm_nolf : forall t, nolf t -> norm t = t.
Proof.
  induction t as [|c t IH]; intro H; [reflexivity|].
  inversion H as [|? ? Hc Ht]; subst.
  destruct (N.eq_dec c 13) as [E|NE].
  - subst c. destruct t as [|b t']; [reflexivity|].
    inversion Ht as [|? ? Hb _]; subst. rewrite norm_cr_other by assumption. rewrite IH by assumption. reflexivity.
  - rewrite norm_clean_cons by (split; assumption). rewrite IH by assumption. reflexivity.
Qed.

Lemma norm_line : forall l x, nolf l -> norm (l ++ 10 :: x) = strip_cr l ++ 13 :: 10 :: norm x.
Proof.
  induction l as [|c l IH]; intros x H; [reflexivity|].
  inversion H as [|? ? Hc Hl]; subst.
  destruct l as [|d l'].
  - cbn [app strip_cr]. destruct (N.eqb_spec c 13) as [E|NE].
    + subst c. reflexivity.
    + rewrite norm_clean_cons by (split; assumption). reflexivity.
  - rewrite strip_cr_cons2. cbn [app]. inversion Hl as [|? ? Hd _]; subst.
    destruct (N.eq_dec c 13) as [E|NE].
    + subst c. rewrite norm_cr_other by assumption. f_equal. apply (IH x Hl).
    + rewrite norm_clean_cons by (split; assumption). f_equal. apply (IH x Hl).
Qed.

Definition glue (ls : list bytes) (t : bytes) : bytes :=
  concat (map (fun l => strip_cr l ++ CRLF) ls) ++ t.

Lemma norm_unraw : forall ls t, Forall nolf ls -> nolf t -> norm (unraw ls ++ t) = glue ls t.
Proof.
  induction ls as [|l ls IH]; intros t H Ht.
  - cbn. apply norm_nolf. assumption.
  - inversion H as [|? ? Hl Hls]; subst. unfold unraw, glue in *. cbn [map concat].
    rewrite <- !app_assoc. cbn [app]. rewrite norm_line by assumption.
    rewrite (IH t Hls Ht). unfold CRLF. cbn [app]. reflexivity.
Qed.

Lemma join_glue : forall ls t, join CRLF (map strip_cr ls ++ [t]) = glue ls t.
Proof.
  induction ls as [|l ls IH]; intro t; [reflexivity|].
  cbn [map app]. rewrite join_cons.
  - rewrite IH. unfold glue. cbn [map concat]. rewrite <- !app_assoc. reflexivity.
  - intro Hc. apply app_eq_nil in Hc. destruct Hc as [_ Hc]. discriminate Hc.
Qed.

Lemma msg_lines_split : forall m ls t, split_lf m = (ls, t) -> msg_lines m = map strip_cr ls ++ [t].
Proof.
  intros m ls t H. unfold msg_lines. destruct (split_lf_sound m ls t H) as [H1 [H2 H3]].
  rewrite <- H1. rewrite <- app_assoc.
  rewrite split_lf_unraw_app by assumption.
  replace (t ++ CRLF) with ((t ++ [13]) ++ 10 :: []) by (rewrite <- app_assoc; reflexivity).
  rewrite split_lf_line.
  - cbn [split_lf fst snd]. rewrite map_app. cbn [map]. rewrite strip_cr_snoc. reflexivity.
  - apply nolf_app. split; [assumption|]. constructor; [discriminate|constructor].
Qed.

Lemma norm_lines : forall m, join CRLF (msg_lines m) = norm m.
Proof.
  intro m. destruct (split_lf m) as [ls t] eqn:E.
  rewrite (msg_lines_split m ls t E). rewrite join_glue.
  destruct (split_lf_sound m ls t E) as [H1 [H2 H3]].
  rewrite <- H1. symmetry. apply norm_unraw; assumption.
Qed.

Lemma nolf_strip_cr : forall l, nolf l -> nolf (strip_cr l).
Proof.
  induction l as [|c l IH]; intro H; [constructor|].
  inversion H as [|? ? Hc Hl]; subst. destruct l as [|d l'].
  - cbn. destruct (c =? 13); [constructor|constructor; [assumption|constructor]].
  - rewrite strip_cr_cons2. constructor; [assumption|]. apply IH. assumption.
Qed.

Lemma msg_lines_nolf : forall m, Forall nolf (msg_lines m) /\ msg_lines m <> [].
Proof.
  intro m. destruct (split_lf m) as [ls t] eqn:E.
  rewrite (msg_lines_split m ls t E). destruct (split_lf_sound m ls t E) as [H1 [H2 H3]]. split.
  - apply Forall_app. split.
    + clear -H2. induction H2 as [|l ls Hl _ IH]; cbn; constructor; [apply nolf_strip_cr; assumption|assumption].
    + constructor; [assumption|constructor].
  - intro Hc. apply app_eq_nil in Hc. destruct Hc as [_ Hc]. discriminate Hc.
Qed.

(* ------------------------------------------------------------------ scan / batch *)
Lemma scan_app : forall a b code msgs,
  scan code msgs (a ++ b) =
  match scan code msgs a with
  | SDone c m rest => SDone c m (rest ++ b)
  | SBad rest => SBad (rest ++ b)
  | SMore c m => scan c m b
  end.
Proof.
  induction a as [|raw a IH]; intros b code msgs; [reflexivity|].
  cbn [app scan]. destruct (parse_reply_line raw) as [[[c sep] txt]|]; [|reflexivity].
  destruct (code_conflict code c); [reflexivity|].
  destruct (sep =? 45); [apply IH|reflexivity].
Qed.

Definition batch_of (code : option bytes) (msgs : list bytes) (ls : list bytes) (tail : bytes) : rres :=
  match scan code msgs ls with
  | SDone c m rest => ROk c (join CRLF m) (unraw rest ++ tail) []
  | SBad rest => RBad (unraw rest ++ tail) []
  | SMore _ _ => RLost
  end.

Lemma recv_loop_nil : forall code msgs s,
  recv_loop code msgs s [] = batch_of code msgs (fst (split_lf s)) (snd (split_lf s)).
Proof.
  intros. unfold batch_of. cbn [recv_loop]. destruct (split_lf s) as [ls tail]. cbn [fst snd].
  destruct (scan code msgs ls); reflexivity.
Qed.

Lemma batch_app : forall buf x ls tail code msgs, split_lf buf = (ls, tail) ->
  recv_loop code msgs (buf ++ x) [] =
  match scan code msgs ls with
  | SDone c m rest => ROk c (join CRLF m) (unraw rest ++ tail ++ x) []
  | SBad rest => RBad (unraw rest ++ tail ++ x) []
  | SMore c m => recv_loop c m (tail ++ x) []
  end.
Proof.
  intros buf x ls tail code msgs H.
  rewrite recv_loop_nil. rewrite (split_lf_app buf x ls tail H). cbn [fst snd].
  unfold batch_of. rewrite scan_app.
  destruct (split_lf (tail ++ x)) as [ls2 t2] eqn:E2. cbn [fst snd].
  destruct (split_lf_sound _ _ _ E2) as [S1 _].
  destruct (scan code msgs ls) as [c m rest|rest|c m].
  - rewrite unraw_app, <- app_assoc, S1. reflexivity.
  - rewrite unraw_app, <- app_assoc, S1. reflexivity.
  - rewrite recv_loop_nil. rewrite E2. reflexivity.
Qed.

Lemma recv_loop_cons : forall code msgs buf ch chunks,
  recv_loop code msgs buf (ch :: chunks) =
  let '(ls, tail) := split_lf buf in
  match scan code msgs ls with
  | SDone c m rest => ROk c (join CRLF m) (unraw rest ++ tail) (ch :: chunks)
  | SBad rest => RBad (unraw rest ++ tail) (ch :: chunks)
  | SMore c m => match ch with [] => RLost | _ => recv_loop c m (tail ++ ch) chunks end
  end.
Proof. reflexivity. Qed.

Definition nonempty_chunks (chunks : list bytes) : Prop := Forall (fun c => c <> []) chunks.

(* incremental parsing = batch parsing of the concatenated stream *)
Lemma inc_batch : forall chunks code msgs buf,
  match recv_loop code msgs buf chunks with
  | ROk c body b' ch' => recv_loop code msgs (buf ++ concat chunks) [] = ROk c body (b' ++ concat ch') []
  | RBad b' ch' => recv_loop code msgs (buf ++ concat chunks) [] = RBad (b' ++ concat ch') []
  | RLost => nonempty_chunks chunks -> recv_loop code msgs (buf ++ concat chunks) [] = RLost
  end.
Proof.
  induction chunks as [|ch chunks IH]; intros code msgs buf.
  - cbn [concat]. rewrite app_nil_r. destruct (recv_loop code msgs buf []) eqn:E.
    + rewrite recv_loop_nil in E. unfold batch_of in E.
      destruct (scan code msgs (fst (split_lf buf))); inversion E; subst. rewrite app_nil_r. reflexivity.
    + rewrite recv_loop_nil in E. unfold batch_of in E.
      destruct (scan code msgs (fst (split_lf buf))); inversion E; subst. rewrite app_nil_r. reflexivity.
    + reflexivity.
  - rewrite recv_loop_cons. destruct (split_lf buf) as [ls tail] eqn:Es.
    rewrite (batch_app buf (concat (ch :: chunks)) ls tail code msgs Es).
    destruct (scan code msgs ls) as [c m rest|rest|c m].
    + rewrite <- app_assoc. reflexivity.
    + rewrite <- app_assoc. reflexivity.
    + destruct ch as [|b0 ch0].
      * intro Hne. inversion Hne as [|? ? Hc _]; subst. contradiction.
      * specialize (IH c m (tail ++ b0 :: ch0)). cbn [concat].
        rewrite <- app_assoc in IH.
        destruct (recv_loop c m (tail ++ b0 :: ch0) chunks); try exact IH.
        intro Hne. apply IH. inversion Hne; assumption.
Qed.

(* ------------------------------------------------------------------ send then receive (bytes) *)
Definition is_code (code : bytes) : Prop :=
  exists d1 d2 d3, code = [d1; d2; d3] /\ ((49 <=? d1) && (d1 <=? 53)) = true /\ is_digit d2 = true /\ is_digit d3 = true.

Fixpoint raws (code : bytes) (ls : list bytes) : list bytes :=
  match ls with
  | [] => []
  | [l] => [code ++ 32 :: l ++ [13]]
  | l :: ls' => (code ++ 45 :: l ++ [13]) :: raws code ls'
  end.

Lemma emit_raws : forall code ls, emit_lines code ls = unraw (raws code ls).
Proof.
  intros code. induction ls as [|l ls IH]; [reflexivity|].
  destruct ls as [|l2 ls'].
  - unfold unraw. cbn [emit_lines raws map concat]. rewrite app_nil_r. unfold CRLF. rewrite <- !app_assoc. cbn [app]. rewrite <- !app_assoc. reflexivity.
  - change (emit_lines code (l :: l2 :: ls')) with (code ++ [45] ++ l ++ CRLF ++ emit_lines code (l2 :: ls')).
    change (raws code (l :: l2 :: ls')) with ((code ++ 45 :: l ++ [13]) :: raws code (l2 :: ls')).
    rewrite IH. unfold unraw, CRLF. cbn [map concat]. rewrite <- !app_assoc. cbn. rewrite <- !app_assoc. reflexivity.
Qed.

Lemma is_code_nolf : forall code, is_code code -> nolf code.
Proof.
  intros code [d1 [d2 [d3 [E [H1 [H2 H3]]]]]]. subst. unfold is_digit in *.
  repeat constructor; lia.
Qed.

Lemma raws_nolf : forall code ls, nolf code -> Forall nolf ls -> Forall nolf (raws code ls).
Proof.
  intros code ls Hc. induction ls as [|l ls IH]; intro H; [constructor|].
  inversion H as [|? ? Hl Hls]; subst. destruct ls as [|l2 ls'].
  - constructor; [|constructor]. apply nolf_app. split; [assumption|].
    constructor; [discriminate|]. apply nolf_app. split; [assumption|]. constructor; [discriminate|constructor].
  - change (raws code (l :: l2 :: ls')) with ((code ++ 45 :: l ++ [13]) :: raws code (l2 :: ls')).
    constructor; [|apply IH; assumption]. apply nolf_app. split; [assumption|].
    constructor; [discriminate|]. apply nolf_app. split; [assumption|]. constructor; [discriminate|constructor].
Qed.

Lemma parse_raw : forall code sep l, is_code code -> is_sep sep = true ->
  parse_reply_line (code ++ sep :: l ++ [13]) = Some (code, sep, l).
Proof.
  intros code sep l [d1 [d2 [d3 [E [H1 [H2 H3]]]]]] Hs. subst code. unfold parse_reply_line.
  replace ([d1; d2; d3] ++ sep :: l ++ [13]) with ((d1 :: d2 :: d3 :: sep :: l) ++ [13]) by reflexivity.
  rewrite strip_cr_snoc. rewrite H1, H2, H3, Hs. reflexivity.
Qed.

Definition code_compat (code0 : option bytes) (code : bytes) : Prop :=
  code0 = None \/ code0 = Some code.

Lemma scan_raws : forall code ls rest code0 msgs, is_code code -> ls <> [] -> code_compat code0 code ->
  scan code0 msgs (raws code ls ++ rest) = SDone code (msgs ++ ls) rest.
Proof.
  intros code ls rest code0 msgs Hc. revert code0 msgs.
  induction ls as [|l ls IH]; intros code0 msgs Hne Hcc; [contradiction|].
  assert (Hconf : code_conflict code0 code = false).
  { destruct Hcc as [E|E]; subst; [reflexivity|]. cbn. rewrite beqb_refl. reflexivity. }
  destruct ls as [|l2 ls'].
  - cbn [raws app scan]. rewrite parse_raw by (auto). rewrite Hconf. reflexivity.
  - change (raws code (l :: l2 :: ls')) with ((code ++ 45 :: l ++ [13]) :: raws code (l2 :: ls')).
    cbn [app scan]. rewrite parse_raw by auto. rewrite Hconf. cbn [N.eqb Pos.eqb].
    rewrite IH; [|discriminate|right; reflexivity].
    rewrite <- app_assoc. reflexivity.
Qed.

(* the whole stream at once: a written reply followed by anything is parsed back
   exactly, and exactly its bytes are consumed *)
Lemma send_recv_batch : forall code m t, is_code code ->
  recv_loop None [] (send_reply code m ++ t) [] = ROk code (norm m) t [].
Proof.
  intros code m t Hc. unfold send_reply. rewrite emit_raws.
  destruct (msg_lines_nolf m) as [Hn Hne].
  rewrite recv_loop_nil. rewrite split_lf_unraw_app by (apply raws_nolf; [apply is_code_nolf; assumption|assumption]).
  cbn [fst snd]. unfold batch_of.
  rewrite scan_raws; [|assumption|assumption|left; reflexivity].
  cbn [app]. rewrite norm_lines.
  destruct (split_lf t) as [ls2 t2] eqn:E. cbn [fst snd].
  destruct (split_lf_sound t ls2 t2 E) as [S1 _]. rewrite S1. reflexivity.
Qed.

(* any segmentation, any part pre-loaded in the buffer *)
Lemma send_recv_inc : forall code m t buf chunks, is_code code -> nonempty_chunks chunks ->
  buf ++ concat chunks = send_reply code m ++ t ->
  exists buf' chunks', recv_reply buf chunks = ROk code (norm m) buf' chunks' /\ buf' ++ concat chunks' = t.
Proof.
  intros code m t buf chunks Hc Hne Hs. unfold recv_reply.
  pose proof (inc_batch chunks None [] buf) as H. rewrite Hs in H. rewrite send_recv_batch in H by assumption.
  destruct (recv_loop None [] buf chunks) as [c body b' ch'|b' ch'|].
  - inversion H; subst. exists b', ch'. split; reflexivity.
  - discriminate H.
  - specialize (H Hne). discriminate H.
Qed.

(* ------------------------------------------------------------------ Reply object *)
Section ReplyObject.
  Local Arguments is245 : simpl never.
  Variable udigit uspace : N -> bool.
  Hypothesis Hd46 : udigit 46 = false.
  Hypothesis Hd48 : udigit 48 = true.
  Hypothesis Hs32 : uspace 32 = true.
  Hypothesis Hs10 : uspace 10 = true.
  Hypothesis Hs13 : uspace 13 = true.
  Hypothesis Hdisj : forall c, udigit c = true -> uspace c = false.

  Notation take_digits := (take_digits udigit).
  Notation drop_space := (drop_space uspace).
  Notation match_esc := (match_esc udigit uspace).
  Notation new_reply := (new_reply udigit uspace).
  Notation set_message := (set_message udigit uspace).

  Definition dig13 (d : list N) : bool :=
    match d with
    | [a] => udigit a
    | [a; b] => udigit a && udigit b
    | [a; b; c] => udigit a && udigit b && udigit c
    | _ => false
    end.
  Definition nd_head (s : list N) : bool :=
    match s with [] => true | x :: _ => negb (udigit x) end.
  Definition ns_head (s : list N) : bool :=
    match s with [] => true | x :: _ => negb (uspace x) end.

  Lemma td_fwd : forall s d s', take_digits s = Some (d, s') ->
    s = d ++ s' /\ dig13 d = true /\ nd_head s' = true.
  Proof.
    intros s d s' H. unfold Reply.take_digits in H.
    destruct s as [|d1 s1]; [discriminate|].
    destruct (udigit d1) eqn:E1; [|discriminate].
    destruct s1 as [|d2 s2].
    { inversion H; subst. cbn. rewrite E1. auto. }
    destruct (udigit d2) eqn:E2.
    2:{ inversion H; subst. cbn. rewrite E1, E2. auto. }
    destruct s2 as [|d3 s3].
    { inversion H; subst. cbn. rewrite E1, E2. auto. }
    destruct (udigit d3) eqn:E3.
    2:{ inversion H; subst. cbn. rewrite E1, E2, E3. auto. }
    destruct s3 as [|d4 s4].
    { inversion H; subst. cbn. rewrite E1, E2, E3. auto. }
    destruct (udigit d4) eqn:E4; [discriminate|].
    inversion H; subst. cbn. rewrite E1, E2, E3, E4. auto.
  Qed.

  Lemma td_bwd : forall d s', dig13 d = true -> nd_head s' = true -> take_digits (d ++ s') = Some (d, s').
  Proof.
    intros d s' Hd Hn. unfold Reply.take_digits.
    destruct d as [|a [|b [|c [|e d']]]]; cbn in Hd; try discriminate.
    - cbn [app]. rewrite Hd. destruct s' as [|x s'']; [reflexivity|]. cbn in Hn.
      destruct (udigit x); [discriminate|reflexivity].
    - apply andb_true_iff in Hd. destruct Hd as [Ha Hb]. cbn [app]. rewrite Ha, Hb.
      destruct s' as [|x s'']; [reflexivity|]. cbn in Hn. destruct (udigit x); [discriminate|reflexivity].
    - apply andb_true_iff in Hd. destruct Hd as [Hab Hc]. apply andb_true_iff in Hab. destruct Hab as [Ha Hb].
      cbn [app]. rewrite Ha, Hb, Hc.
      destruct s' as [|x s'']; [reflexivity|]. cbn in Hn. destruct (udigit x); [discriminate|reflexivity].
  Qed.

  Lemma space_not_digit : forall w, uspace w = true -> udigit w = false.
  Proof. intros w H. destruct (udigit w) eqn:E; [|reflexivity]. apply Hdisj in E. congruence. Qed.

  Lemma drop_space_head : forall s, ns_head (drop_space s) = true.
  Proof. induction s as [|c s IH]; [reflexivity|]. cbn. destruct (uspace c) eqn:E; [exact IH|]. cbn. rewrite E. reflexivity. Qed.

  Lemma drop_space_id : forall s, ns_head s = true -> drop_space s = s.
  Proof. intros [|c s] H; [reflexivity|]. cbn in *. destruct (uspace c); [discriminate|reflexivity]. Qed.

  Lemma me_fwd : forall v k subj det rest, match_esc v = Some (k, subj, det, rest) ->
    exists w sp, v = k :: 46 :: subj ++ 46 :: det ++ w :: sp /\ is245 k = true /\
                 dig13 subj = true /\ dig13 det = true /\ uspace w = true /\ rest = drop_space sp.
  Proof.
    intros v k subj det rest H. unfold Reply.match_esc in H.
    destruct v as [|k0 [|dot s]]; try discriminate.
    destruct (((k0 =? 50) || (k0 =? 52) || (k0 =? 53)) && (dot =? 46)) eqn:E; [|discriminate].
    apply andb_true_iff in E. destruct E as [Ek Edot]. apply N.eqb_eq in Edot. subst dot.
    destruct (take_digits s) as [[subj0 s1]|] eqn:T1; [|discriminate].
    destruct s1 as [|dot2 s2]; [discriminate|].
    destruct (N.eqb_spec dot2 46) as [E2|E2]; [subst dot2|discriminate].
    destruct (take_digits s2) as [[det0 s3]|] eqn:T2; [|discriminate].
    destruct s3 as [|w s4]; [discriminate|].
    destruct (uspace w) eqn:Ew; [|discriminate].
    inversion H; subst.
    apply td_fwd in T1. destruct T1 as [A1 [B1 _]]. apply td_fwd in T2. destruct T2 as [A2 [B2 _]].
    exists w, s4. subst s s2. repeat split; try assumption.
  Qed.

  Lemma me_bwd : forall k subj det w sp, is245 k = true -> dig13 subj = true -> dig13 det = true ->
    uspace w = true ->
    match_esc (k :: 46 :: subj ++ 46 :: det ++ w :: sp) = Some (k, subj, det, drop_space sp).
  Proof.
    intros k subj det w sp Hk Hs Hd Hw. unfold Reply.match_esc. unfold is245 in Hk. rewrite Hk. cbn [andb N.eqb Pos.eqb].
    rewrite td_bwd; [|assumption|cbn; rewrite Hd46; reflexivity].
    cbn [N.eqb Pos.eqb].
    rewrite td_bwd; [|assumption|cbn; rewrite (space_not_digit w Hw); reflexivity].
    rewrite Hw. reflexivity.
  Qed.

  (* shape of the text a library-built reply shows *)
  Definition esc_shape (k : N) (T : list N) : Prop :=
    exists subj det m, T = k :: 46 :: subj ++ 46 :: det ++ 32 :: m /\
      dig13 subj = true /\ dig13 det = true /\ m <> [] /\ ns_head m = true.

  Lemma new_reply_unfold : forall code v,
    new_reply code v =
    match v with
    | [] => mkReply code EscNone []
    | _ => match (if peel_allowed code then match_esc v else None) with
           | Some (k, subj, det, rest) => mkReply code (EscSome k subj det) rest
           | None => mkReply code EscNone v
           end
    end.
  Proof. intros code v. unfold Reply.new_reply, Reply.set_message. destruct v; reflexivity. Qed.

  Lemma new_reply_code : forall code v, r_code (new_reply code v) = code.
  Proof.
    intros code v. rewrite new_reply_unfold. destruct v as [|c v']; [reflexivity|].
    destruct (if peel_allowed code then match_esc (c :: v') else None) as [[[[k subj] det] rest]|]; reflexivity.
  Qed.

  Lemma getmsg_non245 : forall k c2 v, is245 k = false -> get_message (new_reply (k :: c2) v) = v.
  Proof.
    intros k c2 v Hk. rewrite new_reply_unfold. cbn [peel_allowed]. rewrite Hk.
    unfold get_message, get_esc, code_class.
    destruct v as [|c v']; cbn [r_code r_esc r_msg hd]; rewrite Hk; reflexivity.
  Qed.

  Lemma getmsg_shape : forall k c2 v, is245 k = true -> ns_head v = true ->
    let T := get_message (new_reply (k :: c2) v) in T = [] \/ esc_shape k T.
  Proof.
    intros k c2 v Hk Hv T. subst T. rewrite new_reply_unfold.
    destruct v as [|c v']; [left; unfold get_message; cbn [r_msg]; destruct (get_esc _); reflexivity|].
    cbn [peel_allowed]. rewrite Hk.
    destruct (match_esc (c :: v')) as [[[[k' subj] det] rest]|] eqn:E.
    - apply me_fwd in E. destruct E as [w [sp [Ev [Hk' [Hs [Hd [Hw Hr]]]]]]].
      unfold get_message, get_esc, code_class. cbn [r_code r_esc r_msg hd]. rewrite Hk.
      destruct rest as [|r0 rest']; [left; reflexivity|]. right.
      exists subj, det, (r0 :: rest'). split; [|split; [assumption|split; [assumption|split; [discriminate|]]]].
      + cbn [app]. rewrite <- app_assoc. reflexivity.
      + rewrite Hr. apply drop_space_head.
    - right. unfold get_message, get_esc, code_class. cbn [r_code r_esc r_msg hd]. rewrite Hk.
      exists [48], [48], (c :: v'). cbn. rewrite Hd48. repeat split; try reflexivity; try discriminate. exact Hv.
  Qed.

  Lemma digit_clean : forall c, udigit c = true -> clean c.
  Proof.
    intros c H. apply Hdisj in H. split; intro E; subst; congruence.
  Qed.

  Lemma dig13_clean : forall d, dig13 d = true -> Forall clean d.
  Proof.
    intros d H. destruct d as [|a [|b [|c [|e d']]]]; cbn in H; try discriminate.
    - apply Forall_cons; [apply digit_clean; assumption|apply Forall_nil].
    - apply andb_true_iff in H. destruct H.
      repeat (apply Forall_cons; [apply digit_clean; assumption|]); apply Forall_nil.
    - apply andb_true_iff in H. destruct H as [H Hc]. apply andb_true_iff in H. destruct H.
      repeat (apply Forall_cons; [apply digit_clean; assumption|]); apply Forall_nil.
  Qed.

  Lemma is245_clean : forall k, is245 k = true -> clean k.
  Proof. intros k H. unfold is245 in H. split; lia. Qed.

  Lemma getmsg_stable : forall k c2 T, is245 k = true -> esc_shape k T ->
    get_message (new_reply (k :: c2) (norm T)) = norm T.
  Proof.
    intros k c2 T Hk [subj [det [m [ET [Hs [Hd [Hm Hh]]]]]]].
    destruct m as [|c0 m']; [contradiction|]. cbn in Hh.
    assert (Hc0 : clean c0).
    { split; intro E; subst c0; [rewrite Hs10 in Hh|rewrite Hs13 in Hh]; discriminate. }
    assert (EN : norm T = k :: 46 :: subj ++ 46 :: det ++ 32 :: c0 :: norm m').
    { subst T.
      replace (k :: 46 :: subj ++ 46 :: det ++ 32 :: c0 :: m') with ((k :: 46 :: subj ++ 46 :: det ++ [32; c0]) ++ m')
        by (cbn; rewrite <- !app_assoc; cbn; rewrite <- app_assoc; reflexivity).
      rewrite norm_app_clean.
      - cbn. rewrite <- !app_assoc. cbn. rewrite <- app_assoc. reflexivity.
      - constructor; [apply is245_clean; assumption|]. constructor; [split; discriminate|].
        apply Forall_app. split; [apply dig13_clean; assumption|].
        constructor; [split; discriminate|]. apply Forall_app. split; [apply dig13_clean; assumption|].
        constructor; [split; discriminate|]. constructor; [assumption|constructor]. }
    rewrite EN. rewrite new_reply_unfold. cbn [peel_allowed]. rewrite Hk.
    rewrite me_bwd by assumption.
    rewrite drop_space_id by (cbn; exact Hh).
    unfold get_message, get_esc, code_class. cbn [r_code r_esc r_msg hd]. rewrite Hk.
    cbn [app]. rewrite <- app_assoc. reflexivity.
  Qed.

  (* what the receiving side shows for the text T shown by the sending side *)
  Lemma getmsg_roundtrip : forall k c2 v, ns_head v = true ->
    let T := get_message (new_reply (k :: c2) v) in
    get_message (new_reply (k :: c2) (norm T)) = norm T.
  Proof.
    intros k c2 v Hv T. destruct (is245 k) eqn:Hk.
    - destruct (getmsg_shape k c2 v Hk Hv) as [E|E]; fold T in E.
      + rewrite E. change (norm []) with (@nil N). rewrite new_reply_unfold. unfold get_message. cbn [r_msg]. destruct (get_esc _); reflexivity.
      + apply getmsg_stable; assumption.
    - apply getmsg_non245. exact Hk.
  Qed.

  Lemma getmsg_valid : forall k c2 v, valid_cp k = true -> valid_text v ->
    valid_text (get_message (new_reply (k :: c2) v)).
  Proof.
    intros k c2 v Hvk Hv. unfold valid_text in *. rewrite new_reply_unfold.
    destruct v as [|c v'].
    - unfold get_message, get_esc. cbn. destruct (is245 k); constructor.
    - destruct (if peel_allowed (k :: c2) then match_esc (c :: v') else None) as [[[[k' subj] det] rest]|] eqn:E.
      + destruct (peel_allowed (k :: c2)); [|discriminate].
        apply me_fwd in E. destruct E as [w [sp [Ev [Hk' [Hs [Hd [Hw Hr]]]]]]].
        rewrite Ev in Hv.
        inversion Hv as [|? ? _ Hv1]; subst. inversion Hv1 as [|? ? _ Hv2]; subst.
        apply Forall_app in Hv2. destruct Hv2 as [Vs Hv3]. inversion Hv3 as [|? ? _ Hv4]; subst.
        apply Forall_app in Hv4. destruct Hv4 as [Vd Hv5]. inversion Hv5 as [|? ? _ Vsp]; subst.
        assert (Vr : Forall (fun c => valid_cp c = true) (drop_space sp)).
        { clear -Vsp. induction sp as [|x sp IH]; [constructor|]. cbn. inversion Vsp; subst.
          destruct (uspace x); [apply IH; assumption|constructor; assumption]. }
        unfold get_message, get_esc, code_class. cbn [r_code r_esc r_msg hd].
        destruct (is245 k); [|exact Vr].
        destruct (drop_space sp) as [|r0 r'] eqn:Er; [constructor|].
        apply Forall_app. split.
        * constructor; [assumption|]. constructor; [reflexivity|]. apply Forall_app. split; [assumption|].
          constructor; [reflexivity|assumption].
        * constructor; [reflexivity|assumption].
      + unfold get_message, get_esc, code_class. cbn [r_code r_esc r_msg hd].
        destruct (is245 k); [|exact Hv].
        repeat (constructor; [first [assumption|reflexivity]|]). exact Hv.
  Qed.

  Definition code_2xx_5xx (code : list N) : Prop :=
    exists k d2 d3, code = [k; d2; d3] /\ 50 <= k <= 53 /\ is_digit d2 = true /\ is_digit d3 = true.

  Lemma recv_loop_suffix : forall chunks code msgs buf c body b' ch',
    recv_loop code msgs buf chunks = ROk c body b' ch' -> exists pre, chunks = pre ++ ch'.
  Proof.
    induction chunks as [|ch chunks IH]; intros code msgs buf c body b' ch' H.
    - rewrite recv_loop_nil in H. unfold batch_of in H.
      destruct (scan code msgs (fst (split_lf buf))); inversion H; subst. exists []. reflexivity.
    - rewrite recv_loop_cons in H. destruct (split_lf buf) as [ls tail].
      destruct (scan code msgs ls) as [c1 m1 rest|rest|c1 m1].
      + inversion H; subst. exists []. reflexivity.
      + discriminate.
      + destruct ch as [|b0 ch0]; [discriminate|]. apply IH in H. destruct H as [pre Hp].
        exists ((b0 :: ch0) :: pre). rewrite Hp. reflexivity.
  Qed.

  (* C17 main theorem *)
  Lemma reply_roundtrip : forall code v t buf chunks,
    code_2xx_5xx code -> valid_text v -> ns_head v = true -> nonempty_chunks chunks ->
    buf ++ concat chunks = wire_of (new_reply code v) ++ t ->
    exists r' buf' chunks',
      reply_recv udigit uspace buf chunks = GotReply r' buf' chunks' /\
      r_code r' = code /\
      get_message r' = norm (get_message (new_reply code v)) /\
      buf' ++ concat chunks' = t /\ nonempty_chunks chunks'.
  Proof.
    intros code v t buf chunks [k [d2 [d3 [Ec [Hk [H2 H3]]]]]] Hv Hns Hne Hs.
    assert (Hcode : is_code code).
    { exists k, d2, d3. subst. unfold is_digit. repeat split; try assumption; lia. }
    unfold wire_of in Hs. rewrite new_reply_code in Hs.
    destruct (send_recv_inc code _ t buf chunks Hcode Hne Hs) as [buf' [ch' [Hr Ht]]].
    unfold reply_recv. rewrite Hr. rewrite norm_enc.
    assert (Hvk : valid_cp k = true) by (unfold valid_cp, is_surrogate; lia).
    rewrite utf8_dec_enc.
    2:{ apply norm_valid. subst code. apply getmsg_valid; assumption. }
    assert (Hok : code_ok code = true) by (subst code; cbn; lia). rewrite Hok.
    eexists _, buf', ch'. split; [reflexivity|].
    split; [apply new_reply_code|]. split.
    - subst code. apply getmsg_roundtrip. assumption.
    - split; [assumption|]. unfold recv_reply in Hr. apply recv_loop_suffix in Hr. destruct Hr as [pre Hp].
      unfold nonempty_chunks in *. rewrite Hp in Hne. apply Forall_app in Hne. tauto.
  Qed.

  (* enhanced-status class = reply-code class *)
  Lemma esc_class : forall r e, get_esc r = Some e ->
    hd 0 e = code_class r /\ is245 (code_class r) = true.
  Proof.
    intros r e H. unfold get_esc in H. destruct (is245 (code_class r)) eqn:E; [|discriminate].
    destruct (r_esc r); inversion H; subst; split; reflexivity.
  Qed.

  (* ---------- the setter chain: message_esc_pattern and esc_pattern agree ---------- *)
  (* what message_esc_pattern captures as group(1) is accepted by esc_pattern, with the same pieces *)
  Lemma esc_pattern_group1 : forall k subj det, is245 k = true -> dig13 subj = true -> dig13 det = true ->
    Reply.match_esc_pattern udigit (k :: 46 :: subj ++ 46 :: det) = Some (k, subj, det).
  Proof.
    intros k subj det Hk Hs Hd. unfold Reply.match_esc_pattern. rewrite Hk. cbn [andb N.eqb Pos.eqb].
    rewrite td_bwd; [|assumption|cbn; rewrite Hd46; reflexivity].
    cbn [N.eqb Pos.eqb].
    rewrite <- (app_nil_r det) at 1. rewrite td_bwd; [|assumption|reflexivity].
    reflexivity.
  Qed.

  Lemma patterns_agree : forall v k subj det rest, match_esc v = Some (k, subj, det, rest) ->
    Reply.match_esc_pattern udigit (k :: 46 :: subj ++ 46 :: det) = Some (k, subj, det).
  Proof.
    intros v k subj det rest H. apply me_fwd in H.
    destruct H as [w [sp [_ [Hk [Hs [Hd _]]]]]]. apply esc_pattern_group1; assumption.
  Qed.

  (* the message setter never lets the ValueError of the ESC setter escape, and computes set_message *)
  Lemma set_message_chk_total : forall r v,
    Reply.set_message_chk udigit uspace r v = Some (set_message r v).
  Proof.
    intros r v. unfold Reply.set_message_chk, Reply.set_message, Reply.msg_esc_group1.
    destruct v as [|c v']; [reflexivity|].
    destruct (peel_allowed (r_code r)); [|reflexivity].
    destruct (match_esc (c :: v')) as [[[[k subj] det] rest]|] eqn:E; [|reflexivity].
    unfold Reply.esc_setter. rewrite (patterns_agree _ _ _ _ _ E). reflexivity.
  Qed.

  Lemma ctor_total : forall code v,
    Reply.reply_ctor udigit uspace code v =
    if Reply.ctor_code_ok udigit code then CtorOk (new_reply code v) else CtorBadCode.
  Proof.
    intros code v. unfold Reply.reply_ctor. destruct (Reply.ctor_code_ok udigit code); [|reflexivity].
    cbn [Reply.esc_setter r_code r_msg]. rewrite set_message_chk_total. reflexivity.
  Qed.

  Lemma recv_chk_total : forall buf chunks,
    Reply.reply_recv_chk udigit uspace buf chunks = Some (reply_recv udigit uspace buf chunks).
  Proof.
    intros buf chunks. unfold Reply.reply_recv_chk, reply_recv.
    destruct (recv_reply buf chunks) as [c body b' ch'|b' ch'|]; try reflexivity.
    destruct (utf8_dec body) as [t|]; [|reflexivity].
    destruct (code_ok c); [|reflexivity].
    rewrite set_message_chk_total. reflexivity.
  Qed.

  (* ---------- any sequence of setter operations ---------- *)
  Hypothesis Hd245 : forall k, is245 k = true -> udigit k = true.

  Definition esc_wf (e : esc) : Prop :=
    match e with
    | EscSome _ subj det => dig13 subj = true /\ dig13 det = true /\ valid_text subj /\ valid_text det
    | _ => True
    end.
  Definition reply_inv (r : reply) : Prop :=
    ns_head (r_msg r) = true /\ valid_text (r_msg r) /\ esc_wf (r_esc r).
  (* texts as in C17_roundtrip: valid Unicode, empty or not starting with white space *)
  Definition rop_ok (o : rop) : Prop :=
    match o with
    | ROMsg v => ns_head v = true /\ valid_text v
    | ROEsc v => valid_text v
    | ROCopy o => reply_inv o
    | _ => True
    end.

  Lemma drop_space_valid : forall sp, valid_text sp -> valid_text (drop_space sp).
  Proof.
    unfold valid_text. induction sp as [|x sp IH]; intros V; [constructor|]. cbn. inversion V; subst.
    destruct (uspace x); [apply IH; assumption|constructor; assumption].
  Qed.

  Lemma mep_fwd : forall v k subj det, Reply.match_esc_pattern udigit v = Some (k, subj, det) ->
    exists tl, v = k :: 46 :: subj ++ 46 :: det ++ tl /\ is245 k = true /\ dig13 subj = true /\ dig13 det = true.
  Proof.
    intros v k subj det H. unfold Reply.match_esc_pattern in H.
    destruct v as [|k0 [|dot s]]; try discriminate.
    destruct (is245 k0 && (dot =? 46)) eqn:E; [|discriminate].
    apply andb_true_iff in E. destruct E as [Ek Edot]. apply N.eqb_eq in Edot. subst dot.
    destruct (take_digits s) as [[subj0 s1]|] eqn:T1; [|discriminate].
    destruct s1 as [|dot2 s2]; [discriminate|].
    destruct (N.eqb_spec dot2 46) as [E2|E2]; [subst dot2|discriminate].
    destruct (take_digits s2) as [[det0 s3]|] eqn:T2; [|discriminate].
    destruct (at_dollar s3); [|discriminate].
    inversion H; subst.
    apply td_fwd in T1. destruct T1 as [A1 [B1 _]]. apply td_fwd in T2. destruct T2 as [A2 [B2 _]].
    exists s3. subst s s2. repeat split; assumption.
  Qed.

  Lemma set_message_inv : forall r v, reply_inv r -> ns_head v = true -> valid_text v ->
    reply_inv (set_message r v).
  Proof.
    intros r v [Hn [Hv He]] Hnv Hvv. unfold Reply.set_message.
    destruct v as [|c v'].
    { split; [reflexivity|]. split; [constructor|]. cbn [r_esc]. clear He. destruct (r_esc r); exact I. }
    destruct (if peel_allowed (r_code r) then match_esc (c :: v') else None) as [[[[k subj] det] rest]|] eqn:E.
    - destruct (peel_allowed (r_code r)); [|discriminate].
      apply me_fwd in E. destruct E as [w [sp [Ev [Hk [Hs [Hd [Hw Hr]]]]]]].
      unfold valid_text in Hvv. rewrite Ev in Hvv.
      inversion Hvv as [|? ? _ Hv1]; subst. inversion Hv1 as [|? ? _ Hv2]; subst.
      apply Forall_app in Hv2. destruct Hv2 as [Vs Hv3]. inversion Hv3 as [|? ? _ Hv4]; subst.
      apply Forall_app in Hv4. destruct Hv4 as [Vd Hv5]. inversion Hv5 as [|? ? _ Vsp]; subst.
      split; [cbn [r_msg]; apply drop_space_head|].
      split; [cbn [r_msg]; apply drop_space_valid; exact Vsp|].
      cbn [r_esc esc_wf]. repeat split; assumption.
    - split; [exact Hnv|]. split; [exact Hvv|]. cbn [r_esc]. clear He. destruct (r_esc r); exact I.
  Qed.

  Notation rop_step := (Reply.rop_step udigit uspace).

  Lemma rop_step_inv : forall r o, reply_inv r -> rop_ok o -> reply_inv (rop_step r o).
  Proof.
    intros r o Hi Ho. unfold Reply.rop_step, Reply.rop_apply.
    destruct o as [c|v|v| |o|].
    - unfold Reply.code_setter. destruct (Reply.ctor_code_ok udigit c); exact Hi.
    - rewrite set_message_chk_total. destruct Ho as [Hn Hv]. apply set_message_inv; assumption.
    - unfold Reply.esc_setter. destruct Hi as [Hn [Hv He]]. destruct v as [|c v'].
      + split; [exact Hn|]. split; [exact Hv|exact I].
      + destruct (Reply.match_esc_pattern udigit (c :: v')) as [[[k subj] det]|] eqn:E; [|repeat split; assumption].
        apply mep_fwd in E. destruct E as [tl [Ev [Hk [Hs Hd]]]].
        cbn in Ho. unfold valid_text in Ho. rewrite Ev in Ho.
        inversion Ho as [|? ? _ Hv1]; subst. inversion Hv1 as [|? ? _ Hv2]; subst.
        apply Forall_app in Hv2. destruct Hv2 as [Vs Hv3]. inversion Hv3 as [|? ? _ Hv4]; subst.
        apply Forall_app in Hv4. destruct Hv4 as [Vd _].
        split; [exact Hn|]. split; [exact Hv|]. cbn [r_esc esc_wf]. repeat split; assumption.
    - destruct Hi as [Hn [Hv He]]. split; [exact Hn|]. split; [exact Hv|exact I].
    - exact Ho.
    - exact Hi.
  Qed.

  Lemma rops_inv : forall ops r0, Forall rop_ok ops -> reply_inv r0 -> reply_inv (fold_left rop_step ops r0).
  Proof.
    induction ops as [|o ops IH]; intros r0 Hf Hi; [exact Hi|].
    inversion Hf; subst. cbn [fold_left]. apply IH; [assumption|]. apply rop_step_inv; assumption.
  Qed.

  Lemma fresh_inv : reply_inv fresh_reply.
  Proof. split; [reflexivity|]. split; [constructor|exact I]. Qed.

  (* the text an ESC-showing reply shows is a fixed point of the constructor *)
  Lemma getmsg_fix : forall k c2 T, is245 k = true -> esc_shape k T ->
    get_message (new_reply (k :: c2) T) = T.
  Proof.
    intros k c2 T Hk [subj [det [m [ET [Hs [Hd [Hm Hh]]]]]]].
    destruct m as [|c0 m']; [contradiction|].
    subst T. rewrite new_reply_unfold. cbn [peel_allowed]. rewrite Hk.
    rewrite me_bwd by assumption.
    rewrite drop_space_id by exact Hh.
    unfold get_message, get_esc, code_class. cbn [r_code r_esc r_msg hd]. rewrite Hk.
    cbn [app]. rewrite <- app_assoc. reflexivity.
  Qed.

  Lemma is245_valid : forall k, is245 k = true -> valid_cp k = true.
  Proof. intros k H. unfold is245 in H. unfold valid_cp, is_surrogate. lia. Qed.

  Lemma shown_fix : forall r, reply_inv r -> code_2xx_5xx (r_code r) -> r_esc r <> EscFalse ->
    get_message (new_reply (r_code r) (get_message r)) = get_message r /\
    ns_head (get_message r) = true /\ valid_text (get_message r).
  Proof.
    intros [code e m] [Hn [Hv He]] [k [d2 [d3 [Ec _]]]] Hf. cbn [r_code r_esc r_msg] in *. subst code.
    destruct (is245 k) eqn:Hk.
    - destruct m as [|c0 m'].
      + assert (ET : get_message (mkReply [k; d2; d3] e []) = []).
        { unfold get_message. cbn [r_msg]. destruct (get_esc _); reflexivity. }
        rewrite ET. split; [|split; [reflexivity|constructor]].
        rewrite new_reply_unfold. unfold get_message. cbn [r_msg]. destruct (get_esc _); reflexivity.
      + assert (Hsh : esc_shape k (get_message (mkReply [k; d2; d3] e (c0 :: m'))) /\
                      valid_text (get_message (mkReply [k; d2; d3] e (c0 :: m')))).
        { unfold get_message, get_esc, code_class. cbn [r_code r_esc r_msg hd]. rewrite Hk.
          pose proof (is245_valid k Hk) as Vk.
          destruct e as [| |k' subj det]; [|contradiction|].
          - split.
            + exists [48], [48], (c0 :: m'). cbn. rewrite Hd48. repeat split; try reflexivity; try discriminate. exact Hn.
            + unfold valid_text. repeat (constructor; [first [assumption|reflexivity]|]). exact Hv.
          - destruct He as [Hs [Hd [Vs Vd]]]. split.
            + exists subj, det, (c0 :: m'). split; [cbn [app]; rewrite <- app_assoc; reflexivity|].
              repeat split; try assumption. discriminate.
            + unfold valid_text in *. apply Forall_app. split.
              * constructor; [assumption|]. constructor; [reflexivity|]. apply Forall_app. split; [assumption|].
                constructor; [reflexivity|assumption].
              * constructor; [reflexivity|assumption]. }
        destruct Hsh as [Hsh Vt]. split; [apply getmsg_fix; assumption|]. split; [|exact Vt].
        destruct Hsh as [subj [det [m0 [ET _]]]]. rewrite ET. cbn [ns_head].
        rewrite (Hdisj k (Hd245 k Hk)). reflexivity.
    - assert (ET : get_message (mkReply [k; d2; d3] e m) = m).
      { unfold get_message, get_esc, code_class. cbn [r_code r_esc r_msg hd]. rewrite Hk. reflexivity. }
      rewrite ET. split; [apply getmsg_non245; exact Hk|]. split; assumption.
  Qed.

  (* the objects written at the sends: each is the state reached by the operations before it *)
  Lemma sent_app : forall pre post r0,
    Reply.rops_sent udigit uspace r0 (pre ++ post) =
    Reply.rops_sent udigit uspace r0 pre ++ Reply.rops_sent udigit uspace (fold_left rop_step pre r0) post.
  Proof.
    induction pre as [|o pre IH]; intros post r0; [reflexivity|].
    cbn [app Reply.rops_sent fold_left]. rewrite IH. rewrite app_assoc. reflexivity.
  Qed.

  Lemma sent_at : forall pre post r0,
    Reply.rops_sent udigit uspace r0 (pre ++ ROSend :: post) =
    Reply.rops_sent udigit uspace r0 pre ++ fold_left rop_step pre r0 ::
    Reply.rops_sent udigit uspace (fold_left rop_step pre r0) post.
  Proof. intros pre post r0. rewrite sent_app. reflexivity. Qed.

  Lemma sent_inv : forall ops r0, Forall rop_ok ops -> reply_inv r0 ->
    Forall reply_inv (Reply.rops_sent udigit uspace r0 ops).
  Proof.
    induction ops as [|o ops IH]; intros r0 Hf Hi; [constructor|].
    inversion Hf; subst. cbn [Reply.rops_sent]. apply Forall_app. split.
    - destruct o; try constructor; [exact Hi|constructor].
    - apply IH; [assumption|]. apply rop_step_inv; assumption.
  Qed.

  (* after ANY sequence of setter operations: the shown ESC has the class of the current
     code, and the wire round trip of the object as it stands is exact *)
  Lemma ops_esc_class : forall ops e, get_esc (Reply.rops_run udigit uspace ops) = Some e ->
    hd 0 e = code_class (Reply.rops_run udigit uspace ops) /\
    is245 (code_class (Reply.rops_run udigit uspace ops)) = true.
  Proof. intros ops e. apply esc_class. Qed.

  Lemma ops_roundtrip : forall ops t buf chunks,
    Forall rop_ok ops ->
    code_2xx_5xx (r_code (Reply.rops_run udigit uspace ops)) ->
    r_esc (Reply.rops_run udigit uspace ops) <> EscFalse ->
    nonempty_chunks chunks ->
    buf ++ concat chunks = wire_of (Reply.rops_run udigit uspace ops) ++ t ->
    exists r' buf' chunks',
      reply_recv udigit uspace buf chunks = GotReply r' buf' chunks' /\
      r_code r' = r_code (Reply.rops_run udigit uspace ops) /\
      get_message r' = norm (get_message (Reply.rops_run udigit uspace ops)) /\
      buf' ++ concat chunks' = t /\ nonempty_chunks chunks'.
  Proof.
    intros ops t buf chunks Hok Hc Hf Hne Hs.
    set (r := Reply.rops_run udigit uspace ops) in *.
    assert (Hi : reply_inv r) by (apply rops_inv; [exact Hok|exact fresh_inv]).
    destruct (shown_fix r Hi Hc Hf) as [Hfix [Hns Hvt]].
    assert (Hw : wire_of r = wire_of (new_reply (r_code r) (get_message r))).
    { unfold wire_of. rewrite new_reply_code, Hfix. reflexivity. }
    rewrite Hw in Hs.
    destruct (reply_roundtrip (r_code r) (get_message r) t buf chunks Hc Hvt Hns Hne Hs)
      as [r' [b' [ch' [Hr [Hc' [Hm [Ht Hn']]]]]]].
    exists r', b', ch'. rewrite Hfix in Hm. repeat split; assumption.
  Qed.
End ReplyObject.

(* Examples for the setter chain (ASCII classes): the hypothesis of patterns_agree is
   satisfiable; a component of four digits is matched by NEITHER pattern, so such a
   text is plain text for the constructor (were message_esc_pattern to accept it,
   esc_pattern would refuse it and the constructor would raise). *)
Definition adigit (c : N) : bool := (48 <=? c) && (c <=? 57).
Definition aspace (c : N) : bool := (c =? 32) || ((9 <=? c) && (c <=? 13)).
Example patterns_agree_hyp :   (* "5.7.1 x" *)
  match_esc adigit aspace [53; 46; 55; 46; 49; 32; 120] = Some (53, [55], [49], [120]).
Proof. vm_compute. reflexivity. Qed.
Example four_digits_not_esc :  (* "2.1000.5 x" / "2.1000.5" *)
  match_esc adigit aspace [50; 46; 49; 48; 48; 48; 46; 53; 32; 120] = None /\
  match_esc_pattern adigit [50; 46; 49; 48; 48; 48; 46; 53] = None.
Proof. vm_compute. split; reflexivity. Qed.
Example four_digits_ctor :     (* Reply('250', '2.1000.5 x') keeps the text, shows '2.0.0 2.1000.5 x' *)
  reply_ctor adigit aspace [50; 53; 48] [50; 46; 49; 48; 48; 48; 46; 53; 32; 120]
  = CtorOk (mkReply [50; 53; 48] EscNone [50; 46; 49; 48; 48; 48; 46; 53; 32; 120]).
Proof. vm_compute. reflexivity. Qed.
Example ctor_bad_code : reply_ctor adigit aspace [54; 53; 48] [120] = CtorBadCode.
Proof. vm_compute. reflexivity. Qed.

(* ------------------------------------------------------------------ malformed input *)
Fixpoint wf_reply_lines (c : bytes) (raws txts : list bytes) : Prop :=
  match raws, txts with
  | r :: raws', t :: txts' =>
      match raws' with
      | [] => txts' = [] /\ exists sep, parse_reply_line r = Some (c, sep, t) /\ sep <> 45
      | _ => parse_reply_line r = Some (c, 45, t) /\ wf_reply_lines c raws' txts'
      end
  | _, _ => False
  end.

Lemma wf_reply_lines_ne : forall c raws txts, wf_reply_lines c raws txts -> raws <> [].
Proof. intros c [|r raws] txts H; [destruct H|discriminate]. Qed.

Lemma scan_done_inv : forall ls code0 msgs c m rest,
  scan code0 msgs ls = SDone c m rest ->
  exists pre txts, ls = pre ++ rest /\ m = msgs ++ txts /\ wf_reply_lines c pre txts /\
                   (forall c0, code0 = Some c0 -> c0 = c).
Proof.
  induction ls as [|raw ls IH]; intros code0 msgs c m rest H; [discriminate|].
  cbn [scan] in H. destruct (parse_reply_line raw) as [[[c1 sep] txt]|] eqn:P; [|discriminate].
  destruct (code_conflict code0 c1) eqn:Cf; [discriminate|].
  assert (Hc0 : forall c0, code0 = Some c0 -> c0 = c1).
  { intros c0 E. subst code0. cbn in Cf. apply negb_false_iff in Cf. apply beqb_eq in Cf. exact Cf. }
  destruct (N.eqb_spec sep 45) as [E45|N45].
  - subst sep. apply IH in H. destruct H as [pre [txts [E1 [E2 [W Hc]]]]].
    assert (c1 = c) by (apply Hc; reflexivity). subst c1.
    exists (raw :: pre), (txt :: txts). split; [rewrite E1; reflexivity|]. split; [rewrite E2, <- app_assoc; reflexivity|].
    split; [|exact Hc0].
    cbn [wf_reply_lines]. destruct pre as [|p pre']; [destruct txts; destruct W|]. split; assumption.
  - inversion H; subst. exists [raw], [txt]. split; [reflexivity|]. split; [reflexivity|].
    split; [|exact Hc0]. cbn. split; [reflexivity|]. exists sep. split; assumption.
Qed.

(* a successfully returned reply consumed exactly a run of complete, well-formed
   reply lines sharing one code, the last one (only) without the '-' mark *)
Lemma ok_is_wellformed : forall buf chunks c body b' ch',
  recv_reply buf chunks = ROk c body b' ch' ->
  exists pre txts, buf ++ concat chunks = unraw pre ++ b' ++ concat ch' /\
                   wf_reply_lines c pre txts /\ body = join CRLF txts.
Proof.
  intros buf chunks c body b' ch' H. unfold recv_reply in H.
  pose proof (inc_batch chunks None [] buf) as I. rewrite H in I.
  rewrite recv_loop_nil in I. unfold batch_of in I.
  destruct (split_lf (buf ++ concat chunks)) as [ls tail] eqn:Es. cbn [fst snd] in I.
  destruct (scan None [] ls) as [c1 m rest|rest|c1 m] eqn:Sc; try discriminate.
  inversion I; subst. apply scan_done_inv in Sc. destruct Sc as [pre [txts [E1 [E2 [W _]]]]].
  exists pre, txts. split; [|split; [assumption|rewrite E2; reflexivity]].
  destruct (split_lf_sound _ _ _ Es) as [S1 _]. rewrite <- S1. rewrite E1. rewrite unraw_app.
  rewrite <- !app_assoc. reflexivity.
Qed.

(* first complete line is not a reply line  =>  bad reply, the line is consumed *)
Lemma bad_line : forall raw s, nolf raw -> parse_reply_line raw = None ->
  recv_loop None [] (raw ++ 10 :: s) [] = RBad s [].
Proof.
  intros raw s Hn Hp. rewrite recv_loop_nil. rewrite split_lf_line by assumption. cbn [fst snd].
  unfold batch_of. cbn [scan]. rewrite Hp.
  destruct (split_lf s) as [ls t] eqn:E. cbn [fst snd]. destruct (split_lf_sound s ls t E) as [S1 _].
  rewrite S1. reflexivity.
Qed.

(* a continuation line with another code => bad reply *)
Lemma code_mismatch : forall c1 c2 l1 l2 sep2 s, is_code c1 -> is_code c2 -> c1 <> c2 ->
  nolf l1 -> nolf l2 -> is_sep sep2 = true ->
  exists rest, recv_loop None [] ((c1 ++ 45 :: l1 ++ [13]) ++ 10 :: (c2 ++ sep2 :: l2 ++ [13]) ++ 10 :: s) [] = RBad rest [].
Proof.
  intros c1 c2 l1 l2 sep2 s H1 H2 Hd Hl1 Hl2 Hs.
  assert (N1 : nolf (c1 ++ 45 :: l1 ++ [13])).
  { apply nolf_app. split; [apply is_code_nolf; assumption|]. constructor; [discriminate|].
    apply nolf_app. split; [assumption|constructor; [discriminate|constructor]]. }
  assert (N2 : nolf (c2 ++ sep2 :: l2 ++ [13])).
  { apply nolf_app. split; [apply is_code_nolf; assumption|].
    constructor; [unfold is_sep in Hs; lia|].
    apply nolf_app. split; [assumption|constructor; [discriminate|constructor]]. }
  rewrite recv_loop_nil. rewrite split_lf_line by assumption. rewrite split_lf_line by assumption.
  cbn [fst snd]. unfold batch_of. cbn [scan].
  rewrite parse_raw by (auto). cbn [code_conflict N.eqb Pos.eqb].
  rewrite parse_raw by assumption. cbn [code_conflict].
  destruct (beqb c1 c2) eqn:B; [apply beqb_eq in B; contradiction|]. cbn [negb].
  eexists. reflexivity.
Qed.

(* n replies one after the other *)
(* ------------------------------------------------------------------ after a bad reply *)
(* what is refused is a non-empty run of complete lines; the rest of the stream stays *)
Lemma scan_bad_inv : forall ls code0 msgs rest,
  scan code0 msgs ls = SBad rest -> exists pre, ls = pre ++ rest /\ (code0 = None -> pre <> []).
Proof.
  induction ls as [|raw ls IH]; intros code0 msgs rest H; [discriminate|].
  cbn [scan] in H. destruct (parse_reply_line raw) as [[[c1 sep] txt]|] eqn:P.
  - destruct (code_conflict code0 c1) eqn:Cf.
    + inversion H; subst. exists []. split; [reflexivity|]. intros E. subst code0. discriminate.
    + destruct (sep =? 45); [|discriminate]. apply IH in H. destruct H as [pre [E _]].
      exists (raw :: pre). split; [rewrite E; reflexivity|]. intros _. discriminate.
  - inversion H; subst. exists [raw]. split; [reflexivity|]. intros _. discriminate.
Qed.

Lemma unraw_nonempty : forall pre, pre <> [] -> unraw pre <> [].
Proof.
  intros [|l pre] H; [contradiction|]. unfold unraw. cbn [map concat]. intro E.
  apply app_eq_nil in E. destruct E as [E _]. apply app_eq_nil in E. destruct E as [_ E]. discriminate.
Qed.

Lemma recv_loop_suffix_bad : forall chunks code msgs buf b' ch',
  recv_loop code msgs buf chunks = RBad b' ch' -> exists pre, chunks = pre ++ ch'.
Proof.
  induction chunks as [|ch chunks IH]; intros code msgs buf b' ch' H.
  - rewrite recv_loop_nil in H. unfold batch_of in H.
    destruct (scan code msgs (fst (split_lf buf))); inversion H; subst. exists []. reflexivity.
  - rewrite recv_loop_cons in H. destruct (split_lf buf) as [ls tail].
    destruct (scan code msgs ls) as [c1 m1 rest|rest|c1 m1].
    + discriminate.
    + inversion H; subst. exists []. reflexivity.
    + destruct ch as [|b0 ch0]; [discriminate|]. apply IH in H. destruct H as [pre Hp].
      exists ((b0 :: ch0) :: pre). rewrite Hp. reflexivity.
Qed.

Lemma recv_loop_suffix_ok : forall chunks code msgs buf c body b' ch',
  recv_loop code msgs buf chunks = ROk c body b' ch' -> exists pre, chunks = pre ++ ch'.
Proof.
  induction chunks as [|ch chunks IH]; intros code msgs buf c body b' ch' H.
  - rewrite recv_loop_nil in H. unfold batch_of in H.
    destruct (scan code msgs (fst (split_lf buf))); inversion H; subst. exists []. reflexivity.
  - rewrite recv_loop_cons in H. destruct (split_lf buf) as [ls tail].
    destruct (scan code msgs ls) as [c1 m1 rest|rest|c1 m1].
    + inversion H; subst. exists []. reflexivity.
    + discriminate.
    + destruct ch as [|b0 ch0]; [discriminate|]. apply IH in H. destruct H as [pre Hp].
      exists ((b0 :: ch0) :: pre). rewrite Hp. reflexivity.
Qed.

Lemma bad_consumes : forall buf chunks b' ch',
  recv_reply buf chunks = RBad b' ch' ->
  exists pre, pre <> [] /\ buf ++ concat chunks = pre ++ b' ++ concat ch'.
Proof.
  intros buf chunks b' ch' H. unfold recv_reply in H.
  pose proof (inc_batch chunks None [] buf) as I. rewrite H in I.
  rewrite recv_loop_nil in I. unfold batch_of in I.
  destruct (split_lf (buf ++ concat chunks)) as [ls tail] eqn:Es. cbn [fst snd] in I.
  destruct (scan None [] ls) as [c1 m rest|rest|c1 m] eqn:Sc; try discriminate.
  injection I as I1. apply scan_bad_inv in Sc. destruct Sc as [pre [E1 Hne]].
  exists (unraw pre). split; [apply unraw_nonempty; apply Hne; reflexivity|].
  destruct (split_lf_sound _ _ _ Es) as [S1 _]. rewrite <- S1. rewrite E1. rewrite unraw_app.
  rewrite <- app_assoc. f_equal. exact I1.
Qed.

(* ------------------------------------------------------------------ the code on the wire is ASCII *)
Lemma parse_code : forall raw c sep t, parse_reply_line raw = Some (c, sep, t) -> is_code c.
Proof.
  intros raw c sep t H. unfold parse_reply_line in H.
  destruct (strip_cr raw) as [|d1 [|d2 [|d3 [|s txt]]]]; try discriminate.
  destruct (((49 <=? d1) && (d1 <=? 53)) && is_digit d2 && is_digit d3 && is_sep s) eqn:E; [|discriminate].
  inversion H; subst. apply andb_true_iff in E. destruct E as [E _].
  apply andb_true_iff in E. destruct E as [E E3]. apply andb_true_iff in E. destruct E as [E1 E2].
  exists d1, d2, d3. repeat split; assumption.
Qed.

Lemma wf_code : forall c pre txts, wf_reply_lines c pre txts -> is_code c.
Proof.
  intros c [|r pre] [|t txts] W; cbn in W; try contradiction.
  destruct pre.
  - destruct W as [_ [sep [P _]]]. exact (parse_code _ _ _ _ P).
  - destruct W as [P _]. exact (parse_code _ _ _ _ P).
Qed.

(* a byte outside ASCII in one of the three code positions: not a reply line *)
Lemma non_ascii_code_line : forall raw d1 d2 d3 rest, strip_cr raw = d1 :: d2 :: d3 :: rest ->
  ((128 <=? d1) || (128 <=? d2) || (128 <=? d3)) = true -> parse_reply_line raw = None.
Proof.
  intros raw d1 d2 d3 rest E H. unfold parse_reply_line. rewrite E.
  destruct rest as [|s txt]; [reflexivity|].
  destruct (((49 <=? d1) && (d1 <=? 53)) && is_digit d2 && is_digit d3 && is_sep s) eqn:B; [|reflexivity].
  exfalso. unfold is_digit in B. lia.
Qed.

Section Sequence.
  Variable udigit uspace : N -> bool.
  Hypothesis Hd46 : udigit 46 = false.
  Hypothesis Hd48 : udigit 48 = true.
  Hypothesis Hs32 : uspace 32 = true.
  Hypothesis Hs10 : uspace 10 = true.
  Hypothesis Hs13 : uspace 13 = true.
  Hypothesis Hdisj : forall c, udigit c = true -> uspace c = false.

  (* receive n replies in a row; None if any of them is not returned as a reply *)
  Fixpoint recv_n (n : nat) (buf : bytes) (chunks : list bytes) : option (list (list N * list N) * bytes * list bytes) :=
    match n with
    | O => Some ([], buf, chunks)
    | S n' =>
        match reply_recv udigit uspace buf chunks with
        | GotReply r b' ch' =>
            match recv_n n' b' ch' with
            | Some (rs, b'', ch'') => Some ((r_code r, get_message r) :: rs, b'', ch'')
            | None => None
            end
        | _ => None
        end
    end.

  Definition good_reply (cv : list N * list N) : Prop :=
    code_2xx_5xx (fst cv) /\ valid_text (snd cv) /\ ns_head uspace (snd cv) = true.
  Definition wire1 (cv : list N * list N) : bytes := wire_of (new_reply udigit uspace (fst cv) (snd cv)).
  Definition shown (cv : list N * list N) : list N * list N :=
    (fst cv, norm (get_message (new_reply udigit uspace (fst cv) (snd cv)))).

  Lemma sequence_roundtrip : forall rs t buf chunks,
    Forall good_reply rs -> nonempty_chunks chunks ->
    buf ++ concat chunks = concat (map wire1 rs) ++ t ->
    exists b' ch', recv_n (length rs) buf chunks = Some (map shown rs, b', ch') /\ b' ++ concat ch' = t.
  Proof.
    induction rs as [|cv rs IH]; intros t buf chunks Hg Hne Hs.
    - exists buf, chunks. split; [reflexivity|exact Hs].
    - inversion Hg as [|? ? Hg1 Hg']; subst. destruct Hg1 as [G1 [G2 G3]].
      cbn [map concat] in Hs. rewrite <- app_assoc in Hs.
      destruct (reply_roundtrip udigit uspace Hd46 Hd48 Hs32 Hs10 Hs13 Hdisj (fst cv) (snd cv) _ buf chunks G1 G2 G3 Hne Hs)
        as [r' [b1 [ch1 [R1 [R2 [R3 [R4 R5]]]]]]].
      destruct (IH t b1 ch1 Hg' R5 R4) as [b2 [ch2 [Q1 Q2]]].
      exists b2, ch2. split; [|exact Q2].
      cbn [length recv_n]. rewrite R1. rewrite Q1. cbn [map]. unfold shown at 1. rewrite R2, R3. reflexivity.
  Qed.
End Sequence.

(* ------------------------------------------------------------------ sends and copies interleaved *)
Section ReplySends.
  Variable udigit uspace : N -> bool.
  Hypothesis Hd46 : udigit 46 = false.
  Hypothesis Hd48 : udigit 48 = true.
  Hypothesis Hs32 : uspace 32 = true.
  Hypothesis Hs10 : uspace 10 = true.
  Hypothesis Hs13 : uspace 13 = true.
  Hypothesis Hdisj : forall c, udigit c = true -> uspace c = false.
  Hypothesis Hd245 : forall k, is245 k = true -> udigit k = true.

  (* an object that can be written and whose text the receiving side can show unchanged *)
  Definition sendable (r : reply) : Prop := code_2xx_5xx (r_code r) /\ r_esc r <> EscFalse.
  (* what the receiving side is to show for a written object *)
  Definition shown_of (r : reply) : list N * list N := (r_code r, norm (get_message r)).

  Lemma written_roundtrip : forall rs t buf chunks,
    Forall (reply_inv udigit uspace) rs -> Forall sendable rs -> nonempty_chunks chunks ->
    buf ++ concat chunks = concat (map wire_of rs) ++ t ->
    exists b' ch', recv_n udigit uspace (length rs) buf chunks = Some (map shown_of rs, b', ch') /\
                   b' ++ concat ch' = t.
  Proof.
    intros rs t buf chunks Hi Hsd Hne Hs.
    set (cvs := map (fun r => (r_code r, get_message r)) rs).
    assert (Hall : forall r, In r rs ->
              get_message (new_reply udigit uspace (r_code r) (get_message r)) = get_message r /\
              ns_head uspace (get_message r) = true /\ valid_text (get_message r)).
    { intros r Hin. rewrite Forall_forall in Hi, Hsd. destruct (Hsd r Hin) as [Hc Hf].
      exact (shown_fix udigit uspace Hd46 Hd48 Hs32 Hdisj Hd245 r (Hi r Hin) Hc Hf). }
    assert (Hg : Forall (good_reply uspace) cvs).
    { subst cvs. rewrite Forall_forall. intros cv Hin. apply in_map_iff in Hin. destruct Hin as [r [E Hin]]. subst cv.
      rewrite Forall_forall in Hsd. destruct (Hsd r Hin) as [Hc _]. destruct (Hall r Hin) as [_ [Hn Hv]].
      split; [exact Hc|]. split; assumption. }
    assert (Hw : map (wire1 udigit uspace) cvs = map wire_of rs).
    { subst cvs. rewrite map_map. apply map_ext_in. intros r Hin. destruct (Hall r Hin) as [Hfix _].
      unfold wire1, wire_of. cbn [fst snd]. rewrite new_reply_code, Hfix. reflexivity. }
    assert (Hsh : map (shown udigit uspace) cvs = map shown_of rs).
    { subst cvs. rewrite map_map. apply map_ext_in. intros r Hin. destruct (Hall r Hin) as [Hfix _].
      unfold shown, shown_of. cbn [fst snd]. rewrite Hfix. reflexivity. }
    rewrite <- Hw in Hs.
    destruct (sequence_roundtrip udigit uspace Hd46 Hd48 Hs32 Hs10 Hs13 Hdisj cvs t buf chunks Hg Hne Hs) as [b' [ch' [R1 R2]]].
    exists b', ch'. split; [|exact R2]. rewrite <- Hsh. subst cvs. rewrite map_length in R1. exact R1.
  Qed.

  (* operations, sends and copies interleaved in any way: everything written is read back,
     in order, as the code and text the object had at the moment of each send *)
  Lemma sends_roundtrip : forall ops t buf chunks,
    Forall (rop_ok udigit uspace) ops ->
    Forall sendable (rops_sent udigit uspace fresh_reply ops) -> nonempty_chunks chunks ->
    buf ++ concat chunks = rops_wire udigit uspace ops ++ t ->
    exists b' ch',
      recv_n udigit uspace (length (rops_sent udigit uspace fresh_reply ops)) buf chunks
      = Some (map shown_of (rops_sent udigit uspace fresh_reply ops), b', ch') /\ b' ++ concat ch' = t.
  Proof.
    intros ops t buf chunks Hok Hsd Hne Hs. apply written_roundtrip; try assumption.
    apply sent_inv; [exact Hd46|exact Hok|apply fresh_inv].
  Qed.
  (* recv_reply keeps no state but recv_buffer: after a bad reply the refused lines are gone
     (at least one), what follows is still there, and whatever well-formed replies follow are
     returned exactly as by a fresh IO holding that buffer *)
  Lemma bad_then_replies : forall buf chunks b' ch',
    nonempty_chunks chunks ->
    reply_recv udigit uspace buf chunks = BadReply b' ch' ->
    (exists pre, pre <> [] /\ buf ++ concat chunks = pre ++ b' ++ concat ch') /\
    nonempty_chunks ch' /\
    forall rs t, Forall (good_reply uspace) rs -> b' ++ concat ch' = concat (map (wire1 udigit uspace) rs) ++ t ->
      exists b'' ch'', recv_n udigit uspace (length rs) b' ch' = Some (map (shown udigit uspace) rs, b'', ch'') /\
                       b'' ++ concat ch'' = t.
  Proof.
    intros buf chunks b' ch' Hne H. unfold reply_recv in H.
    assert (G : (exists pre, pre <> [] /\ buf ++ concat chunks = pre ++ b' ++ concat ch') /\ exists p, chunks = p ++ ch').
    { destruct (recv_reply buf chunks) as [c body b1 ch1|b1 ch1|] eqn:R.
      - destruct (utf8_dec body) as [t0|].
        + destruct (code_ok c); discriminate.
        + inversion H; subst. split.
          * destruct (ok_is_wellformed _ _ _ _ _ _ R) as [pre [txts [E [W _]]]].
            exists (unraw pre). split; [apply unraw_nonempty; apply (wf_reply_lines_ne _ _ _ W)|exact E].
          * unfold recv_reply in R. apply recv_loop_suffix_ok in R. exact R.
      - inversion H; subst. split; [apply bad_consumes; exact R|].
        unfold recv_reply in R. apply recv_loop_suffix_bad in R. exact R.
      - discriminate. }
    destruct G as [G1 [p Hp]]. split; [exact G1|].
    assert (Hne' : nonempty_chunks ch').
    { unfold nonempty_chunks in *. rewrite Hp in Hne. apply Forall_app in Hne. tauto. }
    split; [exact Hne'|]. intros rs t Hg Hs.
    exact (sequence_roundtrip udigit uspace Hd46 Hd48 Hs32 Hs10 Hs13 Hdisj rs t b' ch' Hg Hne' Hs).
  Qed.

  (* a failed write (UnicodeEncodeError) leaves nothing in the send buffer: the buffer of the
     IO is exactly the writes that succeeded *)
  Lemma rops_out_eq : forall ops r0,
    rops_out udigit uspace r0 ops =
    concat (map wire_of (filter can_encode (rops_sent udigit uspace r0 ops))).
  Proof.
    induction ops as [|o ops IH]; intros r0; [reflexivity|].
    cbn [rops_out rops_sent]. rewrite IH. rewrite filter_app, map_app, concat_app. f_equal.
    destruct o; try reflexivity. unfold send_chk. cbn [filter].
    destruct (can_encode r0); cbn [map concat]; [rewrite app_nil_r|]; reflexivity.
  Qed.

  Lemma out_roundtrip : forall ops t buf chunks,
    let W := filter can_encode (rops_sent udigit uspace fresh_reply ops) in
    Forall (reply_inv udigit uspace) W -> Forall sendable W -> nonempty_chunks chunks ->
    buf ++ concat chunks = rops_out udigit uspace fresh_reply ops ++ t ->
    exists b' ch', recv_n udigit uspace (length W) buf chunks = Some (map shown_of W, b', ch') /\ b' ++ concat ch' = t.
  Proof.
    intros ops t buf chunks W Hi Hsd Hne Hs. rewrite rops_out_eq in Hs.
    apply written_roundtrip; assumption.
  Qed.
  (* what Reply.recv returns has a code of three ASCII digits, the first 1..5 *)
  Lemma recv_code_ascii : forall buf chunks r b' ch',
    reply_recv udigit uspace buf chunks = GotReply r b' ch' -> is_code (r_code r).
  Proof.
    intros buf chunks r b' ch' H. unfold reply_recv in H.
    destruct (recv_reply buf chunks) as [c body b1 ch1|b1 ch1|] eqn:R; try discriminate.
    destruct (utf8_dec body) as [t0|]; [|discriminate].
    destruct (code_ok c); [|discriminate]. inversion H; subst.
    rewrite (new_reply_code udigit uspace).
    destruct (ok_is_wellformed _ _ _ _ _ _ R) as [pre [txts [_ [W _]]]]. exact (wf_code _ _ _ W).
  Qed.
End ReplySends.

(* Examples for the setter operations (ASCII classes): the handler pattern
   Reply('250', '2.1.5 Ok') then reply.code = '550' shows 5.1.5; message first, code
   afterwards; a refused code / ESC leaves the object as it was.  The hypotheses of
   ops_roundtrip are satisfiable by such a sequence. *)
Example ops_code_changed_after :   (* code 250; message "2.1.5 Ok"; code 550 *)
  let r := rops_run adigit aspace [ROCode [50;53;48]; ROMsg [50;46;49;46;53;32;79;107]; ROCode [53;53;48]] in
  get_esc r = Some [53;46;49;46;53] /\ get_message r = [53;46;49;46;53;32;79;107] /\
  r_esc r <> EscFalse /\ code_2xx_5xx (r_code r).
Proof.
  vm_compute. split; [reflexivity|]. split; [reflexivity|]. split; [discriminate|].
  exists 53, 53, 48. vm_compute. repeat split; discriminate.
Qed.
Example ops_message_first :        (* message "5.7.1 Denied" on a fresh object; code 450 -> 4.7.1; code 354 -> no ESC *)
  get_esc (rops_run adigit aspace [ROMsg [53;46;55;46;49;32;68]; ROCode [52;53;48]]) = Some [52;46;55;46;49] /\
  get_esc (rops_run adigit aspace [ROMsg [53;46;55;46;49;32;68]; ROCode [51;53;52]]) = None.
Proof. vm_compute. split; reflexivity. Qed.
Example ops_refused_setters :      (* code "650" and ESC "2.1000.1" are refused: nothing changes *)
  rops_run adigit aspace [ROCode [50;53;48]; ROEsc [50;46;51;46;52]; ROCode [54;53;48]; ROEsc [50;46;49;48;48;48;46;49]]
  = mkReply [50;53;48] (EscSome 50 [51] [52]) [].
Proof. vm_compute. reflexivity. Qed.
Example ops_send_copy_send :      (* Reply('250', 'Ok'); send; copy(Reply('503', '5.5.1 Bad')); send: the second write is the 503 *)
  map shown_of (rops_sent adigit aspace fresh_reply
     [ROCode [50;53;48]; ROMsg [79;107]; ROSend;
      ROCopy (rops_run adigit aspace [ROCode [53;48;51]; ROMsg [53;46;53;46;49;32;66;97;100]]); ROSend])
  = [([50;53;48], [50;46;48;46;48;32;79;107]); ([53;48;51], [53;46;53;46;49;32;66;97;100])].
Proof. vm_compute. reflexivity. Qed.
Example ops_failed_send_writes_nothing :   (* Reply('550', "a\n<lone surrogate>"); send fails; copy(Reply('421', '4.3.0 E')); send *)
  rops_out adigit aspace fresh_reply
     [ROCode [53;53;48]; ROMsg [97;10;55296]; ROSend;
      ROCopy (rops_run adigit aspace [ROCode [52;50;49]; ROMsg [52;46;51;46;48;32;69]]); ROSend]
  = [52;50;49;32;52;46;51;46;48;32;69;13;10].
Proof. vm_compute. reflexivity. Qed.
Example bad_reply_hyp :    (* "ok\n250 x\r\n": the first line is refused and consumed, the reply behind it stays *)
  reply_recv adigit aspace [111;107;10;50;53;48;32;120;13;10] [] = BadReply [50;53;48;32;120;13;10] [].
Proof. vm_compute. reflexivity. Qed.
Example non_ascii_code_refused :   (* "2" + fullwidth 5 (EF BC 95) + fullwidth 0 (EF BC 90) + " ok\r\n" then "250 x\r\n": BadReply, the line consumed *)
  reply_recv adigit aspace [50;239;188;149;239;188;144;32;111;107;13;10;50;53;48;32;120;13;10] [] = BadReply [50;53;48;32;120;13;10] [].
Proof. vm_compute. reflexivity. Qed.
