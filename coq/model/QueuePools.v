(* QueuePools - the slot discipline of slimta.queue.Queue's bounded gevent pools.

   Queue._pool_spawn(which, f, ...) is pool.spawn(f, ...): with a bounded pool it BLOCKS THE CALLER
   until a slot of that pool is free, then starts the greenlet, which keeps the slot until it ends.
   The callers are themselves pooled greenlets:

     _dequeue(id)   runs in a STORE slot:  store.get(id); _pool_spawn('relay', _attempt, ...)
     _attempt(id)   runs in a RELAY slot:  relay.attempt(...); then _pool_spawn('store', ...) for
                    _retry_later (transient failure / unexpected exception) or store.remove (success,
                    permanent failure)
     _retry_later / store.remove run in a STORE slot and end by themselves
     _wait_store    (storages with wait()) occupies one STORE slot for the life of the queue

   So a _dequeue greenlet holds a store slot while it waits for a relay slot, and an _attempt
   greenlet holds a relay slot while it waits for a store slot.  This file models exactly that:
   who holds which slot and who waits for which; message contents, time and results are the
   business of model/Queue.v (whose pools are unbounded).  [None] as a free-slot count = unbounded. *)
From Coq Require Import List Arith Bool.
Import ListNotations.

Inductive ptask :=
| PWaitStore                 (* _wait_store: holds a store slot for good *)
| PDeqWantS (i : nat)        (* _dispatch -> _pool_spawn('store', _dequeue, i): not started, waits for a store slot *)
| PDeqGet (i : nat)          (* _dequeue i, holds a store slot, inside store.get *)
| PDeqWantR (i : nat)        (* _dequeue i, holds a store slot, blocked in _pool_spawn('relay', _attempt, ...) *)
| PAttRun (i : nat)          (* _attempt i, holds a relay slot, relay attempt in progress *)
| PAttWantS (i : nat)        (* _attempt i, holds a relay slot, blocked in _pool_spawn('store', ...) *)
| PSto (i : nat).            (* _retry_later i / store.remove i, holds a store slot *)

Record pstate := mkP { free_s : option nat; free_r : option nat; ptasks : list ptask }.

Inductive pevent :=
| EAcqS (i : nat)     (* a store slot is granted to the pending _dequeue i *)
| EGot (i : nat)      (* store.get of _dequeue i returns *)
| EAcqR (i : nat)     (* a relay slot is granted: _attempt i starts, _dequeue i ends and frees its store slot *)
| EDone (i : nat)     (* the relay attempt of i returns / raises *)
| EAcqS2 (i : nat)    (* a store slot is granted to _attempt i's follow-up: it starts, _attempt i ends and frees its relay slot *)
| EFin (i : nat).     (* the follow-up of i ends and frees its store slot *)

Definition avail (f : option nat) : bool := match f with None => true | Some n => Nat.ltb 0 n end.
Definition take (f : option nat) : option nat := match f with None => None | Some n => Some (n - 1) end.
Definition give (f : option nat) : option nat := match f with None => None | Some n => Some (S n) end.

Definition ptask_eqb (a b : ptask) : bool :=
  match a, b with
  | PWaitStore, PWaitStore => true
  | PDeqWantS i, PDeqWantS j | PDeqGet i, PDeqGet j | PDeqWantR i, PDeqWantR j
  | PAttRun i, PAttRun j | PAttWantS i, PAttWantS j | PSto i, PSto j => Nat.eqb i j
  | _, _ => false
  end.

Fixpoint has (t : ptask) (l : list ptask) : bool :=
  match l with [] => false | x :: l' => ptask_eqb t x || has t l' end.
(* replace the first occurrence *)
Fixpoint repl (t t' : ptask) (l : list ptask) : list ptask :=
  match l with [] => [] | x :: l' => if ptask_eqb t x then t' :: l' else x :: repl t t' l' end.

(* remove the first occurrence *)
Fixpoint rem1 (t : ptask) (l : list ptask) : list ptask :=
  match l with [] => [] | x :: l' => if ptask_eqb t x then l' else x :: rem1 t l' end.

Definition enabled (s : pstate) (e : pevent) : bool :=
  match e with
  | EAcqS i => has (PDeqWantS i) (ptasks s) && avail (free_s s)
  | EGot i => has (PDeqGet i) (ptasks s)
  | EAcqR i => has (PDeqWantR i) (ptasks s) && avail (free_r s)
  | EDone i => has (PAttRun i) (ptasks s)
  | EAcqS2 i => has (PAttWantS i) (ptasks s) && avail (free_s s)
  | EFin i => has (PSto i) (ptasks s)
  end.

(* an event that is not enabled changes nothing, so every event list is a schedule *)
Definition pstep (s : pstate) (e : pevent) : pstate :=
  if negb (enabled s e) then s else
  match e with
  | EAcqS i => mkP (take (free_s s)) (free_r s) (repl (PDeqWantS i) (PDeqGet i) (ptasks s))
  | EGot i => mkP (free_s s) (free_r s) (repl (PDeqGet i) (PDeqWantR i) (ptasks s))
  | EAcqR i => mkP (give (free_s s)) (take (free_r s)) (repl (PDeqWantR i) (PAttRun i) (ptasks s))
  | EDone i => mkP (free_s s) (free_r s) (repl (PAttRun i) (PAttWantS i) (ptasks s))
  | EAcqS2 i => mkP (take (free_s s)) (give (free_r s)) (repl (PAttWantS i) (PSto i) (ptasks s))
  | EFin i => mkP (give (free_s s))  (free_r s) (rem1 (PSto i) (ptasks s))
  end.

Definition prun (es : list pevent) (s : pstate) : pstate := fold_left pstep es s.

(* the event a task is waiting for *)
Definition next_event (t : ptask) : option pevent :=
  match t with
  | PWaitStore => None
  | PDeqWantS i => Some (EAcqS i)
  | PDeqGet i => Some (EGot i)
  | PDeqWantR i => Some (EAcqR i)
  | PAttRun i => Some (EDone i)
  | PAttWantS i => Some (EAcqS2 i)
  | PSto i => Some (EFin i)
  end.

Definition can_move (s : pstate) (t : ptask) : bool :=
  match next_event t with None => false | Some e => enabled s e end.
Definition is_work (t : ptask) : bool := match t with PWaitStore => false | _ => true end.
(* work is pending and nothing can move: not now, and (nothing else changes the state) never *)
Definition stuck (s : pstate) : bool :=
  existsb is_work (ptasks s) && negb (existsb (can_move s) (ptasks s)).

Definition holds_s (t : ptask) : bool :=
  match t with PWaitStore | PDeqGet _ | PDeqWantR _ | PSto _ => true | _ => false end.
Definition holds_r (t : ptask) : bool :=
  match t with PAttRun _ | PAttWantS _ => true | _ => false end.
Definition count (f : ptask -> bool) (l : list ptask) : nat := length (filter f l).

(* Queue(store_pool=cs, relay_pool=cr) over a storage with wait(), after start() *)
Definition pinit (cs cr : option nat) (waits : bool) : pstate :=
  mkP (if waits then take cs else cs) cr (if waits then [PWaitStore] else []).
(* work entering the system: the scheduler dispatches a due id / enqueue() spawns the first attempt
   (enqueue's own _pool_spawn('relay') is issued from the caller's greenlet, holding no slot: it is
   modelled by adding the attempt when a relay slot is there) *)
Definition add_dispatch (s : pstate) (i : nat) : pstate := mkP (free_s s) (free_r s) (ptasks s ++ [PDeqWantS i]).
Definition add_attempt (s : pstate) (i : nat) : pstate :=
  if avail (free_r s) then mkP (free_s s) (take (free_r s)) (ptasks s ++ [PAttRun i]) else s.

(* everything that can happen to the pools: an event of a greenlet, or new work *)
Inductive pop := OEv (e : pevent) | ODispatch (i : nat) | OAttempt (i : nat).
Definition papply (s : pstate) (o : pop) : pstate :=
  match o with OEv e => pstep s e | ODispatch i => add_dispatch s i | OAttempt i => add_attempt s i end.
Definition pruns (os : list pop) (s : pstate) : pstate := fold_left papply os s.

(* the schedule of known finding D10: message 0 is in its relay attempt, message 1 is dispatched,
   its _dequeue gets the last store slot and reads the message, the attempt of 0 fails *)
Definition d10_start : pstate := add_dispatch (add_attempt (pinit (Some 2) (Some 1) true) 0) 1.
Definition d10_sched : list pevent := [EAcqS 1; EGot 1; EDone 0].
