(* Model of slimta/util/proxyproto.py (PROXY protocol v1/v2 readers, parsers and
   the auto-detecting dispatcher) AFTER the D19 repair
   (/verif/fixes/d19-proxyproto.diff):
     - __get_pp_ip    catches (ValueError, socket.error)      [NUL in address]
     - __get_pp_port  accepts only plain decimal without leading zeros
     - __parse_pp_data rejects unassigned commands, and for PROXY an address
       family without transport protocol (and vice versa).
   Definitions only.  Bytes are N < 256; lengths / fuel are nat.

   Python exceptions are explicit: every function that can raise returns
   [res A]; try/except clauses are modelled as matches on the exception, so
   "which exception escapes" is a property of the model, not of its types.
   [OutOfFuel] is a model artefact (the loops are written with fuel); the proof
   file shows it is never produced. *)
From Coq Require Import List NArith Bool Arith.
From SV Require Import lib.Val lib.Bytes.
Import ListNotations.
Open Scope N_scope.

(* ------------------------------------------------------------------ *)
(* The socket: the bytes the peer sends (then EOF) and a short-read
   schedule.  recv_into(buf, n) stores min(n, k, available) bytes where k >= 1
   is the next schedule entry (entry 0 is read as 1; an exhausted schedule
   means "as much as asked").  It returns 0 bytes only at EOF. *)
Record sock := mk_sock { s_data : bytes; s_sched : list N }.

Definition recv_into (s : sock) (n : nat) : bytes * sock :=
  let m := match s_sched s with
           | [] => n
           | k :: _ => Nat.min n (Nat.max 1 (N.to_nat k))
           end in
  (firstn m (s_data s), mk_sock (skipn m (s_data s)) (tl (s_sched s))).

(* ------------------------------------------------------------------ *)
(* Python exceptions that occur in the module. *)
Inductive exc :=
| EAssert (why : N)     (* AssertionError: the module's own error; [why] numbers the message *)
| ELocal                (* LocalConnection *)
| EValueError           (* ValueError (inet_pton: embedded null character; the port guard) *)
| EUnicodeDecode        (* UnicodeDecodeError, a subclass of ValueError *)
| EOSError              (* socket.error / OSError: illegal IP address string *)
| EStruct               (* struct.error *)
| EIndex.               (* IndexError *)

Inductive res (A : Type) :=
| Ok (a : A)
| Raise (e : exc)
| OutOfFuel.
Arguments Ok {A} a.
Arguments Raise {A} e.
Arguments OutOfFuel {A}.

(* messages of the module's AssertionErrors *)
Definition W_EOF : N := 1.          (* 'Received EOF during proxy protocol header' *)
Definition W_LINE : N := 2.         (* "String must start with 'PROXY' and end with CRLF" *)
Definition W_FAMILY : N := 3.       (* 'Invalid proxy protocol address family' *)
Definition W_FORMAT : N := 4.       (* 'Invalid proxy protocol header format' *)
Definition W_SRC_IP : N := 5.       (* 'Invalid proxy protocol source IP format' *)
Definition W_DST_IP : N := 6.
Definition W_SRC_PORT : N := 7.     (* 'Invalid proxy protocol source port format' *)
Definition W_DST_PORT : N := 8.
Definition W_SRC_RANGE : N := 9.    (* 'Proxy protocol source port out of range' *)
Definition W_DST_RANGE : N := 10.
Definition W_SIG2 : N := 11.        (* 'Invalid proxy protocol v2 signature' *)
Definition W_VERSION : N := 12.     (* 'Invalid proxy protocol version' *)
Definition W_COMMAND : N := 13.     (* 'Invalid proxy protocol command' *)
Definition W_FAMPROTO : N := 14.    (* 'Invalid proxy protocol address family or transport protocol' *)
Definition W_DATA : N := 15.        (* 'Invalid proxy protocol data' (struct.error) *)
Definition W_SIG : N := 16.         (* 'Invalid proxy protocol signature' (dispatcher) *)

(* ------------------------------------------------------------------ *)
(* The fill loop shared (textually three times) by
   ProxyProtocol.__read_pp_initial, the first loop of
   ProxyProtocolV1.__read_pp_line and ProxyProtocolV2.__read_pp_data:
       while len(read) < target:
           read_n = sock.recv_into(where, target-len(read))
           assert read_n, 'Received EOF during proxy protocol header'
           read = buf[0:len(read)+read_n]                                    *)
Fixpoint read_fill (fuel : nat) (target : nat) (read : bytes) (s : sock) : res bytes * sock :=
  if (target <=? length read)%nat then (Ok read, s)
  else match fuel with
       | O => (OutOfFuel, s)
       | S f =>
           let '(chunk, s') := recv_into s (target - length read) in
           match chunk with
           | [] => (Raise (EAssert W_EOF), s')
           | _ :: _ => read_fill f target (read ++ chunk) s'
           end
       end.

Definition ends_cr (l : bytes) : bool :=
  match rev l with 13 :: _ => true | _ => false end.
Definition ends_crlf (l : bytes) : bool :=
  match rev l with 10 :: 13 :: _ => true | _ => false end.

(* second loop of __read_pp_line:
       while len(read) < len(buf):               # len(buf) = 107
           try_read = min(len(where), 1 if read.endswith(b'\r') else 2)
           read_n = sock.recv_into(where, try_read); assert read_n
           read = ...; if read.endswith(b'\r\n'): break                       *)
Fixpoint read_line_loop (fuel : nat) (read : bytes) (s : sock) : res bytes * sock :=
  if (107 <=? length read)%nat then (Ok read, s)
  else match fuel with
       | O => (OutOfFuel, s)
       | S f =>
           let try_read := Nat.min (107 - length read) (if ends_cr read then 1 else 2) in
           let '(chunk, s') := recv_into s try_read in
           match chunk with
           | [] => (Raise (EAssert W_EOF), s')
           | _ :: _ =>
               let read' := read ++ chunk in
               if ends_crlf read' then (Ok read', s') else read_line_loop f read' s'
           end
       end.

(* ProxyProtocolV1.__read_pp_line(sock, initial) *)
Definition read_pp_line (initial : bytes) (s : sock) : res bytes * sock :=
  match read_fill 8 8 initial s with
  | (Ok read, s1) => read_line_loop 107 read s1
  | (Raise e, s1) => (Raise e, s1)
  | (OutOfFuel, s1) => (OutOfFuel, s1)
  end.

(* ------------------------------------------------------------------ *)
(* Decimal / IPv4 text.  dec: "%u" for n < 100000. *)
Definition dec (n : N) : bytes :=
  if n <? 10 then [48 + n]
  else if n <? 100 then [48 + n / 10; 48 + n mod 10]
  else if n <? 1000 then [48 + n / 100; 48 + (n / 10) mod 10; 48 + n mod 10]
  else if n <? 10000 then [48 + n / 1000; 48 + (n / 100) mod 10; 48 + (n / 10) mod 10; 48 + n mod 10]
  else [48 + n / 10000; 48 + (n / 1000) mod 10; 48 + (n / 100) mod 10; 48 + (n / 10) mod 10; 48 + n mod 10].

(* inet_ntop(AF_INET, 4 bytes): "%u.%u.%u.%u" *)
Definition ntop4 (a : bytes) : bytes :=
  match a with
  | [a0; a1; a2; a3] => dec a0 ++ [46] ++ dec a1 ++ [46] ++ dec a2 ++ [46] ++ dec a3
  | _ => []
  end.

(* glibc inet_pton4 (resolv/inet_pton.c): state = octets stored so far
   ([done], then the one being built [cur]), saw_digit, octets. *)
Fixpoint pton4_go (s : bytes) (done : list N) (cur : N) (saw : bool) (octets : N) : option bytes :=
  match s with
  | [] => if octets <? 4 then None else Some (done ++ [cur])
  | ch :: s' =>
      if is_digit ch then
        let new := cur * 10 + (ch - 48) in
        if saw && (cur =? 0) then None
        else if 255 <? new then None
        else if saw then pton4_go s' done new true octets
        else if 4 <? octets + 1 then None
        else pton4_go s' done new true (octets + 1)
      else if (ch =? 46) && saw then
        if octets =? 4 then None else pton4_go s' (done ++ [cur]) 0 false octets
      else None
  end.
Definition pton4 (s : bytes) : option bytes := pton4_go s [] 0 false 0.

(* ------------------------------------------------------------------ *)
(* IPv6 text as glibc 2.36 does it (resolv/inet_ntop.c, resolv/inet_pton.c).
   These functions are what the extracted model runs and what the
   correspondence compares with libc.  The parser definitions below take the
   IPv6 conversion as Section variables; proof/Proxy_lemmas.v proves that
   glibc_pton6/glibc_ntop6 satisfy what the theorems assume of them. *)
Definition hexdig (d : N) : N := if d <? 10 then 48 + d else 87 + d.
Definition hex (w : N) : bytes :=          (* "%x", w < 65536 *)
  if w <? 16 then [hexdig w]
  else if w <? 256 then [hexdig (w / 16); hexdig (w mod 16)]
  else if w <? 4096 then [hexdig (w / 256); hexdig ((w / 16) mod 16); hexdig (w mod 16)]
  else [hexdig (w / 4096); hexdig ((w / 256) mod 16); hexdig ((w / 16) mod 16); hexdig (w mod 16)].

Fixpoint words_of (a : bytes) : list N :=
  match a with
  | hi :: lo :: r => (hi * 256 + lo) :: words_of r
  | _ => []
  end.

Definition zrun := option (nat * nat).     (* (base, len) of a run of zero words; word indexes *)
Definition better (cur best : zrun) : zrun :=
  match cur with
  | None => best
  | Some (_, cl) => match best with
                    | None => cur
                    | Some (_, bl) => if (bl <? cl)%nat then cur else best
                    end
  end.
Fixpoint scan_runs (i : nat) (ws : list N) (cur best : zrun) : zrun :=
  match ws with
  | [] => better cur best
  | w :: ws' =>
      if w =? 0 then
        scan_runs (S i) ws' (match cur with None => Some (i, 1%nat) | Some (b, l) => Some (b, S l) end) best
      else scan_runs (S i) ws' None (better cur best)
  end.
Definition best_run (ws : list N) : zrun :=
  match scan_runs 0 ws None None with
  | Some (b, l) => if (l <? 2)%nat then None else Some (b, l)
  | None => None
  end.

Fixpoint render6 (i : nat) (ws : list N) (best : zrun) (embedded : bool) (v4 : bytes) : bytes :=
  match ws with
  | [] => []
  | w :: ws' =>
      let inside := match best with Some (b, l) => (b <=? i)%nat && (i <? b + l)%nat | None => false end in
      if inside then
        (match best with Some (b, _) => if (i =? b)%nat then [58] else [] | None => [] end)
          ++ render6 (S i) ws' best embedded v4
      else
        (if (i =? 0)%nat then [] else [58]) ++
        (if (i =? 6)%nat && embedded then ntop4 v4      (* break *)
         else hex w ++ render6 (S i) ws' best embedded v4)
  end.

(* inet_ntop6 on the eight 16-bit words; v4 = the last four bytes *)
Definition ntop6w (ws : list N) (v4 : bytes) : bytes :=
  let best := best_run ws in
  let embedded := match best with
                  | Some (O, 6%nat) => true
                  | Some (O, 5%nat) => nth 5 ws 0 =? 65535
                  | _ => false
                  end in
  render6 0 ws best embedded v4
    ++ (match best with Some (b, l) => if (b + l =? 8)%nat then [58] else [] | None => [] end).

(* inet_ntop(AF_INET6, 16 bytes) *)
Definition glibc_ntop6 (a : bytes) : bytes := ntop6w (words_of a) (skipn 12 a).

Definition hexval (ch : N) : option N :=
  if is_digit ch then Some (ch - 48)
  else if (97 <=? ch) && (ch <=? 102) then Some (ch - 87)
  else if (65 <=? ch) && (ch <=? 70) then Some (ch - 55)
  else None.

(* main loop of glibc inet_pton6; tp = bytes stored so far, colonp = offset of
   the "::" in tp.  Result: (tp, colonp, xdigits_seen, val) after the loop. *)
Fixpoint pton6_go (s : bytes) (curtok : bytes) (tp : bytes) (colonp : option nat) (seen : N) (val : N)
  : option (bytes * option nat * N * N) :=
  match s with
  | [] => Some (tp, colonp, seen, val)
  | ch :: s' =>
      match hexval ch with
      | Some d =>
          if seen =? 4 then None
          else let val' := val * 16 + d in
               if 65535 <? val' then None else pton6_go s' curtok tp colonp (seen + 1) val'
      | None =>
          if ch =? 58 then
            if seen =? 0 then
              match colonp with
              | Some _ => None
              | None => pton6_go s' s' tp (Some (length tp)) seen val
              end
            else match s' with
                 | [] => None
                 | _ :: _ =>
                     if (16 <? length tp + 2)%nat then None
                     else pton6_go s' s' (tp ++ [val / 256; val mod 256]) colonp 0 0
                 end
          else if (ch =? 46) && (length tp + 4 <=? 16)%nat then
            match pton4 curtok with
            | Some a4 => Some (tp ++ a4, colonp, 0, val)       (* break *)
            | None => None
            end
          else None
      end
  end.

(* "Leading :: requires some special handling": where the main loop starts *)
Definition pton6_start (s : bytes) : option bytes :=
  match s with
  | [] => None
  | c0 :: s0 =>
      if c0 =? 58
      then match s0 with
           | c1 :: _ => if c1 =? 58 then Some s0 else None
           | [] => None
           end
      else Some s
  end.

(* after the loop: store a pending group, expand the "::", check the length *)
Definition pton6_finish (st : bytes * option nat * N * N) : option bytes :=
  let '(tp, colonp, seen, val) := st in
  let tp1 := if 0 <? seen
             then (if (16 <? length tp + 2)%nat then None else Some (tp ++ [val / 256; val mod 256]))
             else Some tp in
  match tp1 with
  | None => None
  | Some tp1 =>
      let tp2 := match colonp with
                 | None => Some tp1
                 | Some c =>
                     if (length tp1 =? 16)%nat then None
                     else Some (firstn c tp1 ++ repeat 0 (16 - length tp1) ++ skipn c tp1)
                 end in
      match tp2 with
      | None => None
      | Some tp2 => if (length tp2 =? 16)%nat then Some tp2 else None
      end
  end.

(* inet_pton(AF_INET6, s) *)
Definition glibc_pton6 (s : bytes) : option bytes :=
  match pton6_start s with
  | None => None
  | Some src =>
      match pton6_go src src [] None 0 0 with
      | None => None
      | Some st => pton6_finish st
      end
  end.

(* ------------------------------------------------------------------ *)
(* Addresses as the module returns them. *)
Inductive addr :=
| ANone                         (* (None, None): unknown_pp_* and invalid_pp_* addresses *)
| AIp (ip : bytes) (port : N)   (* (ip text, port) *)
| APath (p : bytes).            (* AF_UNIX: the path bytes *)

(* bytes.split(b' '): first part and the other parts *)
Fixpoint split_sp (s : bytes) : bytes * list bytes :=
  match s with
  | [] => ([], [])
  | b :: s' => let '(h, t) := split_sp s' in
               if b =? 32 then ([], h :: t) else (b :: h, t)
  end.

(* b'\r\n' in l *)
Fixpoint has_crlf (l : bytes) : bool :=
  match l with
  | a :: l' => (match l' with b :: _ => (a =? 13) && (b =? 10) | [] => false end) || has_crlf l'
  | [] => false
  end.

Definition PROXY_SP : bytes := [80; 82; 79; 88; 89; 32].     (* b'PROXY ' *)
Definition UNKNOWN : bytes := [85; 78; 75; 78; 79; 87; 78].  (* b'UNKNOWN' *)
Definition TCP4 : bytes := [84; 67; 80; 52].
Definition TCP6 : bytes := [84; 67; 80; 54].

(* bytes.isdigit() and no leading zero, then int(), then the range assert
   (ProxyProtocolV1.__get_pp_port after the repair) *)
Definition port_guard (p : bytes) : bool :=
  match p with
  | [] => false
  | c :: r => forallb is_digit p && negb ((c =? 48) && negb (match r with [] => true | _ => false end))
  end.
Definition get_pp_port (p : bytes) (w_format w_range : N) : res N :=
  let r := if port_guard p then Ok (dec_val p) else Raise EValueError in
  match r with
  | Raise EValueError => Raise (EAssert w_format)      (* except ValueError *)
  | Raise EUnicodeDecode => Raise (EAssert w_format)
  | Ok n => if n <=? 65535 then Ok n else Raise (EAssert w_range)
  | other => other
  end.

Inductive v1family := F1Inet | F1Inet6.

Section Ip6.
  (* IPv6 text conversion of the C library: inet_pton(AF_INET6, .) on a string
     without NUL, inet_ntop(AF_INET6, .) on 16 bytes.  Instantiated with
     glibc_pton6 / glibc_ntop6 in extract/E_Proxy.v. *)
  Variable pton6 : bytes -> option bytes.
  Variable ntop6 : bytes -> bytes.

  Definition c_pton (f : v1family) : bytes -> option bytes :=
    match f with F1Inet => pton4 | F1Inet6 => pton6 end.
  Definition c_ntop (f : v1family) : bytes -> bytes :=
    match f with F1Inet => ntop4 | F1Inet6 => ntop6 end.

  (* ip_string.decode('ascii') *)
  Definition py_decode_ascii (s : bytes) : res bytes :=
    if forallb (fun b => b <? 128) s then Ok s else Raise EUnicodeDecode.
  (* socket.inet_pton(af, str): the "s" argument converter rejects NUL with
     ValueError before libc is called *)
  Definition py_inet_pton (f : v1family) (s : bytes) : res bytes :=
    if existsb (fun b => b =? 0) s then Raise EValueError
    else match c_pton f s with Some a => Ok a | None => Raise EOSError end.

  (* ProxyProtocolV1.__get_pp_ip (repaired: except (ValueError, socket.error)) *)
  Definition get_pp_ip (f : v1family) (s : bytes) (which : N) : res bytes :=
    let r := match py_decode_ascii s with
             | Ok t => match py_inet_pton f t with
                       | Ok a => Ok (c_ntop f a)
                       | Raise e => Raise e
                       | OutOfFuel => OutOfFuel
                       end
             | Raise e => Raise e
             | OutOfFuel => OutOfFuel
             end in
    match r with
    | Raise EValueError | Raise EUnicodeDecode | Raise EOSError => Raise (EAssert which)
    | other => other
    end.

  (* ProxyProtocolV1.__get_pp_family *)
  Definition get_pp_family (p : bytes) : res v1family :=
    if beqb p TCP4 then Ok F1Inet
    else if beqb p TCP6 then Ok F1Inet6
    else Raise (EAssert W_FAMILY).

  (* ProxyProtocolV1.parse_pp_line *)
  Definition parse_pp_line (line : bytes) : res (addr * addr) :=
    if negb (starts_with PROXY_SP line && ends_crlf line) then Raise (EAssert W_LINE)
    else
      let body := skipn 6 (firstn (length line - 2) line) in       (* line[6:-2] *)
      let '(p0, rest) := split_sp body in
      if beqb p0 UNKNOWN then Ok (ANone, ANone)
      else match get_pp_family p0 with
           | Raise e => Raise e
           | OutOfFuel => OutOfFuel
           | Ok fam =>
               match rest with
               | [p1; p2; p3; p4] =>
                   match get_pp_ip fam p1 W_SRC_IP with
                   | Raise e => Raise e | OutOfFuel => OutOfFuel
                   | Ok sip =>
                   match get_pp_port p3 W_SRC_PORT W_SRC_RANGE with
                   | Raise e => Raise e | OutOfFuel => OutOfFuel
                   | Ok sport =>
                   match get_pp_ip fam p2 W_DST_IP with
                   | Raise e => Raise e | OutOfFuel => OutOfFuel
                   | Ok dip =>
                   match get_pp_port p4 W_DST_PORT W_DST_RANGE with
                   | Raise e => Raise e | OutOfFuel => OutOfFuel
                   | Ok dport => Ok (AIp sip sport, AIp dip dport)
                   end end end end
               | _ => Raise (EAssert W_FORMAT)                      (* assert len(parts) == 5 *)
               end
           end.

  (* ProxyProtocolV1.process_pp_v1(sock, initial) *)
  Definition process_pp_v1 (initial : bytes) (s : sock) : res (addr * addr) * sock :=
    match read_pp_line initial s with
    | (Ok line, s') => (parse_pp_line line, s')
    | (Raise e, s') => (Raise e, s')
    | (OutOfFuel, s') => (OutOfFuel, s')
    end.

  (* -------------------------------------------------------------- v2 *)
  Definition SIG12 : bytes := [13; 10; 13; 10; 0; 13; 10; 81; 85; 73; 84; 10].
  Definition SIG8 : bytes := [13; 10; 13; 10; 0; 13; 10; 81].

  Inductive command := CmdLocal | CmdProxy.
  Inductive family := FInet | FInet6 | FUnix.

  (* ProxyProtocolV2.__read_pp_data(sock, length, initial) *)
  Definition read_pp_data (len : nat) (initial : bytes) (s : sock) : res bytes * sock :=
    read_fill len len initial s.

  Definition is_none {A} (o : option A) : bool := match o with None => true | Some _ => false end.

  (* ProxyProtocolV2.__parse_pp_data (repaired) *)
  Definition parse_pp_data (data : bytes) : res (command * option family * option N * nat) :=
    if negb (beqb (firstn 12 data) SIG12) then Raise (EAssert W_SIG2)
    else match skipn 12 data with
         | b12 :: rest12 =>
             if negb (N.land b12 240 =? 32) then Raise (EAssert W_VERSION)
             else
               let cmd := match N.land b12 15 with
                          | 0 => Some CmdLocal | 1 => Some CmdProxy | _ => None end in
               match rest12 with
               | b13 :: rest13 =>
                   let fam := match N.land b13 240 with
                              | 16 => Some FInet | 32 => Some FInet6 | 48 => Some FUnix | _ => None end in
                   let proto := match N.land b13 15 with
                                | 1 => Some 1 | 2 => Some 2 | _ => None end in
                   match rest13 with
                   | [b14; b15] =>                       (* struct.unpack('!H', data[14:16]) *)
                       let addr_len := N.to_nat (b14 * 256 + b15) in
                       match cmd with
                       | None => Raise (EAssert W_COMMAND)
                       | Some c =>
                           if (match c with CmdLocal => true | CmdProxy => false end)
                              || Bool.eqb (is_none fam) (is_none proto)
                           then Ok (c, fam, proto, addr_len)
                           else Raise (EAssert W_FAMPROTO)
                       end
                   | _ => Raise EStruct
                   end
               | [] => Raise EIndex
               end
         | [] => Raise EIndex
         end.

  (* bytes.rstrip(b'\x00') *)
  Fixpoint drop0 (l : bytes) : bytes :=
    match l with
    | 0 :: l' => drop0 l'
    | _ => l
    end.
  Definition rstrip0 (l : bytes) : bytes := rev (drop0 (rev l)).

  (* ProxyProtocolV2.__parse_pp_addresses; struct.unpack on a too short slice
     raises struct.error *)
  Definition parse_pp_addresses (fam : option family) (d : bytes) : res (addr * addr) :=
    match fam with
    | Some FInet =>
        let b := firstn 12 d in
        if negb (length b =? 12)%nat then Raise EStruct
        else Ok (AIp (ntop4 (firstn 4 b)) (nth 8 b 0 * 256 + nth 9 b 0),
                 AIp (ntop4 (firstn 4 (skipn 4 b))) (nth 10 b 0 * 256 + nth 11 b 0))
    | Some FInet6 =>
        let b := firstn 36 d in
        if negb (length b =? 36)%nat then Raise EStruct
        else Ok (AIp (ntop6 (firstn 16 b)) (nth 32 b 0 * 256 + nth 33 b 0),
                 AIp (ntop6 (firstn 16 (skipn 16 b))) (nth 34 b 0 * 256 + nth 35 b 0))
    | Some FUnix =>
        let b := firstn 216 d in
        if negb (length b =? 216)%nat then Raise EStruct
        else Ok (APath (rstrip0 (firstn 108 b)), APath (rstrip0 (skipn 108 b)))
    | None => Ok (ANone, ANone)
    end.

  (* ProxyProtocolV2.process_pp_v2(sock, initial): the whole body is inside
     try/except struct.error *)
  Definition process_pp_v2 (initial : bytes) (s : sock) : res (addr * addr) * sock :=
    let '(r, s') :=
      match read_pp_data 16 initial s with
      | (Ok data, s1) =>
          match parse_pp_data data with
          | Ok (cmd, fam, _, addr_len) =>
              match read_pp_data addr_len [] s1 with
              | (Ok addr_data, s2) =>
                  match parse_pp_addresses fam addr_data with
                  | Ok ret => (match cmd with CmdLocal => Raise ELocal | CmdProxy => Ok ret end, s2)
                  | Raise e => (Raise e, s2)
                  | OutOfFuel => (OutOfFuel, s2)
                  end
              | (Raise e, s2) => (Raise e, s2)
              | (OutOfFuel, s2) => (OutOfFuel, s2)
              end
          | Raise e => (Raise e, s1)
          | OutOfFuel => (OutOfFuel, s1)
          end
      | (Raise e, s1) => (Raise e, s1)
      | (OutOfFuel, s1) => (OutOfFuel, s1)
      end in
    match r with
    | Raise EStruct => (Raise (EAssert W_DATA), s')           (* except struct.error *)
    | _ => (r, s')
    end.

  (* ---------------------------------------------------- the handlers *)
  (* what X.handle(sock, addr) does with the connection *)
  Inductive hres :=
  | HAddr (src : addr)     (* header accepted: super().handle(sock, src) *)
  | HInvalid (why : N)     (* AssertionError caught: super().handle(sock, invalid_pp_source_address) *)
  | HLocal                 (* LocalConnection caught: return without calling the handler *)
  | HEscape (e : exc)      (* any other exception leaves handle() *)
  | HFuel.

  (* address the wrapped handler is called with *)
  Definition handler_arg (h : hres) : option addr :=
    match h with
    | HAddr a => Some a
    | HInvalid _ => Some ANone
    | _ => None
    end.

  (* ProxyProtocolV1.handle: try ... except AssertionError *)
  Definition handle_v1 (s : sock) : hres * sock :=
    match process_pp_v1 [] s with
    | (Ok (src, _), s') => (HAddr src, s')
    | (Raise (EAssert w), s') => (HInvalid w, s')
    | (Raise e, s') => (HEscape e, s')
    | (OutOfFuel, s') => (HFuel, s')
    end.

  (* try ... except LocalConnection ... except AssertionError, as in
     ProxyProtocolV2.handle and ProxyProtocol.handle *)
  Definition finish (r : res (addr * addr) * sock) : hres * sock :=
    match r with
    | (Ok (src, _), s') => (HAddr src, s')
    | (Raise ELocal, s') => (HLocal, s')
    | (Raise (EAssert w), s') => (HInvalid w, s')
    | (Raise e, s') => (HEscape e, s')
    | (OutOfFuel, s') => (HFuel, s')
    end.

  Definition handle_v2 (s : sock) : hres * sock := finish (process_pp_v2 [] s).

  (* ProxyProtocol.__read_pp_initial + the version sniff of ProxyProtocol.handle *)
  Definition process_auto (s : sock) : res (addr * addr) * sock :=
    match read_fill 8 8 [] s with
    | (Ok initial, s1) =>
        if starts_with PROXY_SP initial then process_pp_v1 initial s1
        else if beqb initial SIG8 then process_pp_v2 initial s1
        else (Raise (EAssert W_SIG), s1)
    | (Raise e, s1) => (Raise e, s1)
    | (OutOfFuel, s1) => (OutOfFuel, s1)
    end.
  Definition handle_auto (s : sock) : hres * sock := finish (process_auto s).

  (* ------------------------------------------------------- encoders *)
  (* Abstract v1 headers.  IPv4/IPv6 addresses are 4/16 bytes. *)
  Inductive hdr1 :=
  | V1Tcp4 (src dst : bytes) (sport dport : N)
  | V1Tcp6 (src dst : bytes) (sport dport : N)
  | V1Unknown (rest : bytes).     (* "PROXY UNKNOWN" ++ rest ++ CRLF; the receiver ignores rest *)

  Definition is_byte (b : N) : bool := b <? 256.
  Definition wf_ip (n : nat) (a : bytes) : bool := (length a =? n)%nat && forallb is_byte a.
  Definition wf_port (p : N) : bool := p <? 65536.

  Definition wf1 (h : hdr1) : bool :=
    match h with
    | V1Tcp4 s d sp dp => wf_ip 4 s && wf_ip 4 d && wf_port sp && wf_port dp
    | V1Tcp6 s d sp dp => wf_ip 16 s && wf_ip 16 d && wf_port sp && wf_port dp
    | V1Unknown rest =>
        (match rest with [] => true | c :: _ => c =? 32 end)
        && negb (has_crlf rest)
        && (length rest <=? 92)%nat                (* 107 - len("PROXY UNKNOWN\r\n") *)
    end.

  Definition SP : bytes := [32].
  Definition enc_v1 (h : hdr1) : bytes :=
    match h with
    | V1Tcp4 s d sp dp =>
        PROXY_SP ++ TCP4 ++ SP ++ ntop4 s ++ SP ++ ntop4 d ++ SP ++ dec sp ++ SP ++ dec dp ++ CRLF
    | V1Tcp6 s d sp dp =>
        PROXY_SP ++ TCP6 ++ SP ++ ntop6 s ++ SP ++ ntop6 d ++ SP ++ dec sp ++ SP ++ dec dp ++ CRLF
    | V1Unknown rest => PROXY_SP ++ UNKNOWN ++ rest ++ CRLF
    end.

  (* what the parser must return for h *)
  Definition expect1 (h : hdr1) : addr * addr :=
    match h with
    | V1Tcp4 s d sp dp => (AIp (ntop4 s) sp, AIp (ntop4 d) dp)
    | V1Tcp6 s d sp dp => (AIp (ntop6 s) sp, AIp (ntop6 d) dp)
    | V1Unknown _ => (ANone, ANone)
    end.

  (* Abstract v2 headers; [proto] is 1 (STREAM) or 2 (DGRAM); [tlv] are the
     bytes that follow the address block inside the declared length. *)
  Inductive hdr2 :=
  | V2Inet (proto : N) (src dst : bytes) (sport dport : N) (tlv : bytes)
  | V2Inet6 (proto : N) (src dst : bytes) (sport dport : N) (tlv : bytes)
  | V2Unix (proto : N) (src dst : bytes) (tlv : bytes)
  | V2Unspec (blob : bytes)        (* PROXY command, family/protocol byte 0x00 *)
  | V2Local (blob : bytes).        (* LOCAL command, family/protocol byte 0x00 *)

  Definition wf_proto (p : N) : bool := (p =? 1) || (p =? 2).
  Definition wf_path (p : bytes) : bool :=
    (length p <=? 108)%nat && forallb is_byte p && negb (match rev p with 0 :: _ => true | _ => false end).
  Definition wf_blob (n : nat) (b : bytes) : bool := forallb is_byte b && (N.of_nat (n + length b) <? 65536).

  Definition wf2 (h : hdr2) : bool :=
    match h with
    | V2Inet pr s d sp dp tlv => wf_proto pr && wf_ip 4 s && wf_ip 4 d && wf_port sp && wf_port dp && wf_blob 12 tlv
    | V2Inet6 pr s d sp dp tlv => wf_proto pr && wf_ip 16 s && wf_ip 16 d && wf_port sp && wf_port dp && wf_blob 36 tlv
    | V2Unix pr s d tlv => wf_proto pr && wf_path s && wf_path d && wf_blob 216 tlv
    | V2Unspec blob => wf_blob 0 blob
    | V2Local blob => wf_blob 0 blob
    end.

  Definition u16 (n : N) : bytes := [n / 256; n mod 256].
  Definition pad108 (p : bytes) : bytes := p ++ repeat 0 (108 - length p).

  Definition v2_block (h : hdr2) : bytes :=
    match h with
    | V2Inet _ s d sp dp tlv => s ++ d ++ u16 sp ++ u16 dp ++ tlv
    | V2Inet6 _ s d sp dp tlv => s ++ d ++ u16 sp ++ u16 dp ++ tlv
    | V2Unix _ s d tlv => pad108 s ++ pad108 d ++ tlv
    | V2Unspec blob => blob
    | V2Local blob => blob
    end.
  Definition v2_vercmd (h : hdr2) : N := match h with V2Local _ => 32 | _ => 33 end.
  Definition v2_famproto (h : hdr2) : N :=
    match h with
    | V2Inet pr _ _ _ _ _ => 16 + pr
    | V2Inet6 pr _ _ _ _ _ => 32 + pr
    | V2Unix pr _ _ _ => 48 + pr
    | V2Unspec _ => 0
    | V2Local _ => 0
    end.
  Definition enc_v2 (h : hdr2) : bytes :=
    SIG12 ++ [v2_vercmd h; v2_famproto h] ++ u16 (N.of_nat (length (v2_block h))) ++ v2_block h.

  Definition expect2 (h : hdr2) : res (addr * addr) :=
    match h with
    | V2Inet _ s d sp dp _ => Ok (AIp (ntop4 s) sp, AIp (ntop4 d) dp)
    | V2Inet6 _ s d sp dp _ => Ok (AIp (ntop6 s) sp, AIp (ntop6 d) dp)
    | V2Unix _ s d _ => Ok (APath s, APath d)
    | V2Unspec _ => Ok (ANone, ANone)
    | V2Local _ => Raise ELocal
    end.

  (* declared length of the address block of a v2 stream (0 when the stream
     has fewer than 16 bytes) *)
  Definition declared (data : bytes) : nat :=
    match skipn 14 data with
    | b14 :: b15 :: _ => N.to_nat (b14 * 256 + b15)
    | _ => 0%nat
    end.
End Ip6.

(* ------------------------------------------------------------------ *)
(* The same readers as coroutines: one step per recv_into call.  gevent may
   switch to another connection's greenlet at every recv_into; [PRecv n k]
   is a reader suspended in recv_into(buf, n), [k chunk] what it does with
   the bytes stored.  Every buffer the code allocates per call
   (bytearray(107), bytearray(length), bytearray(8)) is an argument of the
   loop below, i.e. local to the suspended reader; the module has no other
   mutable state.  proof/Proxy_lemmas.v shows that running a coroutine alone
   is exactly the big-step function above (C18_smallstep_refines), so the
   definitions mirror the same code. *)
Inductive proc :=
| PDone (r : res (addr * addr))
| PRecv (n : nat) (k : bytes -> proc).

(* the fill loop of read_fill, then [k] on its outcome *)
Fixpoint p_fill (fuel : nat) (target : nat) (read : bytes) (k : res bytes -> proc) : proc :=
  if (target <=? length read)%nat then k (Ok read)
  else match fuel with
       | O => k OutOfFuel
       | S f =>
           PRecv (target - length read)
                 (fun chunk => match chunk with
                               | [] => k (Raise (EAssert W_EOF))
                               | _ :: _ => p_fill f target (read ++ chunk) k
                               end)
       end.

(* read_line_loop *)
Fixpoint p_line_loop (fuel : nat) (read : bytes) (k : res bytes -> proc) : proc :=
  if (107 <=? length read)%nat then k (Ok read)
  else match fuel with
       | O => k OutOfFuel
       | S f =>
           PRecv (Nat.min (107 - length read) (if ends_cr read then 1 else 2))
                 (fun chunk => match chunk with
                               | [] => k (Raise (EAssert W_EOF))
                               | _ :: _ =>
                                   let read' := read ++ chunk in
                                   if ends_crlf read' then k (Ok read') else p_line_loop f read' k
                               end)
       end.

(* read_pp_line *)
Definition p_read_pp_line (initial : bytes) (k : res bytes -> proc) : proc :=
  p_fill 8 8 initial (fun r => match r with
                               | Ok read => p_line_loop 107 read k
                               | Raise e => k (Raise e)
                               | OutOfFuel => k OutOfFuel
                               end).

Definition struct_to_assert (r : res (addr * addr)) : res (addr * addr) :=
  match r with
  | Raise EStruct => Raise (EAssert W_DATA)       (* except struct.error *)
  | _ => r
  end.

Section SmallStep.
  Variable pton6 : bytes -> option bytes.
  Variable ntop6 : bytes -> bytes.

  (* process_pp_v1 *)
  Definition p_process_v1 (initial : bytes) : proc :=
    p_read_pp_line initial (fun r => match r with
                                     | Ok line => PDone (parse_pp_line pton6 ntop6 line)
                                     | Raise e => PDone (Raise e)
                                     | OutOfFuel => PDone OutOfFuel
                                     end).

  (* process_pp_v2 *)
  Definition p_process_v2 (initial : bytes) : proc :=
    p_fill 16 16 initial (fun r1 =>
      match r1 with
      | Ok data =>
          match parse_pp_data data with
          | Ok (cmd, fam, _, addr_len) =>
              p_fill addr_len addr_len [] (fun r2 =>
                PDone (struct_to_assert
                  match r2 with
                  | Ok addr_data =>
                      match parse_pp_addresses ntop6 fam addr_data with
                      | Ok ret => match cmd with CmdLocal => Raise ELocal | CmdProxy => Ok ret end
                      | Raise e => Raise e
                      | OutOfFuel => OutOfFuel
                      end
                  | Raise e => Raise e
                  | OutOfFuel => OutOfFuel
                  end))
          | Raise e => PDone (struct_to_assert (Raise e))
          | OutOfFuel => PDone OutOfFuel
          end
      | Raise e => PDone (struct_to_assert (Raise e))
      | OutOfFuel => PDone OutOfFuel
      end).

  (* ProxyProtocol.handle up to the point where the result is known *)
  Definition p_process_auto : proc :=
    p_fill 8 8 [] (fun r =>
      match r with
      | Ok initial =>
          if starts_with PROXY_SP initial then p_process_v1 initial
          else if beqb initial SIG8 then p_process_v2 initial
          else PDone (Raise (EAssert W_SIG))
      | Raise e => PDone (Raise e)
      | OutOfFuel => PDone OutOfFuel
      end).
End SmallStep.

(* one reader alone on its socket *)
Fixpoint run_proc (p : proc) (s : sock) : res (addr * addr) * sock :=
  match p with
  | PDone r => (r, s)
  | PRecv n k => let '(chunk, s') := recv_into s n in run_proc (k chunk) s'
  end.

(* connections served concurrently: a connection is a suspended reader and
   its socket; a schedule names which connection's recv_into returns next *)
Definition conn := (proc * sock)%type.
Definition step_conn (c : conn) : conn :=
  match fst c with
  | PDone _ => c
  | PRecv n k => let '(chunk, s') := recv_into (snd c) n in (k chunk, s')
  end.
Fixpoint step_nth (i : nat) (cs : list conn) {struct cs} : list conn :=
  match cs with
  | [] => []
  | c :: cs' => match i with O => step_conn c :: cs' | S i' => c :: step_nth i' cs' end
  end.
Fixpoint run_conns (picks : list nat) (cs : list conn) : list conn :=
  match picks with
  | [] => cs
  | i :: picks' => run_conns picks' (step_nth i cs)
  end.

(* ------------------------------------------------------------------ *)
(* handle() as a whole: the parser, then the wrapped handler.  The call of
   super().handle(sock, addr) is an explicit step [HCall addr k]; what the
   wrapped handler does (return / raise exception number e, possibly after
   reading from the socket) is the environment's choice, and [k] is what
   handle() does with that outcome.  In the code the call stands AFTER the
   try/except/else statement, so nothing the wrapped handler raises is caught:
   [call_once].  ProxyProtocolV1.handle has no `except LocalConnection`. *)
Inductive hout := HoReturn | HoRaise (e : N).
Inductive hend :=
| HReturned                 (* handle() returns *)
| HPropagated (e : N)       (* the wrapped handler's exception leaves handle() *)
| HParserEscape (e : exc)   (* an exception of the parser other than the caught ones leaves handle() *)
| HOutOfFuel.
Inductive hproc :=
| HDone (o : hend)
| HRecv (n : nat) (k : bytes -> hproc)
| HCall (a : addr) (k : hout -> hproc).

(* run the parser coroutine, then continue with its result *)
Fixpoint lift (p : proc) (k : res (addr * addr) -> hproc) : hproc :=
  match p with
  | PDone r => k r
  | PRecv n f => HRecv n (fun chunk => lift (f chunk) k)
  end.

Definition end_of (o : hout) : hend :=
  match o with HoReturn => HReturned | HoRaise e => HPropagated e end.
Definition call_once (a : addr) : hproc := HCall a (fun o => HDone (end_of o)).

(* the try/except/else of ProxyProtocolV1.handle, then super().handle(sock, src_addr) *)
Definition p_finish_v1 (r : res (addr * addr)) : hproc :=
  match r with
  | Ok (src, _) => call_once src
  | Raise (EAssert _) => call_once ANone
  | Raise e => HDone (HParserEscape e)
  | OutOfFuel => HDone HOutOfFuel
  end.
(* ... of ProxyProtocolV2.handle and ProxyProtocol.handle *)
Definition p_finish (r : res (addr * addr)) : hproc :=
  match r with
  | Ok (src, _) => call_once src
  | Raise ELocal => HDone HReturned
  | Raise (EAssert _) => call_once ANone
  | Raise e => HDone (HParserEscape e)
  | OutOfFuel => HDone HOutOfFuel
  end.

Definition p_handle_v1 (pton6 : bytes -> option bytes) (ntop6 : bytes -> bytes) : hproc :=
  lift (p_process_v1 pton6 ntop6 []) p_finish_v1.
Definition p_handle_v2 (ntop6 : bytes -> bytes) : hproc := lift (p_process_v2 ntop6 []) p_finish.
Definition p_handle_auto (pton6 : bytes -> option bytes) (ntop6 : bytes -> bytes) : hproc :=
  lift (p_process_auto pton6 ntop6) p_finish.

(* the wrapped handler: given the address and the socket as the parser left
   it, it may read from the socket and returns or raises *)
Definition handler := addr -> sock -> hout * sock.

(* result: how handle() ends, the socket afterwards, and every call of the
   wrapped handler with the socket state at the moment of the call *)
Fixpoint run_h (p : hproc) (h : handler) (s : sock) : hend * sock * list (addr * sock) :=
  match p with
  | HDone o => (o, s, [])
  | HRecv n k => let '(chunk, s') := recv_into s n in run_h (k chunk) h s'
  | HCall a k =>
      let '(o, s') := h a s in
      let '(e, s'', calls) := run_h (k o) h s' in
      (e, s'', (a, s) :: calls)
  end.

(* what must happen after the parser, stated on the big-step result *)
Definition after_parse (h : handler) (x : hres * sock) : hend * sock * list (addr * sock) :=
  let '(hr, s1) := x in
  match hr with
  | HAddr a => let '(o, s2) := h a s1 in (end_of o, s2, [(a, s1)])
  | HInvalid _ => let '(o, s2) := h ANone s1 in (end_of o, s2, [(ANone, s1)])
  | HLocal => (HReturned, s1, [])
  | HEscape e => (HParserEscape e, s1, [])
  | HFuel => (HOutOfFuel, s1, [])
  end.
