(* Model of slimta/queue/__init__.py (class Queue) as a transition system at
   yield-point granularity.  Definitions only.

   A state holds the queue's own bookkeeping (timetable `queued`, `queued_ids`,
   `active_ids`, the `wake` event and what the scheduler loop is doing), the
   storage seen as the reference store of C15 (id -> sender?, outstanding
   recipients, attempts, timestamp), the greenlets that were spawned and have
   not finished yet (`tasks`, each with a program counter at its next storage /
   relay call), a clock, and ghost logs used only to state the properties.

   An event is one atomic segment of Python code between two yield points; a
   schedule is a list of events, so a statement about all event lists is a
   statement about all interleavings, all relay outcome histories, all backoff
   answers and all clock behaviours.  Events whose task does not exist are
   no-ops.  Store and relay pools are unbounded (spawn never blocks); bounded
   pools are outside this model (known finding D10). *)
From Coq Require Import List NArith Bool.
Import ListNotations.
Open Scope N_scope.

Definition id := N.
Definition rcpt := N.
Definition time := N.

(* ---------- small list utilities ---------- *)
Fixpoint mem (x : N) (l : list N) : bool :=
  match l with [] => false | y :: l' => (x =? y) || mem x l' end.
Fixpoint del (x : N) (l : list N) : list N :=
  match l with [] => [] | y :: l' => if x =? y then del x l' else y :: del x l' end.
Definition add (x : N) (l : list N) : list N := if mem x l then l else x :: l.

(* ---------- storage (reference store) ---------- *)
Record msg := mkMsg { m_sender : bool;          (* true = non-empty sender *)
                      m_rcpts : list rcpt;      (* recipients still outstanding *)
                      m_attempts : N;
                      m_ts : time }.
Definition store := list (id * msg).

Fixpoint st_get (s : store) (i : id) : option msg :=
  match s with [] => None | (j, m) :: s' => if i =? j then Some m else st_get s' i end.
Fixpoint st_del (s : store) (i : id) : store :=
  match s with [] => [] | (j, m) :: s' => if i =? j then st_del s' i else (j, m) :: st_del s' i end.
Fixpoint st_upd (s : store) (i : id) (f : msg -> msg) : store :=
  match s with [] => [] | (j, m) :: s' => if i =? j then (j, f m) :: s' else (j, m) :: st_upd s' i f end.

(* per-recipient result of one attempt *)
Inductive rres := ROk | RPerm | RTemp | RJunk.   (* RJunk: neither Reply/None nor a relay error *)

(* keep the recipients whose result satisfies p; results are aligned with the
   recipients, a recipient without a result counts as RJunk (not in the mapping) *)
Fixpoint pick (p : rres -> bool) (rs : list rcpt) (res : list rres) : list rcpt :=
  match rs with
  | [] => []
  | r :: rs' =>
      let x := match res with [] => RJunk | x :: _ => x end in
      let res' := match res with [] => [] | _ :: t => t end in
      if p x then r :: pick p rs' res' else pick p rs' res'
  end.
Definition is_ok (x : rres) := match x with ROk => true | _ => false end.
Definition is_perm (x : rres) := match x with RPerm => true | _ => false end.
Definition is_temp (x : rres) := match x with RTemp => true | _ => false end.
Definition is_settled (x : rres) := match x with ROk | RPerm => true | _ => false end.
Definition not_settled (x : rres) := negb (is_settled x).

(* set_recipients_delivered with the positions of the settled results: the
   outstanding list keeps exactly the unsettled positions *)
Definition unsettled (rs : list rcpt) (res : list rres) : list rcpt := pick not_settled rs res.

Inductive outcome :=
| OWholeOk                      (* returned None / a Reply *)
| OWholeTemp                    (* raised TransientRelayError *)
| OWholePerm                    (* raised PermanentRelayError *)
| OWholeOther                   (* raised something else *)
| OPartial (res : list rres).   (* returned a mapping / sequence, one result per recipient *)

(* ---------- greenlets ---------- *)
Inductive cause := CEnqueue | CTimer (due : time) | CFlush.

Inductive task :=
| TEnq (i : id) (snd : bool) (rcpts : list rcpt)                  (* enqueue(): write done, bookkeeping pending *)
| TAttempt (i : id) (snd : bool) (rcpts : list rcpt) (n : N)      (* relay._attempt in progress *)
| TRetry1 (i : id) (snd : bool) (rcpts : list rcpt) (dl : option (list rcpt * list rres))
                                                     (* _retry_later: before increment_attempts; rcpts = who
                                                        failed transiently; dl = (recipients attempted, their
                                                        results) after a partial delivery *)
| TRetry2 (i : id) (rcpts : list rcpt) (dl : option (list rcpt * list rres)) (when : time)
                                                     (* before set_timestamp *)
| TRetry3 (i : id) (all : list rcpt) (res : list rres) (when : time)
                                                     (* before set_recipients_delivered *)
| TDequeue (i : id) (c : cause)                      (* _dequeue: before store.get *)
| TRemove (i : id)                                   (* lazily spawned store.remove *)
| TPartialRemove (i : id).                           (* store.remove called directly by _handle_partial_relay *)

Definition task_id (t : task) : id :=
  match t with
  | TEnq i _ _ | TAttempt i _ _ _ | TRetry1 i _ _ _ | TRetry2 i _ _ _ | TRetry3 i _ _ _
  | TDequeue i _ | TRemove i | TPartialRemove i => i
  end.

(* tasks that stand for "a delivery attempt of i is in progress" *)
Definition is_live (t : task) : bool :=
  match t with
  | TAttempt _ _ _ _ | TRetry1 _ _ _ _ | TRetry2 _ _ _ _ | TRetry3 _ _ _ _ | TDequeue _ _ => true
  | _ => false
  end.
Definition is_remove (t : task) : bool :=
  match t with TRemove _ | TPartialRemove _ => true | _ => false end.

(* scheduler loop: running (at the top of its loop), blocked in wake.wait(timeout),
   or notified by wake.set() and not yet resumed *)
Inductive sched := SRun | SWait (deadline : option time) | SWoken.

Record att := mkAtt { a_id : id; a_rcpts : list rcpt; a_n : N; a_now : time; a_cause : cause }.

Record state := mkState {
  s_store : store;
  s_queued : list (time * id);         (* timetable, kept sorted by insort *)
  s_qids : list id;                    (* queued_ids *)
  s_active : list id;                  (* active_ids *)
  s_tasks : list task;
  s_sched : sched;
  s_wake : bool;                       (* wake event flag *)
  s_clock : time;
  s_next : id;                         (* next fresh id handed out by store.write *)
  (* ghost *)
  g_acc : list (id * rcpt * bool);     (* accepted: the storage write returned an id; bool = non-empty sender *)
  g_deliv : list (id * rcpt);          (* relay reported delivered *)
  g_fail : list (id * rcpt * bool);    (* failed for good; bool = a bounce naming it was created *)
  g_atts : list att;                   (* every attempt started *)
  g_removed : list id                  (* store.remove executed *)
}.

Definition init : state :=
  mkState [] [] [] [] [] SRun false 0 0 [] [] [] [] [].

(* a fresh Queue object over an existing store (process restart): empty timetable, no greenlets,
   allocation counter and clock wherever the new process finds them *)
Definition start_at (st : store) (nx : id) (c : time) : state :=
  mkState st [] [] [] [] SRun false c nx [] [] [] [] [].

(* ---------- queue helpers ---------- *)
Fixpoint insort (e : time * id) (q : list (time * id)) : list (time * id) :=
  match q with
  | [] => [e]
  | (t, j) :: q' => if fst e <? t then e :: q else (t, j) :: insort e q'
  end.
Definition qids_of (q : list (time * id)) : list id := map snd q.

(* wake.set(): the flag is set; a greenlet blocked in wait() is notified (it will
   resume even if clear() follows) *)
Definition notified (sc : sched) : sched := match sc with SWait _ => SWoken | x => x end.

(* _add_queued *)
Definition add_queued (s : state) (ts : time) (i : id) : state :=
  if mem i (s_qids s) || mem i (s_active s) then s
  else mkState (s_store s) (insort (ts, i) (s_queued s)) (i :: s_qids s) (s_active s) (s_tasks s)
               (notified (s_sched s)) true
               (s_clock s) (s_next s) (g_acc s) (g_deliv s) (g_fail s) (g_atts s) (g_removed s).

(* _remove: spawn store.remove, forget the id *)
Definition q_remove (s : state) (i : id) : state :=
  mkState (s_store s) (s_queued s) (del i (s_qids s)) (del i (s_active s)) (s_tasks s ++ [TRemove i])
          (s_sched s) (s_wake s) (s_clock s) (s_next s) (g_acc s) (g_deliv s) (g_fail s) (g_atts s) (g_removed s).

Definition set_tasks (s : state) (ts : list task) : state :=
  mkState (s_store s) (s_queued s) (s_qids s) (s_active s) ts (s_sched s) (s_wake s) (s_clock s) (s_next s)
          (g_acc s) (g_deliv s) (g_fail s) (g_atts s) (g_removed s).
Definition set_store (s : state) (st : store) : state :=
  mkState st (s_queued s) (s_qids s) (s_active s) (s_tasks s) (s_sched s) (s_wake s) (s_clock s) (s_next s)
          (g_acc s) (g_deliv s) (g_fail s) (g_atts s) (g_removed s).
Definition set_active (s : state) (a : list id) : state :=
  mkState (s_store s) (s_queued s) (s_qids s) a (s_tasks s) (s_sched s) (s_wake s) (s_clock s) (s_next s)
          (g_acc s) (g_deliv s) (g_fail s) (g_atts s) (g_removed s).
Definition log_deliv (s : state) (i : id) (rs : list rcpt) : state :=
  mkState (s_store s) (s_queued s) (s_qids s) (s_active s) (s_tasks s) (s_sched s) (s_wake s) (s_clock s) (s_next s)
          (g_acc s) (map (fun r => (i, r)) rs ++ g_deliv s) (g_fail s) (g_atts s) (g_removed s).
(* _perm_fail(None, env, reply) for the given recipients: a bounce iff the sender is non-empty *)
Definition log_fail (s : state) (i : id) (rs : list rcpt) (bounce : bool) : state :=
  mkState (s_store s) (s_queued s) (s_qids s) (s_active s) (s_tasks s) (s_sched s) (s_wake s) (s_clock s) (s_next s)
          (g_acc s) (g_deliv s) (map (fun r => (i, r, bounce)) rs ++ g_fail s) (g_atts s) (g_removed s).
Definition log_att (s : state) (a : att) : state :=
  mkState (s_store s) (s_queued s) (s_qids s) (s_active s) (s_tasks s) (s_sched s) (s_wake s) (s_clock s) (s_next s)
          (g_acc s) (g_deliv s) (g_fail s) (a :: g_atts s) (g_removed s).

(* take the first task satisfying p out of the list *)
Fixpoint take_task (p : task -> bool) (ts : list task) : option (task * list task) :=
  match ts with
  | [] => None
  | t :: ts' => if p t then Some (t, ts')
                else match take_task p ts' with
                     | Some (x, r) => Some (x, t :: r)
                     | None => None
                     end
  end.

Definition sender_of (s : state) (i : id) : bool :=
  match st_get (s_store s) i with Some m => m_sender m | None => false end.

(* ---------- events ---------- *)
Inductive event :=
| EWrite (sender : bool) (rcpts : list rcpt) (ts : time)
                                               (* enqueue(): the storage write completes (id allocated);
                                                  ts = clock value read when enqueue() was called *)
| EEnqDone (i : id)                            (* enqueue() resumes after the write: active check + spawn *)
| ERelay (i : id) (o : outcome)                (* the relay attempt of i ends with o *)
| EStep (i : id) (b : option N)                (* next storage call of the retry path of i;
                                                  b = what backoff() answers (used at the first step) *)
| EGet (i : id)                                (* _dequeue's store.get completes *)
| ERemove (i : id)                             (* a pending store.remove completes *)
| ETick                                        (* scheduler: _check_ready(now) then _wait_ready *)
| EWakeup                                      (* scheduler returns from wake.wait (set or timed out) *)
| EAdvance (d : N)                             (* time passes *)
| EAnnounce (ts : time) (i : id)               (* load()/wait() hand an entry to _add_queued *)
| EFlush.

Definition is_enq (i : id) (t : task) := match t with TEnq j _ _ => i =? j | _ => false end.
Definition is_attempt (i : id) (t : task) := match t with TAttempt j _ _ _ => i =? j | _ => false end.
Definition is_retry (i : id) (t : task) :=
  match t with TRetry1 j _ _ _ | TRetry2 j _ _ _ | TRetry3 j _ _ _ => i =? j | _ => false end.
Definition is_dequeue (i : id) (t : task) := match t with TDequeue j _ => i =? j | _ => false end.
Definition is_rm (i : id) (t : task) := match t with TRemove j | TPartialRemove j => i =? j | _ => false end.

(* _dispatch: mark active, spawn _dequeue *)
Definition dispatch (s : state) (i : id) (c : cause) : state :=
  if mem i (s_active s) then s
  else set_tasks (set_active s (i :: s_active s)) (s_tasks s ++ [TDequeue i c]).

(* _check_ready(now): dispatch the due prefix of the timetable *)
Fixpoint due_prefix (now : time) (q : list (time * id)) : list (time * id) * list (time * id) :=
  match q with
  | [] => ([], [])
  | (t, i) :: q' => if t <=? now then let '(d, r) := due_prefix now q' in ((t, i) :: d, r) else ([], q)
  end.
Definition set_queue (s : state) (q : list (time * id)) (qi : list id) : state :=
  mkState (s_store s) q qi (s_active s) (s_tasks s) (s_sched s) (s_wake s) (s_clock s) (s_next s)
          (g_acc s) (g_deliv s) (g_fail s) (g_atts s) (g_removed s).
Definition check_ready (s : state) : state :=
  let '(d, r) := due_prefix (s_clock s) (s_queued s) in
  match d with
  | [] => s
  | _ => let s1 := fold_left (fun s e => dispatch s (snd e) (CTimer (fst e))) d s in
         set_queue s1 r (qids_of r)
  end.
Definition set_sched (s : state) (sc : sched) (w : bool) : state :=
  mkState (s_store s) (s_queued s) (s_qids s) (s_active s) (s_tasks s) sc w (s_clock s) (s_next s)
          (g_acc s) (g_deliv s) (g_fail s) (g_atts s) (g_removed s).
(* _wait_ready(now) *)
Definition wait_ready (s : state) : state :=
  match s_queued s with
  | [] => if s_wake s then set_sched s SRun false else set_sched s (SWait None) false
  | (t, _) :: _ =>
      if s_clock s <? t then
        (if s_wake s then set_sched s SRun false else set_sched s (SWait (Some t)) false)
      else s
  end.

Definition step (s : state) (e : event) : state :=
  match e with
  | EWrite sender rcpts ts =>
      let i := s_next s in
      let s1 := mkState ((i, mkMsg sender rcpts 0 ts) :: s_store s) (s_queued s) (s_qids s) (s_active s)
                        (s_tasks s ++ [TEnq i sender rcpts]) (s_sched s) (s_wake s) (s_clock s) (i + 1)
                        (map (fun r => (i, r, sender)) rcpts ++ g_acc s) (g_deliv s) (g_fail s) (g_atts s) (g_removed s) in
      s1
  | EEnqDone i =>
      match take_task (is_enq i) (s_tasks s) with
      | Some (TEnq _ snd rcpts, rest) =>
          let s1 := set_tasks s rest in
          if mem i (s_active s1) then s1
          else log_att (set_tasks (set_active s1 (i :: s_active s1)) (rest ++ [TAttempt i snd rcpts 0]))
                       (mkAtt i rcpts 0 (s_clock s) CEnqueue)
      | _ => s
      end
  | ERelay i o =>
      match take_task (is_attempt i) (s_tasks s) with
      | Some (TAttempt _ snd rcpts n, rest) =>
          let s1 := set_tasks s rest in
          match o with
          | OWholeOk => q_remove (log_deliv s1 i rcpts) i
          | OWholeTemp | OWholeOther => set_tasks s1 (rest ++ [TRetry1 i snd rcpts None])
          | OWholePerm => q_remove (log_fail s1 i rcpts snd) i
          | OPartial res =>
              let s2 := log_fail (log_deliv s1 i (pick is_ok rcpts res)) i (pick is_perm rcpts res) snd in
              match pick is_temp rcpts res with
              | [] => set_tasks s2 (rest ++ [TPartialRemove i])
              | temps => set_tasks s2 (rest ++ [TRetry1 i snd temps (Some (rcpts, res))])
              end
          end
      | _ => s
      end
  | EStep i b =>
      match take_task (is_retry i) (s_tasks s) with
      | Some (_, rest) =>
          match st_get (s_store s) i with
          | None => set_tasks s rest     (* the storage call fails (message gone): the greenlet dies *)
          | Some _ =>
      match take_task (is_retry i) (s_tasks s) with
      | Some (TRetry1 _ snd rcpts dl, rest) =>
          (* increment_attempts, then backoff *)
          let s1 := set_store (set_tasks s rest) (st_upd (s_store s) i (fun m => mkMsg (m_sender m) (m_rcpts m) (m_attempts m + 1) (m_ts m))) in
          match b with
          | None => q_remove (log_fail s1 i rcpts snd) i
          | Some w => set_tasks s1 (rest ++ [TRetry2 i rcpts dl (s_clock s + w)])
          end
      | Some (TRetry2 _ rcpts dl when, rest) =>
          (* set_timestamp *)
          let s1 := set_store (set_tasks s rest) (st_upd (s_store s) i (fun m => mkMsg (m_sender m) (m_rcpts m) (m_attempts m) when)) in
          match dl with
          | Some (all, res) => set_tasks s1 (rest ++ [TRetry3 i all res when])
          | None => add_queued (set_active s1 (del i (s_active s1))) when i
          end
      | Some (TRetry3 _ _ res when, rest) =>
          (* set_recipients_delivered, then the re-queue *)
          let s1 := set_store (set_tasks s rest) (st_upd (s_store s) i (fun m => mkMsg (m_sender m) (unsettled (m_rcpts m) res) (m_attempts m) (m_ts m))) in
          add_queued (set_active s1 (del i (s_active s1))) when i
      | _ => s
      end
          end
      | None => s
      end
  | EGet i =>
      match take_task (is_dequeue i) (s_tasks s) with
      | Some (TDequeue _ c, rest) =>
          let s1 := set_tasks s rest in
          match st_get (s_store s) i with
          | None => set_active s1 (del i (s_active s1))
          | Some m => log_att (set_tasks s1 (rest ++ [TAttempt i (m_sender m) (m_rcpts m) (m_attempts m)]))
                              (mkAtt i (m_rcpts m) (m_attempts m) (s_clock s) c)
          end
      | _ => s
      end
  | ERemove i =>
      match take_task (is_rm i) (s_tasks s) with
      | Some (_, rest) =>
          mkState (st_del (s_store s) i) (s_queued s) (s_qids s) (s_active s) rest (s_sched s) (s_wake s)
                  (s_clock s) (s_next s) (g_acc s) (g_deliv s) (g_fail s) (g_atts s) (i :: g_removed s)
      | None => s
      end
  | ETick =>
      match s_sched s with
      | SRun => wait_ready (check_ready s)
      | _ => s
      end
  | EWakeup =>
      (* wait() returns (notified, or its timeout expired), then wake.clear() *)
      match s_sched s with
      | SWoken => set_sched s SRun false
      | SWait (Some t) => if t <=? s_clock s then set_sched s SRun false else s
      | _ => s
      end
  | EAdvance d =>
      mkState (s_store s) (s_queued s) (s_qids s) (s_active s) (s_tasks s) (s_sched s) (s_wake s) (s_clock s + d)
              (s_next s) (g_acc s) (g_deliv s) (g_fail s) (g_atts s) (g_removed s)
  | EAnnounce ts i => add_queued s ts i
  | EFlush =>
      (* wake.set(); wake.clear(): a waiting scheduler is woken, the flag ends cleared *)
      let s0 := set_sched s (notified (s_sched s)) false in
      let s1 := fold_left (fun s e => dispatch s (snd e) CFlush) (s_queued s0) s0 in
      set_queue s1 [] []
  end.

Definition run (es : list event) (s : state) : state := fold_left step es s.
