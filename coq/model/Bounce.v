(* C13.  Model of
     slimta/util/bytesformat.py   BytesFormat._parse_template / _format (mode='remove')
     slimta/bounce/__init__.py    Bounce.__init__ / _get_delivery_info /
                                  _get_substitution_table / _build_message
     slimta/envelope/__init__.py  Envelope.parse: the _HEADER_BOUNDARY split
     slimta/queue/__init__.py     Queue._split_by_reply, _perm_fail, _retry_later,
                                  _attempt, _handle_partial_relay, _bounce
   and of an abstract run (a list of failure events on messages) used to state
   "bounces never loop".  Definitions only.
   text = list of code points (Python str); bytes = list of N (< 256).
   The original message's flattened header block and body are opaque byte
   strings (what Envelope.flatten() returns). *)
From Coq Require Import List NArith Bool String Ascii.
From SV Require Import lib.Val lib.Bytes model.Reply.
Import ListNotations.
Open Scope N_scope.

Definition text := list N.

(* Coq string literal -> bytes (all literals below are ASCII) *)
Fixpoint bs (s : string) : bytes :=
  match s with
  | EmptyString => []
  | String a s' => N_of_ascii a :: bs s'
  end.

Definition obind {A B} (o : option A) (f : A -> option B) : option B :=
  match o with Some a => f a | None => None end.

Definition is_nil {A} (l : list A) : bool := match l with [] => true | _ => false end.

(* ---------------------------------------------------------------- encoders *)
(* str.encode('utf-8'): raises on surrogates *)
Definition enc_utf8 (t : text) : option bytes :=
  if forallb valid_cp t then Some (utf8_enc t) else None.
(* str.encode('ascii'): raises on anything >= 128 *)
Definition enc_ascii (t : text) : option bytes :=
  if forallb (fun c => c <? 128) t then Some t else None.

(* decimal digits of n; the fuel (number of bits + 1) is never exhausted *)
Fixpoint dec_acc (fuel : nat) (n : N) (acc : bytes) : bytes :=
  match fuel with
  | O => acc
  | S f =>
      let acc' := (48 + n mod 10) :: acc in
      if n / 10 =? 0 then acc' else dec_acc f (n / 10) acc'
  end.
Definition dec_of (n : N) : bytes := dec_acc (S (N.size_nat n)) n [].

(* str.encode('ascii', 'xmlcharrefreplace') *)
Definition xmlref1 (c : N) : bytes :=
  if c <? 128 then [c] else [38; 35] ++ dec_of c ++ [59].
Definition enc_xmlref (t : text) : bytes := flat_map xmlref1 t.

(* ---------------------------------------------------------------- BytesFormat *)
(* bytes-pattern \w *)
Definition is_word (b : N) : bool := is_alpha b || is_digit b || (b =? 95).

Inductive part := PLit (b : bytes) | PKey (k : bytes).

Definition emit_lit (lit : bytes) (ps : list part) : list part :=
  match lit with [] => ps | _ => PLit lit :: ps end.

(* BytesFormat._parse_template: re.finditer(br'\{(\w+)\}', template).
   lit = literal collected since the last match; br = Some w when "{w" has
   been read and w consists of \w characters only (a match is possible). *)
Fixpoint scan_tpl (s : bytes) (lit : bytes) (br : option bytes) : list part :=
  match s with
  | [] =>
      match br with
      | None => emit_lit lit []
      | Some w => emit_lit (lit ++ 123 :: w) []
      end
  | c :: s' =>
      match br with
      | None =>
          if c =? 123 then scan_tpl s' lit (Some []) else scan_tpl s' (lit ++ [c]) None
      | Some w =>
          if is_word c then scan_tpl s' lit (Some (w ++ [c]))
          else if (c =? 125) && negb (is_nil w) then emit_lit lit (PKey w :: scan_tpl s' [] None)
          else if c =? 123 then scan_tpl s' (lit ++ 123 :: w) (Some [])
          else scan_tpl s' (lit ++ 123 :: w ++ [c]) None
      end
  end.
Definition parse_template (t : bytes) : list part := scan_tpl t [] None.

(* keyword arguments of format(): value None = the value cannot be turned
   into bytes (bytes(v) and v.encode('utf-8') both raise) *)
Definition table := list (bytes * option bytes).

Fixpoint lookup (k : bytes) (t : table) : option (option bytes) :=
  match t with
  | [] => None
  | (k0, v) :: t' => if beqb k0 k then Some v else lookup k t'
  end.

(* BytesFormat._format, mode='remove'.  None = an exception escapes. *)
Fixpoint fmt (ps : list part) (t : table) : option bytes :=
  match ps with
  | [] => Some []
  | PLit b :: ps' => option_map (app b) (fmt ps' t)
  | PKey k :: ps' =>
      match lookup k t with
      | None => fmt ps' t                      (* KeyError/IndexError: removed *)
      | Some None => None
      | Some (Some v) => option_map (app v) (fmt ps' t)
      end
  end.

(* ---------------------------------------------------------------- templates *)
Definition crlf_lines (ls : list string) : bytes := List.concat (map (fun l => bs l ++ CRLF) ls).

(* slimta.bounce.default_header_template (after re.sub(br'\r?\n', br'\r\n')) *)
Definition default_header_bytes : bytes := crlf_lines
  [ "From: MAILER-DAEMON";
    "To: {sender}";
    "Subject: Undelivered Mail Returned to Sender";
    "Auto-Submitted: auto-replied";
    "MIME-Version: 1.0";
    "Content-Type: multipart/report; report-type=delivery-status;";
    "    boundary=""{boundary}""";
    "Content-Transfer-Encoding: 7bit";
    "";
    "This is a multi-part message in MIME format.";
    "";
    "--{boundary}";
    "Content-Type: text/plain";
    "";
    "Delivery failed for:";
    "- {recipients}";
    "";
    "Destination host responded:";
    "{code} {message}";
    "";
    "--{boundary}";
    "Content-Type: message/delivery-status";
    "";
    "{delivery_info}";
    "";
    "--{boundary}";
    "Content-Type: {content_type}";
    "" ]%string.
(* slimta.bounce.default_footer_template *)
Definition default_footer_bytes : bytes := crlf_lines [ ""; "--{boundary}--" ]%string.

Definition default_hp : list part := parse_template default_header_bytes.
Definition default_fp : list part := parse_template default_footer_bytes.

(* ---------------------------------------------------------------- envelopes, replies *)
(* Envelope.client as far as Bounce reads it: truthiness of the dict and the
   keys name / ip / protocol (None = key absent) *)
Record client := mkClient {
  cl_nonempty : bool; cl_name : option text; cl_ip : option text; cl_proto : option text }.

Record menv := mkEnv {
  e_sender : text;            (* '' and None are both [] *)
  e_rcpts : list text;
  e_hdr : bytes;              (* flatten()[0] *)
  e_body : bytes;             (* flatten()[1] *)
  e_client : client }.

Definition with_rcpts (e : menv) (l : list text) : menv :=
  mkEnv (e_sender e) l (e_hdr e) (e_body e) (e_client e).

(* A failure Reply object: code/esc/raw message as in model/Reply.v;
   fr_none = the raw message is None (D24); fr_addr = reply.address reduced to
   the host (address[0] for tuples; None/'' = no host) *)
Record freply := mkF { fr : reply; fr_none : bool; fr_addr : option text }.

(* reply.message *)
Definition msg_opt (r : freply) : option text :=
  if fr_none r then None else Some (get_message (fr r)).

Definition otext_eqb (a b : option text) : bool :=
  match a, b with
  | None, None => true
  | Some x, Some y => list_N_eqb x y
  | _, _ => false
  end.

(* Reply.__eq__ : self.code == other.code and self.message == other.message *)
Definition freply_eqb (a b : freply) : bool :=
  list_N_eqb (r_code (fr a)) (r_code (fr b)) && otext_eqb (msg_opt a) (msg_opt b).

(* ---------------------------------------------------------------- Bounce rendering *)
Definition unknown : text := bs "unknown".
Definition or_unknown (o : option text) : text := match o with Some t => t | None => unknown end.

(* bytes(reply) = Reply.__bytes__ *)
Definition reply_bytes (r : freply) : option bytes :=
  obind (enc_ascii (r_code (fr r))) (fun c =>
  obind (msg_opt r) (fun m =>
  obind (enc_utf8 m) (fun mb => Some (c ++ 32 :: mb)))).

(* Bounce._get_delivery_info (reply.code is never None here: `if reply:` holds) *)
Definition delivery_info (e : menv) (r : freply) : option bytes :=
  let c := e_client e in
  obind (if cl_nonempty c then
           obind (enc_utf8 (or_unknown (cl_name c))) (fun n =>
           obind (enc_utf8 (or_unknown (cl_ip c))) (fun i =>
             Some [bs "Received-From-MTA: dns; " ++ n ++ bs " (" ++ i ++ bs ")"]))
         else Some []) (fun p1 =>
  obind (match fr_addr r with
         | Some (h0 :: h) => obind (enc_utf8 (h0 :: h)) (fun hb => Some [bs "Remote-MTA: dns; " ++ hb])
         | _ => Some []
         end) (fun p2 =>
  obind (reply_bytes r) (fun rb =>
    Some (join CRLF (p1 ++ p2 ++ [bs "Diagnostic-Code: smtp; " ++ rb]))))).

Definition rcpt_join : text := [13; 10; 45; 32].          (* Bounce.recipient_join = '\r\n- ' *)

(* Bounce._get_substitution_table; uuid = uuid.uuid4().hex *)
Definition sub_table (e : menv) (r : freply) (ho : bool) (uuid : bytes) (di : bytes) : table :=
  let c := e_client e in
  [ (bs "boundary", Some (bs "boundary_=" ++ uuid));
    (bs "sender", enc_utf8 (e_sender e));
    (bs "recipients", Some (enc_xmlref (join rcpt_join (e_rcpts e))));
    (bs "delivery_info", Some di);
    (bs "client_name", enc_utf8 (or_unknown (cl_name c)));
    (bs "client_ip", enc_utf8 (or_unknown (cl_ip c)));
    (bs "protocol", enc_utf8 (or_unknown (cl_proto c)));
    (bs "content_type", Some (if ho then bs "text/rfc822-headers" else bs "message/rfc822"));
    (bs "code", enc_utf8 (r_code (fr r)));
    (bs "message", obind (msg_opt r) enc_utf8) ].

(* Bounce._build_message up to the payload handed to self.parse(); None = raises *)
Definition render (hp fp : list part) (e : menv) (r : freply) (ho : bool) (uuid : bytes) : option bytes :=
  obind (delivery_info e r) (fun di =>
  let t := sub_table e r ho uuid di in
  obind (fmt hp t) (fun h =>
  obind (fmt fp t) (fun f =>
    Some (h ++ e_hdr e ++ (if ho then [] else e_body e) ++ f)))).

(* Envelope.parse: re.search(br'\r?\n\s*?\n', data) -> (data[:end], data[end:]) *)
Fixpoint skip_to_lf (s : bytes) : option (bytes * bytes) :=
  match s with
  | [] => None
  | b :: s' =>
      if b =? 10 then Some ([b], s')
      else if is_ws b then
        match skip_to_lf s' with Some (c, r) => Some (b :: c, r) | None => None end
      else None
  end.

Definition pre2 (p : bytes) (o : option (bytes * bytes)) : option (bytes * bytes) :=
  match o with Some (c, r) => Some (p ++ c, r) | None => None end.

(* a match starting exactly here *)
Definition hb_here (s : bytes) : option (bytes * bytes) :=
  match s with
  | b :: s' =>
      if b =? 10 then pre2 [b] (skip_to_lf s')
      else if b =? 13 then
        match s' with
        | b2 :: s'' => if b2 =? 10 then pre2 [b; b2] (skip_to_lf s'') else None
        | [] => None
        end
      else None
  | [] => None
  end.

Fixpoint hb_split (s : bytes) : option (bytes * bytes) :=
  match s with
  | [] => None
  | b :: s' =>
      match hb_here s with
      | Some hm => Some hm
      | None => pre2 [b] (hb_split s')
      end
  end.

Definition env_split (data : bytes) : bytes * bytes :=
  match hb_split data with Some hm => hm | None => (data, []) end.

(* The Bounce envelope.  b_hdr is the raw header text handed to the `email`
   parser (Python regenerates it on flatten(): trusted, see C20); b_msg is
   Envelope.message. *)
Record bounce := mkB { b_sender : text; b_rcpts : list text; b_hdr : bytes; b_msg : bytes }.

(* Bounce(envelope, reply, headers_only) with the class templates hp/fp *)
Definition bounce_new (hp fp : list part) (e : menv) (r : freply) (ho : bool) (uuid : bytes)
  : option bounce :=
  match render hp fp e r ho uuid with
  | None => None
  | Some p => let '(h, m) := env_split p in Some (mkB [] [e_sender e] h m)
  end.

(* ---------------------------------------------------------------- Queue: grouping *)
(* Queue._split_by_reply for a sequence of replies: fails = zip(recipients, replies).
   A group = (first reply of its class, its recipients). *)
Fixpoint add_group (gs : list (freply * list text)) (r : freply) (rc : text)
  : list (freply * list text) :=
  match gs with
  | [] => [(r, [rc])]
  | (r0, l) :: gs' =>
      if freply_eqb r r0 then (r0, l ++ [rc]) :: gs' else (r0, l) :: add_group gs' r rc
  end.

Definition split_by_reply (fails : list (text * freply)) : list (freply * list text) :=
  fold_left (fun gs p => add_group gs (snd p) (fst p)) fails [].

Section QueueModel.
  Variable udigit : N -> bool.
  Variable uspace : N -> bool.

  Definition too_many : text := bs " (Too many retries)".

  (* reply.message += ' (Too many retries)'  (getter, +, setter); None + str raises *)
  Definition add_suffix (r : freply) : option freply :=
    if fr_none r then None
    else Some (mkF (set_message udigit uspace (fr r) (get_message (fr r) ++ too_many)) false (fr_addr r)).

  (* Reply('450', '4.0.0 Unhandled delivery error: '+str(e)) *)
  Definition unhandled_reply (m : text) : freply :=
    mkF (new_reply udigit uspace (bs "450") (bs "4.0.0 Unhandled delivery error: " ++ m)) false None.

  (* per-recipient relay result *)
  Inductive rres := RROk | RRPerm (r : freply) | RRTemp (r : freply) | RROther.

  (* what relay._attempt did *)
  Inductive outcome :=
  | OOk                                   (* returned None / a Reply / anything not Mapping or Sequence *)
  | OPerm (r : freply)                    (* raised PermanentRelayError *)
  | OTemp (r : freply)                    (* raised TransientRelayError *)
  | OOther (m : text)                     (* raised something else; m = str(e) *)
  | OMap (items : list (text * rres))     (* returned a Mapping; items() in order *)
  | OSeq (rs : list rres).                (* returned a Sequence *)

  Inductive action :=
  | ARemove                               (* self._remove(id) *)
  | AStoreRemove                          (* self.store.remove(id) *)
  | AIncr                                 (* store.increment_attempts + backoff() *)
  | ARequeue (w : N)                      (* set_timestamp(now + w), _add_queued *)
  | ASetDelivered (ix : list N)           (* store.set_recipients_delivered(id, set) sorted *)
  | ABounce (e : menv) (r : freply)       (* _pool_spawn('bounce', self._bounce, envelope, reply) *)
  | ACrash.                               (* an exception ends the greenlet here *)

  (* Queue._perm_fail; with_id = (id is not None) *)
  Definition perm_fail (with_id : bool) (e : menv) (r : freply) : list action :=
    (if with_id then [ARemove] else []) ++
    (if is_nil (e_sender e) then [] else [ABounce e r]).

  (* the loop of _retry_later when backoff returned None *)
  Fixpoint exhaust (groups : list (freply * menv)) : list action :=
    match groups with
    | [] => [ARemove]
    | (r, ge) :: gs =>
        match add_suffix r with
        | None => [ACrash]
        | Some r' => perm_fail false ge r' ++ exhaust gs
        end
    end.

  (* Queue._retry_later; bo = what backoff(envelope, attempts) returned;
     delivered = the optional `delivered` argument (marks are stored after
     set_timestamp and before _add_queued; ARequeue stands for both of those) *)
  Definition retry_later (groups : list (freply * menv)) (bo : option N)
             (delivered : option (list N)) : list action * bool :=
    match bo with
    | None => (AIncr :: exhaust groups, false)
    | Some w =>
        (AIncr :: ARequeue w :: match delivered with Some d => [ASetDelivered d] | None => [] end, true)
    end.

  Definition group_envs (e : menv) (fails : list (text * freply)) : list (freply * menv) :=
    map (fun g => (fst g, with_rcpts e (snd g))) (split_by_reply fails).

  Fixpoint index_of (rc : text) (l : list text) (k : N) : option N :=
    match l with
    | [] => None
    | x :: l' => if list_N_eqb x rc then Some k else index_of rc l' (k + 1)
    end.

  Fixpoint set_add (x : N) (s : list N) : list N :=
    match s with
    | [] => [x]
    | y :: s' => if x <? y then x :: s else if x =? y then s else y :: set_add x s'
    end.

  (* the classification loop of _handle_partial_relay; None = list.index raised ValueError *)
  Fixpoint classify (rcpts : list text) (items : list (text * rres))
           (dl : list N) (tf pf : list (text * freply))
    : option (list N * list (text * freply) * list (text * freply)) :=
    match items with
    | [] => Some (dl, tf, pf)
    | (rc, res) :: items' =>
        match res with
        | RROk =>
            match index_of rc rcpts 0 with
            | Some i => classify rcpts items' (set_add i dl) tf pf
            | None => None
            end
        | RRPerm r =>
            match index_of rc rcpts 0 with
            | Some i => classify rcpts items' (set_add i dl) tf (pf ++ [(rc, r)])
            | None => None
            end
        | RRTemp r => classify rcpts items' dl (tf ++ [(rc, r)]) pf
        | RROther => classify rcpts items' dl tf pf
        end
    end.

  (* Queue._handle_partial_relay *)
  Definition partial (e : menv) (items : list (text * rres)) (bo : option N) : list action :=
    match classify (e_rcpts e) items [] [] [] with
    | None => [ACrash]
    | Some (dl, tf, pf) =>
        let a1 := flat_map (fun g => perm_fail false (snd g) (fst g)) (group_envs e pf) in
        match tf with
        | [] => a1 ++ [AStoreRemove]
        | _ => a1 ++ fst (retry_later (group_envs e tf) bo (Some dl))
        end
    end.

  (* {rcpt: res for rcpt, res in zip(envelope.recipients, results)} *)
  Fixpoint dict_set (d : list (text * rres)) (k : text) (v : rres) : list (text * rres) :=
    match d with
    | [] => [(k, v)]
    | (k0, v0) :: d' => if list_N_eqb k0 k then (k0, v) :: d' else (k0, v0) :: dict_set d' k v
    end.
  Fixpoint zip_dict (ks : list text) (vs : list rres) (d : list (text * rres)) : list (text * rres) :=
    match ks, vs with
    | k :: ks', v :: vs' => zip_dict ks' vs' (dict_set d k v)
    | _, _ => d
    end.

  (* Queue._attempt after relay._attempt returned/raised, including the spawned
     _retry_later; e = the envelope attempted *)
  Definition dispatch (e : menv) (o : outcome) (bo : option N) : list action :=
    match o with
    | OOk => [ARemove]
    | OPerm r => perm_fail true e r
    | OTemp r => fst (retry_later [(r, e)] bo None)
    | OOther m => fst (retry_later [(unhandled_reply m, e)] bo None)
    | OMap items => partial e items bo
    | OSeq rs => partial e (zip_dict (e_rcpts e) rs []) bo
    end.

  (* ---------------------------------------------------------------- abstract run *)
  (* bounce_factory(envelope, reply) with a fresh uuid *)
  Inductive fres := FNone | FRaise | FSome (b : bounce).
  Definition factory := menv -> freply -> bytes -> fres.

  Definition default_factory (ho : bool) : factory :=
    fun e r uuid =>
      match bounce_new default_hp default_fp e r ho uuid with
      | Some b => FSome b
      | None => FRaise
      end.

  (* Bounce.client *)
  Definition bounce_client : client :=
    mkClient true (Some (bs "postmaster")) (Some (bs "127.0.0.1")) None.
  Definition env_of_bounce (b : bounce) : menv :=
    mkEnv (b_sender b) (b_rcpts b) (b_hdr b) (b_msg b) bounce_client.

  Record cfg := mkCfg {
    c_factory : factory;
    c_sepq : bool }.              (* bounce_queue is a separate queue *)

  (* a message that exists in some queue's store *)
  Record msg := mkMsg { m_env : menv; m_parent : option N; m_q : bool }.

  Inductive tact :=
  | TDispatch (i : N) (acts : list action)
  | TFactoryNone (i : N)
  | TFactoryRaise (i : N)
  | TEnqueue (q : bool) (e : menv) (parent : option N) (ok : bool)   (* queue.enqueue(envelope) called; ok = it returned an id *)
  | TWrite (q : bool) (idx : N).                                     (* store.write + spawn of the first attempt *)

  Record state := mkSt { msgs : list msg; trace : list tact }.

  (* Queue.enqueue (no policies, see report) *)
  Definition enqueue (st : state) (q : bool) (e : menv) (parent : option N) (ok : bool) : state :=
    if ok then
      mkSt (msgs st ++ [mkMsg e parent q])
           (trace st ++ [TEnqueue q e parent true; TWrite q (N.of_nat (List.length (msgs st)))])
    else mkSt (msgs st) (trace st ++ [TEnqueue q e parent false]).

  (* the _bounce greenlets of one dispatch, in spawn order (Queue._bounce:
     factory, then bounce_queue.enqueue).  chs = for every bounce that gets
     built: (its uuid, does enqueue return an id); a choice is consumed only
     when the factory returned a bounce. *)
  Definition default_choice : bytes * bool := ([], true).

  Fixpoint run_bounces (c : cfg) (st : state) (i : N) (acts : list action)
           (chs : list (bytes * bool)) : state :=
    match acts with
    | [] => st
    | ABounce e r :: acts' =>
        match c_factory c e r (fst (hd default_choice chs)) with
        | FNone => run_bounces c (mkSt (msgs st) (trace st ++ [TFactoryNone i])) i acts' chs
        | FRaise => run_bounces c (mkSt (msgs st) (trace st ++ [TFactoryRaise i])) i acts' chs
        | FSome b =>
            run_bounces c (enqueue st (c_sepq c) (env_of_bounce b) (Some i) (snd (hd default_choice chs)))
                        i acts' (tl chs)
        end
    | _ :: acts' => run_bounces c st i acts' chs
    end.

  (* one relay attempt of message i with the recipients rcpts, its outcome,
     what backoff would answer, the choices for the bounces *)
  Record event := mkEv {
    ev_msg : N; ev_rcpts : list text; ev_out : outcome; ev_bo : option N;
    ev_ch : list (bytes * bool) }.

  Definition step (c : cfg) (st : state) (ev : event) : state :=
    match nth_error (msgs st) (N.to_nat (ev_msg ev)) with
    | None => st
    | Some m =>
        let acts := dispatch (with_rcpts (m_env m) (ev_rcpts ev)) (ev_out ev) (ev_bo ev) in
        run_bounces c (mkSt (msgs st) (trace st ++ [TDispatch (ev_msg ev) acts]))
                    (ev_msg ev) acts (ev_ch ev)
    end.

  Definition init (origs : list menv) : state :=
    fold_left (fun st e => enqueue st false e None true) origs (mkSt [] []).

  Definition run_events (c : cfg) (origs : list menv) (evs : list event) : state :=
    fold_left (step c) evs (init origs).
End QueueModel.
