(* Model of one relay hop (property C06): what the relay clients put on the wire
   for an envelope and what the library's own edges make of it.  Definitions
   only; proofs are in proof/Hop_lemmas.v, statements in prop/C06.v.

   Mirrors, function by function (Python names in the comments):
     slimta/smtp/extensions.py   Extensions.add / __contains__ / build_string / parse_string
     slimta/smtp/io.py           IO.send_command / recv_line / recv_command
     slimta/smtp/client.py       Client._encode / _xtext / mailfrom / rcptto
     slimta/smtp/server.py       from_pattern / to_pattern / find_outside_quotes /
                                 Server._gather_params / the address part of _command_MAIL, _command_RCPT
     slimta/relay/http.py        HttpRelayClient._b64encode / _build_headers / _parse_smtp_reply_header
     slimta/edge/wsgi.py         WsgiEdge._b64decode / _get_sender / _get_recipients / _build_http_response
     base64.b64encode / binascii.a2b_base64 (non-strict), written out in Gallina
   and composes them with the DATA framing of model/Data.v (C05), the envelope
   parser of model/Envelope.v (C20) and the reply codec of model/Reply.v (C17).

   find_outside_quotes is modelled AFTER the repair of defect D16
   (/verif/fixes/d16-quoted-pair-in-address.diff): inside a quoted string a
   backslash escapes the next byte.  The unrepaired scanner is kept as
   find_gt_d16 for the theorem that shows what the repair is needed for.

   Conventions: str = list of code points, bytes = list of byte values, both
   `list N`; `nat` only for fuel. *)
From Coq Require Import List NArith Bool Arith.
From SV Require Import lib.Bytes gen.UnicodeTables.
From SV Require model.Reply model.Data model.Envelope.
Import ListNotations.
Open Scope N_scope.

Definition text := list N.

(* ====================================================================== *)
(* 0.  small list helpers                                                  *)
(* ====================================================================== *)

Fixpoint drop_while (p : N -> bool) (s : list N) : list N :=
  match s with
  | c :: s' => if p c then drop_while p s' else s
  | [] => []
  end.

(* longest prefix satisfying p, and the rest *)
Fixpoint span (p : N -> bool) (s : list N) : list N * list N :=
  match s with
  | c :: s' => if p c then let '(a, r) := span p s' in (c :: a, r) else ([], s)
  | [] => ([], [])
  end.

(* s.rstrip(<class>) *)
Definition rstrip (p : N -> bool) (s : list N) : list N := rev (drop_while p (rev s)).

Fixpoint last_or (d : N) (l : list N) : N :=
  match l with [] => d | x :: l' => last_or x l' end.

Definition is_alnum (c : N) : bool := is_alpha c || is_digit c.
(* [a-zA-Z0-9-] *)
Definition is_kwchar (c : N) : bool := is_alnum c || (c =? 45).
Definition upper (s : list N) : list N := map to_upper s.
Definition is_ascii_text (t : text) : bool := forallb (fun c => c <? 128) t.

(* ====================================================================== *)
(* 1.  Extensions                                                          *)
(* ====================================================================== *)

(* self.extensions : dict (insertion ordered) upper-cased name -> parameter.
   The parameter is modelled by its str(); None and '' are both "falsy". *)
Definition exts := list (text * option text).

Fixpoint ext_get (k : text) (e : exts) : option (option text) :=
  match e with
  | [] => None
  | (k', v) :: e' => if beqb k' k then Some v else ext_get k e'
  end.
(* Extensions.__contains__ (k already upper case) *)
Definition ext_mem (k : text) (e : exts) : bool :=
  match ext_get k e with Some _ => true | None => false end.
(* Extensions.add: dict assignment keeps the position of an existing key *)
Fixpoint ext_add (k : text) (v : option text) (e : exts) : exts :=
  match e with
  | [] => [(k, v)]
  | (k', v') :: e' => if beqb k' k then (k, v) :: e' else (k', v') :: ext_add k v e'
  end.

Definition X_SIZE : text := [83; 73; 90; 69].
Definition X_AUTH : text := [65; 85; 84; 72].
Definition X_SMTPUTF8 : text := [83; 77; 84; 80; 85; 84; 70; 56].
Definition X_8BITMIME : text := [56; 66; 73; 84; 77; 73; 77; 69].
Definition X_PIPELINING : text := [80; 73; 80; 69; 76; 73; 78; 73; 78; 71].

(* Extensions.build_string: `if v:` -> "K V" else "K"; '\r\n'.join *)
Definition ext_line (kv : text * option text) : text :=
  match snd kv with
  | Some (c :: v) => fst kv ++ [32] ++ c :: v
  | _ => fst kv
  end.
Definition build_string (header : text) (e : exts) : text :=
  join CRLF (header :: map ext_line e).

(* parse_pattern = ^ \s* ([a-zA-Z0-9][a-zA-Z0-9-]* ) \s* (.*? ) \s* $  on one line
   (str pattern: \s is Unicode white space, the table of gen/UnicodeTables.v) *)
Definition parse_ext_line (l : text) : option (text * text) :=
  let s1 := drop_while uspace l in
  match s1 with
  | c :: _ =>
      if is_alnum c then
        let '(name, r) := span is_kwchar s1 in
        Some (name, rstrip uspace (drop_while uspace r))
      else None
  | [] => None
  end.

(* one iteration of the `for match in line_pattern.finditer(string)` loop;
   state = (header, extensions); `if not header` is true for None and '' *)
Definition ps_step (st : option text * exts) (l : text) : option text * exts :=
  match fst st with
  | Some (_ :: _) =>
      match parse_ext_line l with
      | Some (name, arg) =>
          (fst st, ext_add (upper name) (match arg with [] => None | _ :: _ => Some arg end) (snd st))
      | None => st
      end
  | _ => (Some l, snd st)
  end.

Definition is_crlf_char (c : N) : bool := (c =? 13) || (c =? 10).

(* Extensions.parse_string on an object holding e0: (returned header, extensions).
   line_pattern = (.*?)\r?\n : split at LF, one CR dropped. *)
Definition parse_string (e0 : exts) (s : text) : text * exts :=
  let s' := s ++ CRLF in
  let st := fold_left ps_step (map strip_cr (fst (split_lf s'))) (None, e0) in
  (match fst st with
   | Some (c :: h) => c :: h
   | _ => rstrip is_crlf_char s'
   end, snd st).

(* ====================================================================== *)
(* 2.  Command lines (IO)                                                  *)
(* ====================================================================== *)

(* IO.send_command *)
Definition send_command (c : bytes) : bytes := c ++ CRLF.

(* IO.recv_line on a stream that is completely there: (line, rest); None = no
   complete line (the code would go on reading) *)
Definition recv_line (stream : bytes) : option (bytes * bytes) :=
  match take_line stream with
  | Some (raw, rest) => Some (strip_cr raw, rest)
  | None => None
  end.

(* IO.recv_command on one line:
   command_pattern     = ^([a-zA-Z]+) \s* $
   command_arg_pattern = ^([a-zA-Z]+) \s+ (.+?) \s* $ *)
Inductive cmd_res : Type :=
| CmdNone                                     (* (None, None) *)
| Cmd (name : bytes) (arg : option bytes).

Definition parse_command (line : bytes) : cmd_res :=
  let '(name, r) := span is_alpha line in
  match name with
  | [] => CmdNone
  | _ :: _ =>
      match r with
      | [] => Cmd (upper name) None
      | c :: _ =>
          if is_ws c then
            match drop_while is_ws r with
            | [] => Cmd (upper name) None
            | a :: ar => Cmd (upper name) (Some (rstrip is_ws (a :: ar)))
            end
          else CmdNone
      end
  end.

(* ====================================================================== *)
(* 3.  Client: MAIL / RCPT command construction                            *)
(* ====================================================================== *)

(* Client._encode: utf-8 if SMTPUTF8 was advertised, else ascii; None =
   UnicodeEncodeError *)
Definition encode (utf8 : bool) (t : text) : option bytes :=
  if utf8 then (if forallb Reply.valid_cp t then Some (Reply.utf8_enc t) else None)
  else (if is_ascii_text t then Some t else None).

(* str(n) for n >= 0 *)
Fixpoint dec_loop (fuel : nat) (n : N) (acc : bytes) : bytes :=
  match fuel with
  | O => acc
  | S f =>
      let acc' := (48 + n mod 10) :: acc in
      if n <? 10 then acc' else dec_loop f (n / 10) acc'
  end.
Definition dec_of_N (n : N) : bytes := dec_loop (S (N.to_nat (N.size n))) n [].

(* xtext_pattern = [^\x21-\x2A\x2C-\x3C\x3E-\x7E] -> b'+' + HEX *)
Definition xtext_plain (b : N) : bool :=
  ((33 <=? b) && (b <=? 42)) || ((44 <=? b) && (b <=? 60)) || ((62 <=? b) && (b <=? 126)).
Definition hexd (d : N) : N := if d <? 10 then 48 + d else 55 + d.
Definition xtext1 (b : N) : bytes :=
  if xtext_plain b then [b] else [43; hexd (b / 16); hexd (b mod 16)].
Definition xtext (s : bytes) : bytes := flat_map xtext1 s.

Definition MAIL_FROM : bytes := [77; 65; 73; 76; 32; 70; 82; 79; 77; 58; 60].   (* MAIL FROM:< *)
Definition RCPT_TO : bytes := [82; 67; 80; 84; 32; 84; 79; 58; 60].            (* RCPT TO:< *)
Definition SIZE_EQ : bytes := [32; 83; 73; 90; 69; 61].                        (* " SIZE=" *)
Definition AUTH_EQ : bytes := [32; 65; 85; 84; 72; 61].                        (* " AUTH=" *)

(* the optional " SIZE=n": `data_size is not None and 'SIZE' in self.extensions`
   (the digits of str(n) are ASCII under either encoding) *)
Definition size_part (e : exts) (size : option N) : bytes :=
  match size with
  | Some n => if ext_mem X_SIZE e then SIZE_EQ ++ dec_of_N n else []
  | None => []
  end.
(* the optional " AUTH=...": auth = None | Some None (False: "<>") | Some (Some mailbox) *)
Definition auth_part (e : exts) (auth : option (option text)) : option bytes :=
  match auth with
  | Some au =>
      if ext_mem X_AUTH e then
        match au with
        | None => Some (AUTH_EQ ++ [60; 62])
        | Some t =>
            match encode (ext_mem X_SMTPUTF8 e) t with
            | Some x => Some (AUTH_EQ ++ xtext x)
            | None => None
            end
        end
      else Some []
  | None => Some []
  end.

(* Client.mailfrom: the command handed to io.send_command; None = UnicodeEncodeError *)
Definition build_mail (e : exts) (addr : text) (size : option N) (auth : option (option text))
  : option bytes :=
  match encode (ext_mem X_SMTPUTF8 e) addr with
  | None => None
  | Some a =>
      match auth_part e auth with
      | None => None
      | Some ap => Some (MAIL_FROM ++ a ++ [62] ++ size_part e size ++ ap)
      end
  end.

(* Client.rcptto *)
Definition build_rcpt (e : exts) (addr : text) : option bytes :=
  match encode (ext_mem X_SMTPUTF8 e) addr with
  | None => None
  | Some a => Some (RCPT_TO ++ a ++ [62])
  end.

(* ====================================================================== *)
(* 4.  Server: address extraction and parameters                           *)
(* ====================================================================== *)

Definition ci (c u : N) : bool := to_upper c =? u.

(* from_pattern = ^[fF][rR][oO][mM]:\s*<   -> arg[match.end(0):] *)
Definition match_from (arg : bytes) : option bytes :=
  match arg with
  | f :: r :: o :: m :: col :: rest =>
      if ci f 70 && ci r 82 && ci o 79 && ci m 77 && (col =? 58) then
        match drop_while is_ws rest with
        | lt :: a => if lt =? 60 then Some a else None
        | [] => None
        end
      else None
  | _ => None
  end.
(* to_pattern = ^[tT][oO]:\s*< *)
Definition match_to (arg : bytes) : option bytes :=
  match arg with
  | t :: o :: col :: rest =>
      if ci t 84 && ci o 79 && (col =? 58) then
        match drop_while is_ws rest with
        | lt :: a => if lt =? 60 then Some a else None
        | [] => None
        end
      else None
  | _ => None
  end.

Definition cons_fst (c : N) (o : option (bytes * bytes)) : option (bytes * bytes) :=
  match o with Some (a, r) => Some (c :: a, r) | None => None end.

(* find_outside_quotes(arg, b'>', start) with quotes = DQUOTE, on s = arg[start:]:
   Some (arg[start:end], arg[end+1:]) or None (-1).  `quoted` / `escaped` are the
   loop variables; D16 repaired: inside quotes a backslash escapes the next byte. *)
Fixpoint find_gt (quoted escaped : bool) (s : bytes) : option (bytes * bytes) :=
  match s with
  | [] => None
  | c :: s' =>
      if negb quoted then
        if c =? 62 then Some ([], s')
        else cons_fst c (find_gt (c =? 34) false s')
      else if escaped then cons_fst c (find_gt true false s')
      else if c =? 92 then cons_fst c (find_gt true true s')
      else cons_fst c (find_gt (negb (c =? 34)) false s')
  end.

(* the scanner as it was before the repair of D16 (no quoted-pair handling) *)
Fixpoint find_gt_d16 (quoted : bool) (s : bytes) : option (bytes * bytes) :=
  match s with
  | [] => None
  | c :: s' =>
      if negb quoted then
        if c =? 62 then Some ([], s')
        else cons_fst c (find_gt_d16 (c =? 34) s')
      else cons_fst c (find_gt_d16 (negb (c =? 34)) s')
  end.

(* Server._gather_params:
   param_keyword_pattern = \b([a-zA-Z0-9][a-zA-Z0-9-]* )  (search from pos)
   param_value_pattern   = \=([\x21-\x3C\x3E-\x7F]+)      (match at pos)
   params[keyword.upper()] = value | True *)
Inductive pval : Type := PTrue | PVal (v : bytes).
Definition params := list (bytes * pval).

Fixpoint p_set (k : bytes) (v : pval) (ps : params) : params :=
  match ps with
  | [] => [(k, v)]
  | (k', v') :: ps' => if beqb k' k then (k, v) :: ps' else (k', v') :: p_set k v ps'
  end.

Definition is_word (c : N) : bool := is_alnum c || (c =? 95).
Definition is_valchar (c : N) : bool := (33 <=? c) && (c <=? 127) && negb (c =? 61).

(* prev_word: is the byte in front of the current position a \w byte (for \b) *)
Fixpoint gp (fuel : nat) (prev_word : bool) (s : bytes) (acc : params) : params :=
  match fuel with
  | O => acc
  | S f =>
      match s with
      | [] => acc
      | c :: s' =>
          if is_alnum c && negb prev_word then
            let '(kw, r1) := span is_kwchar s in
            let key := upper kw in
            match r1 with
            | eq :: r2 =>
                if eq =? 61 then
                  let '(v, r3) := span is_valchar r2 in
                  match v with
                  | [] => gp f (is_word (last_or c kw)) r1 (p_set key PTrue acc)
                  | _ :: _ => gp f (is_word (last_or 0 v)) r3 (p_set key (PVal v) acc)
                  end
                else gp f (is_word (last_or c kw)) r1 (p_set key PTrue acc)
            | [] => p_set key PTrue acc
            end
          else gp f (is_word c) s' acc
      end
  end.
Definition gather_params (rest : bytes) : params := gp (S (length rest)) false rest [].

(* the address part of _command_MAIL / _command_RCPT *)
Inductive addr_res : Type :=
| ABadArgs                                  (* 501 bad_arguments *)
| AUnicode                                  (* UnicodeDecodeError: 501 and the session ends *)
| AOk (addr : text) (ps : params).          (* address and params handed to the handler *)

Definition parse_path (m : bytes -> option bytes) (arg : bytes) : addr_res :=
  match m arg with
  | None => ABadArgs
  | Some a =>
      match find_gt false false a with
      | None => ABadArgs
      | Some (ab, rest) =>
          match Reply.utf8_dec ab with
          | None => AUnicode
          | Some t => AOk t (gather_params rest)
          end
      end
  end.
Definition parse_mail (arg : bytes) : addr_res := parse_path match_from arg.
Definition parse_rcpt (arg : bytes) : addr_res := parse_path match_to arg.

(* with the unrepaired scanner *)
Definition parse_mail_d16 (arg : bytes) : addr_res :=
  match match_from arg with
  | None => ABadArgs
  | Some a =>
      match find_gt_d16 false a with
      | None => ABadArgs
      | Some (ab, rest) =>
          match Reply.utf8_dec ab with
          | None => AUnicode
          | Some t => AOk t (gather_params rest)
          end
      end
  end.

(* what the server makes of one wire line: recv_command, then the address part
   of the MAIL / RCPT command *)
Definition C_MAIL : bytes := [77; 65; 73; 76].
Definition C_RCPT : bytes := [82; 67; 80; 84].
Inductive line_res : Type :=
| LNoLine | LNotCmd | LOther (name : bytes) (arg : option bytes)
| LMail (r : addr_res) (rest : bytes) | LRcpt (r : addr_res) (rest : bytes).

Definition server_line (stream : bytes) : line_res :=
  match recv_line stream with
  | None => LNoLine
  | Some (line, rest) =>
      match parse_command line with
      | CmdNone => LNotCmd
      | Cmd name (Some arg) =>
          if beqb name C_MAIL then LMail (parse_mail arg) rest
          else if beqb name C_RCPT then LRcpt (parse_rcpt arg) rest
          else LOther name (Some arg)
      | Cmd name None => LOther name None
      end
  end.

(* ====================================================================== *)
(* 5.  RFC 5321 / 6531 Mailbox grammar (the property's "valid address")    *)
(* ====================================================================== *)

(* UTF8-non-ascii, allowed when SMTPUTF8 is in use *)
Definition uni (u : bool) (c : N) : bool := u && (128 <=? c) && Reply.valid_cp c.

(* atext: ALPHA / DIGIT / ! # $ % & ' * + - / = ? ^ _ ` { | } ~ *)
Definition atext (u : bool) (c : N) : bool :=
  is_alnum c || (c =? 33) || ((35 <=? c) && (c <=? 39)) || (c =? 42) || (c =? 43) || (c =? 45)
  || (c =? 47) || (c =? 61) || (c =? 63) || ((94 <=? c) && (c <=? 96)) || ((123 <=? c) && (c <=? 126))
  || uni u c.

(* Dot-string = Atom *("." Atom); `need` = an atext must come next *)
Fixpoint dot_string (u : bool) (need : bool) (s : text) : bool :=
  match s with
  | [] => negb need
  | c :: s' =>
      if atext u c then dot_string u false s'
      else if (c =? 46) && negb need then dot_string u true s'
      else false
  end.

(* qtextSMTP = %d32-33 / %d35-91 / %d93-126 / UTF8-non-ascii *)
Definition qtext (u : bool) (c : N) : bool :=
  (c =? 32) || (c =? 33) || ((35 <=? c) && (c <=? 91)) || ((93 <=? c) && (c <=? 126)) || uni u c.
(* second byte of quoted-pairSMTP = %d92 %d32-126 *)
Definition qpair2 (c : N) : bool := (32 <=? c) && (c <=? 126).

(* after the opening DQUOTE: *QcontentSMTP DQUOTE; returns what follows *)
Fixpoint quoted_tail (u : bool) (s : text) : option text :=
  match s with
  | [] => None
  | c :: s' =>
      if c =? 34 then Some s'
      else if c =? 92 then
        match s' with
        | d :: s'' => if qpair2 d then quoted_tail u s'' else None
        | [] => None
        end
      else if qtext u c then quoted_tail u s' else None
  end.

(* Domain = sub-domain *("." sub-domain), sub-domain = Let-dig [Ldh-str]
   (letters, digits, inner hyphens; U-labels with SMTPUTF8);
   st: 0 = at the start of a label, 1 = after a Let-dig, 2 = after a hyphen *)
Definition let_dig (u : bool) (c : N) : bool := is_alnum c || uni u c.
Fixpoint domain_name (u : bool) (st : N) (s : text) : bool :=
  match s with
  | [] => st =? 1
  | c :: s' =>
      if let_dig u c then domain_name u 1 s'
      else if (c =? 45) && negb (st =? 0) then domain_name u 2 s'
      else if (c =? 46) && (st =? 1) then domain_name u 0 s'
      else false
  end.
(* address-literal = "[" 1*dcontent "]", dcontent = %d33-90 / %d94-126; DQUOTE and
   ">" are left out of the class: no standardized literal (IPv4, IPv6:...) uses
   them and the path syntax "<" ... ">" could not delimit such a literal *)
Definition dcontent (c : N) : bool :=
  (((33 <=? c) && (c <=? 90)) || ((94 <=? c) && (c <=? 126))) && negb (c =? 34) && negb (c =? 62).
Definition addr_literal (s : text) : bool :=
  match s with
  | 91 :: s' =>
      match rev s' with
      | 93 :: m => negb (match m with [] => true | _ => false end) && forallb dcontent m
      | _ => false
      end
  | _ => false
  end.
Definition wf_domain (u : bool) (d : text) : bool := domain_name u 0 d || addr_literal d.

(* split at the first "@" *)
Fixpoint split_at (s : text) : option (text * text) :=
  match s with
  | [] => None
  | c :: s' =>
      if c =? 64 then Some ([], s')
      else match split_at s' with Some (a, b) => Some (c :: a, b) | None => None end
  end.

(* Mailbox = Local-part "@" ( Domain / address-literal ) *)
Definition wf_mailbox (u : bool) (a : text) : bool :=
  match a with
  | 34 :: s =>
      match quoted_tail u s with
      | Some (at_ :: d) => (at_ =? 64) && wf_domain u d
      | _ => false
      end
  | _ =>
      match split_at a with
      | Some (l, d) => dot_string u true l && wf_domain u d
      | None => false
      end
  end.
(* Reverse-path: "<>" (the null sender, '' in the envelope) or a Mailbox *)
Definition wf_sender (u : bool) (a : text) : bool :=
  match a with [] => true | _ => wf_mailbox u a end.

(* ====================================================================== *)
(* 6.  Base64                                                              *)
(* ====================================================================== *)

Definition b64chr (i : N) : N :=
  if i <? 26 then 65 + i else if i <? 52 then 71 + i else if i <? 62 then i - 4
  else if i =? 62 then 43 else 47.
(* table_a2b_base64: None = not in the alphabet *)
Definition b64val (c : N) : option N :=
  if is_upper c then Some (c - 65) else if is_lower c then Some (c - 71)
  else if is_digit c then Some (c + 4) else if c =? 43 then Some 62
  else if c =? 47 then Some 63 else None.

(* base64.b64encode *)
Fixpoint b64enc (s : bytes) : bytes :=
  match s with
  | a :: b :: c :: s' =>
      b64chr (a / 4) :: b64chr ((a mod 4) * 16 + b / 16)
      :: b64chr ((b mod 16) * 4 + c / 64) :: b64chr (c mod 64) :: b64enc s'
  | [a; b] => [b64chr (a / 4); b64chr ((a mod 4) * 16 + b / 16); b64chr ((b mod 16) * 4); 61]
  | [a] => [b64chr (a / 4); b64chr ((a mod 4) * 16); 61; 61]
  | [] => []
  end.

(* binascii.a2b_base64(data) (strict_mode off), the loop of CPython 3.11+:
   quad_pos, leftchar, pads are the C variables; bytes outside the alphabet are
   skipped; "=" counts as padding only from quad_pos 2 on; B64Err = binascii.Error *)
Inductive quad : Type := Q0 | Q1 | Q2 | Q3.
Inductive b64res : Type := B64Ok (d : bytes) | B64Err.
Definition bcons (b : N) (r : b64res) : b64res :=
  match r with B64Ok d => B64Ok (b :: d) | B64Err => B64Err end.

Fixpoint b64loop (s : bytes) (q : quad) (left pads : N) : b64res :=
  match s with
  | [] => match q with Q0 => B64Ok [] | _ => B64Err end
  | c :: s' =>
      if c =? 61 then
        match q with
        | Q2 => if 1 <=? pads then B64Ok [] else b64loop s' q left (pads + 1)   (* 2 + ++pads >= 4 *)
        | Q3 => B64Ok []                                                          (* 3 + ++pads >= 4 *)
        | _ => b64loop s' q left pads
        end
      else
        match b64val c with
        | None => b64loop s' q left pads
        | Some v =>
            match q with
            | Q0 => b64loop s' Q1 v 0
            | Q1 => bcons (left * 4 + v / 16) (b64loop s' Q2 (v mod 16) 0)
            | Q2 => bcons (left * 16 + v / 4) (b64loop s' Q3 (v mod 4) 0)
            | Q3 => bcons (left * 64 + v) (b64loop s' Q0 0 0)
            end
        end
  end.
Definition b64dec (s : bytes) : b64res := b64loop s Q0 0 0.

(* HttpRelayClient._b64encode: b64encode(what.encode('utf-8')).decode('ascii') *)
Definition r_b64encode (t : text) : option text :=
  if forallb Reply.valid_cp t then Some (b64enc (Reply.utf8_enc t)) else None.

(* WsgiEdge._b64decode: b64decode(b64str.encode('ascii')).decode('utf-8') *)
Inductive dec_res : Type :=
| DOk (t : text)
| DErrAscii          (* UnicodeEncodeError: header value not ASCII *)
| DErrB64            (* binascii.Error *)
| DErrUtf8.          (* UnicodeDecodeError *)
Definition w_b64decode (s : text) : dec_res :=
  if is_ascii_text s then
    match b64dec s with
    | B64Ok d => match Reply.utf8_dec d with Some t => DOk t | None => DErrUtf8 end
    | B64Err => DErrB64
    end
  else DErrAscii.

(* ====================================================================== *)
(* 7.  HTTP transport of the envelope                                      *)
(* ====================================================================== *)

(* header names *)
Definition H_SENDER : text :=    (* X-Envelope-Sender *)
  [88;45;69;110;118;101;108;111;112;101;45;83;101;110;100;101;114].
Definition H_RCPT : text :=      (* X-Envelope-Recipient *)
  [88;45;69;110;118;101;108;111;112;101;45;82;101;99;105;112;105;101;110;116].
Definition H_EHLO : text := [88;45;69;104;108;111].                                    (* X-Ehlo *)
Definition H_CLEN : text := [67;111;110;116;101;110;116;45;76;101;110;103;116;104].   (* Content-Length *)
Definition H_CTYPE : text := [67;111;110;116;101;110;116;45;84;121;112;101].          (* Content-Type *)
Definition V_RFC822 : text := [109;101;115;115;97;103;101;47;114;102;99;56;50;50].    (* message/rfc822 *)

Fixpoint omap {A B} (f : A -> option B) (l : list A) : option (list B) :=
  match l with
  | [] => Some []
  | x :: l' => match f x, omap f l' with Some y, Some r => Some (y :: r) | _, _ => None end
  end.

(* HttpRelayClient._build_headers; None = UnicodeEncodeError in _b64encode *)
Definition build_headers (ehlo sender : text) (rcpts : list text) (hdr body : bytes)
  : option (list (text * text)) :=
  match r_b64encode sender, omap r_b64encode rcpts with
  | Some s, Some rs =>
      Some ((H_CLEN, dec_of_N (N.of_nat (length hdr + length body)))
            :: (H_CTYPE, V_RFC822) :: (H_EHLO, ehlo) :: (H_SENDER, s)
            :: map (fun r => (H_RCPT, r)) rs)
  | _, _ => None
  end.

(* _header_name_to_cgi: 'HTTP_' + name.upper().replace('-', '_') *)
Definition cgi_name (n : text) : text :=
  [72; 84; 84; 80; 95] ++ map (fun c => if c =? 45 then 95 else to_upper c) n.

(* what a WSGI server puts into environ for a request header name: the values of
   all its occurrences joined with `sep` ("," in gevent.pywsgi); None = absent *)
Definition environ_get (sep : text) (hs : list (text * text)) (key : text) : option text :=
  match filter (fun h => beqb (cgi_name (fst h)) key) hs with
  | [] => None
  | l => Some (join sep (map snd l))
  end.

(* split_pattern = \s*[,;]\s*  anchored at the start of s: the text after the match *)
Definition is_sepc (c : N) : bool := (c =? 44) || (c =? 59).
Definition try_sep (s : text) : option text :=
  match drop_while uspace s with
  | c :: r => if is_sepc c then Some (drop_while uspace r) else None
  | [] => None
  end.
(* text in front of the leftmost match and what follows the match *)
Fixpoint split_first (s : text) : text * option text :=
  match try_sep s with
  | Some rest => ([], Some rest)
  | None =>
      match s with
      | [] => ([], None)
      | c :: s' => let '(p, r) := split_first s' in (c :: p, r)
      end
  end.
(* split_pattern.split(raw) *)
Fixpoint re_split (fuel : nat) (s : text) : list text :=
  match fuel with
  | O => []
  | S f =>
      match split_first s with
      | (p, None) => [p]
      | (p, Some r) => p :: re_split f r
      end
  end.

Inductive rcpts_res : Type := RcOk (l : list text) | RcErr (e : dec_res).
Fixpoint decode_all (l : list text) : rcpts_res :=
  match l with
  | [] => RcOk []
  | x :: l' =>
      match w_b64decode x with
      | DOk t => match decode_all l' with RcOk r => RcOk (t :: r) | e => e end
      | e => RcErr e
      end
  end.

(* WsgiEdge._get_sender: environ.get(header, '') *)
Definition get_sender (env_val : option text) : dec_res :=
  w_b64decode (match env_val with Some v => v | None => [] end).
(* WsgiEdge._get_recipients: `if not rcpts_raw: return []` *)
Definition get_recipients (env_val : option text) : rcpts_res :=
  match env_val with
  | None => RcOk []
  | Some [] => RcOk []
  | Some raw => decode_all (re_split (S (length raw)) raw)
  end.

(* the envelope addresses as the WSGI edge sees them, from the client's headers *)
Definition http_addresses (sep : text) (hs : list (text * text)) : dec_res * rcpts_res :=
  (get_sender (environ_get sep hs (cgi_name H_SENDER)),
   get_recipients (environ_get sep hs (cgi_name H_RCPT))).

(* ---- X-Smtp-Reply ---- *)

(* wsgiref.headers._formatparam quoting: backslash -> two backslashes, then DQUOTE -> backslash DQUOTE *)
Definition esc_quote (m : text) : text :=
  flat_map (fun c => if c =? 92 then [92; 92] else if c =? 34 then [92; 34] else [c]) m.
Definition K_MESSAGE : text := [109;101;115;115;97;103;101].
(* _build_http_response: Headers.add_header('X-Smtp-Reply', code, message=...)
   for a reply without a command: the header value *)
Definition build_reply_header (code msg : text) : text :=
  code ++ [59; 32] ++ K_MESSAGE ++
  match msg with
  | [] => []
  | _ :: _ => [61; 34] ++ esc_quote msg ++ [34]
  end.
(* ... and the HTTP status class: 2 -> 204, 4 -> 503, "535" -> 401, else 500 *)
Definition http_status (code : text) : N :=
  if starts_with [50] code then 204
  else if starts_with [52] code then 503
  else if beqb code [53; 51; 53] then 401
  else 500.

(* HttpRelayClient._parse_smtp_reply_header, the code:
   reply_code_pattern = ^\s*(\d\d\d)\s*;  then Reply(code, ...) whose code setter
   demands ^[12345]\d\d$ *)
Inductive rh_res : Type :=
| RHNone                      (* no match: None *)
| RHBadCode                   (* ValueError from the Reply code setter *)
| RHCode (code : text).
Definition parse_reply_header (raw : text) : rh_res :=
  match drop_while uspace raw with
  | d1 :: d2 :: d3 :: r =>
      if udigit d1 && udigit d2 && udigit d3 then
        match drop_while uspace r with
        | sc :: _ =>
            if sc =? 59 then
              (if (49 <=? d1) && (d1 <=? 53) then RHCode [d1; d2; d3] else RHBadCode)
            else RHNone
        | [] => RHNone
        end
      else RHNone
  | _ => RHNone
  end.

(* HttpRelayClient._process_response: what attempt() reports.
   status 2xx: the parsed reply (or None) is the result; otherwise an error
   built from the reply (permanent iff its code starts with 5) or from the
   status class (4xx permanent, else transient) *)
Inductive relay_report : Type :=
| RepOk (code : option text)
| RepPermanent (code : option text)
| RepTransient (code : option text)
| RepValueError.
Definition process_response (status : N) (raw : text) : relay_report :=
  match parse_reply_header raw with
  | RHBadCode => RepValueError
  | RHNone =>
      if (200 <=? status) && (status <? 300) then RepOk None
      else if (400 <=? status) && (status <? 500) then RepPermanent None
      else RepTransient None
  | RHCode c =>
      if (200 <=? status) && (status <? 300) then RepOk (Some c)
      else if starts_with [53] c then RepPermanent (Some c)
      else RepTransient (Some c)
  end.

(* ====================================================================== *)
(* 8.  The hop                                                             *)
(* ====================================================================== *)

Section Hop.
  (* Python's email package, as in model/Envelope.v *)
  Variable hdr : Type.
  Variable hparse : bytes -> hdr * option bytes.
  Variable hgen : hdr -> bytes.
  Notation envelope := (Envelope.envelope hdr).

  Inductive hop_res : Type :=
  | Delivered (e : envelope)              (* handed to the edge's queue *)
  | Refused554                            (* _handle_encoding: 8-bit message, no 8BITMIME, no encoder *)
  | EncodeError                           (* UnicodeEncodeError in the client *)
  | Rejected (where_ : N)                 (* 1 MAIL, 2 RCPT: the server did not recover the address *)
  | DataLost
  | HttpError (e : dec_res).              (* the WSGI edge answers 500 *)

  (* the extensions the client works with: after EHLO what it parsed out of the
     server's 250 reply (sent with IO.send_reply, read with IO.recv_reply, UTF-8
     both ways); after the HELO fallback none *)
  Definition ehlo_reply_wire (greeting : text) (adv : exts) : bytes :=
    Reply.send_reply [50; 53; 48] (Reply.utf8_enc (build_string greeting adv)).
  Definition client_exts (helo : bool) (greeting : text) (adv : exts)
             (buf : bytes) (chunks : list bytes) : option exts :=
    if helo then Some []
    else match Reply.recv_reply buf chunks with
         | Reply.ROk _ body _ _ =>
             match Reply.utf8_dec body with
             | Some m => Some (snd (parse_string [] m))
             | None => None
             end
         | _ => None
         end.

  (* every RCPT line through the server, addresses collected in order *)
  Fixpoint rcpt_lines (ce : exts) (rcpts : list text) : option (list text) :=
    match rcpts with
    | [] => Some []
    | r :: rs =>
        match build_rcpt ce r with
        | None => None
        | Some c =>
            match server_line (send_command c) with
            | LRcpt (AOk a _) [] =>
                match rcpt_lines ce rs with Some l => Some (a :: l) | None => None end
            | _ => None
            end
        end
    end.

  (* SMTP / LMTP: SmtpRelayClient._deliver against SmtpEdge's session.
     ce = the client's extensions; (buf, chunks) = how the DATA stream reaches
     the server (what is already in io.recv_buffer, then the recv() results) *)
  Definition smtp_hop (ce : exts) (e : envelope) (buf : bytes) (chunks : list bytes) : hop_res :=
    (* _handle_encoding *)
    if negb (ext_mem X_8BITMIME ce) && negb (forallb Envelope.is_ascii (Envelope.e_message e))
    then Refused554 else
    (* _send_envelope: MAIL (auth=False, no size), RCPT ... *)
    match build_mail ce (Envelope.e_sender e) None (Some None) with
    | None => EncodeError
    | Some mc =>
        match server_line (send_command mc) with
        | LMail (AOk sender _) [] =>
            match omap (build_rcpt ce) (Envelope.e_rcpts e) with
            | None => EncodeError
            | Some _ =>
                match rcpt_lines ce (Envelope.e_rcpts e) with
                | None => Rejected 2
                | Some rcpts =>
                    (* DATA: DataSender(header_data, message) -> DataReader -> Envelope.parse *)
                    match Data.dr_recv None buf chunks with
                    | Data.ROk d _ _ => Delivered (Envelope.parse hdr hparse sender rcpts d)
                    | _ => DataLost
                    end
                end
            end
        | _ => Rejected 1
        end
    end.
  (* the bytes the client writes after the 354 *)
  Definition data_wire (e : envelope) : bytes :=
    let '(h, b) := Envelope.flatten hdr hgen e in Data.send [h; b].

  (* HTTP: HttpRelayClient._handle_request against WsgiEdge._get_envelope; the
     body is header_data + message, read back by Content-Length *)
  Definition http_hop (sep : text) (ehlo : text) (e : envelope) : hop_res :=
    let '(h, b) := Envelope.flatten hdr hgen e in
    match build_headers ehlo (Envelope.e_sender e) (Envelope.e_rcpts e) h b with
    | None => EncodeError
    | Some hs =>
        match http_addresses sep hs with
        | (DOk sender, RcOk rcpts) => Delivered (Envelope.parse hdr hparse sender rcpts (h ++ b))
        | (DOk _, RcErr x) => HttpError x
        | (x, _) => HttpError x
        end
    end.
End Hop.

Arguments Delivered {hdr}.
Arguments Refused554 {hdr}.
Arguments EncodeError {hdr}.
Arguments Rejected {hdr}.
Arguments DataLost {hdr}.
Arguments HttpError {hdr}.
