(* STARTTLS / AUTH extension of the server session model (property C08), at the level of the
   BYTE STREAM the server reads, with every byte tagged by the channel it was read from:
     slimta/smtp/server.py  Server.handle (loop, immediate TLS), _command_STARTTLS, _encrypt_session,
                            _command_AUTH, _command_DATA/_get_message_data (line level)
     slimta/smtp/io.py      IO.recv_buffer, raw_recv, recv_line, recv_command, encrypt_socket_server,
                            encrypt_socket_client, recv_reply
     slimta/smtp/auth.py    AuthSession._parse_arg, _server_challenge, server_attempt
     slimta/smtp/client.py  Client.starttls / encrypt / custom_command (reply reading only)
     slimta/edge/smtp.py    SmtpSession.TLSHANDSHAKE2, AUTH
   Every other command is executed by model/Server.v (imported, not copied).

   The code modelled is the code AFTER these fixes
     fixes/d2a-starttls-discard-buffer.diff        encrypt_socket_server: recv_buffer = b'' before the wrap
     fixes/d2b-starttls-reset-state.diff           _command_STARTTLS: have_mailfrom/have_rcptto = None;
                                                   SmtpSession.TLSHANDSHAKE2: envelope = None
     fixes/d2c-client-starttls-discard-buffer.diff encrypt_socket_client: recv_buffer = b'' before the wrap
     fixes/d11-bare-auth.diff                      _command_AUTH: `if not arg: bad_arguments`
     fixes/c08-insecure-mechanisms.diff            PLAIN and LOGIN are insecure although pysasl >= 1 no
                                                   longer says so
   and it KEEPS one thing the suite pins (test_extended_handshake): SmtpSession.ehlo_as survives
   TLSHANDSHAKE2 (known finding c08:edge-ehlo-identity-survives-starttls).

   Channels.  A socket object is either the plain socket or the SSLSocket that wrap_socket returned;
   `raw_recv` on the former returns the next chunk of `w_plain`, on the latter the next chunk of
   `w_tls`.  A byte is tagged, when it is read, with the socket object it was read from - that is
   what "received in clear text" / "received over TLS" means.  Plain-text bytes still unread in the
   kernel when the handshake starts are eaten by the TLS layer (the handshake then fails - oracle
   bit); they are never application data, and the model never reads `w_plain` again.

   Abstractions (explicit): reply texts are not modelled (codes, and the payload of 334); the DATA
   reader is modelled line by line with no size limit (its framing is C05/C09's subject; for
   max_size = None reading line by line consumes the same chunks and leaves the same bytes in
   recv_buffer); validators are verdict functions of (handler, argument); pysasl mechanisms are a
   parameter `mechs` (three concrete ones below for the correspondence run), assumed to raise only
   ServerChallenge / AuthenticationError / ValueError; command_timeout is not modelled (C14);
   handle_tls/handle_tls2 do not raise.  Definitions only. *)
From Coq Require Import List NArith Bool.
From SV Require Import lib.Bytes model.Reply model.Server.
Import ListNotations.
Open Scope N_scope.

(* ------------------------------------------------------------------ tagged bytes, the wire *)
Inductive chan := ChPlain | ChTls.
Definition tbyte := (N * chan)%type.
Definition tbytes := list tbyte.
Definition untag (s : tbytes) : bytes := map fst s.
Definition is_tls (c : chan) : bool := match c with ChTls => true | ChPlain => false end.
Definition all_tls (s : tbytes) : bool := forallb (fun x => is_tls (snd x)) s.
Definition tag_with (c : chan) (s : bytes) : tbytes := map (fun b => (b, c)) s.
Definition chan_of (enc : bool) : chan := if enc then ChTls else ChPlain.

Record wire := { w_plain : list bytes; w_tls : list bytes }.
Definition chunks_of (enc : bool) (w : wire) : list bytes := if enc then w_tls w else w_plain w.
Definition set_chunks (enc : bool) (w : wire) (cs : list bytes) : wire :=
  if enc then {| w_plain := w_plain w; w_tls := cs |} else {| w_plain := cs; w_tls := w_tls w |}.

(* line_pattern (.*?)\r?\n at the start of the buffer: the bytes up to and including the
   first LF, and what follows *)
Fixpoint t_take_line (s : tbytes) : option (tbytes * tbytes) :=
  match s with
  | [] => None
  | x :: s' =>
      if fst x =? 10 then Some ([x], s')
      else match t_take_line s' with
           | Some (l, r) => Some (x :: l, r)
           | None => None
           end
  end.

(* IO.recv_line on socket object c: buffered_recv until a complete line is there.
   None = raw_recv returned b'' (ConnectionLost).  Result: consumed bytes (with the LF),
   new recv_buffer, chunks left *)
Fixpoint recv_line_on (c : chan) (buf : tbytes) (chunks : list bytes) {struct chunks}
  : option (tbytes * tbytes * list bytes) :=
  match t_take_line buf with
  | Some (l, r) => Some (l, r, chunks)
  | None =>
      match chunks with
      | [] => None
      | ch :: cs =>
          match ch with
          | [] => None
          | _ => recv_line_on c (buf ++ tag_with c ch) cs
          end
      end
  end.

(* the raw line (with CR LF) and the line as recv_line returns it *)
Definition raw_of (consumed : tbytes) : bytes := untag consumed.
Definition line_of (consumed : tbytes) : bytes := strip_cr (removelast (untag consumed)).

(* ------------------------------------------------------------------ base64 as the code uses it *)
(* binascii table_a2b_base64 *)
Definition b64_val (c : N) : option N :=
  if is_upper c then Some (c - 65)
  else if is_lower c then Some (c - 71)
  else if is_digit c then Some (c + 4)
  else if c =? 43 then Some 62
  else if c =? 47 then Some 63
  else None.

Definition b64_chr (v : N) : N :=
  if v <? 26 then v + 65 else if v <? 52 then v + 71 else if v <? 62 then v - 4
  else if v =? 62 then 43 else 47.

(* base64.b64decode(s) = binascii.a2b_base64(s, strict_mode=False) of CPython 3.12:
   bytes outside the alphabet are skipped, `=` is skipped unless it completes a quad that
   already has two data characters (then everything after it is ignored), an incomplete
   quad at the end is binascii.Error (a ValueError) = None *)
Fixpoint b64_go (s : bytes) (quad left pads : N) : option bytes :=
  match s with
  | [] => if quad =? 0 then Some [] else None
  | c :: s' =>
      if c =? 61 then
        if (2 <=? quad) && (4 <=? quad + pads + 1) then Some []
        else b64_go s' quad left (if 2 <=? quad then pads + 1 else pads)
      else
        match b64_val c with
        | None => b64_go s' quad left pads
        | Some v =>
            if quad =? 0 then b64_go s' 1 v 0
            else
              let '(b, q', l') :=
                if quad =? 1 then (left * 4 + v / 16, 2, v mod 16)
                else if quad =? 2 then (left * 16 + v / 4, 3, v mod 4)
                else (left * 64 + v, 0, 0) in
              match b64_go s' q' l' 0 with
              | Some r => Some (b :: r)
              | None => None
              end
        end
  end.
Definition b64_dec (s : bytes) : option bytes := b64_go s 0 0 0.

(* base64.b64encode *)
Fixpoint b64_enc (s : bytes) : bytes :=
  match s with
  | [] => []
  | [a] => [b64_chr (a / 4); b64_chr ((a mod 4) * 16); 61; 61]
  | [a; b] => [b64_chr (a / 4); b64_chr ((a mod 4) * 16 + b / 16); b64_chr ((b mod 16) * 4); 61]
  | a :: b :: c :: s' =>
      b64_chr (a / 4) :: b64_chr ((a mod 4) * 16 + b / 16) :: b64_chr ((b mod 16) * 4 + c / 64)
        :: b64_chr (c mod 64) :: b64_enc s'
  end.

(* ------------------------------------------------------------------ SASL mechanisms (pysasl): a parameter *)
Record creds := { cr_kind : N;          (* 0 PlainCredentials, 1 CramMD5Result, 2/3 harness token mechanisms *)
                  cr_cid : bytes;       (* authcid, UTF-8 *)
                  cr_secret : bytes;    (* secret / CRAM digest *)
                  cr_zid : bytes }.     (* authzid / CRAM challenge *)

Inductive mres :=
| MCreds (c : creds)        (* server_attempt returned *)
| MChal (data : bytes)      (* raise ServerChallenge(data) *)
| MInvalid                  (* raise AuthenticationError -> UnexpectedAuthError 501 *)
| MValueErr.                (* ValueError (UnicodeDecodeError) -> bad_arguments 501 *)

Record mech := { m_insecure : bool;       (* secret crosses the wire in clear text *)
                 m_attempt : list (bytes * bytes) -> mres }.     (* [(challenge, response)] *)

(* AuthSession._parse_arg:
     noarg_pattern    ^([a-zA-Z0-9_-]+)$
     witharg_pattern  ^([a-zA-Z0-9_-]+)\s+(.+)$
   the argument comes from recv_command: no LF, does not end with white space *)
Definition is_mechc (c : N) : bool := is_alpha c || is_digit c || (c =? 95) || (c =? 45).

Inductive parg := PBad | PName (n : bytes) | PArg (n : bytes) (a : bytes).

Definition parse_auth_arg (arg : bytes) : parg :=
  let '(n, rest) := span is_mechc arg in
  match n with
  | [] => PBad
  | _ =>
      match rest with
      | [] => PName (map to_upper n)
      | c :: _ =>
          if is_ws c then
            match drop_ws rest with
            | [] => PBad
            | a => PArg (map to_upper n) a
            end
          else PBad
      end
  end.

Definition STAR : bytes := [42].

(* ------------------------------------------------------------------ environment *)
Record env := {
  nv_vf : cbk -> bytes -> verdict;     (* validator of handler k called with argument a *)
  nv_queued : bytes -> verdict;        (* handle_queued validator for message content a *)
  nv_qf : bytes -> qres;               (* handoff of the envelope whose sender is a *)
  nv_hs : bool;                        (* the TLS handshake succeeds *)
  nv_stls : verdict                    (* handlers.STARTTLS(reply, extensions), if the handler object has
                                          one (SmtpSession has none: VKeep) *)
}.

(* ------------------------------------------------------------------ session state *)
Inductive mode :=
| MCmd                                                         (* handle(): _recv_command *)
| MAuthWait (m : mech) (resps : list (bytes * bytes)) (chal : bytes)   (* _server_challenge: recv_line *)
| MData (acc : bytes).                                         (* DataReader.recv *)

Record tstate := { t_st : sstate; t_mode : mode; t_buf : tbytes; t_wire : wire }.

Definition t_enc (ts : tstate) : bool := s_encrypted (sv (t_st ts)).

Inductive tevent :=
| TCall (enc : bool) (e : event)                       (* a handler call of model/Server.v *)
| TAuth (enc : bool) (c : creds) (code : option N).    (* handlers.AUTH(reply, creds) *)

Inductive lkind := LBanner | LCmd | LAuthResp | LData.
Inductive tfin := TContinue | TClosed | TCrashed | TLost.

Record tout := {
  to_kind : lkind;
  to_line : tbytes;           (* the bytes this step consumed from recv_buffer *)
  to_enc : bool;              (* io.encrypted when they were consumed *)
  to_replies : list N;
  to_chal : list bytes;       (* text of each 334 among the replies *)
  to_events : list tevent;
  to_fin : tfin
}.

(* what one step decides *)
Record sres := {
  sr_st : sstate; sr_mode : mode; sr_replies : list N; sr_chal : list bytes;
  sr_events : list tevent; sr_exc : exc;
  sr_flush : bool             (* recv_buffer = b'' *)
}.

Definition mk_s (st : sstate) (m : mode) (rs : list N) (ch : list bytes) (es : list tevent)
           (x : exc) (fl : bool) : sres :=
  {| sr_st := st; sr_mode := m; sr_replies := rs; sr_chal := ch; sr_events := es; sr_exc := x;
     sr_flush := fl |}.
Definition s_just (st : sstate) (c : N) : sres := mk_s st MCmd [c] [] [] XNone false.
Definition of_res (enc : bool) (r : res) : sres :=
  mk_s (r_st r) MCmd (r_replies r) [] (map (TCall enc) (r_events r)) (r_exc r) false.

(* ------------------------------------------------------------------ STARTTLS (fixed) *)
(* _command_STARTTLS; _encrypt_session; IO.encrypt_socket_server; SmtpSession.TLSHANDSHAKE2 *)
Definition tls_state (st : sstate) : sstate :=
  {| sv := set_ehlo None (reset_tx (set_encrypted true (sv st)));
     ex := drop_starttls (ex st);
     ed := set_env None (set_e_tls true (ed st)) |}.

(* The STARTTLS hook may change the 220: a 221/421 closes, any other code refuses the command
   and the session goes on in clear text WITH its receive buffer (what was pipelined behind
   the refused STARTTLS are ordinary commands); the buffer is discarded only by the handshake. *)
Definition t_command_STARTTLS (st : sstate) (arg : option bytes) (v : verdict) (hs_ok : bool) : sres :=
  if negb (x_starttls (ex st)) then s_just st 500
  else if nonempty arg then s_just st 501
  else if negb (is_some (s_ehlo (sv st))) then s_just st 503
  else
    match apply_verdict v 220 with
    | None => mk_s st MCmd [] [] [] XExn false
    | Some c =>
        if is_close c then mk_s st MCmd [c] [] [] XStop false
        else if negb (c =? 220) then mk_s st MCmd [c] [] [] XNone false
        else if negb hs_ok then mk_s st MCmd [220; 421] [] [] XStop true
        else mk_s (tls_state st) MCmd [220] [] [TCall true EvTls] XNone true
    end.

(* ------------------------------------------------------------------ AUTH *)
(* the tail of _command_AUTH once server_attempt returned credentials, + SmtpSession.AUTH *)
Definition auth_finish (nv : env) (st : sstate) (c : creds) : sres :=
  let enc := s_encrypted (sv st) in
  match apply_verdict (nv_vf nv KAuth (cr_cid c)) 235 with
  | None => mk_s st MCmd [] [] [TAuth enc c None] XExn false
  | Some code =>
      let ed2 := if code =? 235 then set_e_auth (Some (cr_cid c)) (ed st) else ed st in
      let sv2 := if code =? 235 then set_authed true (sv st) else sv st in
      mk_s {| sv := sv2; ex := ex st; ed := ed2 |} MCmd [code] [] [TAuth enc c (Some code)]
           (close_exc code) false
  end.

(* one turn of the `while True` of server_attempt when no argument is pending:
   credentials, an error, or a 334 and wait for the answer line *)
Definition auth_turn (nv : env) (st : sstate) (m : mech) (resps : list (bytes * bytes)) : sres :=
  match m_attempt m resps with
  | MCreds c => auth_finish nv st c
  | MInvalid => s_just st 501
  | MValueErr => s_just st 501
  | MChal d => mk_s st (MAuthWait m resps d) [334] [b64_enc d] [] XNone false
  end.

(* _server_challenge on a response that is there (initial response or answer line) *)
Definition auth_response (nv : env) (st : sstate) (m : mech) (resps : list (bytes * bytes))
           (chal resp : bytes) : sres :=
  if beqb resp STAR then s_just st 501                     (* AuthenticationCanceled *)
  else match b64_dec resp with
       | None => s_just st 501                             (* binascii.Error: bad_arguments *)
       | Some d => auth_turn nv st m (resps ++ [(chal, d)])
       end.

Section WithMechs.
  Variable mechs : bytes -> option mech.       (* auth.get_server(NAME) *)

  Definition t_command_AUTH (nv : env) (st : sstate) (arg : option bytes) : sres :=
    if negb (x_auth (ex st)) then s_just st 500
    else if negb (is_some (s_ehlo (sv st))) || s_authed (sv st) || s_mail (sv st) then s_just st 503
    else if negb (nonempty arg) then s_just st 501
    else
      match parse_auth_arg (arg_bytes arg) with
      | PBad => s_just st 504                              (* InvalidMechanismError *)
      | PName n =>
          match mechs n with
          | None => s_just st 504
          | Some m =>
              if m_insecure m && negb (s_encrypted (sv st)) then s_just st 504
              else auth_turn nv st m []
          end
      | PArg n a =>
          match mechs n with
          | None => s_just st 504
          | Some m =>
              if m_insecure m && negb (s_encrypted (sv st)) then s_just st 504
              else
                match m_attempt m [] with
                | MCreds c => auth_finish nv st c
                | MInvalid => s_just st 501
                | MValueErr => s_just st 501
                | MChal d => auth_response nv st m [] d a
                end
          end
      end.

  (* ------------------------------------------------------------------ DATA, line by line *)
  (* _command_DATA up to the 354; true: the reader starts *)
  Definition t_data_start (nv : env) (st : sstate) (arg : option bytes) : sres :=
    let enc := s_encrypted (sv st) in
    if nonempty arg then s_just st 501
    else if negb (s_mail (sv st)) || negb (s_rcpt (sv st)) then s_just st 503
    else
      match apply_verdict (nv_vf nv KData []) 354 with
      | None => mk_s st MCmd [] [] [TCall enc (EvCall KData [] [] None)] XExn false
      | Some c =>
          let ev := [TCall enc (EvCall KData [] [] (Some c))] in
          if is_close c then mk_s st MCmd [c] [] ev XStop false
          else if c =? 354 then mk_s st (MData []) [c] [] ev XNone false
          else mk_s st MCmd [c] [] ev XNone false
      end.

  (* eod_pattern ^\.\s*?\n$ on a raw line (exactly one LF, at the end) *)
  Definition is_eod (raw : bytes) : bool :=
    match raw with
    | 46 :: r => forallb is_ws r
    | _ => false
    end.
  Definition unstuff (raw : bytes) : bytes := match raw with 46 :: r => r | _ => raw end.

  Definition env_sender (st : sstate) : bytes :=
    match e_env (ed st) with Some (s, _) => s | None => [] end.

  Definition data_item (nv : env) (st : sstate) (data : bytes) : item :=
    {| it_line := {| l_word := None; l_arg := None |}; it_v1 := VKeep;
       it_v2 := nv_vf nv KHaveData data; it_v3 := nv_queued nv data;
       it_data := data; it_wire := 0; it_q := nv_qf nv (env_sender st);
       it_au_resps := []; it_au := ARaise; it_tls_ok := false |}.

  Definition t_data_line (nv : env) (st : sstate) (acc raw : bytes) : sres :=
    if is_eod raw then of_res (s_encrypted (sv st)) (get_message_data st (data_item nv st acc) [] [])
    else mk_s st (MData (acc ++ unstuff raw)) [] [] [] XNone false.

  (* ------------------------------------------------------------------ every other command: model/Server.v *)
  Definition path_addr (kw : bytes) (arg : option bytes) : bytes :=
    match arg with
    | None => []
    | Some a => match match_path_prefix kw a with
                | None => []
                | Some r => match find_gt false r with Some (addr, _) => addr | None => [] end
                end
    end.

  Definition cmd_item (nv : env) (l : line) : item :=
    let v :=
      match classify l with
      | CEhlo => nv_vf nv KEhlo (arg_bytes (l_arg l))
      | CHelo => nv_vf nv KHelo (arg_bytes (l_arg l))
      | CMail => nv_vf nv KMail (path_addr KW_FROM (l_arg l))
      | CRcpt => nv_vf nv KRcpt (path_addr KW_TO (l_arg l))
      | _ => VKeep
      end in
    {| it_line := l; it_v1 := v; it_v2 := VKeep; it_v3 := VKeep; it_data := []; it_wire := 0;
       it_q := QOk; it_au_resps := []; it_au := ARaise; it_tls_ok := false |}.

  (* _handle_command on a line read in command mode *)
  Definition t_exec_cmd (nv : env) (st : sstate) (l : line) : sres :=
    match classify l with
    | CStarttls => t_command_STARTTLS st (l_arg l) (nv_stls nv) (nv_hs nv)
    | CAuth => t_command_AUTH nv st (l_arg l)
    | CData => t_data_start nv st (l_arg l)
    | _ => of_res (s_encrypted (sv st)) (handle_command st (cmd_item nv l))
    end.

  (* ------------------------------------------------------------------ one step = one line *)
  Definition kind_of (m : mode) : lkind :=
    match m with MCmd => LCmd | MAuthWait _ _ _ => LAuthResp | MData _ => LData end.

  Definition t_dispatch (nv : env) (st : sstate) (m : mode) (consumed : tbytes) : sres :=
    match m with
    | MCmd => t_exec_cmd nv st (parse_line (line_of consumed))
    | MAuthWait mm resps chal => auth_response nv st mm resps chal (line_of consumed)
    | MData acc => t_data_line nv st acc (raw_of consumed)
    end.

  (* the except arms of handle() (model/Server.v finish) *)
  Definition fin_of (x : exc) : tfin :=
    match x with XNone => TContinue | XStop => TClosed | XUnicode => TCrashed | XExn => TCrashed end.
  Definition extra_reply (x : exc) : list N :=
    match x with XUnicode => [501] | XExn => [421] | _ => [] end.

  Definition t_step (nv : env) (ts : tstate) : tstate * tout :=
    let enc := t_enc ts in
    match recv_line_on (chan_of enc) (t_buf ts) (chunks_of enc (t_wire ts)) with
    | None =>
        (ts, {| to_kind := kind_of (t_mode ts); to_line := []; to_enc := enc; to_replies := [];
                to_chal := []; to_events := []; to_fin := TLost |})
    | Some (consumed, rest, cs) =>
        let r := t_dispatch nv (t_st ts) (t_mode ts) consumed in
        ({| t_st := sr_st r; t_mode := sr_mode r;
            t_buf := if sr_flush r then [] else rest;
            t_wire := set_chunks enc (t_wire ts) cs |},
         {| to_kind := kind_of (t_mode ts); to_line := consumed; to_enc := enc;
            to_replies := sr_replies r ++ extra_reply (sr_exc r); to_chal := sr_chal r;
            to_events := sr_events r; to_fin := fin_of (sr_exc r) |})
    end.

  (* the loop; every step is recorded with the state before and after it *)
  Fixpoint t_loop (fuel : nat) (nv : env) (ts : tstate) : list (tstate * tout * tstate) :=
    match fuel with
    | O => []
    | S f =>
        let '(ts', o) := t_step nv ts in
        match to_fin o with
        | TContinue => (ts, o, ts') :: t_loop f nv ts'
        | _ => [(ts, o, ts')]
        end
    end.

  (* handle() from the start: immediate TLS, banner, loop.  The first triple is the banner
     pseudo command; its pre-state is the state after the immediate handshake, if any. *)
  Definition t_init (cfg : config) (w : wire) : tstate :=
    {| t_st := init_state cfg; t_mode := MCmd; t_buf := []; t_wire := w |}.

  Definition banner_out (enc : bool) (rs : list N) (es : list tevent) (f : tfin) : tout :=
    {| to_kind := LBanner; to_line := []; to_enc := enc; to_replies := rs; to_chal := [];
       to_events := es; to_fin := f |}.

  Definition t_session (fuel : nat) (cfg : config) (nv : env) (w : wire)
    : list (tstate * tout * tstate) :=
    let ts0 := t_init cfg w in
    let imm := cfg_context cfg && cfg_tls_immediately cfg in
    if imm && negb (nv_hs nv) then [(ts0, banner_out false [421] [] TClosed, ts0)]
    else
      let st1 := if imm then encrypted_state (init_state cfg) else init_state cfg in
      let pre := if imm then [TCall true EvTls] else [] in
      let r := command_BANNER (nv_vf nv KBanner []) st1 in
      let ts1 := {| t_st := r_st r; t_mode := MCmd; t_buf := []; t_wire := w |} in
      let o := banner_out imm (r_replies r ++ extra_reply (r_exc r))
                          (pre ++ map (TCall imm) (r_events r)) (fin_of (r_exc r)) in
      let tsb := {| t_st := st1; t_mode := MCmd; t_buf := []; t_wire := w |} in
      match r_exc r with
      | XNone => (tsb, o, ts1) :: t_loop fuel nv ts1
      | _ => [(tsb, o, ts1)]
      end.
End WithMechs.

Definition outs (tr : list (tstate * tout * tstate)) : list tout := map (fun x => snd (fst x)) tr.

(* ------------------------------------------------------------------ the three pysasl mechanisms used
   by the correspondence run (pysasl 1.2: plain.py, login.py, crammd5.py) *)
Fixpoint split_nul (s : bytes) : list bytes :=
  match s with
  | [] => [[]]
  | c :: s' =>
      if c =? 0 then [] :: split_nul s'
      else match split_nul s' with
           | p :: ps => (c :: p) :: ps
           | [] => [[c]]
           end
  end.

Definition is_utf8 (s : bytes) : bool := is_some (utf8_dec s).

(* _pattern: three fields separated by exactly two NUL bytes, the second one not empty
   (zid NUL cid NUL secret) *)
Definition plain_attempt (resps : list (bytes * bytes)) : mres :=
  match resps with
  | [] => MChal []
  | (_, r) :: _ =>
      match split_nul r with
      | [zid; cid; sec] =>
          match cid with
          | [] => MInvalid
          | _ => if is_utf8 cid && is_utf8 sec && is_utf8 zid
                 then MCreds {| cr_kind := 0; cr_cid := cid; cr_secret := sec;
                                cr_zid := match zid with [] => cid | _ => zid end |}
                 else MValueErr
          end
      | _ => MInvalid
      end
  end.

Definition S_USERNAME : bytes := [85; 115; 101; 114; 110; 97; 109; 101; 58].
Definition S_PASSWORD : bytes := [80; 97; 115; 115; 119; 111; 114; 100; 58].

Definition login_attempt (resps : list (bytes * bytes)) : mres :=
  match resps with
  | [] => MChal S_USERNAME
  | [_] => MChal S_PASSWORD
  | (_, u) :: (_, p) :: _ =>
      if is_utf8 u && is_utf8 p
      then MCreds {| cr_kind := 0; cr_cid := u; cr_secret := p; cr_zid := u |}
      else MValueErr
  end.

(* the text before the last blank and the text after it *)
Fixpoint split_last_sp (s : bytes) : option (bytes * bytes) :=
  match s with
  | [] => None
  | c :: s' =>
      match split_last_sp s' with
      | Some (a, b) => Some (c :: a, b)
      | None => if c =? 32 then Some ([], s') else None
      end
  end.

(* _pattern: `.`-text without LF, one blank, then a non-empty text without blanks up to the end;
   msgid = email.utils.make_msgid() *)
Definition cram_attempt (msgid : bytes) (resps : list (bytes * bytes)) : mres :=
  match resps with
  | [] => MChal msgid
  | (ch, r) :: _ =>
      match split_last_sp r with
      | Some (u, d) =>
          match d with
          | [] => MInvalid
          | _ => if existsb (N.eqb 10) u then MInvalid
                 else if is_utf8 u
                 then MCreds {| cr_kind := 1; cr_cid := u; cr_secret := d; cr_zid := ch |}
                 else MValueErr
          end
      | None => MInvalid
      end
  end.

Definition N_PLAIN : bytes := [80; 76; 65; 73; 78].
Definition N_LOGIN : bytes := [76; 79; 71; 73; 78].
Definition N_CRAM : bytes := [67; 82; 65; 77; 45; 77; 68; 53].

(* A site / plug-in mechanism of the harness (harness/props/c08.py TokenMechanism): one
   challenge "Token:", the answer is the token; kind 2: the mechanism object says
   insecure = True, kind 3: it says False or has no such attribute and its name is not in
   slimta.smtp.auth.insecure_mechanisms *)
Definition S_TOKEN : bytes := [84; 111; 107; 101; 110; 58].
Definition token_attempt (kind : N) (resps : list (bytes * bytes)) : mres :=
  match resps with
  | [] => MChal S_TOKEN
  | (_, r) :: _ => if is_utf8 r then MCreds {| cr_kind := kind; cr_cid := r; cr_secret := []; cr_zid := r |}
                   else MValueErr
  end.
Definition N_TOK_I : bytes := [88; 45; 84; 79; 75; 45; 73].      (* X-TOK-I  insecure = True *)
Definition N_TOK_S : bytes := [88; 45; 84; 79; 75; 45; 83].      (* X-TOK-S  insecure = False *)
Definition N_TOK_N : bytes := [88; 45; 84; 79; 75; 45; 78].      (* X-TOK-N  no attribute *)

(* SASLAuth.named([b'PLAIN', b'LOGIN', b'CRAM-MD5', ...]): `insecure` is the mechanism object's
   own attribute if it has one, else membership of its name in slimta.smtp.auth.insecure_mechanisms *)
Definition std_mechs_tok (cram tok : bool) (msgid : bytes) (n : bytes) : option mech :=
  if beqb n N_PLAIN then Some {| m_insecure := true; m_attempt := plain_attempt |}
  else if beqb n N_LOGIN then Some {| m_insecure := true; m_attempt := login_attempt |}
  else if cram && beqb n N_CRAM then Some {| m_insecure := false; m_attempt := cram_attempt msgid |}
  else if tok && beqb n N_TOK_I then Some {| m_insecure := true; m_attempt := token_attempt 2 |}
  else if tok && beqb n N_TOK_S then Some {| m_insecure := false; m_attempt := token_attempt 3 |}
  else if tok && beqb n N_TOK_N then Some {| m_insecure := false; m_attempt := token_attempt 3 |}
  else None.
Definition std_mechs (cram : bool) (msgid : bytes) : bytes -> option mech := std_mechs_tok cram false msgid.

(* ------------------------------------------------------------------ client side
   Client.custom_command(b'STARTTLS') / Client.encrypt / IO.encrypt_socket_client (fixed) and
   Reply.recv -> IO.recv_reply, over tagged bytes.  Reply lines are parsed by model/Reply.v. *)
Fixpoint t_lines (s : tbytes) : list tbytes * tbytes :=      (* complete lines (with LF), tail *)
  match s with
  | [] => ([], [])
  | x :: s' =>
      let '(ls, t) := t_lines s' in
      if fst x =? 10 then ([x] :: ls, t)
      else match ls with
           | [] => ([], x :: t)
           | l :: ls' => ((x :: l) :: ls', t)
           end
  end.

Inductive kscan :=
| KDone (code : bytes) (used : tbytes) (rest : list tbytes)
| KBad
| KMore (code : option bytes) (used : tbytes).

Fixpoint k_scan (code : option bytes) (used : tbytes) (ls : list tbytes) : kscan :=
  match ls with
  | [] => KMore code used
  | l :: ls' =>
      match parse_reply_line (removelast (untag l)) with
      | Some (c, sep, _) =>
          if code_conflict code c then KBad
          else if sep =? 45 then k_scan (Some c) (used ++ l) ls'
          else KDone c (used ++ l) ls'
      | None => KBad
      end
  end.

Inductive kres :=
| KOk (code : bytes) (used : tbytes) (buf : tbytes) (chunks : list bytes)
| KBadReply
| KLost.

Fixpoint k_recv (c : chan) (code : option bytes) (used : tbytes) (buf : tbytes)
         (chunks : list bytes) {struct chunks} : kres :=
  let '(ls, tail) := t_lines buf in
  match k_scan code used ls with
  | KDone cd u rest => KOk cd u (concat rest ++ tail) chunks
  | KBad => KBadReply
  | KMore cd u =>
      match chunks with
      | [] => KLost
      | ch :: cs =>
          match ch with
          | [] => KLost
          | _ => k_recv c cd u (tail ++ tag_with c ch) cs
          end
      end
  end.

Record kstate := { k_enc : bool; k_buf : tbytes; k_wire : wire }.

Inductive kop := KReply | KStartTls.
Inductive kfin := KfGo | KfBad | KfLost | KfNoTls.     (* KfNoTls: wrap_socket failed *)

Record kout := { ko_enc : bool;          (* io.encrypted when the reply was parsed *)
                 ko_code : bytes;
                 ko_used : tbytes;       (* the bytes the reply was parsed from *)
                 ko_fin : kfin }.

Definition C220 : bytes := [50; 50; 48].

Definition k_step (hs_ok : bool) (ks : kstate) (op : kop) : kstate * kout :=
  let enc := k_enc ks in
  match k_recv (chan_of enc) None [] (k_buf ks) (chunks_of enc (k_wire ks)) with
  | KBadReply => (ks, {| ko_enc := enc; ko_code := []; ko_used := []; ko_fin := KfBad |})
  | KLost => (ks, {| ko_enc := enc; ko_code := []; ko_used := []; ko_fin := KfLost |})
  | KOk code used buf cs =>
      let w := set_chunks enc (k_wire ks) cs in
      match op with
      | KReply => ({| k_enc := enc; k_buf := buf; k_wire := w |},
                   {| ko_enc := enc; ko_code := code; ko_used := used; ko_fin := KfGo |})
      | KStartTls =>
          if beqb code C220 then
            (* encrypt_socket_client: recv_buffer = b''; wrap_socket *)
            if hs_ok then ({| k_enc := true; k_buf := []; k_wire := w |},
                           {| ko_enc := enc; ko_code := code; ko_used := used; ko_fin := KfGo |})
            else ({| k_enc := enc; k_buf := []; k_wire := w |},
                  {| ko_enc := enc; ko_code := code; ko_used := used; ko_fin := KfNoTls |})
          else ({| k_enc := enc; k_buf := buf; k_wire := w |},
                {| ko_enc := enc; ko_code := code; ko_used := used; ko_fin := KfGo |})
      end
  end.

Fixpoint k_run (hs_ok : bool) (ks : kstate) (ops : list kop) : list kout :=
  match ops with
  | [] => []
  | op :: ops' =>
      let '(ks', o) := k_step hs_ok ks op in
      match ko_fin o with
      | KfGo => o :: k_run hs_ok ks' ops'
      | _ => [o]
      end
  end.

Definition k_init (w : wire) : kstate := {| k_enc := false; k_buf := []; k_wire := w |}.
