(* C02 - model of the hand-off of a received message from an edge to a queue,
   and of the answer the edge gives its client.  Definitions only.

   Mirrors (with the fixes d3-edge-all-results and d4-proxyqueue-per-recipient
   applied):
     slimta/edge/__init__.py   get_failure_reply, Edge.handoff
     slimta/edge/smtp.py       SmtpSession.HAVE_DATA  (+ smtp/server.py Server.handle
                               for an exception escaping the handler)
     slimta/edge/wsgi.py       WsgiEdge._enqueue_envelope, _build_http_response,
                               WsgiEdge.__call__ (generic exception branch)
     slimta/queue/__init__.py  Queue.enqueue, Queue._pool_imap
     slimta/queue/proxy.py     ProxyQueue.enqueue

   Only reply CODES are modelled (the property does not speak about texts).
   Envelopes are identified by their position in the list the policy chain
   produced (the policies themselves are C16's subject: here the chain is "some
   list of envelopes", one write behaviour per envelope); queue ids by the
   position of the write that created them. *)
From Coq Require Import List NArith Bool.
Import ListNotations.
Open Scope N_scope.

(* ------------------------------------------------------------------ replies *)
Definition code := list N.                 (* Reply.code, ASCII: "250" = [50;53;48] *)
Record reply := mkReply { r_code : option code }.   (* None: Reply() whose code was never set *)

Definition code_250 : code := [50; 53; 48].
Definition code_451 : code := [52; 53; 49].
Definition code_421 : code := [52; 50; 49].
Definition code_535 : code := [53; 51; 53].

(* code.startswith(<one character>) / code[0] == ... *)
Definition first_is (d : N) (c : code) : bool :=
  match c with x :: _ => x =? d | [] => false end.
Definition class2 (c : code) : bool := first_is 50 c.
(* Reply.is_error(): self.code[0] in ('4', '5')  (callers make sure the code is non-empty) *)
Definition is_error (c : code) : bool := first_is 52 c || first_is 53 c.

Fixpoint code_eqb (a b : code) : bool :=
  match a, b with
  | [], [] => true
  | x :: a', y :: b' => (x =? y) && code_eqb a' b'
  | _, _ => false
  end.

(* ------------------------------------------------------- enqueue() results *)
Inductive wres : Type :=
| Id (i : N)                     (* an id string *)
| QErr (att : option reply)      (* a QueueError; att = its `reply` attribute, if one is attached *)
| RelayErr (r : reply).          (* a RelayError (ProxyQueue); always carries .reply *)

Definition results := list (N * wres).     (* [(envelope, result)] *)

(* slimta.edge.get_failure_reply:
     default_reply = Reply('451', ...)
     if not results: return default_reply
     for _, result in results:
         if isinstance(result, (QueueError, RelayError)):
             reply = getattr(result, 'reply', None)
             if reply is not None and reply.code and reply.is_error(): return reply
             return default_reply
     return None *)
Definition usable (r : reply) : option code :=
  match r_code r with
  | None => None
  | Some [] => None
  | Some c => if is_error c then Some c else None
  end.

Definition attached (w : wres) : option (option reply) :=     (* None: not a failure *)
  match w with
  | Id _ => None
  | QErr att => Some att
  | RelayErr r => Some (Some r)
  end.

Fixpoint first_failure (rs : results) : option (option reply) :=
  match rs with
  | [] => None
  | (_, w) :: rs' =>
      match attached w with
      | Some att => Some att
      | None => first_failure rs'
      end
  end.

Definition failure_reply (rs : results) : option code :=      (* None: everything was queued *)
  match rs with
  | [] => Some code_451
  | _ :: _ =>
      match first_failure rs with
      | None => None
      | Some None => Some code_451
      | Some (Some r) =>
          match usable r with
          | Some c => Some c
          | None => Some code_451
          end
      end
  end.

(* SmtpSession.HAVE_DATA after handoff() returned `rs` (no validator class, or one
   that leaves the reply alone): reply starts as 250; a failure reply is copied
   over it; otherwise only the text is set.  Result: the code put on the wire. *)
Definition smtp_reply_of (rs : results) : code :=
  match failure_reply rs with
  | Some c => c
  | None => code_250
  end.

(* wsgi._build_http_response: status line from the SMTP code *)
Definition http_status_of (c : code) : N :=
  if first_is 50 c then 204
  else if first_is 52 c then 503
  else if code_eqb c code_535 then 401
  else 500.

(* WsgiEdge._enqueue_envelope: reply = get_failure_reply(results) or Reply('250') *)
Definition wsgi_status_of (rs : results) : N := http_status_of (smtp_reply_of rs).

(* ------------------------------------------------------------ Queue.enqueue *)
(* the families of exceptions a write (or anything else) can end with, as far as
   the code tells them apart *)
Inductive exkind : Type :=
| ExException                    (* an Exception subclass other than QueueError: OSError, a backend client error ... *)
| ExTimeout                      (* gevent.Timeout: derives from BaseException only *)
| ExBase.                        (* any other BaseException-only class: GreenletExit of a killed write, ... *)

(* what one call of store.write does *)
Inductive wout : Type :=
| WId                            (* returns an id *)
| WQErr (att : option reply)     (* raises QueueError *)
| WExc (x : exkind).             (* ends with any other exception *)

Inductive wbeh : Type :=
| Done (delay : N) (o : wout)    (* yields `delay` times (slow write), then `o` *)
| Hang.                          (* never completes *)

Inductive event : Type :=
| EvWriteStart (k : N)           (* store.write called for envelope k *)
| EvTick                         (* the writing greenlet is suspended, everybody else runs *)
| EvWriteDone (k : N)            (* write k returned its id: envelope k is in storage *)
| EvWriteFail (k : N)            (* write k raised *)
| EvRaise                        (* enqueue() raised (non-QueueError from a write / from the relay) *)
| EvRelayStart                   (* ProxyQueue: relay._attempt called *)
| EvRelayDone                    (* ... returned *)
| EvRelayFail                    (* ... raised *)
| EvSmtpReply (c : code)         (* reply to end-of-DATA written to the socket *)
| EvHttpStatus (s : N).          (* start_response(status) *)

Definition trace := list event.

Inductive enq : Type :=
| Returned (rs : results)
| Raised (x : exkind)
| Blocked.                       (* still inside enqueue() *)

Definition finish_event (k : N) (o : wout) : event :=
  match o with WId => EvWriteDone k | _ => EvWriteFail k end.

(* Queue._pool_imap('store', self.store.write, envelopes, repeat(now)):
   `map` is lazy, so each write is spawned and joined before the next one is
   spawned: the writes are sequential, every one is made even after a failure.
   k: index of the first envelope of `bs`.  Second component: None if a write
   never completed, else (index, outcome) of every write. *)
Fixpoint writes (k : N) (bs : list wbeh) : trace * option (list (N * wout)) :=
  match bs with
  | [] => ([], Some [])
  | Hang :: _ => ([EvWriteStart k; EvTick], None)
  | Done d o :: bs' =>
      let '(tr, r) := writes (k + 1) bs' in
      (EvWriteStart k :: repeat EvTick (N.to_nat d) ++ finish_event k o :: tr,
       match r with Some outs => Some ((k, o) :: outs) | None => None end)
  end.

(* the loop over `results` in Queue.enqueue:
     not an exception           -> spawn an attempt (if there is a relay)
     QueueError                 -> stays in the list
     other exception            -> raise  (later ids get no attempt)
   The test is `isinstance(id, BaseException)`: an exception of ANY family that
   is not a QueueError is re-raised, none is taken for an id.
   Returns (envelopes an attempt was spawned for, results or the exception raised). *)
Fixpoint spawn_loop (relay : bool) (outs : list (N * wout)) : list N * (results + exkind) :=
  match outs with
  | [] => ([], inl [])
  | (k, WId) :: outs' =>
      let '(att, r) := spawn_loop relay outs' in
      (if relay then k :: att else att,
       match r with inl rs => inl ((k, Id k) :: rs) | inr x => inr x end)
  | (k, WQErr a) :: outs' =>
      let '(att, r) := spawn_loop relay outs' in
      (att, match r with inl rs => inl ((k, QErr a) :: rs) | inr x => inr x end)
  | (k, WExc x) :: _ => ([], inr x)
  end.

Record enq_run := mkRun { q_trace : trace; q_attempts : list N; q_res : enq }.

(* Queue.enqueue(envelope) when the policy chain produced one envelope per element of bs *)
Definition queue_enqueue (relay : bool) (bs : list wbeh) : enq_run :=
  match writes 0 bs with
  | (tr, None) => mkRun tr [] Blocked
  | (tr, Some outs) =>
      match spawn_loop relay outs with
      | (att, inl rs) => mkRun tr att (Returned rs)
      | (att, inr x) => mkRun (tr ++ [EvRaise]) att (Raised x)
      end
  end.

(* Edge.handoff: stamps receiver/timestamp, calls queue.enqueue, logs and re-raises
   any exception: the outcome of enqueue unchanged. *)
Definition handoff (r : enq_run) : enq_run := r.

(* ------------------------------------------------------ ProxyQueue.enqueue *)
Inductive rres : Type :=
| ROk                            (* None or a Reply *)
| RErr (r : reply)               (* a RelayError object *)
| ROther.                        (* anything else *)

Inductive relay_result : Type :=
| RelWhole                       (* returns None, a Reply, or any object that is neither Mapping nor Sequence *)
| RelMap (l : list (N * rres))   (* a Mapping recipient -> result, in iteration order *)
| RelSeq (l : list rres)         (* a Sequence of per-recipient results *)
| RelRaise (r : reply)           (* raises a RelayError *)
| RelRaiseOther                  (* raises anything else *)
| RelHang.

Fixpoint first_relay_err (l : list rres) : option reply :=
  match l with
  | [] => None
  | RErr r :: _ => Some r
  | _ :: l' => first_relay_err l'
  end.

Definition proxy_results_of (l : list rres) : results :=
  match first_relay_err l with
  | Some r => [(0, RelayErr r)]
  | None => [(0, Id 0)]
  end.

(* ProxyQueue.enqueue (fixed): a mapping is replaced by list(values()); a
   sequence is searched for the first RelayError *)
Definition proxy_enqueue (rr : relay_result) : enq_run :=
  match rr with
  | RelWhole => mkRun [EvRelayStart; EvRelayDone] [] (Returned [(0, Id 0)])
  | RelMap l => mkRun [EvRelayStart; EvRelayDone] [] (Returned (proxy_results_of (map snd l)))
  | RelSeq l => mkRun [EvRelayStart; EvRelayDone] [] (Returned (proxy_results_of l))
  | RelRaise r => mkRun [EvRelayStart; EvRelayFail] [] (Returned [(0, RelayErr r)])
  | RelRaiseOther => mkRun [EvRelayStart; EvRelayFail; EvRaise] [] (Raised ExException)
  | RelHang => mkRun [EvRelayStart; EvTick] [] Blocked
  end.

(* -------------------------------------------------------------- the edges *)
Inductive answer (A : Type) : Type :=
| Replied (a : A)
| NoReply                        (* still waiting *)
| Dropped.                       (* the exception left the edge: the SMTP session ends and the socket is
                                    closed without a reply / the WSGI application raises (the WSGI server
                                    then answers 500 by itself).  Never an acknowledgement. *)
Arguments Replied {A} a.
Arguments NoReply {A}.
Arguments Dropped {A}.

(* SMTP: HAVE_DATA handler, then Server._get_message_data sends the reply; an
   exception escaping the handler makes Server.handle send `unhandled_error`
   (421) and end the session. *)
Definition smtp_edge (r : enq_run) : trace * answer code :=
  match q_res r with
  | Returned rs => let c := smtp_reply_of rs in (q_trace r ++ [EvSmtpReply c], Replied c)
  (* Server.handle: `except Exception` -> unhandled_error (421); `except Timeout` (the
     command-timeout arm) -> timed_out (421) then ConnectionLost; anything else is not caught *)
  | Raised ExException | Raised ExTimeout => (q_trace r ++ [EvSmtpReply code_421], Replied code_421)
  | Raised ExBase => (q_trace r, Dropped)
  | Blocked => (q_trace r, NoReply)
  end.

(* WSGI: _enqueue_envelope raises the WsgiResponse, __call__ passes its status to
   start_response; any other exception -> '500 Internal Server Error'. *)
Definition wsgi_edge (r : enq_run) : trace * answer N :=
  match q_res r with
  | Returned rs => let s := wsgi_status_of rs in (q_trace r ++ [EvHttpStatus s], Replied s)
  (* WsgiEdge.__call__ catches WsgiResponse and Exception only *)
  | Raised ExException => (q_trace r ++ [EvHttpStatus 500], Replied 500)
  | Raised _ => (q_trace r, Dropped)
  | Blocked => (q_trace r, NoReply)
  end.

Definition smtp_run (relay : bool) (bs : list wbeh) := smtp_edge (handoff (queue_enqueue relay bs)).
Definition wsgi_run (relay : bool) (bs : list wbeh) := wsgi_edge (handoff (queue_enqueue relay bs)).
Definition smtp_proxy_run (rr : relay_result) := smtp_edge (handoff (proxy_enqueue rr)).
Definition wsgi_proxy_run (rr : relay_result) := wsgi_edge (handoff (proxy_enqueue rr)).

(* vocabulary of the theorems *)
Definition is_reply_event (e : event) : bool :=
  match e with EvSmtpReply _ | EvHttpStatus _ => true | _ => false end.
Definition failed_write (b : wbeh) : bool :=
  match b with Done _ WId => false | Done _ _ => true | Hang => false end.
Definition is_failure (w : wres) : bool :=
  match w with Id _ => false | _ => true end.
Definition is_rerr (x : rres) : bool := match x with RErr _ => true | _ => false end.

(* "every envelope was written, and every write had completed, when `tr0` had happened" *)
Definition all_stored_before (bs : list wbeh) (tr0 : trace) : Prop :=
  bs <> [] /\
  (forall i b, nth_error bs i = Some b ->
     exists d, b = Done d WId /\ In (EvWriteDone (N.of_nat i)) tr0) /\
  (forall k, ~ In (EvWriteFail k) tr0) /\
  (forall e, In e tr0 -> is_reply_event e = false).

Definition relayed_ok (rr : relay_result) : Prop :=
  match rr with
  | RelWhole => True
  | RelMap l => forall p, In p l -> is_rerr (snd p) = false
  | RelSeq l => forall x, In x l -> is_rerr x = false
  | _ => False
  end.

Definition relay_failed (rr : relay_result) : Prop :=
  match rr with
  | RelMap l => exists p, In p l /\ is_rerr (snd p) = true
  | RelSeq l => exists x, In x l /\ is_rerr x = true
  | RelRaise _ | RelRaiseOther => True
  | _ => False
  end.

(* ------------------------------------------- several messages in flight at once
   One Queue serves every connection of every edge.  Everything Queue.enqueue
   and Queue._run_policies compute for one message lives in locals of that call
   (`results` of _run_policies, `envelopes`, `ids`, `results` of enqueue); the
   objects shared between two calls are the store (ids are fresh, writes of
   different messages do not touch each other), `active_ids` and the hub.  So
   the model of concurrent hand-offs is: every message performs the events of
   its OWN sequential run (model above), in order; a schedule decides whose
   next event happens.  A policy that yields inside apply() shows as EvTicks
   in front of the message's writes.  The harness checks this very fact on the
   real code: the events of each client, taken out of the global log of a
   concurrent run, are the per-message model run of that client. *)
Inductive edge_kind : Type := ESmtp | EWsgi.
Record msg := mkMsg { m_edge : edge_kind; m_pyields : N; m_bs : list wbeh }.

Definition msg_trace (relay : bool) (m : msg) : trace :=
  repeat EvTick (N.to_nat (m_pyields m)) ++
  match m_edge m with
  | ESmtp => fst (smtp_run relay (m_bs m))
  | EWsgi => fst (wsgi_run relay (m_bs m))
  end.

(* take the next event of the i-th message, if it has one left *)
Fixpoint pop (i : nat) (ps : list trace) : option (event * list trace) :=
  match ps, i with
  | [], _ => None
  | p :: ps', O => match p with [] => None | e :: p' => Some (e, p' :: ps') end
  | p :: ps', S i' =>
      match pop i' ps' with Some (e, r) => Some (e, p :: r) | None => None end
  end.

(* an arbitrary schedule: a list of message numbers; picking a finished (or
   non-existent) message is a no-op, so every list is a schedule *)
Fixpoint run_sched (sched : list N) (ps : list trace) : list (N * event) :=
  match sched with
  | [] => []
  | i :: s =>
      match pop (N.to_nat i) ps with
      | Some (e, ps') => (i, e) :: run_sched s ps'
      | None => run_sched s ps
      end
  end.

Definition concurrent_run (relay : bool) (msgs : list msg) (sched : list N) : list (N * event) :=
  run_sched sched (map (msg_trace relay) msgs).

Definition project (i : N) (g : list (N * event)) : trace :=
  map snd (filter (fun p => fst p =? i) g).

(* ------------------------------------------------ the SMTP session in front of
   the hand-off: how the envelope that is handed to the queue comes about.
   Mirrors slimta/smtp/server.py Server._command_EHLO/_HELO/_RSET/_MAIL/_RCPT/
   _DATA/_get_message_data (the flags have_mailfrom / have_rcptto and the 503
   answers) together with slimta/edge/smtp.py SmtpSession.EHLO/HELO/RSET/MAIL/
   RCPT/DATA/HAVE_DATA (self.envelope).  A validator class may change the reply
   of MAIL, RCPT, DATA, of the received data (handle_have_data) and of
   EHLO/HELO; `v` below is the code it leaves in the reply (the default when it
   does nothing).  Recipients are numbers.  Not modelled: close codes 221/421,
   STARTTLS/AUTH, syntax errors, MessageTooBig (C07/C08/C09). *)
Inductive scmd : Type :=
| SEhlo (v : N)                  (* EHLO; v = 250 unless the validator refuses *)
| SHelo (v : N)
| SRset
| SMail (v : N)                  (* MAIL FROM:<sender>; v = 250 = accepted *)
| SRcpt (a : N) (v : N)          (* RCPT TO:<a> *)
| SData (v : N) (hv : N) (q : N) (* DATA: v = 354 = go ahead; hv = code after handle_have_data
                                    (250 = hand the envelope to the queue); q = the code the
                                    hand-off produces (smtp_reply_of the results) *)
| SNoop.

Record sstate := mkS { s_helo : bool;            (* Server.ehlo_as set *)
                       s_mail : bool;            (* Server.have_mailfrom *)
                       s_rcpt : bool;            (* Server.have_rcptto *)
                       s_env : option (list N) } (* SmtpSession.envelope: its recipients *).

Inductive sout : Type :=
| OReply (c : N)
| OHandoff (rcpts : list N).     (* self.handoff(self.envelope) *)

Definition s_init : sstate := mkS false false false None.

Definition sstep (s : sstate) (c : scmd) : sstate * list sout :=
  match c with
  | SEhlo v | SHelo v =>
      if v =? 250 then (mkS true false false None, [OReply v])
      else (s, [OReply v])
  | SRset => (mkS (s_helo s) false false None, [OReply 250])
  | SNoop => (s, [OReply 250])
  | SMail v =>
      if negb (s_helo s) then (s, [OReply 503])
      else if s_mail s then (s, [OReply 503])
      else if v =? 250 then (mkS (s_helo s) true (s_rcpt s) (Some []), [OReply v])
      else (s, [OReply v])
  | SRcpt a v =>
      if negb (s_mail s) then (s, [OReply 503])
      else if v =? 250 then
        (mkS (s_helo s) (s_mail s) true
             (match s_env s with Some l => Some (l ++ [a]) | None => None end), [OReply v])
      else (s, [OReply v])
  | SData v hv q =>
      if negb (s_mail s) || negb (s_rcpt s) then (s, [OReply 503])
      else if negb (v =? 354) then (s, [OReply v])      (* refused: the transaction stays open *)
      else if negb (hv =? 250) then
        (mkS (s_helo s) false false None, [OReply v; OReply hv])
      else
        (mkS (s_helo s) false false None,
         [OReply v;
          OHandoff (match s_env s with Some l => l | None => [] end);
          OReply q])
  end.

Fixpoint srun (s : sstate) (cs : list scmd) : list (scmd * list sout) :=
  match cs with
  | [] => []
  | c :: cs' => let '(s', o) := sstep s c in (c, o) :: srun s' cs'
  end.

(* What the CLIENT knows, from the commands it sent and the reply codes it read
   only: is a transaction open, and which recipients were accepted (250 to
   RCPT) since it began. *)
Definition replies_of (o : list sout) : list N :=
  flat_map (fun x => match x with OReply c => [c] | OHandoff _ => [] end) o.

Definition view := (bool * list N)%type.        (* (transaction open, accepted recipients) *)

Definition is1 (rs : list N) (c : N) : bool :=
  match rs with [x] => x =? c | _ => false end.

Definition view_step (w : view) (c : scmd) (rs : list N) : view :=
  match c with
  | SEhlo _ | SHelo _ | SRset => if is1 rs 250 then (false, []) else w
  | SMail _ => if is1 rs 250 then (true, []) else w
  | SRcpt a _ => if is1 rs 250 then (fst w, snd w ++ [a]) else w
  | SData _ _ _ =>
      match rs with
      | x :: _ => if x =? 354 then (false, []) else w     (* the message went through the data phase *)
      | [] => w
      end
  | SNoop => w
  end.

(* walks an observed session; collects, for every hand-off, (what the client
   believes was accepted, what the envelope held) *)
Fixpoint handoffs (w : view) (obs : list (scmd * list sout)) : list (list N * list N) :=
  match obs with
  | [] => []
  | (c, o) :: obs' =>
      flat_map (fun x => match x with OHandoff l => [(snd w, l)] | OReply _ => [] end) o
      ++ handoffs (view_step w c (replies_of o)) obs'
  end.

(* "not acknowledged": an error answer, or no answer at all because the exception left the edge *)
Definition refused {A : Type} (err : A -> Prop) (a : answer A) : Prop :=
  match a with Replied x => err x | Dropped => True | NoReply => False end.
Definition base_only (b : wbeh) : bool :=
  match b with Done _ (WExc ExTimeout) | Done _ (WExc ExBase) => true | _ => false end.
