(* Shared definitions of the queue-storage models (C15, C04; imported by the
   queue model for C01/C03):
     - envelopes as far as a storage backend sees them,
     - the delivered-marking round functions (Python: QueueStorage.
       _remove_delivered_rcpts / _delivered_round / _replay_delivered_rcpts),
     - storage operations, results and the reference store,
     - programs over an abstract substrate (atomic commands = yield points) and
       their interleavings.
   Definitions only; proofs are in proof/Store_lemmas.v. *)
From Coq Require Import List NArith Bool.
From SV Require Import lib.Assoc.
Import ListNotations.
Open Scope N_scope.

Definition bytes := list N.

(* What a backend stores of an Envelope: sender, recipient list, and the
   flattened headers+body as opaque bytes.  Pickling is modelled as identity on
   this record (trusted, see DESIGN §9). *)
Record envelope := mkEnv { e_sender : bytes; e_rcpts : list bytes; e_content : bytes }.
Definition with_rcpts (e : envelope) (l : list bytes) : envelope :=
  mkEnv (e_sender e) l (e_content e).

(* ------------------------------------------------------------------ rounds *)
(* `del l[n]`; None = IndexError *)
Fixpoint del_nth {A} (n : nat) (l : list A) : option (list A) :=
  match l, n with
  | [], _ => None
  | _ :: l', O => Some l'
  | x :: l', S n' => option_map (cons x) (del_nth n' l')
  end.

(* `for index in script: del l[index]`, one deletion after the other.
   (l', true) = completed; (l', false) = IndexError raised after the list was
   already shortened to l' (the in-place effect DictStorage keeps). *)
Fixpoint replay_p {A} (script : list N) (l : list A) : list A * bool :=
  match script with
  | [] => (l, true)
  | i :: sc => match del_nth (N.to_nat i) l with
               | Some l' => replay_p sc l'
               | None => (l, false)
               end
  end.

Definition replay {A} (script : list N) (l : list A) : option (list A) :=
  match replay_p script l with (l', true) => Some l' | (_, false) => None end.

(* sorted(idxs, reverse=True) *)
Fixpoint insert_desc (x : N) (l : list N) : list N :=
  match l with
  | [] => [x]
  | y :: l' => if y <=? x then x :: l else y :: insert_desc x l'
  end.
Definition sort_desc (l : list N) : list N := fold_right insert_desc [] l.

(* QueueStorage._remove_delivered_rcpts(envelope, rcpt_indexes): one marking
   round applied to the list it refers to (highest index first). *)
Definition round_p {A} (idxs : list N) (l : list A) : list A * bool :=
  replay_p (sort_desc idxs) l.
Definition round {A} (idxs : list N) (l : list A) : option (list A) :=
  replay (sort_desc idxs) l.

(* disk/redis/cloud after the D5/D6 fixes: the stored list is the
   concatenation of the rounds, each sorted descending (_delivered_round), and
   get() replays it one deletion at a time (_replay_delivered_rcpts). *)
Definition accum_mark (cur : list N) (idxs : list N) : list N := cur ++ sort_desc idxs.
Definition accum_get {A} (stored : list N) (orig : list A) : option (list A) := replay stored orig.

(* The shipped (pre-fix) behaviour, kept for the refutation witness of D6:
   marks accumulated flat, get() deletes `sorted(stored, reverse=True)` from
   the ORIGINAL list although later rounds were relative to the reduced one. *)
Definition flat_mark (cur : list N) (idxs : list N) : list N := cur ++ idxs.
Definition flat_get {A} (stored : list N) (orig : list A) : option (list A) := round stored orig.

(* positions (ascending) of the elements of l that satisfy p: what the Queue
   computes in _handle_partial_relay for the settled recipients *)
Fixpoint positions {A} (p : A -> bool) (l : list A) (from : N) : list N :=
  match l with
  | [] => []
  | x :: l' => if p x then from :: positions p l' (from + 1) else positions p l' (from + 1)
  end.

(* k successive rounds on a dict-like (in place) store *)
Fixpoint rounds_inplace {A} (settles : list (A -> bool)) (l : list A) : option (list A) :=
  match settles with
  | [] => Some l
  | p :: ps => match round (positions p l 0) l with
               | Some l' => rounds_inplace ps l'
               | None => None
               end
  end.

(* k successive rounds on an accumulating store: each round fetches the
   reduced list with get, computes positions in it, and marks them *)
Fixpoint rounds_accum {A} (mark : list N -> list N -> list N)
         (get : list N -> list A -> option (list A))
         (settles : list (A -> bool)) (orig : list A) (stored : list N) : option (list A) :=
  match settles with
  | [] => get stored orig
  | p :: ps => match get stored orig with
               | Some cur => rounds_accum mark get ps orig (mark stored (positions p cur 0))
               | None => None
               end
  end.

(* ------------------------------------------------------------ operations *)
(* Environment choices are part of the operation: the uuid candidates drawn by
   the id-allocation loop, the names mkstemp returns (disk), the clock (redis
   load falls back to time.time() for a hash without a timestamp). *)
Inductive op :=
| OWrite (e : envelope) (ts : N) (cands : list N) (tmps : list N)
| OSetTs (id ts : N) (tmps : list N)
| OIncr (id : N) (tmps : list N)
| ODeliv (id : N) (idxs : list N) (tmps : list N)
| OLoad (now : N)
| OGet (id : N)
| ORemove (id : N).

Inductive res :=
| RId (id : N)
| RUnit
| RAtt (n : N)
| RLoad (l : list (N * N))            (* (timestamp, id) pairs, backend order *)
| RGot (e : envelope) (att : N)
| RMissing      (* KeyError / FileNotFoundError: no such message *)
| RIndexErr     (* IndexError out of `del recipients[i]` *)
| RNoId         (* every drawn id collided: the loop would go on drawing *)
| RNoTmp        (* model artefact: the operation was given too few temp names *)
| RTmpExists    (* mkstemp name already present (cannot happen: O_EXCL) *)
| REmptyWrite   (* IOError out of aio_write: an empty piece (returns 0) or a reported error (ENOSPC, EFBIG) *)
| RCorrupt      (* unpickling error *)
| RWrongType.   (* redis: hash command sent to the list key *)

Definition op_id (o : op) : option N :=
  match o with
  | OWrite _ _ _ _ | OLoad _ => None
  | OSetTs id _ _ | OIncr id _ | ODeliv id _ _ | OGet id | ORemove id => Some id
  end.

(* ------------------------------------------------------- reference store *)
Record entry := mkEntry { en_env : envelope (* outstanding recipients only *);
                          en_ts : N; en_att : N }.
Definition rstore := amap N entry.
Definition rlookup (r : rstore) (id : N) : option entry := alookup N.eqb r id.

Fixpoint first_free (r : rstore) (cands : list N) : option N :=
  match cands with
  | [] => None
  | c :: cs => match rlookup r c with None => Some c | Some _ => first_free r cs end
  end.

Definition ref_step (r : rstore) (o : op) : rstore * res :=
  match o with
  | OWrite e ts cands _ =>
      match first_free r cands with
      | Some id => (aset N.eqb r id (mkEntry e ts 0), RId id)
      | None => (r, RNoId)
      end
  | OSetTs id ts _ =>
      match rlookup r id with
      | Some en => (aset N.eqb r id (mkEntry (en_env en) ts (en_att en)), RUnit)
      | None => (r, RMissing)
      end
  | OIncr id _ =>
      match rlookup r id with
      | Some en => (aset N.eqb r id (mkEntry (en_env en) (en_ts en) (en_att en + 1)), RAtt (en_att en + 1))
      | None => (r, RMissing)
      end
  | ODeliv id idxs _ =>
      match rlookup r id with
      | Some en =>
          match round idxs (e_rcpts (en_env en)) with
          | Some l => (aset N.eqb r id (mkEntry (with_rcpts (en_env en) l) (en_ts en) (en_att en)), RUnit)
          | None => (r, RIndexErr)
          end
      | None => (r, RMissing)
      end
  | OLoad _ => (r, RLoad (map (fun p => (en_ts (snd p), fst p)) r))
  | OGet id =>
      match rlookup r id with
      | Some en => (r, RGot (en_env en) (en_att en))
      | None => (r, RMissing)
      end
  | ORemove id => (adel N.eqb r id, RUnit)
  end.

Fixpoint ref_run (r : rstore) (ops : list op) : rstore * list res :=
  match ops with
  | [] => (r, [])
  | o :: ops' => let (r1, x) := ref_step r o in
                 let (r2, xs) := ref_run r1 ops' in (r2, x :: xs)
  end.

(* Operation sequences the property quantifies over: updates and removes
   address live messages, indexes of a marking round are distinct and within
   the outstanding recipient list (the Queue computes them with
   recipients.index), get may address any id. *)
Fixpoint nodupb (l : list N) : bool :=
  match l with
  | [] => true
  | x :: l' => negb (existsb (N.eqb x) l') && nodupb l'
  end.

Definition wf_op (r : rstore) (o : op) : bool :=
  match o with
  | OWrite _ _ _ _ | OLoad _ | OGet _ => true
  | OSetTs id _ _ | OIncr id _ | ORemove id =>
      match rlookup r id with Some _ => true | None => false end
  | ODeliv id idxs _ =>
      match rlookup r id with
      | Some en => nodupb idxs && forallb (fun i => i <? N.of_nat (length (e_rcpts (en_env en)))) idxs
      | None => false
      end
  end.

Fixpoint wf_ops (r : rstore) (ops : list op) : bool :=
  match ops with
  | [] => true
  | o :: ops' => wf_op r o && wf_ops (fst (ref_step r o)) ops'
  end.

(* ------------------------------------------ programs over a substrate *)
Section Prog.
  Variables (St Cmd Ans : Type).
  Variable exec : St -> Cmd -> St * Ans.

  (* a backend operation: substrate commands in program order; each command is
     atomic and is a point where gevent may switch / the process may die *)
  Inductive prog (R : Type) : Type :=
  | Ret (r : R)
  | Do (c : Cmd) (k : Ans -> prog R).
  Arguments Ret {R} r.
  Arguments Do {R} c k.

  Fixpoint run {R} (p : prog R) (s : St) : St * R :=
    match p with
    | Ret r => (s, r)
    | Do c k => let (s', a) := exec s c in run (k a) s'
    end.

  (* the commands issued, in order (the effect log) *)
  Fixpoint trace {R} (p : prog R) (s : St) : list Cmd :=
    match p with
    | Ret _ => []
    | Do c k => let (s', a) := exec s c in c :: trace (k a) s'
    end.

  (* agents: anything that issues one command at a time *)
  Variable Ag : Type.
  Variable next : Ag -> option (Cmd * (Ans -> Ag)).

  Definition astep (s : St) (a : Ag) : St * Ag :=
    match next a with
    | None => (s, a)
    | Some (c, k) => let (s', x) := exec s c in (s', k x)
    end.

  Fixpoint asteps (n : nat) (s : St) (a : Ag) : St * Ag :=
    match n with
    | O => (s, a)
    | S n' => let (s', a') := astep s a in asteps n' s' a'
    end.

  Fixpoint set_nth {A} (n : nat) (x : A) (l : list A) : list A :=
    match l, n with
    | [], _ => []
    | _ :: l', O => x :: l'
    | y :: l', S n' => y :: set_nth n' x l'
    end.

  (* a schedule is the list of agent numbers in the order they get to issue
     their next command; every prefix of a schedule is a schedule, so "state
     after any schedule" covers "state at any crash point of any interleaving" *)
  Fixpoint sched (sch : list nat) (s : St) (ags : list Ag) : St * list Ag :=
    match sch with
    | [] => (s, ags)
    | i :: sch' =>
        match nth_error ags i with
        | None => sched sch' s ags
        | Some a => let (s', a') := astep s a in sched sch' s' (set_nth i a' ags)
        end
    end.
End Prog.

Arguments Ret {Cmd Ans R} r.
Arguments Do {Cmd Ans R} c k.
Arguments run {St Cmd Ans} exec {R} p s.
Arguments trace {St Cmd Ans} exec {R} p s.
Arguments astep {St Cmd Ans} exec {Ag} next s a.
Arguments asteps {St Cmd Ans} exec {Ag} next n s a.
Arguments sched {St Cmd Ans} exec {Ag} next sch s ags.
Arguments set_nth {A} n x l.

Definition prog_next {Cmd Ans R} (p : prog Cmd Ans R) : option (Cmd * (Ans -> prog Cmd Ans R)) :=
  match p with Ret _ => None | Do c k => Some (c, k) end.

(* A thread: a sequence of operations issued one after the other by one
   greenlet chain (all operations on one message), with the bookkeeping the
   crash theorems talk about: completed operations with their results, the
   operation in flight (at least one of its commands was issued) and what is
   left of it, and the operations not yet started. *)
Section Thread.
  Variables (Cmd Ans : Type).
  Variable prog_of : op -> prog Cmd Ans res.

  Record thread := mkThread { th_done : list (op * res);
                              th_cur : option (op * prog Cmd Ans res);
                              th_todo : list op }.

  (* retire the operation in flight once its program has returned *)
  Definition settle (d : list (op * res)) (o : op) (p : prog Cmd Ans res) (todo : list op) : thread :=
    match p with
    | Ret r => mkThread (d ++ [(o, r)]) None todo
    | Do _ _ => mkThread d (Some (o, p)) todo
    end.

  Definition th_next (th : thread) : option (Cmd * (Ans -> thread)) :=
    match th_cur th with
    | Some (o, Do c k) => Some (c, fun a => settle (th_done th) o (k a) (th_todo th))
    | Some (o, Ret _) => None
    | None =>
        match th_todo th with
        | [] => None
        | o :: rest =>
            match prog_of o with
            | Do c k => Some (c, fun a => settle (th_done th) o (k a) rest)
            | Ret _ => None
            end
        end
    end.

  Definition th_start (ops : list op) : thread := mkThread [] None ops.
End Thread.

Arguments mkThread {Cmd Ans} th_done th_cur th_todo.
Arguments th_done {Cmd Ans} t.
Arguments th_cur {Cmd Ans} t.
Arguments th_todo {Cmd Ans} t.
Arguments settle {Cmd Ans} d o p todo.
Arguments th_next {Cmd Ans} prog_of th.
Arguments th_start {Cmd Ans} ops.
