(* The DataSender OBJECT of slimta/smtp/datasender.py and its re-use (property
   C05): `__init__` stores the parts and computes the end marker, `__iter__`
   (hence `send`) builds FRESH generators from the stored parts on every call
   and assigns nothing.  Definitions only; the byte-level functions are those
   of model/Data.v. *)
From Coq Require Import List NArith.
From SV Require Import lib.Bytes model.Data.
Import ListNotations.

(* self.parts, self.end_marker *)
Record sender : Type := mksender { s_parts : list bytes; s_end_marker : bytes }.

(* DataSender.__init__ *)
Definition sender_new (parts : list bytes) : sender :=
  mksender parts (calc_end_marker parts).

(* DataSender.__iter__: the pieces yielded, and the object afterwards *)
Definition sender_iter (o : sender) : list bytes * sender :=
  (flat_map process_part (s_parts o) ++ [s_end_marker o], o).

(* DataSender.send(io) on a fresh IO followed by io.flush_send(): the bytes the
   socket gets (IO.buffered_send appends to the send buffer, flush_send hands
   the buffer to the socket in one piece), and the object afterwards *)
Definition sender_send (o : sender) : bytes * sender :=
  let '(pieces, o') := sender_iter o in (concat pieces, o').

(* n emissions of one object, one after the other *)
Fixpoint emissions (o : sender) (n : nat) : list bytes :=
  match n with
  | O => []
  | S n' => let '(wire, o') := sender_send o in wire :: emissions o' n'
  end.
