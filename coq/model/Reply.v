(* Model of slimta/smtp/io.py (send_reply, recv_reply) and of the parts of
   slimta/smtp/reply.py that decide what text a Reply object shows.
   Definitions only.  Text = list of Unicode code points (N); wire = bytes. *)
From Coq Require Import List NArith Bool String.
From SV Require Import lib.Val lib.Bytes.
Import ListNotations.
Open Scope N_scope.

(* ---------- UTF-8 (Python's strict codec) ---------- *)
Definition is_cont (b : N) : bool := (128 <=? b) && (b <? 192).
Definition is_surrogate (c : N) : bool := (55296 <=? c) && (c <=? 57343).
Definition valid_cp (c : N) : bool := (c <? 1114112) && negb (is_surrogate c).

Definition utf8_enc1 (c : N) : bytes :=
  if c <? 128 then [c]
  else if c <? 2048 then [192 + c / 64; 128 + c mod 64]
  else if c <? 65536 then [224 + c / 4096; 128 + (c / 64) mod 64; 128 + c mod 64]
  else [240 + c / 262144; 128 + (c / 4096) mod 64; 128 + (c / 64) mod 64; 128 + c mod 64].
Definition utf8_enc (t : list N) : bytes := flat_map utf8_enc1 t.

Definition ocons (c : N) (o : option (list N)) : option (list N) :=
  match o with Some l => Some (c :: l) | None => None end.

Fixpoint utf8_dec (s : bytes) : option (list N) :=
  match s with
  | [] => Some []
  | b1 :: s1 =>
      if b1 <? 128 then ocons b1 (utf8_dec s1)
      else if b1 <? 194 then None
      else if b1 <? 224 then
        match s1 with
        | b2 :: s2 =>
            if is_cont b2 then ocons ((b1 - 192) * 64 + (b2 - 128)) (utf8_dec s2) else None
        | _ => None
        end
      else if b1 <? 240 then
        match s1 with
        | b2 :: b3 :: s3 =>
            let c := (b1 - 224) * 4096 + (b2 - 128) * 64 + (b3 - 128) in
            if is_cont b2 && is_cont b3 && (2048 <=? c) && negb (is_surrogate c)
            then ocons c (utf8_dec s3) else None
        | _ => None
        end
      else if b1 <? 245 then
        match s1 with
        | b2 :: b3 :: b4 :: s4 =>
            let c := (b1 - 240) * 262144 + (b2 - 128) * 4096 + (b3 - 128) * 64 + (b4 - 128) in
            if is_cont b2 && is_cont b3 && is_cont b4 && (65536 <=? c) && (c <? 1114112)
            then ocons c (utf8_dec s4) else None
        | _ => None
        end
      else None
  end.

(* ---------- IO.send_reply ---------- *)
(* lines of `message + b'\r\n'` found by line_pattern.finditer: split at LF,
   one trailing CR dropped from each *)
Definition msg_lines (m : bytes) : list bytes := map strip_cr (fst (split_lf (m ++ CRLF))).

Fixpoint emit_lines (code : bytes) (ls : list bytes) : bytes :=
  match ls with
  | [] => []
  | [l] => code ++ [32] ++ l ++ CRLF
  | l :: ls' => code ++ [45] ++ l ++ CRLF ++ emit_lines code ls'
  end.

Definition send_reply (code m : bytes) : bytes := emit_lines code (msg_lines m).

(* documented normalisation: every \r?\n becomes \r\n *)
Fixpoint norm (m : list N) : list N :=
  match m with
  | [] => []
  | a :: r =>
      if a =? 10 then 13 :: 10 :: norm r
      else if a =? 13 then
        match r with
        | b :: r' => if b =? 10 then 13 :: 10 :: norm r' else 13 :: norm r
        | [] => [13]
        end
      else a :: norm r
  end.

(* ---------- IO.recv_reply ---------- *)
(* reply_line_pattern = (([1-5]\d\d)([ \t-])(.*?))\r?\n  applied to one raw line
   (LF already removed) *)
Definition is_sep (b : N) : bool := (b =? 32) || (b =? 9) || (b =? 45).
Definition parse_reply_line (raw : bytes) : option (bytes * N * bytes) :=
  match strip_cr raw with
  | d1 :: d2 :: d3 :: s :: txt =>
      if ((49 <=? d1) && (d1 <=? 53)) && is_digit d2 && is_digit d3 && is_sep s
      then Some ([d1; d2; d3], s, txt) else None
  | _ => None
  end.

Inductive scan_res :=
| SDone (code : bytes) (msgs : list bytes) (rest : list bytes)
| SBad (rest : list bytes)
| SMore (code : option bytes) (msgs : list bytes).

Definition code_conflict (code : option bytes) (c : bytes) : bool :=
  match code with Some c0 => negb (beqb c0 c) | None => false end.

Fixpoint scan (code : option bytes) (msgs : list bytes) (ls : list bytes) : scan_res :=
  match ls with
  | [] => SMore code msgs
  | raw :: ls' =>
      match parse_reply_line raw with
      | Some (c, sep, txt) =>
          if code_conflict code c then SBad ls   (* recv_buffer not advanced past this line *)
          else if sep =? 45 then scan (Some c) (msgs ++ [txt]) ls'
          else SDone c (msgs ++ [txt]) ls'
      | None => SBad ls'
      end
  end.

Inductive rres :=
| ROk (code : bytes) (body : bytes) (buf : bytes) (chunks : list bytes)
| RBad (buf : bytes) (chunks : list bytes)
| RLost.

Fixpoint recv_loop (code : option bytes) (msgs : list bytes) (buf : bytes)
         (chunks : list bytes) {struct chunks} : rres :=
  let '(ls, tail) := split_lf buf in
  match scan code msgs ls with
  | SDone c m rest => ROk c (join CRLF m) (unraw rest ++ tail) chunks
  | SBad rest => RBad (unraw rest ++ tail) chunks
  | SMore c m =>
      match chunks with
      | [] => RLost
      | ch :: chunks' =>
          match ch with
          | [] => RLost
          | _ => recv_loop c m (tail ++ ch) chunks'
          end
      end
  end.

Definition recv_reply (buf : bytes) (chunks : list bytes) : rres :=
  recv_loop None [] buf chunks.

(* batch specification: the whole stream at once *)
Definition recv_spec (stream : bytes) : rres := recv_loop None [] stream [].

(* ---------- Reply object: code / message / enhanced status code ---------- *)
Section ReplyObj.
  (* Python's str-pattern classes \d and \s (Unicode aware) *)
  Variable udigit : N -> bool.
  Variable uspace : N -> bool.

  Inductive esc := EscNone | EscFalse | EscSome (cls : N) (subj det : list N).

  Record reply := mkReply { r_code : list N; r_esc : esc; r_msg : list N }.

  (* take 1..3 chars satisfying udigit, greedy; None if 0 or >3 *)
  Definition take_digits (s : list N) : option (list N * list N) :=
    match s with
    | d1 :: s1 =>
        if udigit d1 then
          match s1 with
          | d2 :: s2 =>
              if udigit d2 then
                match s2 with
                | d3 :: s3 =>
                    if udigit d3 then
                      match s3 with
                      | d4 :: _ => if udigit d4 then None else Some ([d1; d2; d3], s3)
                      | [] => Some ([d1; d2; d3], s3)
                      end
                    else Some ([d1; d2], s2)
                | [] => Some ([d1; d2], s2)
                end
              else Some ([d1], s1)
          | [] => Some ([d1], s1)
          end
        else None
    | [] => None
    end.

  Fixpoint drop_space (s : list N) : list N :=
    match s with
    | c :: s' => if uspace c then drop_space s' else s
    | [] => []
    end.

  (* message_esc_pattern = ^([245]\.\d\d?\d?\.\d\d?\d?)\s+ : Some (cls, subj, det, rest) *)
  Definition match_esc (v : list N) : option (N * list N * list N * list N) :=
    match v with
    | k :: dot :: s =>
        if ((k =? 50) || (k =? 52) || (k =? 53)) && (dot =? 46) then
          match take_digits s with
          | Some (subj, s1) =>
              match s1 with
              | dot2 :: s2 =>
                  if dot2 =? 46 then
                    match take_digits s2 with
                    | Some (det, s3) =>
                        match s3 with
                        | w :: s4 => if uspace w then Some (k, subj, det, drop_space s4) else None
                        | [] => None
                        end
                    | None => None
                    end
                  else None
              | [] => None
              end
          | None => None
          end
        else None
    | _ => None
    end.

  Definition is245 (k : N) : bool := (k =? 50) || (k =? 52) || (k =? 53).
  (* `self._code and self._code[0] not in ('2','4','5')` switches the peeling off *)
  Definition peel_allowed (code : list N) : bool :=
    match code with [] => true | k :: _ => is245 k end.

  (* message setter on a reply whose code is already set *)
  Definition set_message (r : reply) (v : list N) : reply :=
    match v with
    | [] => mkReply (r_code r) (match r_esc r with EscSome _ _ _ => EscNone | e => e end) []
    | _ =>
        match (if peel_allowed (r_code r) then match_esc v else None) with
        | Some (k, subj, det, rest) => mkReply (r_code r) (EscSome k subj det) rest
        | None => mkReply (r_code r) (match r_esc r with EscSome _ _ _ => EscNone | e => e end) v
        end
    end.

  (* Reply(code, message) *)
  Definition new_reply (code v : list N) : reply := set_message (mkReply code EscNone []) v.

  Definition code_class (r : reply) : N := hd 0 (r_code r).

  (* enhanced_status_code getter *)
  Definition get_esc (r : reply) : option (list N) :=
    let k := code_class r in
    if is245 k then
      match r_esc r with
      | EscSome _ subj det => Some (k :: 46 :: subj ++ 46 :: det)
      | EscFalse => None
      | EscNone => Some [k; 46; 48; 46; 48]
      end
    else None.

  (* message getter *)
  Definition get_message (r : reply) : list N :=
    match get_esc r, r_msg r with
    | Some e, _ :: _ => e ++ 32 :: r_msg r
    | _, _ => r_msg r
    end.

  (* Reply.send on a fresh IO: bytes put on the wire *)
  Definition wire_of (r : reply) : bytes :=
    send_reply (r_code r) (utf8_enc (get_message r)).

  (* Reply.recv into a fresh Reply object *)
  Inductive recv_out :=
  | GotReply (r : reply) (buf : bytes) (chunks : list bytes)
  | BadReply (buf : bytes) (chunks : list bytes)
  | BadCode                                  (* ValueError from the code setter *)
  | Lost.

  Definition code_ok (c : list N) : bool :=
    match c with
    | [a; _; _] => (49 <=? a) && (a <=? 53)
    | _ => false
    end.

  Definition reply_recv (buf : bytes) (chunks : list bytes) : recv_out :=
    match recv_reply buf chunks with
    | ROk c body buf' ch' =>
        match utf8_dec body with
        | Some t =>
            if code_ok c then GotReply (new_reply c t) buf' ch' else BadCode
        | None => BadReply buf' ch'
        end
    | RBad buf' ch' => BadReply buf' ch'
    | RLost => Lost
    end.

  (* ---------- the setter chain as it is written in reply.py ----------
     `set_message` above stores the pieces captured by message_esc_pattern
     directly.  The code does not: the message setter hands match.group(1) -- a
     string -- to the enhanced_status_code setter, which matches it against a
     SECOND pattern, esc_pattern, and raises ValueError when that one does not
     match.  Below both patterns are separate matchers and the chain is explicit;
     proof/Reply_lemmas.v shows the chain never raises and computes `set_message`
     (the two patterns agree). *)

  (* message_esc_pattern.match(value) as the code uses it:
     Some (match.group(1), value[match.end(0):]) *)
  Definition msg_esc_group1 (v : list N) : option (list N * list N) :=
    match match_esc v with
    | Some (k, subj, det, rest) => Some (k :: 46 :: subj ++ 46 :: det, rest)
    | None => None
    end.

  (* `$` (no MULTILINE): at the end, or before one final line feed *)
  Definition at_dollar (s : list N) : bool :=
    match s with
    | [] => true
    | [c] => c =? 10
    | _ => false
    end.

  (* esc_pattern = ^([245])\.(\d\d?\d?)\.(\d\d?\d?)$  : match.groups() *)
  Definition match_esc_pattern (v : list N) : option (N * list N * list N) :=
    match v with
    | k :: dot :: s =>
        if is245 k && (dot =? 46) then
          match take_digits s with
          | Some (subj, s1) =>
              match s1 with
              | dot2 :: s2 =>
                  if dot2 =? 46 then
                    match take_digits s2 with
                    | Some (det, s3) => if at_dollar s3 then Some (k, subj, det) else None
                    | None => None
                    end
                  else None
              | [] => None
              end
          | None => None
          end
        else None
    | _ => None
    end.

  (* code_pattern = ^[12345]\d\d$ *)
  Definition match_code_pattern (c : list N) : bool :=
    match c with
    | a :: b :: d :: tl => (49 <=? a) && (a <=? 53) && udigit b && udigit d && at_dollar tl
    | _ => false
    end.

  (* enhanced_status_code setter; None = raise ValueError('Invalid ENHANCEDSTATUSCODES string').
     A falsy value (None, '') is stored as it is: the getter treats both alike. *)
  Definition esc_setter (r : reply) (value : list N) : option reply :=
    match value with
    | [] => Some (mkReply (r_code r) EscNone (r_msg r))
    | _ =>
        match match_esc_pattern value with
        | Some (k, subj, det) => Some (mkReply (r_code r) (EscSome k subj det) (r_msg r))
        | None => None
        end
    end.

  (* message setter, statement by statement; None = the ValueError of esc_setter escapes *)
  Definition set_message_chk (r : reply) (v : list N) : option reply :=
    match v with
    | [] => Some (mkReply (r_code r) (match r_esc r with EscSome _ _ _ => EscNone | e => e end) [])
    | _ =>
        match (if peel_allowed (r_code r) then msg_esc_group1 v else None) with
        | Some (g1, rest) =>
            (* self._message = value[match.end(0):]; self.enhanced_status_code = match.group(1) *)
            esc_setter (mkReply (r_code r) (r_esc r) rest) g1
        | None => Some (mkReply (r_code r) (match r_esc r with EscSome _ _ _ => EscNone | e => e end) v)
        end
    end.

  (* Reply.__init__(code, message): code setter, enhanced_status_code = None, message setter.
     code [] stands for None / '' (stored as it is). *)
  Inductive ctor_res :=
  | CtorOk (r : reply)
  | CtorBadCode          (* ValueError('Invalid SMTP reply code') *)
  | CtorBadEsc.          (* ValueError('Invalid ENHANCEDSTATUSCODES string') *)

  Definition ctor_code_ok (code : list N) : bool :=
    match code with [] => true | _ => match_code_pattern code end.

  Definition reply_ctor (code v : list N) : ctor_res :=
    if ctor_code_ok code then
      match esc_setter (mkReply code EscNone []) [] with
      | Some r0 =>
          match set_message_chk r0 v with
          | Some r => CtorOk r
          | None => CtorBadEsc
          end
      | None => CtorBadEsc
      end
    else CtorBadCode.

  (* Reply.recv into a fresh Reply object, through the setter chain;
     None = ValueError('Invalid ENHANCEDSTATUSCODES string') instead of a reply or BadReply *)
  Definition reply_recv_chk (buf : bytes) (chunks : list bytes) : option recv_out :=
    match recv_reply buf chunks with
    | ROk c body buf' ch' =>
        match utf8_dec body with
        | Some t =>
            if code_ok c then
              match set_message_chk (mkReply c EscNone []) t with
              | Some r => Some (GotReply r buf' ch')
              | None => None
              end
            else Some BadCode
        | None => Some (BadReply buf' ch')
        end
    | RBad buf' ch' => Some (BadReply buf' ch')
    | RLost => Some Lost
    end.

  (* ---------- a Reply object under any sequence of setter operations ----------
     reply.code = c / reply.message = v / reply.enhanced_status_code = v (a str, or
     None / '' written []) / reply.enhanced_status_code = False / reply.copy(other) /
     reply.send(io).
     The ESC setter stores match.groups() = (class as given, subject, detail); the getter
     (get_esc above) ignores the stored class and takes the class of the CURRENT code at
     read time.  A setter that raises ValueError (code_pattern / esc_pattern refuse the
     value) raises before it assigns: the object is as it was (None below). *)
  Inductive rop :=
  | ROCode (c : list N)
  | ROMsg (v : list N)
  | ROEsc (v : list N)
  | ROEscFalse
  | ROCopy (o : reply)     (* reply.copy(o): _code, _message, _esc assigned directly from o, no setter runs *)
  | ROSend.                (* reply.send(io): an observation, the object is not changed *)

  Definition code_setter (r : reply) (c : list N) : option reply :=
    if ctor_code_ok c then Some (mkReply c (r_esc r) (r_msg r)) else None.

  Definition rop_apply (r : reply) (o : rop) : option reply :=
    match o with
    | ROCode c => code_setter r c
    | ROMsg v => set_message_chk r v
    | ROEsc v => esc_setter r v
    | ROEscFalse => Some (mkReply (r_code r) EscFalse (r_msg r))
    | ROCopy o => Some (mkReply (r_code o) (r_esc o) (r_msg o))
    | ROSend => Some r
    end.

  (* the caller catches the ValueError and goes on with the object *)
  Definition rop_step (r : reply) (o : rop) : reply :=
    match rop_apply r o with Some r' => r' | None => r end.

  (* Reply(): no code, no message, _esc None *)
  Definition fresh_reply : reply := mkReply [] EscNone [].

  Definition rops_run (ops : list rop) : reply := fold_left rop_step ops fresh_reply.

  (* the objects as they are at each ROSend, in order: IO.send_reply(reply) encodes
     reply.code and reply.message as they are at that moment (nothing is kept from an
     earlier write), so the k-th write puts wire_of (k-th of these) on the wire *)
  Fixpoint rops_sent (r : reply) (ops : list rop) : list reply :=
    match ops with
    | [] => []
    | o :: ops' => (match o with ROSend => [r] | _ => [] end) ++ rops_sent (rop_step r o) ops'
    end.

  Definition rops_wire (ops : list rop) : bytes :=
    List.concat (map wire_of (rops_sent fresh_reply ops)).

  (* IO.send_reply(reply) begins with reply.code.encode('ascii') and
     reply.message.encode('utf-8'): a code point outside ASCII in the code, or a
     surrogate anywhere in the text, raises UnicodeEncodeError BEFORE a single byte is put
     into the send buffer.  None = that exception; nothing was written. *)
  Definition can_encode (r : reply) : bool :=
    forallb (fun c => c <? 128) (r_code r) && forallb valid_cp (get_message r).
  Definition send_chk (r : reply) : option bytes :=
    if can_encode r then Some (wire_of r) else None.

  (* the send buffer of ONE IO after all the operations: a failed send adds nothing *)
  Fixpoint rops_out (r : reply) (ops : list rop) : bytes :=
    match ops with
    | [] => []
    | o :: ops' =>
        (match o with
         | ROSend => match send_chk r with Some w => w | None => [] end
         | _ => []
         end) ++ rops_out (rop_step r o) ops'
    end.
End ReplyObj.
