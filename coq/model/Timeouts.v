(* C14 -- timeouts.  Definitions only (proofs: proof/Timeouts_lemmas.v).

   A. The type of the GENERATED table gen/TimeoutTable.v (tools/timeouts_ast.py,
      regenerated from /repo on every build) and the resolution of helper
      methods: which blocking call sites are not covered by any
      `with Timeout(<configured timeout>)` scope on some call path.
   B. Timed model of slimta.smtp.server.Server.handle: input = list of
      (delay, chunk); command phase arms a fresh command_timeout at every
      _recv_command, DATA phase one cumulative data_timeout around the whole
      reader.recv(); expiry => 421 + close.
   C. Timed model of one delivery attempt of SmtpRelayClient/LmtpRelayClient
      (_run: _connect, _handshake, _deliver): a list of stages, each tagged with
      the timeout scope the generated table records for its method.

   Time is an N (the harness uses milliseconds of its virtual clock).
   Modelling assumptions (see DESIGN C14): processing takes no time; writes do
   not block (write sites are judged by the table, part A, not by B/C). *)
From Coq Require Import List NArith Bool String.
From SV Require Import lib.Bytes.
Import ListNotations.
Open Scope N_scope.

(* ================================================================= A. table *)

(* the expression given to Timeout(...):  self.connect_timeout, self.command_timeout,
   self.data_timeout, self.timeout / self.relay.timeout, self.idle_timeout, anything else *)
Inductive texpr : Type :=
| TConnect | TCommand | TData | TSingle | TIdle | TOther (e : string)
| TExpired.   (* not a Timeout(...) at all: the site lies in an `except` handler that catches
                 Timeout (or in a `finally`), with no scope opened inside it -- it runs after a
                 timer has fired, so neither an enclosing scope nor a caller's scope bounds it *)

Inductive kind : Type :=
| KConnect     (* socket_creator(address) *)
| KExchange    (* Client.<command>: write + read of the peer's reply; HTTP request/response *)
| KRead        (* IO.recv_*, DataReader.recv, AuthSession.server_attempt *)
| KWrite       (* IO.flush_send, reply.send(io, flush=True) *)
| KHandshake   (* TLS wrap_socket *)
| KProc        (* subprocess spawn / communicate *)
| KCall        (* call of another scanned method (callee = its name) *)
| KPoll        (* Client.has_reply_waiting: bounded by its own constant *)
| KClose       (* IO.close / HTTPConnection.close *)
| KLocal.      (* user callbacks, the relay's own request queue: not the peer *)

Record site : Type := mk_site {
  s_class : string;
  s_method : string;
  s_callee : string;
  s_kind : kind;
  s_scope : option (texpr * N);     (* innermost enclosing `with Timeout(e)` and its line *)
  s_line : N }.

(* Calls that wait for the peer (or a subprocess) and therefore must be inside a scope.
   KClose is recorded but not demanded: IO.close can wait for a TLS close_notify, but
   only after the attempt's result / the session's last reply was delivered. *)
Definition needs_guard (k : kind) : bool :=
  match k with
  | KConnect | KExchange | KRead | KWrite | KHandshake | KProc => true
  | KCall | KPoll | KClose | KLocal => false
  end.

(* only a configured session/attempt timeout is a guard; idle_timeout and unknown
   expressions (a literal, None, ...) are not *)
Definition guard_expr (e : texpr) : bool :=
  match e with
  | TConnect | TCommand | TData | TSingle => true
  | TIdle | TOther _ | TExpired => false
  end.

Definition is_expired (sc : option (texpr * N)) : bool :=
  match sc with Some (TExpired, _) => true | _ => false end.

Definition scope_ok (sc : option (texpr * N)) : bool :=
  match sc with Some (e, _) => guard_expr e | None => false end.

Definition is_call (k : kind) : bool := match k with KCall => true | _ => false end.

Definition smem (x : string) (l : list string) : bool := existsb (String.eqb x) l.

Fixpoint sdedup (l : list string) (acc : list string) : list string :=
  match l with
  | [] => acc
  | x :: l' => if smem x acc then sdedup l' acc else sdedup l' (acc ++ [x])
  end.

Definition class_sites (tbl : list site) (c : string) : list site :=
  filter (fun s => String.eqb (s_class s) c) tbl.

Definition call_sites (cs : list site) : list site := filter (fun s => is_call (s_kind s)) cs.

Definition methods_of (cs : list site) : list string :=
  sdedup (map s_method cs ++ map s_callee (call_sites cs)) [].

(* roots: methods nobody (in the scanned class) calls -- entry points such as _run,
   handle, attempt, __init__ -- and methods called from a Timeout handler / finally *)
Definition roots (cs : list site) : list string :=
  let called := map s_callee (call_sites cs) in
  sdedup (map s_callee (filter (fun s => is_expired (s_scope s)) (call_sites cs)))
         (filter (fun m => negb (smem m called)) (methods_of cs)).

(* one round: methods called, from a method already exposed, at a call site that is
   not inside a guard scope *)
Definition expose_step (cs : list site) (cur : list string) : list string :=
  sdedup (map s_callee
            (filter (fun s => smem (s_method s) cur && negb (scope_ok (s_scope s))) (call_sites cs)))
         cur.

Fixpoint iter {A} (n : nat) (f : A -> A) (x : A) : A :=
  match n with O => x | S n' => iter n' f (f x) end.

(* methods reachable from a root without passing through a scope *)
Definition exposed_cs (cs : list site) : list string :=
  iter (List.length cs) (expose_step cs) (roots cs).

Definition site_unguarded (ex : list string) (s : site) : bool :=
  needs_guard (s_kind s) && negb (scope_ok (s_scope s))
  && (smem (s_method s) ex || is_expired (s_scope s)).

Definition classes (tbl : list site) : list string := sdedup (map s_class tbl) [].

Definition unguarded (tbl : list site) : list site :=
  flat_map (fun c => let cs := class_sites tbl c in
                     filter (site_unguarded (exposed_cs cs)) cs) (classes tbl).

Definition key_mem (m c : string) (exc : list (string * string)) : bool :=
  existsb (fun k => String.eqb (fst k) m && String.eqb (snd k) c) exc.

(* every blocking site is inside a scope on every call path, except the listed
   (method, callee) pairs *)
Definition all_guarded (exc : list (string * string)) (tbl : list site) : bool :=
  forallb (fun s => key_mem (s_method s) (s_callee s) exc) (unguarded tbl).

(* ---- the scope that bounds a method's blocking sites (for the client stages) *)
Definition texpr_eqb (a b : texpr) : bool :=
  match a, b with
  | TConnect, TConnect | TCommand, TCommand | TData, TData | TSingle, TSingle | TIdle, TIdle
  | TExpired, TExpired => true
  | TOther x, TOther y => String.eqb x y
  | _, _ => false
  end.

Definition own_scope (s : site) : option texpr :=
  match s_scope s with Some (e, _) => if guard_expr e then Some e else None | None => None end.

(* scope inherited by an unexposed helper: the scope of its (first) call site, or of
   that caller's caller ... *)
Fixpoint inherit (fuel : nat) (cs : list site) (m : string) : option texpr :=
  match fuel with
  | O => None
  | S fuel' =>
      match filter (fun s => String.eqb (s_callee s) m) (call_sites cs) with
      | [] => None
      | s :: _ => match own_scope s with
                  | Some e => Some e
                  | None => if is_expired (s_scope s) then None else inherit fuel' cs (s_method s)
                  end
      end
  end.

Definition resolved (cs : list site) (ex : list string) (s : site) : option texpr :=
  match own_scope s with
  | Some e => Some e
  | None => if smem (s_method s) ex || is_expired (s_scope s) then None
            else inherit (List.length cs) cs (s_method s)
  end.

Definition method_scope (tbl : list site) (c m : string) : option texpr :=
  let cs := class_sites tbl c in
  let ex := exposed_cs cs in
  let ss := filter (fun s => String.eqb (s_method s) m && needs_guard (s_kind s)) cs in
  match map (resolved cs ex) ss with
  | Some e :: rest =>
      if forallb (fun r => match r with Some e' => texpr_eqb e e' | None => false end) rest
      then Some e else None
  | _ => None          (* no blocking site found, or the first one is unguarded *)
  end.

(* ---- how the timeout attributes are configured.  gen/TimeoutTable.v carries, per class and
   per timeout expression used by a scope, the constructor parameters __init__ derives the
   attribute from: [p] for `self.x = p`, [p; q] for `self.x = p or q`.  A scope bounds
   something only if that chain ends in a parameter the configuration always supplies: the
   connect / command timeout of the relay clients (they default to 10 s), the command
   timeout of the server, the single timeout of pipe and HTTP relays.  `data_timeout` alone
   is optional (default None = no limit): it must fall back. *)
Definition base_param (p : string) : bool :=
  String.eqb p "connect_timeout" || String.eqb p "command_timeout" || String.eqb p "timeout".

Definition chain_ok (chain : list string) : bool :=
  match rev chain with p :: _ => base_param p | [] => false end.

Definition timeouts_have_fallback (tbl : list site) (defs : list (string * texpr * list string)) : bool :=
  forallb (fun s =>
             match s_scope s with
             | Some (e, _) =>
                 if guard_expr e
                 then existsb (fun d => String.eqb (fst (fst d)) (s_class s) && texpr_eqb (snd (fst d)) e
                                        && chain_ok (snd d)) defs
                 else true
             | None => true
             end) tbl.

(* ================================================================= B. server *)

Inductive action : Type := AContinue | AEnterData | AClose.
Inductive why : Type := WTimeout | WQuit | WEof.

Inductive event : Type :=
| ECmd (t : N)            (* a command line was completed and answered at t (not DATA->354, not QUIT->221) *)
| EDataBegin (t : N)      (* DATA accepted (354) at t: _get_message_data begins *)
| EDataDone (t : N)       (* end-of-data seen at t (reply to the message) *)
| EClosed (t : N) (w : why)
| EBlocked.               (* no timeout configured and the peer is silent: never ends *)

Record scfg : Type := { c_cmd : option N; c_data : option N }.

(* Server.__init__: self.data_timeout = data_timeout or command_timeout *)
Definition eff_data (cfg : scfg) : option N :=
  match c_data cfg with
  | Some d => if d =? 0 then c_cmd cfg else Some d
  | None => c_cmd cfg
  end.

Inductive phase : Type := PCmd | PData.

(* datareader.eod_pattern  ^\.\s*?\n$  on a complete line (here without its LF).
   An end-of-data marker on the very first line of the data (empty message, defect D1 in
   datareader.py) is C05's business: the C14 generators never produce it. *)
Definition is_eod (line : bytes) : bool :=
  match line with
  | 46 :: r => forallb is_ws r
  | _ => false
  end.

Section Server.
  Variable S : Type.
  (* effect of one complete command line (CR LF removed) on the session state *)
  Variable interp : S -> bytes -> S * action.
  (* _get_message_data's epilogue: have_mailfrom = have_rcptto = None *)
  Variable data_done : S -> S.

  Record sst : Type := mk_sst {
    ph : phase;
    rcur : bytes;        (* bytes of the current incomplete line, newest first *)
    armed : N;           (* when the current Timeout scope was entered *)
    ist : S }.

  (* one received byte at time `now`; bool = the session closed (QUIT) *)
  Definition step_byte (now : N) (st : sst) (b : N) : sst * list event * bool :=
    if b =? 10 then
      let line := rev (rcur st) in
      match ph st with
      | PCmd =>
          (* IO.recv_line: (.*?)\r?\n ; Server.handle: _handle_command, flush, _recv_command re-arms *)
          let '(s', a) := interp (ist st) (strip_cr line) in
          match a with
          | AContinue => (mk_sst PCmd [] now s', [ECmd now], false)
          | AEnterData => (mk_sst PData [] now s', [EDataBegin now], false)
          | AClose => (mk_sst PCmd [] now s', [EClosed now WQuit], true)
          end
      | PData =>
          (* DataReader.handle_finished_line *)
          if is_eod line
          then (mk_sst PCmd [] now (data_done (ist st)), [EDataDone now], false)
          else (mk_sst PData [] (armed st) (ist st), [], false)
      end
    else (mk_sst (ph st) (b :: rcur st) (armed st) (ist st), [], false).

  Fixpoint feed (now : N) (st : sst) (bs : bytes) : sst * list event * bool :=
    match bs with
    | [] => (st, [], false)
    | b :: bs' =>
        let '(st1, ev1, closed) := step_byte now st b in
        if closed then (st1, ev1, true)
        else let '(st2, ev2, c2) := feed now st1 bs' in (st2, ev1 ++ ev2, c2)
    end.

  Definition limit_of (cfg : scfg) (p : phase) : option N :=
    match p with PCmd => c_cmd cfg | PData => eff_data cfg end.

  Definition deadline (cfg : scfg) (st : sst) : option N :=
    match limit_of cfg (ph st) with Some l => Some (armed st + l) | None => None end.

  (* input: (delay since the previous chunk, chunk); an empty chunk is EOF;
     after the last chunk the peer stays silent for ever *)
  Fixpoint run (cfg : scfg) (now : N) (st : sst) (input : list (N * bytes)) : list event :=
    match input with
    | [] => match deadline cfg st with Some d => [EClosed d WTimeout] | None => [EBlocked] end
    | (dl, ch) :: rest =>
        let t := now + dl in
        let expired := match deadline cfg st with Some d => d <=? t | None => false end in
        if expired
        then match deadline cfg st with Some d => [EClosed d WTimeout] | None => [EBlocked] end
        else match ch with
             | [] => [EClosed t WEof]
             | _ => let '(st', evs, closed) := feed t st ch in
                    if closed then evs else evs ++ run cfg t st' rest
             end
    end.

  Definition run_server (cfg : scfg) (s0 : S) (input : list (N * bytes)) : list event :=
    run cfg 0 (mk_sst PCmd [] 0 s0) input.
End Server.

Arguments mk_sst {S}. Arguments ph {S}. Arguments rcur {S}. Arguments armed {S}. Arguments ist {S}.

(* ---- what the property speaks about, computed from the trace alone *)
Definition ev_time (e : event) : option N :=
  match e with ECmd t | EDataBegin t | EDataDone t => Some t | EClosed _ _ | EBlocked => None end.

(* time of the last completed command / DATA begin / end-of-data; a0 before any *)
Definition anchor_from (a0 : N) (pre : list event) : N :=
  fold_left (fun a e => match ev_time e with Some t => t | None => a end) pre a0.

Definition phase_from (p0 : phase) (pre : list event) : phase :=
  fold_left (fun p e => match e with
                        | EDataBegin _ => PData
                        | ECmd _ | EDataDone _ => PCmd
                        | _ => p end) pre p0.

(* ---- a concrete command interpreter: Server without custom handlers, no TLS context,
   no AUTH (enough to decide Continue / EnterData / Close for the correspondence runs) *)
Record smtp_st : Type := mk_smtp { have_ehlo : bool; have_mail : bool; have_rcpt : bool }.

Fixpoint span_alpha (s : bytes) : bytes * bytes :=
  match s with
  | b :: s' => if is_alpha b then let '(a, r) := span_alpha s' in (b :: a, r) else ([], s)
  | [] => ([], [])
  end.

Fixpoint drop_ws (s : bytes) : bytes :=
  match s with b :: s' => if is_ws b then drop_ws s' else s | [] => [] end.

Definition rstrip_ws (s : bytes) : bytes := rev (drop_ws (rev s)).

(* IO.recv_command: command_pattern ^([a-zA-Z]+)\s*$ , command_arg_pattern ^([a-zA-Z]+)\s+(.+?)\s*$ *)
Definition parse_command (line : bytes) : option (bytes * option bytes) :=
  let '(verb, rest) := span_alpha line in
  match verb with
  | [] => None
  | _ =>
      match rest with
      | [] => Some (map to_upper verb, None)
      | r0 :: _ =>
          if is_ws r0 then
            match drop_ws rest with
            | [] => Some (map to_upper verb, None)
            | arg => Some (map to_upper verb, Some (rstrip_ws arg))
            end
          else None
      end
  end.

(* from_pattern ^[fF][rR][oO][mM]:\s*<  /  to_pattern ^[tT][oO]:\s*<  then a '>' (no quotes modelled) *)
Definition addr_arg (kw : bytes) (arg : bytes) : bool :=
  let n := List.length kw in
  beqb (map to_upper (firstn n arg)) kw &&
  match drop_ws (skipn n arg) with
  | 60 :: r => existsb (fun b => b =? 62) r
  | _ => false
  end.

Definition smtp_interp (s : smtp_st) (line : bytes) : smtp_st * action :=
  match parse_command line with
  | None => (s, AContinue)                                   (* 500 unknown command *)
  | Some (verb, arg) =>
      if beqb verb [69;72;76;79] || beqb verb [72;69;76;79] then          (* EHLO / HELO *)
        match arg with
        | None => (s, AContinue)                             (* 501 *)
        | Some _ => (mk_smtp true false false, AContinue)
        end
      else if beqb verb [77;65;73;76] then                                 (* MAIL *)
        match arg with
        | None => (s, AContinue)                             (* not generated (TypeError path) *)
        | Some a =>
            if addr_arg [70;82;79;77;58] a && have_ehlo s && negb (have_mail s)
            then (mk_smtp (have_ehlo s) true (have_rcpt s), AContinue)
            else (s, AContinue)
        end
      else if beqb verb [82;67;80;84] then                                 (* RCPT *)
        match arg with
        | None => (s, AContinue)
        | Some a =>
            if addr_arg [84;79;58] a && have_mail s
            then (mk_smtp (have_ehlo s) (have_mail s) true, AContinue)
            else (s, AContinue)
        end
      else if beqb verb [68;65;84;65] then                                 (* DATA *)
        match arg with
        | Some _ => (s, AContinue)
        | None => if have_mail s && have_rcpt s then (s, AEnterData) else (s, AContinue)
        end
      else if beqb verb [82;83;69;84] then                                 (* RSET *)
        match arg with
        | Some _ => (s, AContinue)
        | None => (mk_smtp (have_ehlo s) false false, AContinue)
        end
      else if beqb verb [81;85;73;84] then                                 (* QUIT *)
        match arg with
        | Some _ => (s, AContinue)
        | None => (s, AClose)
        end
      else (s, AContinue)                                    (* NOOP, STARTTLS/AUTH not offered, unknown *)
  end.

Definition smtp_data_done (s : smtp_st) : smtp_st := mk_smtp (have_ehlo s) false false.

Definition smtp_run (cfg : scfg) (input : list (N * bytes)) : list event :=
  run_server smtp_st smtp_interp smtp_data_done cfg (mk_smtp false false false) input.

(* ================================================================= C. client *)

(* one stage = the blocking sites of one method on the attempt's path: it waits for
   `cs_waits` replies of the peer inside the scope `cs_scope` (None = no scope) *)
Record cstage : Type := mk_cstage { cs_scope : option texpr; cs_waits : nat }.

Record ccfg : Type := { t_connect : N; t_command : N; t_data : N; t_single : N }.

(* SmtpRelayClient.__init__(connect_timeout=10.0, command_timeout=10.0, data_timeout=None):
   self.data_timeout = data_timeout or command_timeout.  `u` = time units per second.
   (An explicit None for connect/command means "no limit" and is outside the property.) *)
Record rawcfg : Type := { r_connect : option N; r_command : option N; r_data : option N }.

Definition eff_ccfg (u : N) (r : rawcfg) : ccfg :=
  let cmd := match r_command r with Some c => c | None => 10 * u end in
  {| t_connect := match r_connect r with Some c => c | None => 10 * u end;
     t_command := cmd;
     t_data := match r_data r with Some d => if d =? 0 then cmd else d | None => cmd end;
     t_single := 0 |}.

Definition scope_limit (cfg : ccfg) (sc : option texpr) : option N :=
  match sc with
  | Some TConnect => Some (t_connect cfg)
  | Some TCommand => Some (t_command cfg)
  | Some TData => Some (t_data cfg)
  | Some TSingle => Some (t_single cfg)
  | Some TIdle | Some (TOther _) | Some TExpired | None => None
  end.

Inductive coutcome : Type :=
| CDone (t : N)                    (* every stage completed; result delivered at t *)
| CTimedOut (stage : nat) (t : N)  (* Timeout in that stage; transient failure delivered at t *)
| CStuck (stage : nat).            (* blocked for ever in that stage *)

(* total waiting time for the next w replies; each delay runs from the later of the
   stage's start and the previous reply; None = that reply never comes *)
Fixpoint take_wait (w : nat) (ds : list (option N)) : option N * list (option N) :=
  match w with
  | O => (Some 0, ds)
  | Datatypes.S w' =>
      match ds with
      | [] => (None, [])
      | None :: ds' => (None, ds')
      | Some d :: ds' =>
          let '(r, rest) := take_wait w' ds' in
          (match r with Some x => Some (d + x) | None => None end, rest)
      end
  end.

Fixpoint run_attempt (cfg : ccfg) (i : nat) (now : N) (stages : list cstage)
         (ds : list (option N)) : coutcome :=
  match stages with
  | [] => CDone now
  | s :: ss =>
      let '(wt, ds') := take_wait (cs_waits s) ds in
      match scope_limit cfg (cs_scope s), wt with
      | Some T, Some x => if x <? T then run_attempt cfg (Datatypes.S i) (now + x) ss ds'
                          else CTimedOut i (now + T)
      | Some T, None => CTimedOut i (now + T)
      | None, Some x => run_attempt cfg (Datatypes.S i) (now + x) ss ds'
      | None, None => CStuck i
      end
  end.

Definition sum_limits (cfg : ccfg) (stages : list cstage) : N :=
  fold_right (fun s a => match scope_limit cfg (cs_scope s) with Some T => T + a | None => a end) 0 stages.

Definition stage_guarded (cfg : ccfg) (s : cstage) : bool :=
  match scope_limit cfg (cs_scope s) with Some _ => true | None => false end.

(* ---- the path of one delivery attempt through SmtpRelayClient._run for a peer that
   accepts everything until it stalls (a_reject: every recipient is refused and DATA is
   answered 354: _send_empty_data, then the failure is delivered; an LMTP server owes
   no reply to the end of data when it accepted no recipient).  The path ends where
   the AsyncResult is set; what the client greenlet does afterwards (_rset after a
   rejection, _disconnect: QUIT) is `linger_path`, each stage under command_timeout. *)
Record acfg : Type := mk_acfg {
  a_tls_immediately : bool;
  a_starttls : bool;
  a_auth : bool;
  a_pipelining : bool;
  a_lmtp : bool;
  a_reject : bool;
  a_nrcpt : nat;
  a_helo : bool }.      (* the peer answers EHLO with 500: SmtpRelayClient._ehlo falls back to _helo *)

Definition attempt_path (a : acfg) : list (string * nat) :=
  let p := a_pipelining a in
  let n := a_nrcpt a in
  [("_connect"%string, 1%nat)]
  ++ (if a_tls_immediately a then [("_handshake"%string, 1%nat)] else [])
  ++ [("_banner"%string, 1%nat); ("_ehlo"%string, 1%nat)]
  ++ (if a_helo a then [("_helo"%string, 1%nat)] else [])      (* which stages run depends on earlier replies *)
  ++ (if a_starttls a && negb (a_tls_immediately a)
      then [("_starttls"%string, 2%nat); ("_ehlo"%string, 1%nat)] else [])
  ++ (if a_auth a then [("_authenticate"%string, 1%nat)] else [])
  ++ [("_mailfrom"%string, if p then 0%nat else 1%nat)]
  ++ repeat ("_rcptto"%string, if p then 0%nat else 1%nat) n
  ++ [("_data"%string, if p then (2 + n)%nat else 1%nat)]
  ++ (if a_reject a
      then [("_send_empty_data"%string, if a_lmtp a || p then 0%nat else 1%nat)]
      else [("_send_message_data"%string, if a_lmtp a then n else 1%nat)]).

(* number of stages bounded by command_timeout on that path *)
Definition n_command_stages (a : acfg) : nat :=
  ((if a_tls_immediately a then 1 else 0)
   + 2
   + (if a_helo a then 1 else 0)
   + (if a_starttls a && negb (a_tls_immediately a) then 2 else 0)
   + (if a_auth a then 1 else 0)
   + 1 + a_nrcpt a + 1)%nat.

Definition attempt_limit (cfg : ccfg) (a : acfg) : N :=
  t_connect cfg + N.of_nat (n_command_stages a) * t_command cfg + t_data cfg.

Definition linger_path (a : acfg) : list (string * nat) :=
  (if a_reject a
   then [("_rset"%string, if a_pipelining a && negb (a_lmtp a) then 2%nat else 1%nat)] else [])
  ++ [("_disconnect"%string, 1%nat)].

Definition client_class (a : acfg) : string :=
  if a_lmtp a then "LmtpRelayClient"%string else "SmtpRelayClient"%string.

Definition stages_of (tbl : list site) (a : acfg) : list cstage :=
  map (fun mw => mk_cstage (method_scope tbl (client_class a) (fst mw)) (snd mw)) (attempt_path a).

(* the scopes the attempt model relies on (checked against the generated table in prop/C14.v) *)
Definition expected_scopes : list (string * texpr) :=
  [("_connect"%string, TConnect); ("_handshake"%string, TCommand); ("_banner"%string, TCommand);
   ("_ehlo"%string, TCommand); ("_helo"%string, TCommand); ("_starttls"%string, TCommand); ("_authenticate"%string, TCommand);
   ("_mailfrom"%string, TCommand); ("_rcptto"%string, TCommand); ("_data"%string, TCommand);
   ("_send_empty_data"%string, TData); ("_rset"%string, TCommand);
   ("_send_message_data"%string, TData); ("_disconnect"%string, TCommand)].

Definition path_scopes_ok (tbl : list site) (c : string) : bool :=
  forallb (fun me => match method_scope tbl c (fst me) with
                     | Some e => texpr_eqb e (snd me)
                     | None => false end) expected_scopes.

(* the two read sites the server model (part B) stands for *)
Definition server_scopes_ok (tbl : list site) : bool :=
  match method_scope tbl "Server" "_recv_command", method_scope tbl "Server" "_get_message_data" with
  | Some TCommand, _ => true
  | _, _ => false
  end
  && existsb (fun s => String.eqb (s_class s) "Server" && String.eqb (s_method s) "_get_message_data"
                       && String.eqb (s_callee s) "recv"
                       && match s_scope s with Some (TData, _) => true | _ => false end) tbl
  && existsb (fun s => String.eqb (s_class s) "Server" && String.eqb (s_method s) "_recv_command"
                       && String.eqb (s_callee s) "recv_command"
                       && match s_scope s with Some (TCommand, _) => true | _ => false end) tbl.
