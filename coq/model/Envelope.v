(* Model of slimta/envelope/__init__.py (Envelope.parse, _merge_payloads,
   flatten, copy, encode_7bit, _encode_parts).  Definitions only.

   Python's `email` package (BytesParser / BytesGenerator with policy SMTP) is
   NOT modelled: it is the pair of Section variables hparse / hgen below.  For
   the property's restricted class of header blocks (section 2) a concrete,
   executable codec (parse_block / render) is defined so that the model runs;
   that the real `email` package behaves like this codec on the class is a
   stated hypothesis of the theorems (proof/Envelope_lemmas.v, Section
   CodecFacts) and is what the correspondence run tests. *)
From Coq Require Import List NArith Bool.
From SV Require Import lib.Bytes.
Import ListNotations.
Open Scope N_scope.

(* ------------------------------------------------------------------ *)
(* 1.  _HEADER_BOUNDARY = re.compile(br'\r?\n\s*?\n'), re.search       *)
(* ------------------------------------------------------------------ *)

Definition pre (p : bytes) (o : option (bytes * bytes)) : option (bytes * bytes) :=
  match o with Some (m, r) => Some (p ++ m, r) | None => None end.

(* `\s*?\n` anchored at the start of s, non-greedy: white space that is not LF
   is skipped until the first LF.  Result: (matched text, rest). *)
Fixpoint match_tail (s : bytes) : option (bytes * bytes) :=
  match s with
  | [] => None
  | b :: s' =>
      if b =? 10 then Some ([b], s')
      else if is_ws b then pre [b] (match_tail s')
      else None
  end.

(* the whole pattern anchored at the start of s.  `\r?` is tried with the CR
   first; without it the next byte would have to be LF, which a CR is not. *)
Definition match_here (s : bytes) : option (bytes * bytes) :=
  match s with
  | [] => None
  | b :: s' =>
      if b =? 10 then pre [b] (match_tail s')
      else if b =? 13 then
        match s' with
        | c :: s'' => if c =? 10 then pre [b; c] (match_tail s'') else None
        | [] => None
        end
      else None
  end.

(* re.search: leftmost start position.  Result: (data[:m.end(0)], data[m.end(0):]) *)
Fixpoint search (s : bytes) : option (bytes * bytes) :=
  match match_here s with
  | Some r => Some r
  | None => match s with
            | [] => None
            | b :: s' => pre [b] (search s')
            end
  end.

(* ------------------------------------------------------------------ *)
(* 2.  The property's class of header blocks, as data                  *)
(* ------------------------------------------------------------------ *)

(* a physical line: content (no CR, no LF) and whether it ends CRLF (true) or LF *)
Definition hline := (bytes * bool)%type.

(* one field: "name: value" first line, then folded continuation lines *)
Record field := mkfield {
  f_name : bytes;
  f_val : bytes;          (* text after ": " on the first line *)
  f_eol : bool;           (* first line ends with CRLF? *)
  f_cont : list hline     (* continuation lines, each begins with SP or TAB *)
}.

Definition eol (crlf : bool) : bytes := if crlf then [13; 10] else [10].
Definition render_line (l : hline) : bytes := fst l ++ eol (snd l).
Definition first_line (f : field) : bytes := f_name f ++ [58; 32] ++ f_val f.
Definition field_lines (f : field) : list hline := (first_line f, f_eol f) :: f_cont f.
Definition block_lines (fs : list field) : list hline := flat_map field_lines fs.
Definition render_lines (ls : list hline) : bytes := concat (map render_line ls).
Definition render (fs : list field) : bytes := render_lines (block_lines fs).

(* "line endings normalised to CRLF" *)
Definition crlf_line (l : hline) : hline := (fst l, true).
Definition crlf_field (f : field) : field :=
  mkfield (f_name f) (f_val f) true (map crlf_line (f_cont f)).
Definition hnorm_fields (fs : list field) : list field := map crlf_field fs.

(* well-formedness.  Field names: printable ASCII without ':' (what feedparser's
   headerRE accepts, at least one character).  Values: TAB, printable ASCII and
   8-bit bytes.  (Other control characters are outside the class: str.splitlines
   in email.policy treats VT FF FS GS RS as line breaks, and lone CRs are
   dropped.)  Every line at most 78 bytes.  A continuation line begins with SP
   or TAB and is not white-space only. *)
Definition name_char (b : N) : bool := (33 <=? b) && (b <=? 126) && negb (b =? 58).
Definition val_char (b : N) : bool := (b =? 9) || ((32 <=? b) && (b <=? 126)) || (128 <=? b).
Definition is_blank (b : N) : bool := (b =? 32) || (b =? 9).
Definition short (c : bytes) : bool := Nat.leb (List.length c) 78.
Definition starts_blank (c : bytes) : bool := match c with b :: _ => is_blank b | [] => false end.
Definition null {A} (l : list A) : bool := match l with [] => true | _ => false end.

Definition wf_cont (l : hline) : bool :=
  starts_blank (fst l) && forallb val_char (fst l)
  && existsb (fun b => negb (is_blank b)) (fst l) && short (fst l).
Definition wf_field (f : field) : bool :=
  negb (null (f_name f)) && forallb name_char (f_name f)
  && forallb val_char (f_val f) && negb (starts_blank (f_val f))
  && short (first_line f) && forallb wf_cont (f_cont f).
Definition wf_block (fs : list field) : bool := negb (null fs) && forallb wf_field fs.

(* ------------------------------------------------------------------ *)
(* 3.  A concrete header codec for that class (makes the model run)    *)
(* ------------------------------------------------------------------ *)

Fixpoint ends_cr (l : bytes) : bool :=
  match l with
  | [] => false
  | [x] => x =? 13
  | _ :: l' => ends_cr l'
  end.
Definition cr_split (l : bytes) : hline := if ends_cr l then (strip_cr l, true) else (l, false).

(* all LF-terminated lines; None if the last line is unterminated *)
Definition lines_of (s : bytes) : option (list hline) :=
  let '(ls, t) := split_lf s in
  match t with [] => Some (map cr_split ls) | _ :: _ => None end.

Fixpoint split_colon (c : bytes) : option (bytes * bytes) :=
  match c with
  | [] => None
  | b :: c' =>
      if b =? 58 then Some ([], c')
      else match split_colon c' with
           | Some (n, r) => Some (b :: n, r)
           | None => None
           end
  end.

(* "name: value" -> (name, value); exactly one SP after the colon *)
Definition parse_first (c : bytes) : option (bytes * bytes) :=
  match split_colon c with
  | Some (n, b :: v) => if b =? 32 then Some (n, v) else None
  | _ => None
  end.

(* lines -> (continuation lines not yet attached, fields); one blank line is
   accepted as the very last line *)
Fixpoint group (ls : list hline) : option (list hline * list field) :=
  match ls with
  | [] => Some ([], [])
  | (c, e) :: ls' =>
      if null c && null ls' then Some ([], [])
      else
        match group ls' with
        | None => None
        | Some (conts, fs) =>
            if starts_blank c then Some ((c, e) :: conts, fs)
            else match parse_first c with
                 | Some (n, v) => Some ([], mkfield n v e conts :: fs)
                 | None => None
                 end
        end
  end.

(* header_data (block, optionally followed by one blank line) -> fields of the class *)
Definition parse_block (d : bytes) : option (list field) :=
  match lines_of d with
  | None => None
  | Some ls =>
      match group ls with
      | Some ([], fs) => if wf_block fs then Some fs else None
      | _ => None
      end
  end.

(* what flatten() shows for the headers: fields with CRLF, then the blank line *)
Definition gen_fields (fs : list field) : bytes := render (hnorm_fields fs) ++ CRLF.

(* hnorm on bytes (None outside the class) *)
Definition hnorm (d : bytes) : option bytes :=
  match parse_block d with Some fs => Some (render (hnorm_fields fs)) | None => None end.

(* ------------------------------------------------------------------ *)
(* 4.  Envelope                                                        *)
(* ------------------------------------------------------------------ *)

Definition is_ascii (b : N) : bool := b <? 128.

(* bytes.lstrip(b'\r\n') *)
Fixpoint lstrip_crlf (s : bytes) : bytes :=
  match s with
  | [] => []
  | b :: s' => if (b =? 13) || (b =? 10) then lstrip_crlf s' else s
  end.

Section Codec.
  (* email.message.Message objects holding header fields (payload emptied) *)
  Variable hdr : Type.
  (* Envelope._parse_data(header_data, True) = BytesParser(policy=SMTP).parse(fp, headersonly=True):
     the header object, and - when the parser left a non-empty payload - what
     _msg_generator produces for a copy of the message with all headers deleted *)
  Variable hparse : bytes -> hdr * option bytes.
  (* Envelope._msg_generator(headers) = BytesGenerator(policy=SMTP).flatten; when
     email raises while re-folding an over-long malformed line: the same with
     refold_source='none' (headers as received).  Lines of the class are at most
     78 bytes and are never re-folded. *)
  Variable hgen : hdr -> bytes.

  Record envelope := mkenv {
    e_sender : bytes;
    e_rcpts : list bytes;
    e_headers : hdr;
    e_message : bytes
  }.

  (* Envelope._merge_payloads *)
  Definition merge_payloads (extra : option bytes) (payload : bytes) : bytes :=
    match extra with
    | Some g => lstrip_crlf g ++ payload
    | None => payload
    end.

  (* Envelope.parse (sender and recipients are not touched) *)
  Definition parse (sender : bytes) (rcpts : list bytes) (data : bytes) : envelope :=
    let '(header_data, payload) :=
      match search data with
      | None => (data, [])
      | Some (p, r) => (p, r)
      end in
    let '(h, extra) := hparse header_data in
    mkenv sender rcpts h (merge_payloads extra payload).

  (* Envelope.flatten *)
  Definition flatten (e : envelope) : bytes * bytes := (hgen (e_headers e), e_message e).

  (* header_data + message as the relays / stores / _encode_parts join them *)
  Definition join (hb : bytes * bytes) : bytes := fst hb ++ snd hb.

  (* Envelope.copy: deepcopy; `if new_rcpts:` - an empty list keeps the old recipients *)
  Definition copy (e : envelope) (new_rcpts : list bytes) : envelope :=
    match new_rcpts with
    | [] => e
    | _ :: _ => mkenv (e_sender e) new_rcpts (e_headers e) (e_message e)
    end.

  (* pickle.loads(pickle.dumps(env)): identity on the model (modelling assumption,
     tested by the correspondence run) *)
  Definition pickled (e : envelope) : envelope := e.

  (* Envelope.encode_7bit / _encode_parts.  `recode` stands for: email's full
     parse of header_data + message, encoder applied to every leaf part whose
     payload is not ASCII (after deleting its Content-Transfer-Encoding),
     _msg_generator.  UnicodeErr = the UnicodeDecodeError that is re-raised. *)
  Inductive res7 := Ok7 (e : envelope) | UnicodeErr.

  Definition encode_7bit (recode : option (bytes -> bytes)) (e : envelope) : res7 :=
    if forallb is_ascii (e_message e) then Ok7 e
    else match recode with
         | None => UnicodeErr
         | Some rc => Ok7 (parse (e_sender e) (e_rcpts e) (rc (join (flatten e))))
         end.
End Codec.

Arguments mkenv {hdr}.
Arguments e_sender {hdr}.
Arguments e_rcpts {hdr}.
Arguments e_headers {hdr}.
Arguments e_message {hdr}.
Arguments Ok7 {hdr}.
Arguments UnicodeErr {hdr}.

(* ------------------------------------------------------------------ *)
(* 4b.  Vocabulary of the property statements                           *)
(* ------------------------------------------------------------------ *)

(* the blank line that ends the header block *)
Definition blank_ok (blank : bytes) : Prop := blank = [10] \/ blank = [13; 10].

Definition has_8bit (b : bytes) : bool := existsb (fun x => 128 <=? x) b.

(* the hypothesis about Python's `email` (BytesParser/BytesGenerator, policy
   SMTP): on a well-formed block followed by the blank line, the parser leaves
   no payload and the generator writes the same fields with CRLF line ends
   followed by the blank line *)
Definition codec_ok {hdr : Type} (hparse : bytes -> hdr * option bytes) (hgen : hdr -> bytes) : Prop :=
  forall fs blank, wf_block fs = true -> blank_ok blank ->
    snd (hparse (render fs ++ blank)) = None /\
    hgen (fst (hparse (render fs ++ blank))) = gen_fields fs.

(* ------------------------------------------------------------------ *)
(* 5.  Concrete instances used by the entry points                     *)
(* ------------------------------------------------------------------ *)

(* the class codec: None = header part outside the modelled class *)
Definition hparse_c (d : bytes) : option (list field) * option bytes := (parse_block d, None).
Definition hgen_c (h : option (list field)) : bytes :=
  match h with Some fs => gen_fields fs | None => [] end.

(* what an encoder from email.encoders does to the header fields of a
   single-part message: every Content-Transfer-Encoding field is deleted and a
   new one is appended *)
Definition to_lower (b : N) : N := if is_upper b then b + 32 else b.
Definition cte_name : bytes :=
  [67;111;110;116;101;110;116;45;84;114;97;110;115;102;101;114;45;69;110;99;111;100;105;110;103].
Definition is_cte (f : field) : bool := beqb (map to_lower (f_name f)) (map to_lower cte_name).
Definition cte_field (v : bytes) : field := mkfield cte_name v true [].
Definition set_cte (v : bytes) (fs : list field) : list field :=
  filter (fun f => negb (is_cte f)) fs ++ [cte_field v].

(* recode for single-part messages of the class; encb = the body encoder
   including the generator's CRLF write-out *)
Definition recode_c (cte : bytes) (encb : bytes -> bytes) (d : bytes) : bytes :=
  match search d with
  | Some (hd, body) =>
      match parse_block hd with
      | Some fs => render (hnorm_fields (set_cte cte fs)) ++ CRLF ++ encb body
      | None => d
      end
  | None => d
  end.

(* ------------------------------------------------------------------ *)
(* 6.  Envelope._msg_generator at header granularity                   *)
(* ------------------------------------------------------------------ *)
(*  outfp = BytesIO()
    try:    BytesGenerator(outfp, policy=SMTP).flatten(msg, False)
    except Exception:
            outfp = BytesIO()                                   # a FRESH buffer
            BytesGenerator(outfp, policy=_SMTP_NO_REFOLD).flatten(msg, False)
    return outfp.getvalue()
   BytesGenerator._write_headers writes policy.fold_binary(name, value) of one
   stored header after the other straight into the output file, then the blank
   line; when the fold of a header raises, the headers before it are already in
   the buffer (Raised buf). *)
Section Generator.
  Variable src : Type.                                  (* a stored header: (name, source value) *)

  Inductive wres := Done (buf : bytes) | Raised (buf : bytes).

  (* fold h = None: policy.fold_binary raises for this header *)
  Fixpoint write_headers (fold : src -> option bytes) (buf : bytes) (hs : list src) : wres :=
    match hs with
    | [] => Done (buf ++ CRLF)
    | h :: hs' =>
        match fold h with
        | Some b => write_headers fold (buf ++ b) hs'
        | None => Raised buf
        end
    end.

  Inductive gres := GenOk (out : bytes) | GenRaises.

  Definition msg_generator (fold1 fold2 : src -> option bytes) (hs : list src) : gres :=
    match write_headers fold1 [] hs with
    | Done b => GenOk b
    | Raised _ =>
        match write_headers fold2 [] hs with        (* fresh buffer *)
        | Done b => GenOk b
        | Raised _ => GenRaises
        end
    end.

  (* NOT the code: the variant that keeps writing into the half-written buffer
     (only used by an Example that shows what the theorem excludes) *)
  Definition msg_generator_shared (fold1 fold2 : src -> option bytes) (hs : list src) : gres :=
    match write_headers fold1 [] hs with
    | Done b => GenOk b
    | Raised buf =>
        match write_headers fold2 buf hs with
        | Done b => GenOk b
        | Raised _ => GenRaises
        end
    end.

  (* the tiny spec: every header exactly once, in order, all by the same policy *)
  Fixpoint render_all (fold : src -> option bytes) (hs : list src) : option bytes :=
    match hs with
    | [] => Some []
    | h :: hs' =>
        match fold h with
        | None => None
        | Some b => match render_all fold hs' with Some r => Some (b ++ r) | None => None end
        end
    end.
End Generator.


(* the class without the 78-byte bound: header blocks that may contain over-long
   lines (these are the ones email may fail to re-fold) *)
Definition xwf_cont (l : hline) : bool :=
  starts_blank (fst l) && forallb val_char (fst l) && existsb (fun b => negb (is_blank b)) (fst l).
Definition xwf_field (f : field) : bool :=
  negb (null (f_name f)) && forallb name_char (f_name f)
  && forallb val_char (f_val f) && negb (starts_blank (f_val f))
  && forallb xwf_cont (f_cont f).
Definition xwf_block (fs : list field) : bool := negb (null fs) && forallb xwf_field fs.

(* policy SMTP with refold_source='none': name + ': ' + CRLF.join(value.splitlines()) + CRLF *)
Definition fold_raw (f : field) : bytes := render [crlf_field f].

Definition parse_block_x (d : bytes) : option (list field) :=
  match lines_of d with
  | None => None
  | Some ls =>
      match group ls with
      | Some ([], fs) => if xwf_block fs then Some fs else None
      | _ => None
      end
  end.
Definition hparse_x (d : bytes) : option (list field) * option bytes := (parse_block_x d, None).

(* hypotheses about `email` on this class (statement vocabulary) *)
Definition parser_ok_x (hparse : bytes -> list field * option bytes) : Prop :=
  forall fs blank, xwf_block fs = true -> blank_ok blank -> hparse (render fs ++ blank) = (fs, None).
Definition fold_short_ok (fold_smtp : field -> option bytes) : Prop :=
  forall f, wf_field f = true -> fold_smtp f = Some (fold_raw f).

(* ------------------------------------------------------------------ *)
(* 7.  Sequences of operations on ONE Envelope object                   *)
(* ------------------------------------------------------------------ *)
(* The Envelope object has no other state than its attributes: flatten() and
   encode_7bit() are functions of the CURRENT headers and message, however many
   calls, refusals, copies, pickle round trips and in-place header edits came
   before.  An operation returns the object to go on with and what the caller
   observes. *)
Section Ops.
  Variable hdr : Type.
  Variable hparse : bytes -> hdr * option bytes.
  Variable hgen : hdr -> bytes.
  (* in-place edits of envelope.headers, numbered by the caller: headers[name] = v,
     del headers[name], headers.replace_header(name, v), envelope.prepend_header(name, v);
     None = the edit raised (replace_header of a missing name: KeyError), nothing changed *)
  Variable hedit : N -> hdr -> option hdr.

  Inductive op :=
  | OFlatten                                          (* envelope.flatten() *)
  | OEncode (rc : option (bytes -> option bytes))     (* envelope.encode_7bit(encoder); rc d = None: the encoder callback raised *)
  | OCopy (new_rcpts : list bytes)                    (* go on with envelope.copy(new_rcpts) *)
  | OPickle                                           (* go on with pickle.loads(pickle.dumps(envelope)) *)
  | OParse (data : bytes)                             (* envelope.parse(data) *)
  | OEdit (k : N).                                    (* edit number k of the headers object, in place *)

  Inductive obs :=
  | ObsFlat (h b : bytes)      (* what flatten() returned *)
  | ObsDone                    (* returned normally *)
  | ObsRefused                 (* UnicodeDecodeError: 8-bit body, no encoder *)
  | ObsEncoderRaised           (* the encoder's own exception came out; envelope untouched *)
  | ObsEditRaised.

  Definition encode_7bit_f (rc : option (bytes -> option bytes)) (e : envelope hdr) : envelope hdr * obs :=
    if forallb is_ascii (e_message e) then (e, ObsDone)
    else match rc with
         | None => (e, ObsRefused)
         | Some f =>
             match f (join (flatten hdr hgen e)) with
             | None => (e, ObsEncoderRaised)
             | Some d => (parse hdr hparse (e_sender e) (e_rcpts e) d, ObsDone)
             end
         end.

  Definition step (o : op) (e : envelope hdr) : envelope hdr * obs :=
    match o with
    | OFlatten => (e, ObsFlat (fst (flatten hdr hgen e)) (snd (flatten hdr hgen e)))
    | OEncode rc => encode_7bit_f rc e
    | OCopy nr => (copy hdr e nr, ObsDone)
    | OPickle => (pickled hdr e, ObsDone)
    | OParse d => (parse hdr hparse (e_sender e) (e_rcpts e) d, ObsDone)
    | OEdit k =>
        match hedit k (e_headers e) with
        | Some h' => (mkenv (e_sender e) (e_rcpts e) h' (e_message e), ObsDone)
        | None => (e, ObsEditRaised)
        end
    end.

  Definition effect (o : op) (e : envelope hdr) : envelope hdr := fst (step o e).
  Definition observe (o : op) (e : envelope hdr) : obs := snd (step o e).

  Fixpoint trace (ops : list op) (e : envelope hdr) : list obs :=
    match ops with
    | [] => []
    | o :: r => observe o e :: trace r (effect o e)
    end.

  (* the envelope after the first k operations *)
  Definition state_at (k : nat) (ops : list op) (e : envelope hdr) : envelope hdr :=
    fold_left (fun s o => effect o s) (firstn k ops) e.
End Ops.


(* concrete in-place edits on the class codec's headers *)
Inductive edit :=
| EdSet (name value : bytes)        (* headers[name] = value : appended *)
| EdDel (name : bytes)              (* del headers[name] : every field of that name, case-insensitively *)
| EdReplace (name value : bytes)    (* replace_header: first field of that name keeps its place and spelling; KeyError if none *)
| EdPrepend (name value : bytes).   (* prepend_header *)

Definition name_is (n : bytes) (f : field) : bool := beqb (map to_lower (f_name f)) (map to_lower n).

Fixpoint replace_first (n v : bytes) (fs : list field) : option (list field) :=
  match fs with
  | [] => None
  | f :: fs' =>
      if name_is n f then Some (mkfield (f_name f) v true [] :: fs')
      else match replace_first n v fs' with Some r => Some (f :: r) | None => None end
  end.

Definition apply_edit (ed : edit) (h : option (list field)) : option (option (list field)) :=
  match h with
  | None => Some None
  | Some fs =>
      match ed with
      | EdSet n v => Some (Some (fs ++ [mkfield n v true []]))
      | EdDel n => Some (Some (filter (fun f => negb (name_is n f)) fs))
      | EdReplace n v => match replace_first n v fs with Some r => Some (Some r) | None => None end
      | EdPrepend n v => Some (Some (mkfield n v true [] :: fs))
      end
  end.
