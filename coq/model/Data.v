(* Model of slimta/smtp/datasender.py (DataSender) and slimta/smtp/datareader.py
   (DataReader, with IO.raw_recv / IO.recv_buffer of slimta/smtp/io.py) -- the
   DATA framing of property C05.  Definitions only.

   The reader is modelled AFTER the repair of defect D1
   (/verif/fixes/d1-datareader-eod0.diff): `if self.EOD is None:` in
   handle_finished_line and `return self.EOD is None` in recv_piece, instead of
   the truthiness tests `if not self.EOD` / `return not self.EOD` which treat an
   end-of-data line found at index 0 (the empty message) as "not found".

   Conventions: a byte string is `list N`; indexes into `self.lines` and
   lengths are `nat`; `self.size` / `max_size` are `N`.  The socket is the list
   of the values `socket.recv(4096)` is going to return (b'' = end of file; an
   exhausted list = end of file). *)
From Coq Require Import List NArith Bool Arith.
From SV Require Import lib.Bytes.
Import ListNotations.
Open Scope N_scope.

Definition DOT : N := 46.

(* ====================================================================== *)
(*  DataSender                                                             *)
(* ====================================================================== *)

(* part[-2:] *)
Fixpoint last2 (l : bytes) : bytes :=
  match l with
  | _ :: ((_ :: _ :: _) as l') => last2 l'
  | _ => l
  end.

(* DataSender._calc_last_two: `for part in reversed(self.parts)` with the
   running value `ret`; `rparts` is the reversed part list still to visit. *)
Fixpoint calc_last_two_loop (rparts : list bytes) (ret : bytes) : bytes :=
  match rparts with
  | [] => ret
  | part :: rparts' =>
      let ret' := last2 part ++ ret in
      if (2 <=? length ret')%nat then last2 ret'          (* ret = ret[-2:]; break *)
      else calc_last_two_loop rparts' ret'
  end.
Definition calc_last_two (parts : list bytes) : bytes := calc_last_two_loop (rev parts) [].

(* DataSender._calc_end_marker: `if not last_two or last_two == b'\r\n'` *)
Definition calc_end_marker (parts : list bytes) : bytes :=
  let last_two := calc_last_two parts in
  match last_two with
  | [] => [DOT; 13; 10]
  | _ => if beqb last_two CRLF then [DOT; 13; 10] else [13; 10; DOT; 13; 10]
  end.

(* part.find(b'\n.', i) on the suffix s = part[i:] : offset of the first "\n." *)
Fixpoint find_nldot (s : bytes) : option nat :=
  match s with
  | [] => None
  | a :: s' =>
      match s' with
      | b :: _ => if (a =? 10) && (b =? DOT) then Some O
                  else match find_nldot s' with Some k => Some (S k) | None => None end
      | [] => None
      end
  end.

(* the `while i < part_len` loop of DataSender._process_part; s = part[i:],
   the result is the list of yielded pieces.  Every iteration with a hit
   consumes at least two bytes, so length(part) iterations are enough
   (`fuel` only bounds the recursion, see process_part). *)
Fixpoint process_loop (fuel : nat) (s : bytes) : list bytes :=
  match fuel with
  | O => []
  | S fuel' =>
      match s with
      | [] => []                                           (* i < part_len fails *)
      | _ :: _ =>
          match find_nldot s with
          | None => [s]                                    (* yield part[i:]; i = part_len *)
          | Some index =>
              firstn (index + 2) s                         (* yield part[i:index+2] *)
              :: [DOT]                                     (* yield b'.' *)
              :: process_loop fuel' (skipn (index + 2) s)  (* i = index+2 *)
          end
      end
  end.

(* DataSender._process_part: the pieces yielded for one part *)
Definition process_part (part : bytes) : list bytes :=
  (match part with
   | b :: _ => if b =? DOT then [[DOT]] else []            (* part_len > 0 and part[0:1] == b'.' *)
   | [] => []
   end) ++ process_loop (length part) part.

(* DataSender.__iter__: chain(chain.from_iterable(parts), (end_marker,)) *)
Definition sender_pieces (parts : list bytes) : list bytes :=
  flat_map process_part parts ++ [calc_end_marker parts].

(* DataSender.send: every piece goes through io.buffered_send, i.e. is
   appended to io.send_buffer: the wire bytes are the concatenation. *)
Definition send (parts : list bytes) : bytes := concat (sender_pieces parts).

(* ====================================================================== *)
(*  DataReader                                                             *)
(* ====================================================================== *)

(* eod_pattern = ^\.\s*?\n$  applied with .match() to a bytes object (no
   MULTILINE, ASCII \s = [ \t\n\r\f\v]; `$` also matches before a final \n):
   a dot, then only whitespace, the last of which is LF. *)
Fixpoint eod_tail (r : bytes) : bool :=
  match r with
  | [] => false
  | [b] => b =? 10
  | b :: r' => is_ws b && eod_tail r'
  end.
Definition is_eod (line : bytes) : bool :=
  match line with
  | b :: r => (b =? DOT) && eod_tail r
  | [] => false
  end.

(* self.lines, self.i, self.EOD   (self.size is threaded separately, below) *)
Record dr : Type := mkdr { lines : list bytes; idx : nat; eod : option nat }.

(* DataReader.__init__ *)
Definition dr_init : dr := mkdr [[]] O None.

(* self.lines[k] += x   (k < len(self.lines) wherever the code does this) *)
Fixpoint add_at (k : nat) (x : bytes) (ls : list bytes) {struct ls} : list bytes :=
  match ls, k with
  | [], _ => []
  | l :: ls', O => (l ++ x) :: ls'
  | l :: ls', S k' => l :: add_at k' x ls'
  end.
(* self.lines[k] = x *)
Fixpoint set_at (k : nat) (x : bytes) (ls : list bytes) {struct ls} : list bytes :=
  match ls, k with
  | [], _ => []
  | _ :: ls', O => x :: ls'
  | l :: ls', S k' => l :: set_at k' x ls'
  end.

(* DataReader._append_line *)
Definition append_line (line : bytes) (st : dr) : dr :=
  if (length (lines st) <=? idx st)%nat
  then mkdr (lines st ++ [line]) (idx st) (eod st)
  else mkdr (add_at (idx st) line (lines st)) (idx st) (eod st).

(* DataReader.handle_finished_line (D1 repaired: `if self.EOD is None`).
   `self.lines[i]` is always in range where the code calls this (after
   _append_line): Data_lemmas.append_line_opened shows len(lines) = i+1 there. *)
Definition handle_finished_line (st : dr) : dr :=
  let i := idx st in
  let line := nth i (lines st) [] in
  match eod st with
  | None =>
      if is_eod line then mkdr (lines st) (S i) (Some i)
      else match line with
           | b :: line' => if b =? DOT then mkdr (set_at i line' (lines st)) (S i) None
                           else mkdr (lines st) (S i) None
           | [] => mkdr (lines st) (S i) None
           end
  | Some e => mkdr (lines st) (S i) (Some e)
  end.

(* DataReader.add_lines: fullline_pattern = .*\n  with finditer: the complete
   lines of the piece, each with its LF; what follows the last LF is appended
   to the current (unfinished) line. *)
Definition finished_line (st : dr) (l : bytes) : dr :=
  handle_finished_line (append_line (l ++ [10]) st).
Definition add_lines (piece : bytes) (st : dr) : dr :=
  let '(ls, after_match) := split_lf piece in
  append_line after_match (fold_left finished_line ls st).

(* DataReader.return_all: (returned data, new io.recv_buffer); only called
   with EOD set (the `assert`). *)
Definition return_all (st : dr) (e : nat) : bytes * bytes :=
  (concat (firstn e (lines st)), concat (skipn (S e) (lines st))).

Inductive recv_result : Type :=
| ROk (data : bytes) (recv_buffer : bytes) (sock : list bytes)   (* recv() returned *)
| RLost                                                          (* ConnectionLost *)
| RTooBig (sock : list bytes).                                   (* MessageTooBig; io.recv_buffer is b'' *)

(* `if self.max_size and self.size > self.max_size` *)
Definition too_big (max_size : option N) (size : N) : bool :=
  match max_size with
  | None => false
  | Some m => negb (m =? 0) && (m <? size)
  end.

(* `while self.recv_piece(): pass` followed by return_all.  One unfolding =
   one call of recv_piece:
     - EOD already set: return False (nothing is read from the socket);
     - io.raw_recv(): b'' or end of file -> ConnectionLost;
     - size accounting / MessageTooBig;
     - add_lines(piece); `return self.EOD is None`  (D1 repaired). *)
Fixpoint recv_loop (max_size : option N) (size : N) (st : dr) (sock : list bytes) : recv_result :=
  match eod st with
  | Some e => let '(d, rb) := return_all st e in ROk d rb sock
  | None =>
      match sock with
      | [] => RLost
      | piece :: sock' =>
          match piece with
          | [] => RLost
          | _ :: _ =>
              let size' := size + N.of_nat (length piece) in
              if too_big max_size size' then RTooBig sock'
              else recv_loop max_size size' (add_lines piece st) sock'
          end
      end
  end.

(* DataReader(io, max_size).recv(): from_recv_buffer, then the loop *)
Definition dr_recv (max_size : option N) (recv_buffer : bytes) (sock : list bytes) : recv_result :=
  recv_loop max_size 0 (add_lines recv_buffer dr_init) sock.

(* ====================================================================== *)
(*  Specification-level definitions used by the theorems of prop/C05.v     *)
(* ====================================================================== *)

(* line[1:] when line[0:1] == b'.' *)
Definition undot (line : bytes) : bytes :=
  match line with
  | b :: line' => if b =? DOT then line' else line
  | [] => []
  end.

(* Batch reading of a complete stream: the raw lines (without their LF) in
   front of the first end-of-data line, each with one leading dot removed; and
   the lines after it. *)
Fixpoint scan (ls : list bytes) : option (bytes * list bytes) :=
  match ls with
  | [] => None
  | l :: ls' =>
      if is_eod (l ++ [10]) then Some ([], ls')
      else match scan ls' with
           | Some (d, r) => Some (undot (l ++ [10]) ++ d, r)
           | None => None
           end
  end.
(* read_spec stream = Some (message data, every byte after the end-of-data
   line), or None when the stream holds no complete end-of-data line. *)
Definition read_spec (stream : bytes) : option (bytes * bytes) :=
  let '(ls, tl) := split_lf stream in
  match scan ls with
  | Some (d, r) => Some (d, unraw r ++ tl)
  | None => None
  end.

(* what the server is given for the message m: m itself when it is empty or
   ends with CRLF, otherwise m followed by CRLF *)
Definition ends_crlf (m : bytes) : bool := beqb (last2 m) CRLF.
Definition expected (m : bytes) : bytes :=
  match m with
  | [] => []
  | _ :: _ => if ends_crlf m then m else m ++ CRLF
  end.

(* observable outcome of a read: the data and every byte not consumed
   (new io.recv_buffer followed by what the socket still holds) *)
Definition outcome (r : recv_result) : option (bytes * bytes) :=
  match r with
  | ROk d rb sock => Some (d, rb ++ concat sock)
  | RLost => None
  | RTooBig _ => None
  end.

(* a byte string ends at a line boundary *)
Definition at_bol (s : bytes) : Prop := s = [] \/ exists s', s = s' ++ [10].
(* every part that begins with a dot begins at a line boundary of the message *)
Definition dot_parts_at_bol (parts : list bytes) : Prop :=
  forall pre p post, parts = pre ++ (DOT :: p) :: post -> at_bol (concat pre).
(* the property's "split at line boundaries": every part except the last is
   empty or ends with LF *)
Definition line_split (parts : list bytes) : Prop :=
  forall pre p post, parts = pre ++ p :: post -> post <> [] -> at_bol p.
