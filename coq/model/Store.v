(* The four queue-storage backends as models over their substrates (C15):
     Dict   slimta/queue/dict.py          two dicts + the shared envelope object
     Disk   slimta/diskstorage            model/Disk.v (file level)
     Redis  slimta/redisstorage           hash per message + list `queue`
     Cloud  slimta/cloudstorage           CloudStorage over an abstract object
                                          store (+ optional message queue)
   Code modelled AFTER the fixes d32 (redis load decodes the keys), d5 (any
   iterable of indexes), d6 (marks of a
   round are relative to the list get() returns; stored as a replayable
   deletion script) and c15-cloud-first-increment (cloud: first increment on an object whose
   attempts metadata is unset).
   Re-exports StoreCore (round functions `round`, `accum_mark`, `accum_get`,
   reference store) and Disk for the queue model.  Definitions only. *)
From Coq Require Import List NArith Bool.
From SV Require Export lib.Assoc model.StoreCore model.Disk.
Import ListNotations.
Open Scope N_scope.

(* ================================================================== Dict *)
(* env_db maps id -> the envelope OBJECT handed to write(); objects live in a
   heap so that the aliasing between the caller's envelope, env_db and what
   get() returns is explicit.  No operation yields. *)
Record dmeta := mkDMeta { dm_ts : N; dm_att : N }.
Record dstate := mkDict { d_env : amap N N; d_meta : amap N dmeta;
                          d_heap : amap N envelope; d_next : N }.

Definition dict_init : dstate := mkDict [] [] [] 0.

Fixpoint dict_pick (env_db : amap N N) (cands : list N) : option N :=
  match cands with
  | [] => None
  | c :: cs => if amem N.eqb env_db c then dict_pick env_db cs else Some c
  end.

(* get() as the queue sees it: the object reference and the attempts *)
Definition dict_get_ref (s : dstate) (id : N) : option (N * N) :=
  match alookup N.eqb (d_meta s) id, alookup N.eqb (d_env s) id with
  | Some m, Some r => Some (r, dm_att m)
  | _, _ => None
  end.

Definition dict_step (s : dstate) (o : op) : dstate * res :=
  match o with
  | OWrite e ts cands _ =>
      match dict_pick (d_env s) cands with
      | Some id =>
          let r := d_next s in
          (mkDict (aset N.eqb (d_env s) id r) (aset N.eqb (d_meta s) id (mkDMeta ts 0))
                  (aset N.eqb (d_heap s) r e) (r + 1), RId id)
      | None => (s, RNoId)
      end
  | OSetTs id ts _ =>
      match alookup N.eqb (d_meta s) id with
      | Some m => (mkDict (d_env s) (aset N.eqb (d_meta s) id (mkDMeta ts (dm_att m))) (d_heap s) (d_next s), RUnit)
      | None => (s, RMissing)
      end
  | OIncr id _ =>
      match alookup N.eqb (d_meta s) id with
      | Some m => (mkDict (d_env s) (aset N.eqb (d_meta s) id (mkDMeta (dm_ts m) (dm_att m + 1))) (d_heap s) (d_next s),
                   RAtt (dm_att m + 1))
      | None => (s, RMissing)
      end
  | ODeliv id idxs _ =>
      (* self._remove_delivered_rcpts(self.env_db[id], rcpt_indexes): in place *)
      match alookup N.eqb (d_env s) id with
      | Some r =>
          match alookup N.eqb (d_heap s) r with
          | Some e =>
              let (l, ok) := round_p idxs (e_rcpts e) in
              (mkDict (d_env s) (d_meta s) (aset N.eqb (d_heap s) r (with_rcpts e l)) (d_next s),
               if ok then RUnit else RIndexErr)
          | None => (s, RCorrupt)          (* dangling reference: never *)
          end
      | None => (s, RMissing)
      end
  | OLoad _ => (s, RLoad (map (fun p => (dm_ts (snd p), fst p)) (d_meta s)))
  | OGet id =>
      match dict_get_ref s id with
      | Some (r, att) =>
          match alookup N.eqb (d_heap s) r with
          | Some e => (s, RGot e att)
          | None => (s, RCorrupt)
          end
      | None => (s, RMissing)
      end
  | ORemove id =>
      (mkDict (adel N.eqb (d_env s) id) (adel N.eqb (d_meta s) id) (d_heap s) (d_next s), RUnit)
  end.

Fixpoint dict_run (s : dstate) (ops : list op) : dstate * list res :=
  match ops with
  | [] => (s, [])
  | o :: ops' => let (s1, x) := dict_step s o in
                 let (s2, xs) := dict_run s1 ops' in (s2, x :: xs)
  end.

Definition dict_view (s : dstate) (id : N) : option entry :=
  match alookup N.eqb (d_meta s) id, alookup N.eqb (d_env s) id with
  | Some m, Some r =>
      match alookup N.eqb (d_heap s) r with
      | Some e => Some (mkEntry e (dm_ts m) (dm_att m))
      | None => None
      end
  | _, _ => None
  end.
Definition dict_listed (s : dstate) (id : N) : bool := amem N.eqb (d_meta s) id.

(* ---- DictStorage over copy-on-access mappings (shelve, the persistence the
   module docstring advertises): every `db[id]` hands out a fresh copy, only
   `db[id] = value` persists.  The maps therefore hold values, not references.
   `ab` = the method assigns the modified copy back (set_timestamp and
   increment_attempts always did; set_recipients_delivered does since the d35
   fix).  ab = false is the pre-fix shape: mutate the copy and drop it. *)
Record cdstate := mkCDict { cd_env : amap N envelope; cd_meta : amap N dmeta }.
Definition cdict_init : cdstate := mkCDict [] [].

Fixpoint cdict_pick (env_db : amap N envelope) (cands : list N) : option N :=
  match cands with
  | [] => None
  | c :: cs => if amem N.eqb env_db c then cdict_pick env_db cs else Some c
  end.

Definition cdict_step (ab : bool) (s : cdstate) (o : op) : cdstate * res :=
  match o with
  | OWrite e ts cands _ =>
      match cdict_pick (cd_env s) cands with
      | Some id => (mkCDict (aset N.eqb (cd_env s) id e) (aset N.eqb (cd_meta s) id (mkDMeta ts 0)), RId id)
      | None => (s, RNoId)
      end
  | OSetTs id ts _ =>
      match alookup N.eqb (cd_meta s) id with
      | Some m => (if ab then mkCDict (cd_env s) (aset N.eqb (cd_meta s) id (mkDMeta ts (dm_att m))) else s, RUnit)
      | None => (s, RMissing)
      end
  | OIncr id _ =>
      match alookup N.eqb (cd_meta s) id with
      | Some m => (if ab then mkCDict (cd_env s) (aset N.eqb (cd_meta s) id (mkDMeta (dm_ts m) (dm_att m + 1))) else s,
                   RAtt (dm_att m + 1))
      | None => (s, RMissing)
      end
  | ODeliv id idxs _ =>
      (* envelope = self.env_db[id]; self._remove_delivered_rcpts(envelope, idxs); self.env_db[id] = envelope:
         an IndexError leaves before the assignment, the shortened copy is dropped *)
      match alookup N.eqb (cd_env s) id with
      | Some e =>
          let (l, ok) := round_p idxs (e_rcpts e) in
          if ok then (if ab then mkCDict (aset N.eqb (cd_env s) id (with_rcpts e l)) (cd_meta s) else s, RUnit)
          else (s, RIndexErr)
      | None => (s, RMissing)
      end
  | OLoad _ => (s, RLoad (map (fun p => (dm_ts (snd p), fst p)) (cd_meta s)))
  | OGet id =>
      match alookup N.eqb (cd_meta s) id, alookup N.eqb (cd_env s) id with
      | Some m, Some e => (s, RGot e (dm_att m))
      | _, _ => (s, RMissing)
      end
  | ORemove id => (mkCDict (adel N.eqb (cd_env s) id) (adel N.eqb (cd_meta s) id), RUnit)
  end.

Fixpoint cdict_run (ab : bool) (s : cdstate) (ops : list op) : cdstate * list res :=
  match ops with
  | [] => (s, [])
  | o :: ops' => let (s1, x) := cdict_step ab s o in
                 let (s2, xs) := cdict_run ab s1 ops' in (s2, x :: xs)
  end.

Definition cdict_view (s : cdstate) (id : N) : option entry :=
  match alookup N.eqb (cd_meta s) id, alookup N.eqb (cd_env s) id with
  | Some m, Some e => Some (mkEntry e (dm_ts m) (dm_att m))
  | _, _ => None
  end.

(* ================================================================= Redis *)
Record rhash := mkHash { h_env : option envelope; h_ts : option N;
                         h_att : option N; h_deliv : option (list N) }.
Record rstate := mkRedis { r_hashes : amap N rhash; r_queue : list (N * N) }.
Definition redis_init : rstate := mkRedis [] [].

Inductive rkey := KId (id : N) | KQueue.

(* one command = one round trip (a yield point); the MULTI/EXEC pipeline of
   write() is one atomic command *)
Inductive rcmd :=
| QHsetnxEnv (id : N) (e : envelope)     (* HSETNX key envelope <pickle> *)
| QWritePipe (id : N) (ts : N)           (* MULTI; HMSET key timestamp ts attempts 0; RPUSH queue (ts,id); EXEC *)
| QHsetTs (id : N) (ts : N)
| QHincrAtt (id : N)                     (* HINCRBY key attempts 1 (creates the hash) *)
| QHgetDeliv (id : N)
| QHsetDeliv (id : N) (l : list N)
| QKeys                                  (* KEYS prefix* : also the list key while it is non-empty *)
| QHgetTs (k : rkey)
| QHmget (id : N)                        (* HMGET key envelope attempts delivered_indexes *)
| QDel (id : N)
| QBlpop.                                (* BLPOP queue (wait()) on a non-empty list *)

Inductive rans :=
| XUnit
| XBool (b : bool)
| XNum (n : N)
| XOptNum (o : option N)
| XDeliv (o : option (list N))
| XKeys (l : list rkey)
| XHm (e : option envelope) (att : option N) (dl : option (list N))
| XPop (o : option (N * N))
| XWrong.                                (* WRONGTYPE Operation against a key holding the wrong kind of value *)

Definition empty_hash : rhash := mkHash None None None None.
Definition hget (s : rstate) (id : N) : rhash :=
  match alookup N.eqb (r_hashes s) id with Some h => h | None => empty_hash end.
Definition hput (s : rstate) (id : N) (h : rhash) : rstate :=
  mkRedis (aset N.eqb (r_hashes s) id h) (r_queue s).

Definition rexec (s : rstate) (c : rcmd) : rstate * rans :=
  match c with
  | QHsetnxEnv id e =>
      let h := hget s id in
      match h_env h with
      | Some _ => (s, XBool false)
      | None => (hput s id (mkHash (Some e) (h_ts h) (h_att h) (h_deliv h)), XBool true)
      end
  | QWritePipe id ts =>
      let h := hget s id in
      (mkRedis (aset N.eqb (r_hashes s) id (mkHash (h_env h) (Some ts) (Some 0) (h_deliv h)))
               (r_queue s ++ [(ts, id)]), XUnit)
  | QHsetTs id ts =>
      let h := hget s id in (hput s id (mkHash (h_env h) (Some ts) (h_att h) (h_deliv h)), XUnit)
  | QHincrAtt id =>
      let h := hget s id in
      let n := match h_att h with Some a => a + 1 | None => 1 end in
      (hput s id (mkHash (h_env h) (h_ts h) (Some n) (h_deliv h)), XNum n)
  | QHgetDeliv id => (s, XDeliv (h_deliv (hget s id)))
  | QHsetDeliv id l =>
      let h := hget s id in (hput s id (mkHash (h_env h) (h_ts h) (h_att h) (Some l)), XUnit)
  | QKeys =>
      (* KEYS order is unspecified: taken in ascending id order, the list key last (as the fake does) *)
      (s, XKeys (map KId (rev (sort_desc (akeys (r_hashes s)))) ++ match r_queue s with [] => [] | _ :: _ => [KQueue] end))
  | QHgetTs (KId id) => (s, XOptNum (h_ts (hget s id)))
  | QHgetTs KQueue => (s, match r_queue s with [] => XOptNum None | _ :: _ => XWrong end)
  | QHmget id => let h := hget s id in (s, XHm (h_env h) (h_att h) (h_deliv h))
  | QDel id => (mkRedis (adel N.eqb (r_hashes s) id) (r_queue s), XUnit)
  | QBlpop =>
      match r_queue s with
      | [] => (s, XPop None)
      | x :: q => (mkRedis (r_hashes s) q, XPop (Some x))
      end
  end.

Definition rprog := prog rcmd rans res.

Fixpoint r_write (e : envelope) (ts : N) (cands : list N) : rprog :=
  match cands with
  | [] => Ret RNoId
  | c :: cs =>
      Do (QHsetnxEnv c e) (fun a =>
        match a with
        | XBool true => Do (QWritePipe c ts) (fun _ => Ret (RId c))
        | _ => r_write e ts cs
        end)
  end.

(* RedisStorage.load after the d32 fix: keys come back as bytes and are decoded
   before they are compared with the (str) queue key, so the announcement list
   is skipped and the ids are the strings write() returned.  A hash without a
   timestamp (never written by write()) gets time.time(). *)
Fixpoint r_load_loop (ks : list rkey) (now : N) (acc : list (N * N)) : rprog :=
  match ks with
  | [] => Ret (RLoad (rev acc))
  | KQueue :: ks' => r_load_loop ks' now acc            (* key == self.queue_key: skipped *)
  | KId id :: ks' =>
      Do (QHgetTs (KId id)) (fun a =>
        match a with
        | XOptNum (Some t) => r_load_loop ks' now ((t, id) :: acc)
        | XOptNum None => r_load_loop ks' now ((now, id) :: acc)
        | _ => Ret RWrongType
        end)
  end.

Definition redis_prog (o : op) : rprog :=
  match o with
  | OWrite e ts cands _ => r_write e ts cands
  | OSetTs id ts _ => Do (QHsetTs id ts) (fun _ => Ret RUnit)
  | OIncr id _ => Do (QHincrAtt id) (fun a => match a with XNum n => Ret (RAtt n) | _ => Ret RCorrupt end)
  | ODeliv id idxs _ =>
      Do (QHgetDeliv id) (fun a =>
        let cur := match a with XDeliv (Some l) => l | _ => [] end in
        Do (QHsetDeliv id (accum_mark cur idxs)) (fun _ => Ret RUnit))
  | OLoad now => Do QKeys (fun a => match a with XKeys ks => r_load_loop ks now [] | _ => Ret RCorrupt end)
  | OGet id =>
      Do (QHmget id) (fun a =>
        match a with
        | XHm (Some e) att dl =>
            let n := match att with Some n => n | None => 0 end in
            match dl with
            | Some l => match accum_get l (e_rcpts e) with
                        | Some l' => Ret (RGot (with_rcpts e l') n)
                        | None => Ret RIndexErr
                        end
            | None => Ret (RGot e n)
            end
        | _ => Ret RMissing
        end)
  | ORemove id => Do (QDel id) (fun _ => Ret RUnit)
  end.

(* RedisStorage.wait(): one BLPOP; returns [(timestamp, id)] (or [] on a timeout) *)
Definition redis_wait : rprog :=
  Do QBlpop (fun a => match a with XPop (Some x) => Ret (RLoad [x]) | _ => Ret (RLoad []) end).

Definition redis_step (s : rstate) (o : op) : rstate * res := run rexec (redis_prog o) s.

Fixpoint redis_run (s : rstate) (ops : list op) : rstate * list res :=
  match ops with
  | [] => (s, [])
  | o :: ops' => let (s1, x) := redis_step s o in
                 let (s2, xs) := redis_run s1 ops' in (s2, x :: xs)
  end.

(* operation sequences with wait() calls (the queue's _wait_store greenlet
   consuming announcements) anywhere in between *)
(* RIorphan: a writer that died between the HSETNX of the envelope and the
   pipeline with timestamp/attempts/RPUSH - a hash with the envelope field only *)
Inductive ritem := RIop (o : op) | RIwait | RIorphan (id : N) (e : envelope).

Definition ritem_step (s : rstate) (it : ritem) : rstate * res :=
  match it with
  | RIop o => redis_step s o
  | RIwait => run rexec redis_wait s
  | RIorphan id e => (fst (rexec s (QHsetnxEnv id e)), RUnit)
  end.

Fixpoint redis_run_items (s : rstate) (its : list ritem) : rstate * list res :=
  match its with
  | [] => (s, [])
  | it :: its' => let (s1, x) := ritem_step s it in
                  let (s2, xs) := redis_run_items s1 its' in (s2, x :: xs)
  end.

Fixpoint ritem_ops (its : list ritem) : list op :=
  match its with
  | [] => []
  | RIop o :: its' => o :: ritem_ops its'
  | RIwait :: its' => ritem_ops its'
  | RIorphan _ _ :: its' => ritem_ops its'
  end.

Definition redis_view (s : rstate) (id : N) : option entry :=
  match alookup N.eqb (r_hashes s) id with
  | Some (mkHash (Some e) (Some ts) att dl) =>
      let n := match att with Some n => n | None => 0 end in
      match dl with
      | Some l => match accum_get l (e_rcpts e) with
                  | Some l' => Some (mkEntry (with_rcpts e l') ts n)
                  | None => None
                  end
      | None => Some (mkEntry e ts n)
      end
  | _ => None
  end.
Definition redis_listed (s : rstate) (id : N) : bool := amem N.eqb (r_hashes s) id.

(* ================================================================= Cloud *)
(* The object store keeps per object: the envelope, timestamp, and the
   optional `attempts` / `delivered_indexes` metadata (absent until first
   set, as with slimta.cloudstorage.aws where the raw value '' is dropped).
   Whether a message queue was configured is a constructor argument (mq). *)
Record cobj := mkObj { o_env : envelope; o_ts : N; o_att : option N; o_deliv : option (list N) }.
Record cstate := mkCloud { c_objs : amap N cobj;
                           c_mq : list (N * N);      (* announcements put on the message queue *)
                           c_mqfail : list bool }.   (* scripted queue_message failures *)
Definition cloud_init (fails : list bool) : cstate := mkCloud [] [] fails.

Inductive ccmd :=
| SWrite (e : envelope) (ts : N) (cands : list N)   (* obj_store.write_message *)
| SSetMeta (id : N) (ts : option N) (att : option N) (dl : option (list N))
| SGetMeta (id : N)
| SGetMsg (id : N)
| SDelete (id : N)
| SList
| MQueue (id : N) (ts : N).                         (* msg_queue.queue_message inside try/except Exception *)

Inductive cans :=
| YUnit
| YId (o : option N)
| YMeta (m : option (N * option N * option (list N)))
| YMsg (m : option (envelope * N * option N * option (list N)))
| YList (l : list (N * N))
| YMissing.

Fixpoint cloud_pick (objs : amap N cobj) (cands : list N) : option N :=
  match cands with
  | [] => None
  | c :: cs => if amem N.eqb objs c then cloud_pick objs cs else Some c
  end.

Definition or_else {A} (a b : option A) : option A := match a with Some _ => a | None => b end.

Definition cexec (s : cstate) (c : ccmd) : cstate * cans :=
  match c with
  | SWrite e ts cands =>
      match cloud_pick (c_objs s) cands with
      | Some id => (mkCloud (aset N.eqb (c_objs s) id (mkObj e ts None None)) (c_mq s) (c_mqfail s), YId (Some id))
      | None => (s, YId None)
      end
  | SSetMeta id ts att dl =>
      match alookup N.eqb (c_objs s) id with
      | Some o =>
          (mkCloud (aset N.eqb (c_objs s) id
                      (mkObj (o_env o) (match ts with Some t => t | None => o_ts o end)
                             (or_else att (o_att o)) (or_else dl (o_deliv o))))
                   (c_mq s) (c_mqfail s), YUnit)
      | None => (s, YMissing)
      end
  | SGetMeta id =>
      (s, YMeta (match alookup N.eqb (c_objs s) id with
                 | Some o => Some (o_ts o, o_att o, o_deliv o) | None => None end))
  | SGetMsg id =>
      (s, YMsg (match alookup N.eqb (c_objs s) id with
                | Some o => Some (o_env o, o_ts o, o_att o, o_deliv o) | None => None end))
  | SDelete id =>
      match alookup N.eqb (c_objs s) id with
      | Some _ => (mkCloud (adel N.eqb (c_objs s) id) (c_mq s) (c_mqfail s), YUnit)
      | None => (s, YMissing)
      end
  | SList => (s, YList (map (fun p => (o_ts (snd p), fst p)) (c_objs s)))
  | MQueue id ts =>
      (* an exception is logged and ignored, so the caller sees the same either way *)
      match c_mqfail s with
      | true :: fl => (mkCloud (c_objs s) (c_mq s) fl, YUnit)
      | false :: fl => (mkCloud (c_objs s) (c_mq s ++ [(ts, id)]) fl, YUnit)
      | [] => (mkCloud (c_objs s) (c_mq s ++ [(ts, id)]) [], YUnit)
      end
  end.

Definition cprog := prog ccmd cans res.

(* mq = a message queue was passed to the constructor (`if self.msg_queue:`) *)
Definition cloud_prog (mq : bool) (o : op) : cprog :=
  match o with
  | OWrite e ts cands _ =>
      Do (SWrite e ts cands) (fun a =>
        match a with
        | YId (Some id) =>
            if mq then Do (MQueue id ts) (fun _ => Ret (RId id)) else Ret (RId id)
        | _ => Ret RNoId
        end)
  | OSetTs id ts _ =>
      Do (SSetMeta id (Some ts) None None) (fun a => match a with YUnit => Ret RUnit | _ => Ret RMissing end)
  | OIncr id _ =>
      Do (SGetMeta id) (fun a =>
        match a with
        | YMeta (Some (_, att, _)) =>
            let n := (match att with Some n => n | None => 0 end) + 1 in   (* meta.get('attempts', 0) + 1 *)
            Do (SSetMeta id None (Some n) None) (fun b => match b with YUnit => Ret (RAtt n) | _ => Ret RMissing end)
        | _ => Ret RMissing
        end)
  | ODeliv id idxs _ =>
      Do (SGetMeta id) (fun a =>
        match a with
        | YMeta (Some (_, _, dl)) =>
            let cur := match dl with Some l => l | None => [] end in
            Do (SSetMeta id None None (Some (accum_mark cur idxs)))
               (fun b => match b with YUnit => Ret RUnit | _ => Ret RMissing end)
        | _ => Ret RMissing
        end)
  | OLoad _ => Do SList (fun a => match a with YList l => Ret (RLoad l) | _ => Ret RCorrupt end)
  | OGet id =>
      Do (SGetMsg id) (fun a =>
        match a with
        | YMsg (Some (e, _, att, dl)) =>
            let cur := match dl with Some l => l | None => [] end in
            match accum_get cur (e_rcpts e) with
            | Some l => Ret (RGot (with_rcpts e l) (match att with Some n => n | None => 0 end))
            | None => Ret RIndexErr
            end
        | _ => Ret RMissing
        end)
  | ORemove id => Do (SDelete id) (fun a => match a with YUnit => Ret RUnit | _ => Ret RMissing end)
  end.

Definition cloud_step (mq : bool) (s : cstate) (o : op) : cstate * res := run cexec (cloud_prog mq o) s.

Fixpoint cloud_run (mq : bool) (s : cstate) (ops : list op) : cstate * list res :=
  match ops with
  | [] => (s, [])
  | o :: ops' => let (s1, x) := cloud_step mq s o in
                 let (s2, xs) := cloud_run mq s1 ops' in (s2, x :: xs)
  end.

Definition cloud_view (s : cstate) (id : N) : option entry :=
  match alookup N.eqb (c_objs s) id with
  | Some o =>
      match accum_get (match o_deliv o with Some l => l | None => [] end) (e_rcpts (o_env o)) with
      | Some l => Some (mkEntry (with_rcpts (o_env o) l) (o_ts o) (match o_att o with Some n => n | None => 0 end))
      | None => None
      end
  | None => None
  end.
Definition cloud_listed (s : cstate) (id : N) : bool := amem N.eqb (c_objs s) id.

(* ============================================ locality of the commands *)
(* For the yielding backends: which part of the substrate a command reads or
   writes.  None = not local to a message (directory / key scans, the shared
   announcement list).  (Disk: `dfp` in model/Disk.v.) *)
Definition rfp (c : rcmd) : option (N -> bool) :=
  match c with
  | QHsetnxEnv id _ | QWritePipe id _ | QHsetTs id _ | QHincrAtt id | QHgetDeliv id
  | QHsetDeliv id _ | QHmget id | QDel id | QHgetTs (KId id) => Some (N.eqb id)
  | QKeys | QHgetTs KQueue | QBlpop => None
  end.
Definition rloc (s : rstate) (id : N) : option rhash := alookup N.eqb (r_hashes s) id.

(* SWrite looks at every candidate id it is given *)
Definition cfp (c : ccmd) : option (N -> bool) :=
  match c with
  | SWrite _ _ cands => Some (fun id => existsb (N.eqb id) cands)
  | SSetMeta id _ _ _ | SGetMeta id | SGetMsg id | SDelete id => Some (N.eqb id)
  | MQueue _ _ => Some (fun _ => false)
  | SList => None
  end.
Definition cloc (s : cstate) (id : N) : option cobj := alookup N.eqb (c_objs s) id.
