(* Model of one SMTP server session at the level of parsed command lines:
     slimta/smtp/server.py   Server.handle, _handle_command, _command_*, _check_close_code,
                             _get_message_data, _encrypt_session, _gather_params,
                             find_outside_quotes, from_pattern / to_pattern
     slimta/edge/smtp.py     SmtpSession (the handlers object) and SmtpEdge.handle
     slimta/smtp/io.py       recv_command (only the two command regexes, on one complete line)
   The code modelled is /repo as it is now, i.e. including the fixes
     d12  _check_close_code after the HAVE_DATA reply
     d25  SmtpSession.HAVE_DATA forgets the envelope on its two early returns
     d2b  a successful STARTTLS resets have_mailfrom/have_rcptto; TLSHANDSHAKE2 drops the envelope
     d11  a bare AUTH is answered 501
     d16  find_outside_quotes skips quoted-pairs inside a quoted string
     and the clear-text gate for PLAIN/LOGIN (auth.insecure_mechanisms).
   Definitions only.

   What is abstracted (explicitly):
   * `str` values (EHLO identity, addresses) are kept as their UTF-8 bytes; `.decode('utf-8')`
     is modelled by its failure condition only (utf8_dec = None  <=>  UnicodeDecodeError).
   * Reply texts are not modelled, only codes (N).  A validator is a verdict: leave the reply
     alone, set a three digit code, or raise.  Codes outside 100..599 make the Reply.code setter
     raise ValueError, which is the same arm of `handle` as any other exception.
   * Byte stream -> lines (IO.recv_line) and the DATA reader are front ends that belong to
     C09/C05.  Here a DATA command comes with what the reader would return (`it_data`) and the
     number of bytes it pulled from the socket (`it_wire`, one piece); MessageTooBig is
     `max_size && it_wire > max_size` as in DataReader.recv_piece for a single piece.
   * AuthSession.server_attempt (pysasl) is an environment oracle: whether the mechanism named
     is one of auth.insecure_mechanisms (PLAIN, LOGIN), the number of 334 challenge rounds
     (`au_resps`) and the outcome; the gate `insecure and not io.encrypted -> 504` itself is
     modelled.  The TLS handshake is an oracle bit.
   * SmtpSession has no attribute named like an all-letters upper-case command other than the
     ones Server has a `_command_` method for, so `_command_custom` never finds a handler
     (words are [A-Z]+ after recv_command); likewise no CLOSE/TLSHANDSHAKE/STARTTLS/NOOP/QUIT
     handlers exist on SmtpSession.
   * have_mailfrom/have_rcptto: None and False are both "false".
   * handle_tls/handle_tls2 validators are assumed not to raise. *)
From Coq Require Import List NArith ZArith Bool.
From SV Require Import lib.Bytes model.Reply.
Import ListNotations.
Open Scope N_scope.

(* ------------------------------------------------------------------ configuration *)
Record config := {
  cfg_context : bool;          (* Server(context=...) given *)
  cfg_tls_immediately : bool;
  cfg_tls_imm_ok : bool;       (* oracle: result of the handshake done before the banner *)
  cfg_auth : bool;             (* Server(auth=...) truthy *)
  cfg_max_size : option N      (* SmtpEdge.max_size *)
}.

(* ------------------------------------------------------------------ application decisions *)
(* what a failing callback raises, by the arm of Server.handle() that sees it:
     FException  an Exception subclass            -> "421 4.3.0 Unhandled system error", re-raised
     FTimeout    gevent.Timeout (a BaseException) -> caught by handle()'s `except Timeout`:
                                                     "421 4.4.2 Connection timed out", ConnectionLost
     FKill       GreenletExit / KeyboardInterrupt / SystemExit (the greenlet is being killed):
                                                     caught by nothing, no reply, the session ends *)
Inductive xfamily := FException | FTimeout | FKill.

Inductive verdict := VKeep | VCode (c : N) | VRaise (f : xfamily).

Definition code_ok (c : N) : bool := (100 <=? c) && (c <=? 599).   (* code_pattern ^[12345]\d\d$ *)

(* effect of a validator on reply.code; None = the call raised *)
Definition apply_verdict (v : verdict) (cur : N) : option N :=
  match v with
  | VKeep => Some cur
  | VCode c => if code_ok c then Some c else None
  | VRaise _ => None
  end.

(* the family of what a verdict raises when apply_verdict = None (ValueError of the Reply.code
   setter for an impossible code) *)
Definition fam_of (v : verdict) : xfamily :=
  match v with VRaise f => f | _ => FException end.

Inductive qres := QOk | QFail (c : N).      (* handoff(): id  |  QueueError/RelayError whose reply has code c
                                               (an error without reply: c = 0) *)

Inductive auth_outcome :=
| AOk (cid : bytes)      (* credentials returned *)
| ABadArg                (* ValueError            -> bad_arguments 501 *)
| AErr501                (* InvalidAuthString / AuthenticationCanceled / UnexpectedAuthError *)
| AErr504                (* InvalidMechanismError *)
| ARaise                 (* anything else *)
| AInsecure (o : auth_outcome).
                         (* the mechanism named exists and is in auth.insecure_mechanisms (PLAIN, LOGIN):
                            refused with InsecureMechanismError unless io.encrypted, else behaves as o *)

(* what server_attempt does once it is past the clear-text gate *)
Inductive auth_result := GOk (cid : bytes) | GBadArg | G501 | G504 | GRaise.

(* `if insecure and not self.io.encrypted: raise InsecureMechanismError()`; None = refused *)
Fixpoint au_gate (enc : bool) (o : auth_outcome) : option auth_result :=
  match o with
  | AOk cid => Some (GOk cid)
  | ABadArg => Some GBadArg
  | AErr501 => Some G501
  | AErr504 => Some G504
  | ARaise => Some GRaise
  | AInsecure o' => if enc then au_gate enc o' else None
  end.

(* ------------------------------------------------------------------ input: one command line + environment *)
Record line := { l_word : option bytes;      (* None: neither command regex matched *)
                 l_arg : option bytes }.

Record item := {
  it_line : line;
  it_v1 : verdict;           (* handle_ehlo/helo/auth/mail/rcpt/data, whichever this command reaches *)
  it_v2 : verdict;           (* handle_have_data *)
  it_v3 : verdict;           (* handle_queued *)
  it_data : bytes;           (* message content the DATA reader returns *)
  it_wire : N;               (* bytes the reader pulled from the socket *)
  it_q : qres;               (* result of handoff *)
  it_au_resps : list bytes;  (* client answers to 334 challenges (one 334 each) *)
  it_au : auth_outcome;
  it_tls_ok : bool           (* STARTTLS handshake succeeds *)
}.

(* ------------------------------------------------------------------ recv_command on one line *)
(* command_pattern      ^([a-zA-Z]+)\s*$
   command_arg_pattern  ^([a-zA-Z]+)\s+(.+?)\s*$
   The line comes from line_pattern and contains no LF, so `.` matches every byte
   and `$` only matches at the end. *)
Fixpoint span (p : N -> bool) (s : bytes) : bytes * bytes :=
  match s with
  | [] => ([], [])
  | c :: s' => if p c then let '(a, b) := span p s' in (c :: a, b) else ([], s)
  end.

Fixpoint drop_ws (s : bytes) : bytes :=
  match s with
  | [] => []
  | c :: s' => if is_ws c then drop_ws s' else s
  end.

(* remove trailing whitespace *)
Fixpoint rstrip_ws (s : bytes) : bytes :=
  match s with
  | [] => []
  | c :: s' => match rstrip_ws s' with
               | [] => if is_ws c then [] else [c]
               | r => c :: r
               end
  end.

Definition parse_line (raw : bytes) : line :=
  let '(w, rest) := span is_alpha raw in
  match w with
  | [] => {| l_word := None; l_arg := None |}
  | _ =>
      match rest with
      | [] => {| l_word := Some (map to_upper w); l_arg := None |}
      | c :: _ =>
          if is_ws c then
            match rstrip_ws (drop_ws rest) with
            | [] => {| l_word := Some (map to_upper w); l_arg := None |}
            | a => {| l_word := Some (map to_upper w); l_arg := Some a |}
            end
          else {| l_word := None; l_arg := None |}
      end
  end.

(* ------------------------------------------------------------------ state *)
Record srv := {                 (* Server attributes *)
  s_bannered : bool;
  s_ehlo : option bytes;        (* ehlo_as *)
  s_mail : bool;                (* have_mailfrom *)
  s_rcpt : bool;                (* have_rcptto *)
  s_authed : bool;
  s_encrypted : bool            (* io.encrypted *)
}.

Record exts := {                (* Server.extensions *)
  x_base : bool;                (* 8BITMIME PIPELINING ENHANCEDSTATUSCODES SMTPUTF8 *)
  x_starttls : bool;
  x_auth : bool;
  x_size : option N
}.

Definition envelope := (bytes * list bytes)%type.     (* sender, recipients *)

Record edge := {                (* SmtpSession attributes *)
  e_env : option envelope;
  e_ehlo : option bytes;
  e_auth : option bytes;        (* authcid of the accepted credentials *)
  e_esmtp : bool;               (* extended_smtp *)
  e_tls : bool                  (* security == 'TLS' *)
}.

Record sstate := { sv : srv; ex : exts; ed : edge }.

Definition with_sv (st : sstate) (x : srv) : sstate := {| sv := x; ex := ex st; ed := ed st |}.
Definition with_ex (st : sstate) (x : exts) : sstate := {| sv := sv st; ex := x; ed := ed st |}.
Definition with_ed (st : sstate) (x : edge) : sstate := {| sv := sv st; ex := ex st; ed := x |}.

Definition set_bannered (b : bool) (s : srv) : srv :=
  {| s_bannered := b; s_ehlo := s_ehlo s; s_mail := s_mail s; s_rcpt := s_rcpt s;
     s_authed := s_authed s; s_encrypted := s_encrypted s |}.
Definition set_ehlo (e : option bytes) (s : srv) : srv :=
  {| s_bannered := s_bannered s; s_ehlo := e; s_mail := s_mail s; s_rcpt := s_rcpt s;
     s_authed := s_authed s; s_encrypted := s_encrypted s |}.
Definition set_mail (b : bool) (s : srv) : srv :=
  {| s_bannered := s_bannered s; s_ehlo := s_ehlo s; s_mail := b; s_rcpt := s_rcpt s;
     s_authed := s_authed s; s_encrypted := s_encrypted s |}.
Definition set_rcpt (b : bool) (s : srv) : srv :=
  {| s_bannered := s_bannered s; s_ehlo := s_ehlo s; s_mail := s_mail s; s_rcpt := b;
     s_authed := s_authed s; s_encrypted := s_encrypted s |}.
Definition set_authed (b : bool) (s : srv) : srv :=
  {| s_bannered := s_bannered s; s_ehlo := s_ehlo s; s_mail := s_mail s; s_rcpt := s_rcpt s;
     s_authed := b; s_encrypted := s_encrypted s |}.
Definition set_encrypted (b : bool) (s : srv) : srv :=
  {| s_bannered := s_bannered s; s_ehlo := s_ehlo s; s_mail := s_mail s; s_rcpt := s_rcpt s;
     s_authed := s_authed s; s_encrypted := b |}.
(* have_mailfrom = None; have_rcptto = None *)
Definition reset_tx (s : srv) : srv := set_rcpt false (set_mail false s).

Definition set_env (v : option envelope) (e : edge) : edge :=
  {| e_env := v; e_ehlo := e_ehlo e; e_auth := e_auth e; e_esmtp := e_esmtp e; e_tls := e_tls e |}.
Definition set_e_ehlo (v : option bytes) (e : edge) : edge :=
  {| e_env := e_env e; e_ehlo := v; e_auth := e_auth e; e_esmtp := e_esmtp e; e_tls := e_tls e |}.
Definition set_e_auth (v : option bytes) (e : edge) : edge :=
  {| e_env := e_env e; e_ehlo := e_ehlo e; e_auth := v; e_esmtp := e_esmtp e; e_tls := e_tls e |}.
Definition set_e_esmtp (v : bool) (e : edge) : edge :=
  {| e_env := e_env e; e_ehlo := e_ehlo e; e_auth := e_auth e; e_esmtp := v; e_tls := e_tls e |}.
Definition set_e_tls (v : bool) (e : edge) : edge :=
  {| e_env := e_env e; e_ehlo := e_ehlo e; e_auth := e_auth e; e_esmtp := e_esmtp e; e_tls := v |}.

(* Extensions.reset() *)
Definition exts_none : exts := {| x_base := false; x_starttls := false; x_auth := false; x_size := None |}.
Definition drop_starttls (x : exts) : exts :=
  {| x_base := x_base x; x_starttls := false; x_auth := x_auth x; x_size := x_size x |}.

(* Server.__init__ + SmtpSession.__init__ + `if self.max_size: extensions.add('SIZE', ...)` *)
Definition init_state (cfg : config) : sstate :=
  {| sv := {| s_bannered := false; s_ehlo := None; s_mail := false; s_rcpt := false;
              s_authed := false; s_encrypted := false |};
     ex := {| x_base := true;
              x_starttls := cfg_context cfg && negb (cfg_tls_immediately cfg);
              x_auth := cfg_auth cfg;
              x_size := match cfg_max_size cfg with
                        | Some n => if n =? 0 then None else Some n
                        | None => None
                        end |};
     ed := {| e_env := None; e_ehlo := None; e_auth := None; e_esmtp := false; e_tls := false |} |}.

(* ------------------------------------------------------------------ observable trace *)
Inductive cbk := KBanner | KEhlo | KHelo | KAuth | KRset | KMail | KRcpt | KData | KHaveData.

Definition params := list (bytes * option bytes).    (* keyword -> value | True *)

Inductive event :=
| EvCall (k : cbk) (arg : bytes) (ps : params) (code : option N)
      (* handlers.<k>(reply, arg..) returned with reply.code = c  |  None: it raised *)
| EvTls                              (* handlers.TLSHANDSHAKE2 after a successful handshake *)
| EvQueue (sender : bytes) (rcpts : list bytes).   (* handoff(envelope) *)

(* how a `_command_*` call leaves:  normally | StopIteration | UnicodeDecodeError | other exception *)
Inductive exc := XNone | XStop | XUnicode | XExn.

Record res := { r_st : sstate; r_replies : list N; r_events : list event; r_exc : exc;
                r_fam : xfamily    (* meaningful when r_exc = XExn *) }.

Definition mk (st : sstate) (rs : list N) (es : list event) (x : exc) : res :=
  {| r_st := st; r_replies := rs; r_events := es; r_exc := x; r_fam := FException |}.

(* a callback raised *)
Definition mkx (st : sstate) (rs : list N) (es : list event) (f : xfamily) : res :=
  {| r_st := st; r_replies := rs; r_events := es; r_exc := XExn; r_fam := f |}.

(* one of the canned replies (bad_sequence, bad_arguments, unknown_command, ...) and return *)
Definition just (st : sstate) (c : N) : res := mk st [c] [] XNone.

(* _check_close_code *)
Definition is_close (c : N) : bool := (c =? 221) || (c =? 421).
Definition close_exc (c : N) : exc := if is_close c then XStop else XNone.

Definition nonempty (a : option bytes) : bool :=     (* Python truth of `arg` *)
  match a with Some (_ :: _) => true | _ => false end.
Definition is_some {A} (o : option A) : bool := match o with Some _ => true | None => false end.

(* ------------------------------------------------------------------ MAIL / RCPT argument parsing *)
(* from_pattern ^[fF][rR][oO][mM]:\s*<    to_pattern ^[tT][oO]:\s*<
   result: what follows the `<` *)
Fixpoint match_ci (kw : bytes) (s : bytes) : option bytes :=   (* kw is upper case *)
  match kw, s with
  | [], _ => Some s
  | k :: kw', c :: s' => if to_upper c =? k then match_ci kw' s' else None
  | _ :: _, [] => None
  end.

Definition match_path_prefix (kw : bytes) (arg : bytes) : option bytes :=
  match match_ci kw arg with
  | Some (58 :: r) =>                       (* ':' *)
      match drop_ws r with
      | 60 :: r' => Some r'                 (* '<' *)
      | _ => None
      end
  | _ => None
  end.

Definition KW_FROM : bytes := [70; 82; 79; 77].
Definition KW_TO : bytes := [84; 79].

(* find_outside_quotes(arg, b'>', start): the text before the first '>' outside
   double quotes and the text after it; None = -1.  Inside a quoted string a
   backslash makes the scanner skip the next byte (quoted-pair). *)
Definition cons_fst (c : N) (o : option (bytes * bytes)) : option (bytes * bytes) :=
  match o with Some (a, r) => Some (c :: a, r) | None => None end.

Fixpoint find_gt_esc (quoted escaped : bool) (s : bytes) : option (bytes * bytes) :=
  match s with
  | [] => None
  | c :: s' =>
      if negb quoted then
        if c =? 62 then Some ([], s')
        else cons_fst c (find_gt_esc (c =? 34) false s')
      else if escaped then cons_fst c (find_gt_esc true false s')
      else if c =? 92 then cons_fst c (find_gt_esc true true s')
      else cons_fst c (find_gt_esc (negb (c =? 34)) false s')
  end.

Definition find_gt (quoted : bool) (s : bytes) : option (bytes * bytes) := find_gt_esc quoted false s.

(* _gather_params.
   param_keyword_pattern \b([a-zA-Z0-9][a-zA-Z0-9-]* )   (no blank in the real one) searched from pos
   param_value_pattern   \=([\x21-\x3C\x3E-\x7F]+)      matched at the keyword's end *)
Definition is_alnum (c : N) : bool := is_alpha c || is_digit c.
Definition is_wordc (c : N) : bool := is_alnum c || (c =? 95).         (* \w of a bytes pattern *)
Definition is_kwc (c : N) : bool := is_alnum c || (c =? 45).
Definition is_valc (c : N) : bool := ((33 <=? c) && (c <=? 60)) || ((62 <=? c) && (c <=? 127)).

Fixpoint set_param (k : bytes) (v : option bytes) (ps : params) : params :=
  match ps with
  | [] => [(k, v)]
  | (k', v') :: ps' => if beqb k k' then (k, v) :: ps' else (k', v') :: set_param k v ps'
  end.

Fixpoint get_param (k : bytes) (ps : params) : option (option bytes) :=
  match ps with
  | [] => None
  | (k', v') :: ps' => if beqb k k' then Some v' else get_param k ps'
  end.

(* is the last byte of s a \w byte (d for the empty string); linear *)
Fixpoint last_wordc (s : bytes) (d : bool) : bool :=
  match s with
  | [] => d
  | c :: s' => match s' with [] => is_wordc c | _ => last_wordc s' d end
  end.

(* prevw: the byte before the current position is a \w byte (false at the start) *)
Fixpoint gather (fuel : nat) (prevw : bool) (s : bytes) (acc : params) : params :=
  match fuel with
  | O => acc
  | S f =>
      match s with
      | [] => acc
      | c :: s' =>
          if is_alnum c && negb prevw then
            let '(kw, r) := span is_kwc s in
            let k := map to_upper kw in
            let pw := last_wordc kw true in
            match r with
            | 61 :: r' =>
                let '(v, r'') := span is_valc r' in
                match v with
                | [] => gather f pw r (set_param k None acc)
                | _ => gather f (last_wordc v false) r'' (set_param k (Some v) acc)
                end
            | _ => gather f pw r (set_param k None acc)
            end
          else gather f (is_wordc c) s' acc
      end
  end.

Definition gather_params (s : bytes) : params := gather (S (length s)) false s [].

(* int(params[b'SIZE']) : True -> 1; bytes -> [+-]?D(_?D)*  (no blanks can occur in a value);
   None = ValueError.  Result: (negative?, magnitude).
   Not modelled: CPython's 4300-digit limit on int(). *)
Fixpoint int_digits (acc : N) (after_digit : bool) (s : bytes) : option N :=
  match s with
  | [] => if after_digit then Some acc else None
  | c :: s' =>
      if is_digit c then int_digits (acc * 10 + (c - 48)) true s'
      else if (c =? 95) && after_digit then
        match s' with
        | d :: _ => if is_digit d then int_digits acc false s' else None
        | [] => None
        end
      else None
  end.

Definition py_int (v : option bytes) : option (bool * N) :=
  match v with
  | None => Some (false, 1)
  | Some (43 :: s) => match int_digits 0 false s with Some n => Some (false, n) | None => None end
  | Some (45 :: s) => match int_digits 0 false s with Some n => Some (true, n) | None => None end
  | Some s => match int_digits 0 false s with Some n => Some (false, n) | None => None end
  end.

Definition KW_SIZE : bytes := [83; 73; 90; 69].

Inductive size_check := SzOk | SzBadArg | SzTooBig | SzNoExt.

(* the `if b'SIZE' in params:` block of _command_MAIL *)
Definition check_size (ps : params) (x : exts) : size_check :=
  match get_param KW_SIZE ps with
  | None => SzOk
  | Some v =>
      match py_int v with
      | None => SzBadArg
      | Some (neg, n) =>
          match x_size x with
          | Some mx => if negb neg && (mx <? n) then SzTooBig else SzOk
          | None => SzNoExt
          end
      end
  end.

(* ------------------------------------------------------------------ the commands *)
(* _command_BANNER_ + SmtpSession.BANNER_ *)
Definition command_BANNER (vb : verdict) (st : sstate) : res :=
  match apply_verdict vb 220 with
  | None => mkx st [] [EvCall KBanner [] [] None] (fam_of vb)
  | Some c =>
      let st' := if c =? 220 then with_sv st (set_bannered true (sv st)) else st in
      mk st' [c] [EvCall KBanner [] [] (Some c)] (close_exc c)
  end.

(* _command_EHLO + SmtpSession.EHLO *)
Definition command_EHLO (st : sstate) (arg : option bytes) (v : verdict) : res :=
  if negb (s_bannered (sv st)) then just st 503
  else if negb (nonempty arg) then just st 501
  else
    let a := match arg with Some a => a | None => [] end in
    match utf8_dec a with
    | None => mk st [] [] XUnicode
    | Some _ =>
        match apply_verdict v 250 with
        | None => mkx st [] [EvCall KEhlo a [] None] (fam_of v)
        | Some c =>
            let ed1 := set_e_esmtp true (ed st) in
            let ed2 := if c =? 250 then set_env None (set_e_ehlo (Some a) ed1) else ed1 in
            let sv2 := if c =? 250 then set_ehlo (Some a) (reset_tx (sv st)) else sv st in
            mk {| sv := sv2; ex := ex st; ed := ed2 |} [c] [EvCall KEhlo a [] (Some c)] (close_exc c)
        end
    end.

(* _command_HELO + SmtpSession.HELO.  An accepted HELO wipes every extension. *)
Definition command_HELO (st : sstate) (arg : option bytes) (v : verdict) : res :=
  if negb (s_bannered (sv st)) then just st 503
  else if negb (nonempty arg) then just st 501
  else
    let a := match arg with Some a => a | None => [] end in
    match utf8_dec a with
    | None => mk st [] [] XUnicode
    | Some _ =>
        match apply_verdict v 250 with
        | None => mkx st [] [EvCall KHelo a [] None] (fam_of v)
        | Some c =>
            let ed2 := if c =? 250 then set_env None (set_e_ehlo (Some a) (ed st)) else ed st in
            let sv2 := if c =? 250 then set_ehlo (Some a) (reset_tx (sv st)) else sv st in
            let ex2 := if c =? 250 then exts_none else ex st in
            mk {| sv := sv2; ex := ex2; ed := ed2 |} [c] [EvCall KHelo a [] (Some c)] (close_exc c)
        end
    end.

(* _encrypt_session on success: TLSHANDSHAKE (absent), TLSHANDSHAKE2 (its `envelope = None` is
   applied by command_STARTTLS; before the banner the envelope is None anyway) *)
Definition encrypted_state (st : sstate) : sstate :=
  {| sv := set_encrypted true (sv st); ex := ex st; ed := set_e_tls true (ed st) |}.

(* _command_STARTTLS.  SmtpSession has no STARTTLS handler: the 220 cannot be changed.
   On success: ehlo_as = have_mailfrom = have_rcptto = None, STARTTLS dropped; TLSHANDSHAKE2
   sets security = 'TLS' and envelope = None (SmtpSession.ehlo_as survives). *)
Definition command_STARTTLS (st : sstate) (arg : option bytes) (tls_ok : bool) : res :=
  if negb (x_starttls (ex st)) then just st 500
  else if nonempty arg then just st 501
  else if negb (is_some (s_ehlo (sv st))) then just st 503
  else if negb tls_ok then mk st [220; 421] [] XStop           (* tls_failure, StopIteration *)
  else
    let st1 := encrypted_state st in
    mk {| sv := set_ehlo None (reset_tx (sv st1)); ex := drop_starttls (ex st1); ed := set_env None (ed st1) |}
       [220] [EvTls] XNone.

(* _command_AUTH + SmtpSession.AUTH; server_attempt is the oracle (resps, out) behind the
   modelled clear-text gate *)
Definition command_AUTH (st : sstate) (arg : option bytes) (resps : list bytes) (out : auth_outcome)
           (v : verdict) : res :=
  if negb (x_auth (ex st)) then just st 500
  else if negb (is_some (s_ehlo (sv st))) || s_authed (sv st) || s_mail (sv st) then just st 503
  else if negb (nonempty arg) then just st 501
  else
    match au_gate (s_encrypted (sv st)) out with
    | None => just st 504                                   (* InsecureMechanismError *)
    | Some r =>
        let inter := map (fun _ => 334) resps in
        match r with
        | GBadArg => mk st (inter ++ [501]) [] XNone
        | G501 => mk st (inter ++ [501]) [] XNone
        | G504 => mk st (inter ++ [504]) [] XNone
        | GRaise => mk st inter [] XExn
        | GOk cid =>
            match apply_verdict v 235 with
            | None => mkx st inter [EvCall KAuth cid [] None] (fam_of v)
            | Some c =>
                let ed2 := if c =? 235 then set_e_auth (Some cid) (ed st) else ed st in
                let sv2 := if c =? 235 then set_authed true (sv st) else sv st in
                mk {| sv := sv2; ex := ex st; ed := ed2 |} (inter ++ [c])
                   [EvCall KAuth cid [] (Some c)] (close_exc c)
            end
        end
    end.

(* _command_MAIL + SmtpSession.MAIL.  A bare MAIL (arg None) makes re.match raise TypeError. *)
Definition command_MAIL (st : sstate) (arg : option bytes) (v : verdict) : res :=
  match arg with
  | None => mk st [] [] XExn
  | Some a =>
      match match_path_prefix KW_FROM a with
      | None => just st 501
      | Some r =>
          match find_gt false r with
          | None => just st 501
          | Some (addr, rest) =>
              match utf8_dec addr with
              | None => mk st [] [] XUnicode
              | Some _ =>
                  if negb (is_some (s_ehlo (sv st))) then just st 503
                  else if s_mail (sv st) then just st 503
                  else
                    let ps := gather_params rest in
                    match check_size ps (ex st) with
                    | SzBadArg => just st 501
                    | SzTooBig => just st 552
                    | SzNoExt => just st 504
                    | SzOk =>
                        match apply_verdict v 250 with
                        | None => mkx st [] [EvCall KMail addr ps None] (fam_of v)
                        | Some c =>
                            let ed2 := if c =? 250 then set_env (Some (addr, [])) (ed st) else ed st in
                            let sv2 := set_mail (s_mail (sv st) || (c =? 250)) (sv st) in
                            mk {| sv := sv2; ex := ex st; ed := ed2 |} [c]
                               [EvCall KMail addr ps (Some c)] (close_exc c)
                        end
                    end
              end
          end
      end
  end.

(* _command_RCPT + SmtpSession.RCPT (`assert self.envelope is not None` is an explicit arm) *)
Definition command_RCPT (st : sstate) (arg : option bytes) (v : verdict) : res :=
  match arg with
  | None => mk st [] [] XExn
  | Some a =>
      match match_path_prefix KW_TO a with
      | None => just st 501
      | Some r =>
          match find_gt false r with
          | None => just st 501
          | Some (addr, rest) =>
              match utf8_dec addr with
              | None => mk st [] [] XUnicode
              | Some _ =>
                  if negb (s_mail (sv st)) then just st 503
                  else
                    let ps := gather_params rest in
                    match apply_verdict v 250 with
                    | None => mkx st [] [EvCall KRcpt addr ps None] (fam_of v)
                    | Some c =>
                        if c =? 250 then
                          match e_env (ed st) with
                          | None => mk st [] [EvCall KRcpt addr ps None] XExn    (* AssertionError *)
                          | Some (snd, rc) =>
                              mk {| sv := set_rcpt true (sv st); ex := ex st;
                                    ed := set_env (Some (snd, rc ++ [addr])) (ed st) |}
                                 [c] [EvCall KRcpt addr ps (Some c)] XNone
                          end
                        else
                          mk st [c] [EvCall KRcpt addr ps (Some c)] (close_exc c)
                    end
              end
          end
      end
  end.

(* SmtpSession.HAVE_DATA (fixed: envelope forgotten on the early returns).
   Result: new edge state, events, Some final code | None (raised). *)
Definition too_big (x : exts) (wire : N) : bool :=
  match x_size x with Some mx => negb (mx =? 0) && (mx <? wire) | None => false end.

(* slimta.edge.get_failure_reply: the reply attached to a QueueError/RelayError is copied only
   if it is a 4xx/5xx reply, otherwise 451; None: every envelope was queued (code stays 250) *)
Definition failure_code (q : qres) : N :=
  match q with
  | QOk => 250
  | QFail qc => if (400 <=? qc) && (qc <=? 599) then qc else 451
  end.

Definition session_HAVE_DATA (st : sstate) (it : item) : edge * list event * option N :=
  let e := ed st in
  if too_big (ex st) (it_wire it) then (set_env None e, [], Some 552)
  else
    match apply_verdict (it_v2 it) 250 with
    | None => (e, [], None)
    | Some c =>
        if negb (c =? 250) then (set_env None e, [], Some c)
        else
          match e_env e with
          | None => (e, [], None)                                  (* AssertionError *)
          | Some (snd, rc) =>
              let c1 := failure_code (it_q it) in
              match apply_verdict (it_v3 it) c1 with
              | None => (e, [EvQueue snd rc], None)
              | Some c2 => (set_env None e, [EvQueue snd rc], Some c2)
              end
          end
  end.

(* which exception family left SmtpSession.HAVE_DATA when session_HAVE_DATA says None *)
Definition have_data_fam (st : sstate) (it : item) : xfamily :=
  match apply_verdict (it_v2 it) 250 with
  | None => fam_of (it_v2 it)
  | Some _ => match e_env (ed st) with
              | None => FException                                  (* AssertionError *)
              | Some _ => fam_of (it_v3 it)
              end
  end.

(* _get_message_data (fixed: _check_close_code(reply) after the reset) *)
Definition get_message_data (st : sstate) (it : item) (pre_replies : list N) (pre_events : list event) : res :=
  let '(e2, evs, oc) := session_HAVE_DATA st it in
  let arg := if too_big (ex st) (it_wire it) then [] else it_data it in
  match oc with
  | None => mkx (with_ed st e2) pre_replies (pre_events ++ evs ++ [EvCall KHaveData arg [] None]) (have_data_fam st it)
  | Some c =>
      mk {| sv := reset_tx (sv st); ex := ex st; ed := e2 |}
         (pre_replies ++ [c]) (pre_events ++ evs ++ [EvCall KHaveData arg [] (Some c)]) (close_exc c)
  end.

(* _command_DATA + SmtpSession.DATA *)
Definition command_DATA (st : sstate) (arg : option bytes) (it : item) : res :=
  if nonempty arg then just st 501
  else if negb (s_mail (sv st)) || negb (s_rcpt (sv st)) then just st 503
  else
    match apply_verdict (it_v1 it) 354 with
    | None => mkx st [] [EvCall KData [] [] None] (fam_of (it_v1 it))
    | Some c =>
        if is_close c then mk st [c] [EvCall KData [] [] (Some c)] XStop
        else if c =? 354 then get_message_data st it [c] [EvCall KData [] [] (Some c)]
        else mk st [c] [EvCall KData [] [] (Some c)] XNone
    end.

(* _command_RSET + SmtpSession.RSET (no validator is consulted) *)
Definition command_RSET (st : sstate) (arg : option bytes) : res :=
  if nonempty arg then just st 501
  else
    mk {| sv := reset_tx (sv st); ex := ex st; ed := set_env None (ed st) |}
       [250] [EvCall KRset [] [] (Some 250)] XNone.

Definition command_NOOP (st : sstate) : res := just st 250.

Definition command_QUIT (st : sstate) (arg : option bytes) : res :=
  if nonempty arg then just st 501 else mk st [221] [] XStop.

(* _command_custom: reply.copy(unknown_command), no handler *)
Definition command_custom (st : sstate) : res := just st 500.

Definition W_EHLO : bytes := [69; 72; 76; 79].
Definition W_HELO : bytes := [72; 69; 76; 79].
Definition W_STARTTLS : bytes := [83; 84; 65; 82; 84; 84; 76; 83].
Definition W_AUTH : bytes := [65; 85; 84; 72].
Definition W_MAIL : bytes := [77; 65; 73; 76].
Definition W_RCPT : bytes := [82; 67; 80; 84].
Definition W_DATA : bytes := [68; 65; 84; 65].
Definition W_RSET : bytes := [82; 83; 69; 84].
Definition W_NOOP : bytes := [78; 79; 79; 80].
Definition W_QUIT : bytes := [81; 85; 73; 84].

Inductive cmdk := CEhlo | CHelo | CStarttls | CAuth | CMail | CRcpt | CData | CRset | CNoop | CQuit
                | CCustom | CNone.

Definition classify (l : line) : cmdk :=
  match l_word l with
  | None => CNone
  | Some w =>
      if beqb w W_EHLO then CEhlo else if beqb w W_HELO then CHelo
      else if beqb w W_STARTTLS then CStarttls else if beqb w W_AUTH then CAuth
      else if beqb w W_MAIL then CMail else if beqb w W_RCPT then CRcpt
      else if beqb w W_DATA then CData else if beqb w W_RSET then CRset
      else if beqb w W_NOOP then CNoop else if beqb w W_QUIT then CQuit
      else CCustom
  end.

(* _handle_command, and `unknown_command.send` for an unparsable line *)
Definition handle_command (st : sstate) (it : item) : res :=
  let arg := l_arg (it_line it) in
  match classify (it_line it) with
  | CNone => just st 500
  | CEhlo => command_EHLO st arg (it_v1 it)
  | CHelo => command_HELO st arg (it_v1 it)
  | CStarttls => command_STARTTLS st arg (it_tls_ok it)
  | CAuth => command_AUTH st arg (it_au_resps it) (it_au it) (it_v1 it)
  | CMail => command_MAIL st arg (it_v1 it)
  | CRcpt => command_RCPT st arg (it_v1 it)
  | CData => command_DATA st arg it
  | CRset => command_RSET st arg
  | CNoop => command_NOOP st
  | CQuit => command_QUIT st arg
  | CCustom => command_custom st
  end.

(* ------------------------------------------------------------------ handle(): one loop iteration *)
Inductive fin :=
| Continue       (* the loop goes on to _recv_command *)
| Closed         (* StopIteration: CLOSE handler (absent), break; handle() returns -
                   or ConnectionLost raised after the 421 of a callback's Timeout *)
| Crashed.       (* an exception left handle() (SmtpEdge.handle closes the socket) *)

Record out := { o_replies : list N; o_events : list event; o_fin : fin }.

(* the except arms of handle(): UnicodeDecodeError -> bad_arguments then re-raise;
   Exception -> unhandled_error then re-raise; a gevent.Timeout (BaseException) passes those
   arms and is caught by the outer `except Timeout`: timed_out (421 4.4.2), ConnectionLost, which
   SmtpEdge.handle swallows (the session is closed, no exception leaves it); a GreenletExit-like
   BaseException passes everything: no reply, it leaves handle() *)
Definition finish (r : res) : sstate * out :=
  match r_exc r with
  | XNone => (r_st r, {| o_replies := r_replies r; o_events := r_events r; o_fin := Continue |})
  | XStop => (r_st r, {| o_replies := r_replies r; o_events := r_events r; o_fin := Closed |})
  | XUnicode => (r_st r, {| o_replies := r_replies r ++ [501]; o_events := r_events r; o_fin := Crashed |})
  | XExn =>
      match r_fam r with
      | FException => (r_st r, {| o_replies := r_replies r ++ [421]; o_events := r_events r; o_fin := Crashed |})
      | FTimeout => (r_st r, {| o_replies := r_replies r ++ [421]; o_events := r_events r; o_fin := Closed |})
      | FKill => (r_st r, {| o_replies := r_replies r; o_events := r_events r; o_fin := Crashed |})
      end
  end.

Definition step (st : sstate) (it : item) : sstate * out := finish (handle_command st it).

Fixpoint run_loop (st : sstate) (items : list item) : list out * sstate * fin :=
  match items with
  | [] => ([], st, Continue)
  | it :: rest =>
      let '(st', o) := step st it in
      match o_fin o with
      | Continue => let '(os, stf, f) := run_loop st' rest in (o :: os, stf, f)
      | f => ([o], st', f)
      end
  end.

(* handle() from the start: optional immediate TLS, the banner pseudo command, the loop.
   The first `out` belongs to the connection itself (banner), the following ones to the
   command lines in order; lines after the end of the session get none. *)
Definition run_session (cfg : config) (vb : verdict) (items : list item) : list out * sstate * fin :=
  let st0 := init_state cfg in
  if cfg_context cfg && cfg_tls_immediately cfg && negb (cfg_tls_imm_ok cfg) then
    ([{| o_replies := [421]; o_events := []; o_fin := Closed |}], st0, Closed)
  else
    let tls := cfg_context cfg && cfg_tls_immediately cfg in
    let st1 := if tls then encrypted_state st0 else st0 in
    let pre := if tls then [EvTls] else [] in
    let '(st2, o) := finish (command_BANNER vb st1) in
    let o' := {| o_replies := o_replies o; o_events := pre ++ o_events o; o_fin := o_fin o |} in
    match o_fin o with
    | Continue => let '(os, stf, f) := run_loop st2 items in (o' :: os, stf, f)
    | f => ([o'], st2, f)
    end.

Definition trace (os : list out) : list event := flat_map o_events os.

(* ------------------------------------------------------------------ the protocol-order automaton
   A small specification of which handler callbacks may follow which, carrying the
   transaction under construction.  It reads only the event trace. *)
Record ast := {
  a_started : bool;              (* banner callback seen *)
  a_greeted : bool;              (* ... and it kept 220 *)
  a_helo : bool;                 (* EHLO/HELO accepted (since the last TLS handshake) *)
  a_env : option envelope;       (* MAIL accepted / recipients accepted so far (forgotten by a TLS handshake) *)
  a_data : bool;                 (* DATA accepted with 354, content callback outstanding *)
  a_queued : bool;               (* handoff done for the outstanding content *)
  a_tls : bool;
  a_authed : bool;
  a_dead : bool                  (* a callback raised or returned 221/421: nothing may follow *)
}.

Definition a_init : ast :=
  {| a_started := false; a_greeted := false; a_helo := false; a_env := None; a_data := false;
     a_queued := false; a_tls := false; a_authed := false; a_dead := false |}.

Fixpoint list_beq (a b : list bytes) : bool :=
  match a, b with
  | [], [] => true
  | x :: a', y :: b' => beqb x y && list_beq a' b'
  | _, _ => false
  end.

Definition has_rcpt (e : option envelope) : bool :=
  match e with Some (_, _ :: _) => true | _ => false end.

(* may handler k be invoked now? *)
Definition allowed (a : ast) (k : cbk) : bool :=
  negb (a_dead a) &&
  match k with
  | KBanner => negb (a_started a)
  | KEhlo | KHelo => a_started a && negb (a_data a) && a_greeted a
  | KMail => a_started a && negb (a_data a) && a_helo a && negb (is_some (a_env a))
  | KRcpt => a_started a && negb (a_data a) && is_some (a_env a)
  | KData => a_started a && negb (a_data a) && has_rcpt (a_env a)
  | KHaveData => a_data a
  | KRset => a_started a && negb (a_data a)
  | KAuth => a_started a && negb (a_data a) && a_helo a && negb (is_some (a_env a)) && negb (a_authed a)
  end.

Definition allowed_tls (a : ast) : bool :=
  negb (a_dead a) && negb (a_data a) && negb (a_tls a) && (negb (a_started a) || a_helo a).

Definition dead_after (code : option N) : bool :=
  match code with None => true | Some c => is_close c end.
Definition code_is (code : option N) (c : N) : bool :=
  match code with Some c' => c' =? c | None => false end.

Definition a_upd (a : ast) (started greeted helo : bool) (env : option envelope)
           (data queued tls authed dead : bool) : ast :=
  {| a_started := started; a_greeted := greeted; a_helo := helo; a_env := env; a_data := data;
     a_queued := queued; a_tls := tls; a_authed := authed; a_dead := dead |}.

Definition aut_step (a : ast) (e : event) : option ast :=
  match e with
  | EvCall k arg ps code =>
      if negb (allowed a k) then None else
      let d := dead_after code in
      match k with
      | KBanner => Some (a_upd a true (code_is code 220) (a_helo a) (a_env a) false false (a_tls a) (a_authed a) d)
      | KEhlo | KHelo =>
          if code_is code 250
          then Some (a_upd a true (a_greeted a) true None false false (a_tls a) (a_authed a) d)
          else Some (a_upd a true (a_greeted a) (a_helo a) (a_env a) false false (a_tls a) (a_authed a) d)
      | KMail =>
          Some (a_upd a true (a_greeted a) (a_helo a)
                      (if code_is code 250 then Some (arg, []) else a_env a)
                      false false (a_tls a) (a_authed a) d)
      | KRcpt =>
          Some (a_upd a true (a_greeted a) (a_helo a)
                      (if code_is code 250
                       then match a_env a with Some (s, rc) => Some (s, rc ++ [arg]) | None => None end
                       else a_env a)
                      false false (a_tls a) (a_authed a) d)
      | KData =>
          Some (a_upd a true (a_greeted a) (a_helo a) (a_env a) (code_is code 354) false (a_tls a) (a_authed a) d)
      | KHaveData =>
          (* the content callback ends the transaction, whatever it answers *)
          Some (a_upd a true (a_greeted a) (a_helo a) None false false (a_tls a) (a_authed a) d)
      | KRset =>
          Some (a_upd a true (a_greeted a) (a_helo a) (if code_is code 250 then None else a_env a)
                      false false (a_tls a) (a_authed a) d)
      | KAuth =>
          Some (a_upd a true (a_greeted a) (a_helo a) (a_env a) false false (a_tls a)
                      (a_authed a || code_is code 235) d)
      end
  | EvTls =>
      if allowed_tls a
      then Some (a_upd a (a_started a) (a_greeted a) false None false false true (a_authed a) false)
      else None
  | EvQueue s rc =>
      (* handoff only inside the content callback, once, and with exactly the
         sender and recipients accepted since the last reset *)
      if negb (a_dead a) && a_data a && negb (a_queued a) then
        match a_env a with
        | Some (s', rc') =>
            if beqb s s' && list_beq rc rc' then
              Some (a_upd a true (a_greeted a) (a_helo a) (a_env a) true true (a_tls a) (a_authed a) false)
            else None
        | None => None
        end
      else None
  end.

Fixpoint aut_run (a : ast) (es : list event) : option ast :=
  match es with
  | [] => Some a
  | e :: es' => match aut_step a e with Some a' => aut_run a' es' | None => None end
  end.

Definition accepts (es : list event) : bool := is_some (aut_run a_init es).

(* ------------------------------------------------------------------ vocabulary of the property statements *)
(* syntactically wrong command lines, independent of the session state *)
Definition arg_bytes (a : option bytes) : bytes := match a with Some b => b | None => [] end.

Definition bad_path (kw : bytes) (arg : option bytes) : bool :=
  match arg with
  | None => true
  | Some a =>
      match match_path_prefix kw a with
      | None => true
      | Some r => match find_gt false r with
                  | None => true
                  | Some (addr, _) => negb (is_some (utf8_dec addr))
                  end
      end
  end.

(* MAIL ... SIZE=<not an integer> *)
Definition bad_size (arg : option bytes) : bool :=
  match arg with
  | None => false
  | Some a =>
      match match_path_prefix KW_FROM a with
      | None => false
      | Some r => match find_gt false r with
                  | None => false
                  | Some (_, rest) =>
                      match get_param KW_SIZE (gather_params rest) with
                      | Some v => negb (is_some (py_int v))
                      | None => false
                      end
                  end
      end
  end.

Definition malformed (l : line) : bool :=
  match classify l with
  | CNone | CCustom => true
  | CEhlo | CHelo => negb (nonempty (l_arg l)) || negb (is_some (utf8_dec (arg_bytes (l_arg l))))
  | CMail => bad_path KW_FROM (l_arg l) || bad_size (l_arg l)
  | CRcpt => bad_path KW_TO (l_arg l)
  | CData | CRset | CQuit | CStarttls => nonempty (l_arg l)
  | CAuth => negb (nonempty (l_arg l))
  | CNoop => false
  end.

(* the command's handler callback is not allowed by the protocol-order automaton in state a *)
Definition out_of_order (a : ast) (l : line) : bool :=
  match classify l with
  | CEhlo => negb (allowed a KEhlo)
  | CHelo => negb (allowed a KHelo)
  | CMail => negb (allowed a KMail)
  | CRcpt => negb (allowed a KRcpt)
  | CData => negb (allowed a KData)
  | CAuth => negb (allowed a KAuth)
  | CStarttls => negb (allowed_tls a)
  | _ => false
  end.

Definition resets (l : line) : bool :=
  match classify l with CRset | CEhlo | CHelo => true | _ => false end.

(* a handler callback raised during this command *)
Definition ev_raised (e : event) : bool :=
  match e with EvCall _ _ _ None => true | _ => false end.
Definition raised (o : out) : bool := existsb ev_raised (o_events o).

(* one of the application's decisions for this line is "the greenlet is killed here" *)
Definition is_kill (v : verdict) : bool := match v with VRaise FKill => true | _ => false end.
Definition has_kill (it : item) : bool := is_kill (it_v1 it) || is_kill (it_v2 it) || is_kill (it_v3 it).
