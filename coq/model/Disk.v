(* slimta.diskstorage at file-system level (C04, and the Disk backend of C15).

   File system = association map path -> contents.  Three directories: env_dir
   (`<id>.env`), meta_dir (`<id>.meta`), tmp_dir (mkstemp names); they are
   assumed to be three different directories.  Every DiskStorage method is a
   program of atomic file-system commands, in exactly the order
   AioFile.dump / AioFile.load / DiskOps issue them.  Process death = stop
   after any number of commands (effects are durable in program order; power
   loss reordering is outside the model).  A fresh DiskStorage on the same
   directories is the same programs run on the surviving file system.

   The pickle codec is a parameter (Section variables); the executable
   instance at the end (`nc_*`, a netstring-like number codec) is what the
   correspondence runs install in place of `pickle` inside slimta.diskstorage
   so that effect logs can be compared byte for byte.  Definitions only. *)
From Coq Require Import List NArith Bool DecimalN.
From SV Require Import lib.Assoc model.StoreCore.
Import ListNotations.
Open Scope N_scope.

Inductive path := PEnv (id : N) | PMeta (id : N) | PTmp (t : N).

Definition path_eqb (a b : path) : bool :=
  match a, b with
  | PEnv x, PEnv y | PMeta x, PMeta y | PTmp x, PTmp y => x =? y
  | _, _ => false
  end.

Definition fs := amap path bytes.
Definition fget (s : fs) (p : path) : option bytes := alookup path_eqb s p.

(* {'timestamp': ts, 'attempts': n [, 'delivered_indexes': l]} *)
Record meta := mkMeta { m_ts : N; m_att : N; m_deliv : option (list N) }.
Definition deliv_list (m : meta) : list N := match m_deliv m with Some l => l | None => [] end.

Inductive dcmd :=
| CExists (p : path)                       (* os.path.lexists(path) *)
| CMkTemp (t : N)                          (* mkstemp(dir=tmp_dir) returned name t (created empty, O_EXCL) *)
| CWrite (t : N) (off : N) (chunk : bytes) (* aio_write(fd, piece, offset) on the temp file *)
| CRename (t : N) (p : path)               (* os.rename(tmp, final): atomic replace *)
| CClose (t : N)                           (* os.close(fd) of the temp file (finally clause of dump): no file-system-visible effect *)
| CUnlink (p : path)                       (* os.remove(path), OSError swallowed by DiskOps *)
| CRead (p : path)                         (* os.open(path) + aio_read until EOF: snapshot at open *)
| CListdir.                                (* os.listdir(env_dir), names ending in .env *)

Inductive dans :=
| AUnit
| AErr
| ABool (b : bool)
| AData (d : option bytes)
| AIds (l : list N).

(* pwrite(fd, chunk, off) *)
Definition pwrite (d : bytes) (off : N) (chunk : bytes) : bytes :=
  let o := N.to_nat off in
  firstn o d ++ repeat 0 (o - length d) ++ chunk ++ skipn (o + length chunk) d.

Fixpoint env_ids_raw (s : fs) : list N :=
  match s with
  | [] => []
  | (PEnv id, _) :: s' => id :: env_ids_raw s'
  | _ :: s' => env_ids_raw s'
  end.
(* a directory listing names every file once; os.listdir order is unspecified,
   the runs (and this model) take it in ascending id order *)
Definition env_ids (s : fs) : list N := rev (sort_desc (nodup N.eq_dec (env_ids_raw s))).

Definition dexec (s : fs) (c : dcmd) : fs * dans :=
  match c with
  | CExists p => (s, ABool (amem path_eqb s p))
  | CMkTemp t => if amem path_eqb s (PTmp t) then (s, AErr) else (aset path_eqb s (PTmp t) [], AUnit)
  | CWrite t off chunk =>
      match fget s (PTmp t) with
      | Some d => (aset path_eqb s (PTmp t) (pwrite d off chunk), AUnit)
      | None => (s, AErr)
      end
  | CRename t p =>
      match fget s (PTmp t) with
      | Some d => (aset path_eqb (adel path_eqb s (PTmp t)) p d, AUnit)
      | None => (s, AErr)
      end
  | CClose _ => (s, AUnit)
  | CUnlink p => (adel path_eqb s p, AUnit)
  | CRead p => (s, AData (fget s p))
  | CListdir => (s, AIds (env_ids s))
  end.

(* which paths a command reads or writes; None = a directory scan *)
Definition dfp (c : dcmd) : option (path -> bool) :=
  match c with
  | CExists p | CUnlink p | CRead p => Some (path_eqb p)
  | CMkTemp t | CWrite t _ _ | CClose t => Some (path_eqb (PTmp t))
  | CRename t p => Some (fun q => path_eqb (PTmp t) q || path_eqb p q)
  | CListdir => None
  end.

Definition dprog := prog dcmd dans res.

(* Abort with unwinding: an exception (GreenletExit from a kill, an IOError out
   of an aio_write) is raised INSTEAD of carrying out the next command of the
   program; the except/finally clauses of the code then run.  In
   slimta.diskstorage the only such clause with an effect is `finally:
   os.close(fd)` of AioFile.dump, active between mkstemp and its own close. *)
Definition cleanup_of (p : dprog) : list dcmd :=
  match p with
  | Do (CWrite t _ _) _ | Do (CRename t _) _ => [CClose t]
  | _ => []
  end.

Definition run_cmds (s : fs) (cs : list dcmd) : fs := fold_left (fun s c => fst (dexec s c)) cs s.

Definition th_cleanup (th : thread dcmd dans) : list dcmd :=
  match th_cur th with Some (_, p) => cleanup_of p | None => [] end.

(* every greenlet is killed (the process is being stopped): all cleanups run *)
Definition abort_all (s : fs) (ths : list (thread dcmd dans)) : fs :=
  run_cmds s (flat_map th_cleanup ths).

(* chunk size of AioFile + the behaviour of the asynchronous writes *)
Record wcfg := mkW { w_chunk : nat; w_fault : N -> N -> nat -> option nat }.
Definition full_writes (c : nat) : wcfg := mkW c (fun _ _ n => Some n).
(* the chunk size is positive and no write reports an error (short writes allowed) *)
Definition wcfg_ok (c : wcfg) : Prop := w_chunk c <> O /\ forall t off n, w_fault c t off n <> None.

Section DiskOps.
  (* pickle.dumps / pickle.loads of the two kinds of object the backend stores *)
  Variable enc_env : envelope -> bytes.
  Variable dec_env : bytes -> option envelope.
  Variable enc_meta : meta -> bytes.
  Variable dec_meta : bytes -> option meta.
  (* AioFile.chunk_size (16 KiB in the code; the runs patch it down) and what the
     asynchronous writes do (an environment choice per temp file, offset and
     requested length) *)
  Variable chunk : wcfg.

  (* how many of the n >= 1 requested bytes this aio_write stores: None = the
     callback reports an error (ENOSPC, EFBIG ...); a count outside 1..n-1 = all *)
  Definition written (t off : N) (n : nat) : option nat :=
    match w_fault chunk t off n with
    | None => None
    | Some w => Some (if (Nat.ltb 0 w && Nat.ltb w n)%bool then w else n)
    end.

  (* AioFile.dump, the do-while loop over _write_piece: `ret = _write_piece(...);
     offset += ret; if offset >= data_len: break` - a short write is continued at
     offset+ret, an error raises IOError (finally: close; the temp file stays
     behind).  `rest` is data[offset:]; fuel = its length (every round stores
     >= 1 byte or fails). *)
  Fixpoint write_loop (fuel : nat) (t : N) (off : N) (rest : bytes) (p : path) (k : dprog) : dprog :=
    let req := firstn (w_chunk chunk) rest in
    match req with
    | [] => Do (CWrite t off []) (fun _ => Do (CClose t) (fun _ => Ret REmptyWrite))   (* ret == 0: IOError *)
    | _ :: _ =>
        match written t off (length req) with
        | None => Do (CClose t) (fun _ => Ret REmptyWrite)      (* the write failed: IOError, nothing stored *)
        | Some w =>
            let piece := firstn w rest in
            let rest' := skipn w rest in
            Do (CWrite t off piece) (fun _ =>
              match rest', fuel with
              | [], _ => Do (CRename t p) (fun _ => Do (CClose t) (fun _ => k))     (* finally: os.close(fd) *)
              | _ :: _, S f => write_loop f t (off + N.of_nat w) rest' p k
              | _ :: _, O => Ret REmptyWrite (* unreachable: fuel = length rest *)
              end)
        end
    end.

  Definition dump (data : bytes) (p : path) (t : N) (k : dprog) : dprog :=
    Do (CMkTemp t) (fun a =>
      match a with
      | AErr => Ret RTmpExists
      | _ => write_loop (length data) t 0 data p k
      end).

  (* DiskOps.read_meta + pickle_load *)
  Definition read_meta (id : N) (k : meta -> dprog) : dprog :=
    Do (CRead (PMeta id)) (fun a =>
      match a with
      | AData (Some b) => match dec_meta b with Some m => k m | None => Ret RCorrupt end
      | _ => Ret RMissing                 (* FileNotFoundError (an OSError) *)
      end).

  Definition update_meta (id : N) (tmps : list N) (f : meta -> meta) (result : meta -> res) : dprog :=
    read_meta id (fun m =>
      match tmps with
      | t :: _ => dump (enc_meta (f m)) (PMeta id) t (Ret (result (f m)))
      | [] => Ret RNoTmp
      end).

  (* DiskStorage.write: check_exists, write_env, write_meta, return id *)
  Fixpoint d_write (e : envelope) (ts : N) (cands : list N) (tmps : list N) : dprog :=
    match cands with
    | [] => Ret RNoId
    | c :: cs =>
        Do (CExists (PEnv c)) (fun a =>
          match a with
          | ABool true => d_write e ts cs tmps
          | _ =>
              match tmps with
              | t1 :: t2 :: _ =>
                  dump (enc_env e) (PEnv c) t1
                    (dump (enc_meta (mkMeta ts 0 None)) (PMeta c) t2 (Ret (RId c)))
              | _ => Ret RNoTmp
              end
          end)
    end.

  (* DiskStorage.load: generator over get_ids(); a missing meta file is logged
     and skipped (except OSError); an unreadable one propagates *)
  Fixpoint load_loop (ids : list N) (acc : list (N * N)) : dprog :=
    match ids with
    | [] => Ret (RLoad (rev acc))
    | id :: ids' =>
        Do (CRead (PMeta id)) (fun a =>
          match a with
          | AData (Some b) =>
              match dec_meta b with
              | Some m => load_loop ids' ((m_ts m, id) :: acc)
              | None => Ret RCorrupt
              end
          | _ => load_loop ids' acc
          end)
    end.

  Definition d_get (id : N) : dprog :=
    read_meta id (fun m =>
      Do (CRead (PEnv id)) (fun a =>
        match a with
        | AData (Some b) =>
            match dec_env b with
            | Some e =>
                match accum_get (deliv_list m) (e_rcpts e) with
                | Some l => Ret (RGot (with_rcpts e l) (m_att m))
                | None => Ret RIndexErr
                end
            | None => Ret RCorrupt
            end
        | _ => Ret RMissing
        end)).

  Definition disk_prog (o : op) : dprog :=
    match o with
    | OWrite e ts cands tmps => d_write e ts cands tmps
    | OSetTs id ts tmps =>
        update_meta id tmps (fun m => mkMeta ts (m_att m) (m_deliv m)) (fun _ => RUnit)
    | OIncr id tmps =>
        update_meta id tmps (fun m => mkMeta (m_ts m) (m_att m + 1) (m_deliv m)) (fun m => RAtt (m_att m))
    | ODeliv id idxs tmps =>
        update_meta id tmps (fun m => mkMeta (m_ts m) (m_att m) (Some (accum_mark (deliv_list m) idxs)))
                    (fun _ => RUnit)
    | OLoad _ => Do CListdir (fun a => match a with AIds ids => load_loop ids [] | _ => Ret RCorrupt end)
    | OGet id => d_get id
    | ORemove id => Do (CUnlink (PEnv id)) (fun _ => Do (CUnlink (PMeta id)) (fun _ => Ret RUnit))
    end.

  Definition disk_step (s : fs) (o : op) : fs * res := run dexec (disk_prog o) s.

  Fixpoint disk_run (s : fs) (ops : list op) : fs * list res :=
    match ops with
    | [] => (s, [])
    | o :: ops' => let (s1, x) := disk_step s o in
                   let (s2, xs) := disk_run s1 ops' in (s2, x :: xs)
    end.

  (* What a fresh DiskStorage finds (C04 `recover`): get(id) and load() run on
     the surviving file system; and the same as a direct definition. *)
  Definition recover_get (s : fs) (id : N) : res := snd (run dexec (d_get id) s).
  Definition recover_load (s : fs) : res := snd (run dexec (disk_prog (OLoad 0)) s).

  Definition disk_view (s : fs) (id : N) : option entry :=
    match fget s (PMeta id), fget s (PEnv id) with
    | Some mb, Some eb =>
        match dec_meta mb, dec_env eb with
        | Some m, Some e =>
            match accum_get (deliv_list m) (e_rcpts e) with
            | Some l => Some (mkEntry (with_rcpts e l) (m_ts m) (m_att m))
            | None => None
            end
        | _, _ => None
        end
    | _, _ => None
    end.

  (* the id is announced by load() of a fresh instance *)
  Definition disk_listed (s : fs) (id : N) : bool :=
    amem path_eqb s (PEnv id) && amem path_eqb s (PMeta id).

  Definition disk_thread := thread dcmd dans.
  Definition disk_next : disk_thread -> option (dcmd * (dans -> disk_thread)) := th_next disk_prog.
End DiskOps.

(* ------------------------------------------------ the executable codec *)
(* A list of numbers is written as decimal numerals each followed by ';'. *)
Fixpoint uint_digits (u : Decimal.uint) : bytes :=
  match u with
  | Decimal.Nil => []
  | Decimal.D0 u => 48 :: uint_digits u | Decimal.D1 u => 49 :: uint_digits u
  | Decimal.D2 u => 50 :: uint_digits u | Decimal.D3 u => 51 :: uint_digits u
  | Decimal.D4 u => 52 :: uint_digits u | Decimal.D5 u => 53 :: uint_digits u
  | Decimal.D6 u => 54 :: uint_digits u | Decimal.D7 u => 55 :: uint_digits u
  | Decimal.D8 u => 56 :: uint_digits u | Decimal.D9 u => 57 :: uint_digits u
  end.

Fixpoint digits_uint (b : bytes) : option Decimal.uint :=
  match b with
  | [] => Some Decimal.Nil
  | x :: b' =>
      match digits_uint b' with
      | None => None
      | Some u =>
          match x with
          | 48 => Some (Decimal.D0 u) | 49 => Some (Decimal.D1 u) | 50 => Some (Decimal.D2 u)
          | 51 => Some (Decimal.D3 u) | 52 => Some (Decimal.D4 u) | 53 => Some (Decimal.D5 u)
          | 54 => Some (Decimal.D6 u) | 55 => Some (Decimal.D7 u) | 56 => Some (Decimal.D8 u)
          | 57 => Some (Decimal.D9 u) | _ => None
          end
      end
  end.

Definition SEMI : N := 59.

Fixpoint enc_nums (l : list N) : bytes :=
  match l with
  | [] => []
  | n :: l' => uint_digits (N.to_uint n) ++ SEMI :: enc_nums l'
  end.

(* cur = digits of the numeral being read, most recent first *)
Fixpoint dec_nums_aux (b : bytes) (cur : bytes) : option (list N) :=
  match b with
  | [] => match cur with [] => Some [] | _ :: _ => None end
  | x :: b' =>
      if x =? SEMI then
        match cur, digits_uint (rev cur), dec_nums_aux b' [] with
        | _ :: _, Some u, Some l => Some (N.of_uint u :: l)
        | _, _, _ => None
        end
      else dec_nums_aux b' (x :: cur)
  end.
Definition dec_nums (b : bytes) : option (list N) := dec_nums_aux b [].

(* meta  -> [1; ts; att; 0]  or  [1; ts; att; 1; i1; ...; ik] *)
Definition nums_of_meta (m : meta) : list N :=
  1 :: m_ts m :: m_att m :: match m_deliv m with None => [0] | Some l => 1 :: l end.
Definition meta_of_nums (l : list N) : option meta :=
  match l with
  | [1; ts; att; 0] => Some (mkMeta ts att None)
  | 1 :: ts :: att :: 1 :: idxs => Some (mkMeta ts att (Some idxs))
  | _ => None
  end.

(* envelope -> [2; |sender|] ++ sender ++ [#rcpts] ++ (|r| :: r for each) ++ content *)
Fixpoint nums_of_rcpts (rs : list bytes) : list N :=
  match rs with
  | [] => []
  | r :: rs' => N.of_nat (length r) :: r ++ nums_of_rcpts rs'
  end.
Definition nums_of_env (e : envelope) : list N :=
  2 :: N.of_nat (length (e_sender e)) :: e_sender e ++
  N.of_nat (length (e_rcpts e)) :: nums_of_rcpts (e_rcpts e) ++ e_content e.

Fixpoint rcpts_of_nums (k : nat) (l : list N) : option (list bytes * list N) :=
  match k with
  | O => Some ([], l)
  | S k' =>
      match l with
      | [] => None
      | n :: l' =>
          let n' := N.to_nat n in
          if Nat.ltb (length l') n' then None else
          match rcpts_of_nums k' (skipn n' l') with
          | Some (rs, rest) => Some (firstn n' l' :: rs, rest)
          | None => None
          end
      end
  end.

Definition env_of_nums (l : list N) : option envelope :=
  match l with
  | 2 :: n :: l1 =>
      let n' := N.to_nat n in
      if Nat.ltb (length l1) n' then None else
      match skipn n' l1 with
      | [] => None
      | k :: l2 =>
          match rcpts_of_nums (N.to_nat k) l2 with
          | Some (rs, content) => Some (mkEnv (firstn n' l1) rs content)
          | None => None
          end
      end
  | _ => None
  end.

Definition nc_enc_meta (m : meta) : bytes := enc_nums (nums_of_meta m).
Definition nc_dec_meta (b : bytes) : option meta :=
  match dec_nums b with Some l => meta_of_nums l | None => None end.
Definition nc_enc_env (e : envelope) : bytes := enc_nums (nums_of_env e).
Definition nc_dec_env (b : bytes) : option envelope :=
  match dec_nums b with Some l => env_of_nums l | None => None end.
