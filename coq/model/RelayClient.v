(* Model of the relay clients of slimta.relay (property C11).  Definitions only.

   Part 1: SMTP / LMTP relay client (slimta/relay/smtp/client.py, lmtpclient.py)
           on top of the pipelining client (slimta/smtp/client.py), as a stage
           machine driven by a downstream script  stage -> outcome.
   Part 2: pipe relays (slimta/relay/pipe.py).
   Part 3: HTTP relay (slimta/relay/http.py).
   Part 4: MX relay (slimta/relay/smtp/mx.py).

   The code modelled is the code AFTER the fixes d7, d14, d15, d18, d20, d28
   (see /verif/fixes), d29 and the reply-line fix e7bdfcb.  Exceptions are explicit constructors (type abort). *)
From Coq Require Import List NArith Bool.
From SV Require Import lib.Bytes gen.UnicodeTables.
Import ListNotations.
Open Scope N_scope.

(* ------------------------------------------------------------------ *)
(** * Part 1: SMTP / LMTP                                              *)

(* What the downstream does when the client waits for the reply of a stage. *)
Inductive outcome :=
| R2 | R3 | R4 | R5      (* a well-formed reply of that class (R2 at EHLO is 250, at STARTTLS 220) *)
| R500                   (* the reply "500 ..." (a 5xx; EHLO treats it specially) *)
| Malformed              (* a line that is not a reply: BadReply *)
| BadCode                (* three digits outside [1-5]dd, e.g. "600 x": not a reply line, BadReply *)
| Disconnect             (* EOF: ConnectionLost *)
| Stall.                 (* nothing arrives: the enclosing Timeout fires *)

Inductive stage :=
| Banner | Ehlo | Helo | StartTls | Ehlo2 | Helo2 | Auth | Quit
| Idle (m : N)           (* unsolicited data waiting before message m (_check_server_timeout) *)
| Mail (m : N) | Rcpt (m i : N) | Data (m : N)
| Eod (m i : N)          (* reply to end-of-data; SMTP: i = 0, LMTP: one per accepted recipient i *)
| Rset (m : N).

Definition stage_eqb (a b : stage) : bool :=
  match a, b with
  | Banner, Banner | Ehlo, Ehlo | Helo, Helo | StartTls, StartTls
  | Ehlo2, Ehlo2 | Helo2, Helo2 | Auth, Auth | Quit, Quit => true
  | Idle m, Idle m' | Mail m, Mail m' | Data m, Data m' | Rset m, Rset m' => m =? m'
  | Rcpt m i, Rcpt m' i' | Eod m i, Eod m' i' => (m =? m') && (i =? i')
  | _, _ => false
  end.

Record exts := mkExts { x_pipelining : bool; x_starttls : bool; x_auth : bool; x_8bitmime : bool }.
Definition no_exts : exts := mkExts false false false false.

(* the class digit of an enhanced status code at the start of the reply TEXT ("550 4.2.1 ..."),
   if there is one; it may contradict the reply code *)
Inductive esc := ENone | E2 | E4 | E5.

Record script := mkScript {
  reply : stage -> outcome;
  rtext : stage -> esc;    (* what the text of the reply to that stage starts with *)
  exts1 : exts;            (* extensions advertised by a 250 reply to the first EHLO/LHLO *)
  exts2 : exts }.          (* ... to the EHLO after STARTTLS *)

Inductive conn_outcome := ConnOk | ConnRefused | ConnTimeout.

Record config := mkConfig {
  c_lmtp : bool; c_tls_immediately : bool; c_tls_required : bool;
  c_creds : bool;          (* credentials configured *)
  c_reuse : bool;          (* idle_timeout is not None: poll for another request *)
  c_conn : conn_outcome }.

Record message := mkMsg {
  m_sender_ok : bool;      (* sender address can be encoded for the wire *)
  m_rcpt_list : list (N * bool);  (* envelope.recipients in order: (address, can be encoded);
                                     the same address may occur more than once *)
  m_eightbit : bool }.     (* body is not 7-bit (and no binary_encoder is configured) *)
Definition m_rcpts (msg : message) : list bool := map snd (m_rcpt_list msg).
Definition m_addrs (msg : message) : list N := map fst (m_rcpt_list msg).

(* the outcome a well-formed reply with three-digit code n is: only its class counts
   (reply.code[0]), except for the one code the client compares literally (500 after EHLO);
   "250" after EHLO and "220" after STARTTLS are the R2 of those stages *)
Definition outcome_of_code (n : N) : outcome :=
  if n <? 100 then BadCode
  else if n <? 300 then R2
  else if n <? 400 then R3
  else if n <? 500 then R4
  else if n =? 500 then R500
  else if n <? 600 then R5
  else BadCode.

Inductive rclass := C2 | C3 | C4 | C5 | C500.
Definition is_error (c : rclass) : bool :=      (* Reply.is_error *)
  match c with C4 | C5 | C500 => true | _ => false end.

Inductive cls := Perm | Trans.
Definition cls_eqb (a b : cls) : bool :=
  match a, b with Perm, Perm | Trans, Trans => true | _, _ => false end.
Definition factory (c : rclass) : cls :=         (* reply.code[0] == '5' *)
  match c with C5 | C500 => Perm | _ => Trans end.
(* SmtpRelayError.factory(reply): it is handed the whole reply - code and text (whose enhanced
   status code is kept in reply._esc) - and decides by the code *)
Definition factory_reply (c : rclass) (e : esc) : cls := factory c.

Inductive abort :=
| ARelay (c : cls)                 (* SmtpRelayError *)
| ARelayRcpts (c : cls) (l : list cls)  (* SmtpRelayError of the first recipient carrying .rcpt_errors (d20) *)
| ASmtp                            (* SmtpError: BadReply, ConnectionLost *)
| ATimeout                         (* gevent.Timeout *)
| ASock                            (* socket.error *)
| AForeign.                        (* any other Exception *)

(* IO.recv_reply + Reply.recv for one slot *)
Definition read_reply (o : outcome) : rclass + abort :=
  match o with
  | R2 => inl C2 | R3 => inl C3 | R4 => inl C4 | R5 => inl C5 | R500 => inl C500
  | Malformed => inr ASmtp
  | BadCode => inr ASmtp
  | Disconnect => inr ASmtp
  | Stall => inr ATimeout          (* every read_reply is inside a `with Timeout` scope (after d18) *)
  end.

(* what ends up in the AsyncResult of one request *)
Inductive rres := Delivered | Failed (c : cls).   (* None / Reply  |  RelayError object *)
(* the value the mapping holds for the address of one position of envelope.recipients *)
Inductive tres :=
| TDelivered                       (* None / Reply *)
| TFailed (c : cls)                (* RelayError object *)
| TMissing.                        (* the mapping has no such key *)
Inductive mres :=
| MMap (l : list tres)             (* result.set({rcpt: ...}), read at every position of envelope.recipients *)
| MExc (c : cls)                   (* result.set_exception(relay error) *)
| MOther.                          (* result.set_exception(foreign exception) *)

Record st := mkSt {
  sent : list stage;               (* commands the server has seen, newest first *)
  pend : list stage;               (* Client.reply_queue *)
  filled : list (stage * rclass);  (* the Reply objects that have been populated *)
  xt : exts;                       (* Client.extensions *)
  lr : list stage;                 (* LmtpClient.rcpttos *)
  cur : N;                         (* which request `result` of _run refers to *)
  results : list (N * mres) }.

Definition st0 : st := mkSt [] [] [] no_exts [] 0 [].

Definition M (A : Type) : Type := st -> (A + abort) * st.
Definition mret {A} (a : A) : M A := fun s => (inl a, s).
Definition mraise {A} (e : abort) : M A := fun s => (inr e, s).
Definition mbind {A B} (m : M A) (f : A -> M B) : M B :=
  fun s => match m s with
           | (inl a, s') => f a s'
           | (inr e, s') => (inr e, s')
           end.
Notation "x <- m ;; f" := (mbind m (fun x => f)) (at level 61, m at next level, right associativity).
Notation "m ;;; f" := (mbind m (fun _ => f)) (at level 61, right associativity).

(* try: m  except <handled e>: h e *)
Definition mcatch {A} (m : M A) (handles : abort -> bool) (h : abort -> M A) : M A :=
  fun s => match m s with
           | (inr e, s') => if handles e then h e s' else (inr e, s')
           | r => r
           end.
Definition is_relay (e : abort) : bool :=
  match e with ARelay _ | ARelayRcpts _ _ => true | _ => false end.
Definition is_smtp (e : abort) : bool :=          (* SmtpError but not the relay errors *)
  match e with ASmtp => true | _ => false end.
Definition is_foreign (e : abort) : bool :=
  match e with AForeign => true | _ => false end.

Definition upd_sent (f : list stage -> list stage) : M unit :=
  fun s => (inl tt, mkSt (f (sent s)) (pend s) (filled s) (xt s) (lr s) (cur s) (results s)).
Definition upd_pend (f : list stage -> list stage) : M unit :=
  fun s => (inl tt, mkSt (sent s) (f (pend s)) (filled s) (xt s) (lr s) (cur s) (results s)).
Definition set_xt (x : exts) : M unit :=
  fun s => (inl tt, mkSt (sent s) (pend s) (filled s) x (lr s) (cur s) (results s)).
Definition set_lr (l : list stage) : M unit :=
  fun s => (inl tt, mkSt (sent s) (pend s) (filled s) (xt s) l (cur s) (results s)).
Definition set_cur (m : N) : M unit :=
  fun s => (inl tt, mkSt (sent s) (pend s) (filled s) (xt s) (lr s) m (results s)).
Definition mget {A} (f : st -> A) : M A := fun s => (inl (f s), s).

Fixpoint lookup_res (l : list (N * mres)) (m : N) : option mres :=
  match l with
  | [] => None
  | (k, r) :: l' => if k =? m then Some r else lookup_res l' m
  end.
(* AsyncResult.set / set_exception (a later set overrides) *)
Definition set_result (m : N) (r : mres) : M unit :=
  fun s => (inl tt, mkSt (sent s) (pend s) (filled s) (xt s) (lr s) (cur s) ((m, r) :: results s)).
Definition ready (m : N) : M bool :=
  mget (fun s => match lookup_res (results s) m with Some _ => true | None => false end).

Fixpoint lookup_code (l : list (stage * rclass)) (s : stage) : option rclass :=
  match l with
  | [] => None
  | (k, c) :: l' => if stage_eqb k s then Some c else lookup_code l' s
  end.

(* ---- a Python dict keyed by address (insertion ordered, one entry per key) ---- *)
Section Dict.
  Context {V : Type}.
  Fixpoint dget (d : list (N * V)) (k : N) : option V :=
    match d with
    | [] => None
    | (k0, v) :: d' => if k0 =? k then Some v else dget d' k
    end.
  (* d[k] = v : in place when the key exists, appended otherwise *)
  Fixpoint dset (d : list (N * V)) (k : N) (v : V) : list (N * V) :=
    match d with
    | [] => [(k, v)]
    | (k0, v0) :: d' => if k0 =? k then (k0, v) :: d' else (k0, v0) :: dset d' k v
    end.
  Definition apply_updates (d : list (N * V)) (ups : list (N * V)) : list (N * V) :=
    fold_left (fun d p => dset d (fst p) (snd p)) ups d.
End Dict.
(* dict.fromkeys(recipients): first-occurrence order, de-duplicated, every value None *)
Definition fromkeys (addrs : list N) : list (N * option tres) :=
  fold_left (fun d a => match dget d a with Some _ => d | None => dset d a None end) addrs [].
(* rcpt_results[addr] as the queue reads it: None and Reply both mean delivered *)
Definition tget (d : list (N * option tres)) (a : N) : tres :=
  match dget d a with
  | Some (Some r) => r
  | Some None => TDelivered
  | None => TMissing
  end.
(* _send_envelope: `if rcpt_reply.is_error(): rcpt_results[rcpt] = factory(rcpt_reply)` per position *)
Definition rcpt_updates (addrs : list N) (errs : list (option cls)) : list (N * option tres) :=
  flat_map (fun p => match snd p with Some c => [(fst p, Some (TFailed c))] | None => [] end)
           (combine addrs errs).
Definition read_table (d : list (N * option tres)) (addrs : list N) : list tres := map (tget d) addrs.

Section Client.
  Variable sc : script.
  Variable cfg : config.

  Definition log_cmd (s : stage) : M unit := upd_sent (fun l => s :: l).
  Definition slot (s : stage) : M unit := upd_pend (fun l => l ++ [s]).   (* reply_queue.append *)
  Definition cmd (s : stage) : M unit := slot s ;;; log_cmd s.

  (* Client._flush_pipeline: pop slots in order, fill each from the wire *)
  Fixpoint flush_go (p : list stage) (f : list (stage * rclass))
    : option abort * list stage * list (stage * rclass) :=
    match p with
    | [] => (None, [], f)
    | s :: p' =>
        match read_reply (reply sc s) with
        | inl c => flush_go p' ((s, c) :: f)
        | inr a => (Some a, p', f)
        end
    end.
  Definition flush_pipeline : M unit :=
    fun s => match flush_go (pend s) (filled s) with
             | (r, p, f) =>
                 (match r with None => inl tt | Some a => inr a end,
                  mkSt (sent s) p f (xt s) (lr s) (cur s) (results s))
             end.

  (* reply.code: None while the slot has not been filled *)
  Definition code_of (s : stage) : M (option rclass) := mget (fun t => lookup_code (filled t) s).
  (* reply.is_error(): `self.code[0]` raises TypeError on an unfilled reply *)
  Definition is_error_of (s : stage) : M bool :=
    c <- code_of s ;;
    match c with Some c => mret (is_error c) | None => mraise AForeign end.
  (* mraise SmtpRelayError.factory(reply) *)
  Definition raise_factory {A} (s : stage) : M A :=
    c <- code_of s ;;
    match c with Some c => mraise (ARelay (factory_reply c (rtext sc s))) | None => mraise AForeign end.
  Definition pipelining : M bool := mget (fun t => x_pipelining (xt t)).

  (* ---- slimta.smtp.client.Client / LmtpClient ---- *)
  Definition c_get_banner : M unit := cmd Banner ;;; flush_pipeline.   (* the server greets: no command, one slot *)
  (* ehlo / lhlo: extensions are (re)parsed only from a 250 *)
  Definition c_ehlo (second : bool) : M unit :=
    let s := if second then Ehlo2 else Ehlo in
    cmd s ;;; flush_pipeline ;;;
    c <- code_of s ;;
    match c with
    | Some C2 => (if c_lmtp cfg then set_lr [] else mret tt) ;;;
                 set_xt (if second then exts2 sc else exts1 sc)
    | _ => mret tt
    end.
  Definition c_helo (second : bool) : M unit :=
    cmd (if second then Helo2 else Helo) ;;; flush_pipeline.
  Definition c_starttls : M unit := cmd StartTls ;;; flush_pipeline.   (* code 220: encrypt (succeeds) *)
  (* auth(): flush_pipeline; 'AUTH' not in extensions -> the constant reply unknown_command (500);
     otherwise AuthSession._client_respond sends AUTH PLAIN and reads the reply directly *)
  Definition c_auth : M rclass :=
    flush_pipeline ;;;
    a <- mget (fun t => x_auth (xt t)) ;;
    if a then
      log_cmd Auth ;;;
      match read_reply (reply sc Auth) with inl c => mret c | inr e => mraise e end
    else mret C500.
  (* mailfrom / rcptto: _encode raises UnicodeEncodeError for an address that cannot be
     encoded, before the slot is queued; it is the only foreign exception these two can raise *)
  Definition c_mailfrom (m : N) (ok : bool) : M unit :=
    if ok then
      cmd (Mail m) ;;; p <- pipelining ;; if p then mret tt else flush_pipeline
    else mraise AForeign.
  Definition c_rcptto (m i : N) (ok : bool) : M unit :=
    if ok then
      cmd (Rcpt m i) ;;; p <- pipelining ;; (if p then mret tt else flush_pipeline) ;;;
      (if c_lmtp cfg then l <- mget lr ;; set_lr (l ++ [Rcpt m i]) else mret tt)
    else mraise AForeign.
  Definition c_data (m : N) : M unit := cmd (Data m) ;;; flush_pipeline.

  (* LmtpClient.send_data/send_empty_data: one reply slot per recipient whose RCPT got 2xx *)
  Definition rcpt_index (s : stage) : N := match s with Rcpt _ i => i | _ => 0 end.
  Fixpoint lmtp_slots (m : N) (l : list stage) : M (list N) :=
    match l with
    | [] => mret []
    | s :: l' =>
        c <- code_of s ;;
        match c with
        | None => mraise AForeign                  (* None.startswith: AttributeError (D22) *)
        | Some C2 => cmd (Eod m (rcpt_index s)) ;;; r <- lmtp_slots m l' ;; mret (rcpt_index s :: r)
        | Some _ => lmtp_slots m l'
        end
    end.
  (* returns the recipients that own a data reply (LMTP); [] for SMTP *)
  Definition c_send_data (m : N) : M (list N) :=
    r <- (if c_lmtp cfg then l <- mget lr ;; r <- lmtp_slots m l ;; set_lr [] ;;; mret r
          else cmd (Eod m 0) ;;; mret []) ;;
    p <- pipelining ;; (if p then mret tt else flush_pipeline) ;;; mret r.
  Definition c_rset (m : N) : M unit :=
    cmd (Rset m) ;;; flush_pipeline ;;; (if c_lmtp cfg then set_lr [] else mret tt).
  Definition c_quit : M unit := cmd Quit ;;; flush_pipeline.

  (* ---- SmtpRelayClient / LmtpRelayClient ---- *)
  Definition r_connect : M unit :=
    match c_conn cfg with
    | ConnOk => mret tt
    | ConnRefused => mraise ASock
    | ConnTimeout => mraise ATimeout
    end.
  Definition r_banner : M unit :=
    c_get_banner ;;; e <- is_error_of Banner ;; if e then raise_factory Banner else mret tt.
  Definition r_helo (second : bool) : M unit :=
    c_helo second ;;;
    let s := if second then Helo2 else Helo in
    e <- is_error_of s ;; if e then raise_factory s else mret tt.
  Definition r_ehlo (second : bool) : M unit :=
    c_ehlo second ;;;
    let s := if second then Ehlo2 else Ehlo in
    e <- is_error_of s ;;
    if e then
      if c_lmtp cfg then raise_factory s
      else c <- code_of s ;;
           match c with Some C500 => r_helo second | _ => raise_factory s end
    else mret tt.
  Definition r_starttls : M unit :=
    c_starttls ;;; e <- is_error_of StartTls ;;
    if e && c_tls_required cfg then raise_factory StartTls else mret tt.
  Definition r_authenticate : M unit :=
    c <- c_auth ;; if is_error c then mraise (ARelay (factory_reply c (rtext sc Auth))) else mret tt.
  Definition r_handshake : M unit :=
    (if c_tls_immediately cfg then r_banner ;;; r_ehlo false
     else r_banner ;;; r_ehlo false ;;;
          st <- mget (fun t => x_starttls (xt t)) ;;
          if c_tls_required cfg || st then r_starttls ;;; r_ehlo true else mret tt) ;;;
    if c_creds cfg then r_authenticate else mret tt.
  Definition r_rset (m : N) : M unit := c_rset m.
  (* `if mailfrom and mailfrom.is_error()`: an unfilled (pipelined) reply is falsy *)
  (* d29: `except UnicodeError: raise factory(Reply('553', '5.6.7 Address requires SMTPUTF8'))` *)
  Definition address_error {A} : abort -> M A := fun _ => mraise (ARelay Perm).
  Definition r_mailfrom (m : N) (ok : bool) : M unit :=
    mcatch (c_mailfrom m ok) is_foreign address_error ;;; c <- code_of (Mail m) ;;
    match c with
    | Some c => if is_error c then mraise (ARelay (factory_reply c (rtext sc (Mail m)))) else mret tt
    | None => mret tt
    end.
  Fixpoint r_rcpttos (m i : N) (rs : list bool) : M unit :=
    match rs with
    | [] => mret tt
    | ok :: rs' => mcatch (c_rcptto m i ok) is_foreign address_error ;;; r_rcpttos m (i + 1) rs'
    end.
  (* the RCPT replies as error classes: None = not an error *)
  Fixpoint rcpt_errors (m i : N) (rs : list bool) : M (list (option cls)) :=
    match rs with
    | [] => mret []
    | _ :: rs' =>
        c <- code_of (Rcpt m i) ;;
        match c with
        | None => mraise AForeign
        | Some c => r <- rcpt_errors m (i + 1) rs' ;;
                    mret ((if is_error c then Some (factory_reply c (rtext sc (Rcpt m i))) else None) :: r)
        end
    end.
  Fixpoint all_some (l : list (option cls)) : option (list cls) :=
    match l with
    | [] => Some []
    | Some c :: l' => match all_some l' with Some r => Some (c :: r) | None => None end
    | None :: _ => None
    end.
  Definition mixed (c : cls) (l : list cls) : bool := existsb (fun d => negb (cls_eqb c d)) l.
  (* _check_replies (d20: every recipient rejected, with different classes -> .rcpt_errors) *)
  Definition check_replies (m : N) (rs : list bool) : M unit :=
    e <- is_error_of (Mail m) ;;
    if e then raise_factory (Mail m) else
    errs <- rcpt_errors m 0 rs ;;
    match all_some errs with
    | Some (c :: l) => if mixed c l then mraise (ARelayRcpts c (c :: l)) else mraise (ARelay c)
    | Some [] => mraise AForeign                  (* rcpttos[0] on an empty list: IndexError *)
    | None =>
        e <- is_error_of (Data m) ;; if e then raise_factory (Data m) else mret tt
    end.
  Definition send_envelope (m : N) (msg : message) : M (list (option cls)) :=
    r_mailfrom m (m_sender_ok msg) ;;;
    r_rcpttos m 0 (m_rcpts msg) ;;;
    mcatch (c_data m ;;; check_replies m (m_rcpts msg)) is_relay
          (fun e => d <- is_error_of (Data m) ;;
                    (if d then mret tt else r <- c_send_data m ;; mret tt) ;;; mraise e) ;;;
    rcpt_errors m 0 (m_rcpts msg).
  Definition handle_encoding (msg : message) : M unit :=
    e <- mget (fun t => x_8bitmime (xt t)) ;;
    if negb e && m_eightbit msg then mraise (ARelay Perm) else mret tt.
  (* _send_message_data (d18: the flush_pipeline is inside the data timeout) *)
  Definition send_message_data (m : N) : M (list N) :=
    r <- c_send_data m ;; flush_pipeline ;;;
    if c_lmtp cfg then mret r
    else e <- is_error_of (Eod m 0) ;; if e then raise_factory (Eod m 0) else mret r.
  (* result.set_exception(e) / result.set(per recipient errors) of _deliver's except arm *)
  Definition set_failure (m : N) (msg : message) (e : abort) : M unit :=
    match e with
    | ARelayRcpts _ l =>     (* dict(zip(envelope.recipients, rcpt_errors)): the last occurrence wins *)
        set_result m (MMap (read_table (apply_updates [] (combine (m_addrs msg) (map (fun c => Some (TFailed c)) l)))
                                       (m_addrs msg)))
    | ARelay c => set_result m (MExc c)
    | _ => mret tt
    end.
  (* LMTP: `for rcpt, reply in data_results: rcpt_results[rcpt] = factory(reply) | reply`, one data
     reply per accepted RCPT occurrence, in order; owners are the positions that own a data reply *)
  Fixpoint lmtp_data (m : N) (addrs : list N) (owners : list N) : M (list (N * option tres) * bool) :=
    match owners with
    | [] => mret ([], false)
    | j :: ow =>
        c <- code_of (Eod m j) ;;
        match c, nth_error addrs (N.to_nat j) with
        | Some c, Some a =>
            r <- lmtp_data m addrs ow ;;
            if is_error c then mret ((a, Some (TFailed (factory_reply c (rtext sc (Eod m j))))) :: fst r, true)
            else mret ((a, Some TDelivered) :: fst r, snd r)
        | _, _ => mraise AForeign
        end
    end.
  Definition deliver (m : N) (msg : message) : M unit :=
    r <- mcatch (handle_encoding msg ;;;
                errs <- send_envelope m msg ;;
                owners <- send_message_data m ;;
                mret (Some (errs, owners)))
               is_relay
               (fun e => set_failure m msg e ;;; r_rset m ;;; mret None) ;;
    match r with
    | None => mret tt
    | Some (errs, owners) =>
        let addrs := m_addrs msg in
        (* rcpt_results = dict.fromkeys(recipients), then the RCPT errors by position *)
        let ups := rcpt_updates addrs errs in
        if c_lmtp cfg then
          dr <- lmtp_data m addrs owners ;;
          set_result m (MMap (read_table (apply_updates (fromkeys addrs) (ups ++ fst dr)) addrs)) ;;;
          if snd dr then r_rset m else mret tt
        else (* `if value is None: rcpt_results[key] = msg_result` is part of tget *)
          set_result m (MMap (read_table (apply_updates (fromkeys addrs) ups) addrs))
    end.
  (* _check_server_timeout *)
  Definition check_server_timeout (m : N) : M bool :=
    match reply sc (Idle m) with
    | Stall => mret false                       (* has_reply_waiting: nothing to read_reply *)
    | _ => mcatch (cmd (Idle m) ;;; flush_pipeline ;;; mret true) is_smtp (fun _ => mret true)
    end.
  Fixpoint run_loop (msgs : list message) (m : N) : M unit :=
    match msgs with
    | [] => mret tt                             (* poll() timed out: (None, None) *)
    | msg :: rest =>
        set_cur m ;;;
        t <- check_server_timeout m ;;
        if t then mret tt                       (* queue.appendleft((result, envelope)); break *)
        else deliver m msg ;;;
             if c_reuse cfg then run_loop rest (m + 1) else mret tt
    end.

  Definition set_if_unset (r : mres) : M unit :=
    m <- mget cur ;; b <- ready m ;; if b then mret tt else set_result m r.
  (* the except arms of _run *)
  Definition run_arms (e : abort) : M unit :=
    match e with
    | ARelay c => m <- mget cur ;; set_result m (MExc c)
    | ARelayRcpts c _ => m <- mget cur ;; set_result m (MExc c)
    | ASmtp => set_if_unset (MExc (factory C4))       (* _get_error_reply: a 421 *)
    | ATimeout => set_if_unset (MExc (factory C4))    (* timed_out: 421 *)
    | ASock => set_if_unset (MExc (factory C4))       (* connection_failed: 451 *)
    | AForeign => set_if_unset MOther
    end.
  (* _disconnect: QUIT, every exception swallowed *)
  Definition r_disconnect : M unit := mcatch c_quit (fun _ => true) (fun _ => mret tt).

  Definition run_client (msgs : list message) : st :=
    match msgs with
    | [] => st0
    | _ =>
        let '(r, s) := (r_connect ;;; r_handshake ;;; run_loop msgs 0) st0 in
        let s := match r with inl _ => s | inr e => snd (run_arms e s) end in
        match c_conn cfg with
        | ConnOk => snd (r_disconnect s)
        | _ => s                                 (* self.client is None *)
        end
    end.
End Client.

(* what the caller of attempt() sees for recipient i of request m *)
Inductive final := FDelivered | FPermanent | FTransient | FOther | FQueued | FNoResult.
Definition of_cls (c : cls) : final := match c with Perm => FPermanent | Trans => FTransient end.
Definition of_rres (r : rres) : final := match r with Delivered => FDelivered | Failed c => of_cls c end.
Definition of_tres (r : tres) : final :=
  match r with TDelivered => FDelivered | TFailed c => of_cls c | TMissing => FNoResult end.
Definition final_of (r : option mres) (i : nat) : final :=
  match r with
  | None => FQueued                (* the request is (still / again) on the pool queue *)
  | Some (MExc c) => of_cls c
  | Some MOther => FOther
  | Some (MMap l) => match nth_error l i with Some r => of_tres r | None => FNoResult end
  end.
Definition smtp_final (sc : script) (cfg : config) (msgs : list message) (m : N) (i : nat) : final :=
  final_of (lookup_res (results (run_client sc cfg msgs)) m) i.

(* RelayPool.attempt over successive connections: a request put back on the queue is
   served by the next client (one request, one script per connection) *)
Fixpoint attempt_conns (cfg : config) (scs : list script) (msg : message) : option mres :=
  match scs with
  | [] => None
  | sc :: scs' =>
      match lookup_res (results (run_client sc cfg [msg])) 0 with
      | Some r => Some r
      | None => attempt_conns cfg scs' msg
      end
  end.

(* ------------------------------------------------------------------ *)
(** * Part 2: pipe relays                                              *)

Inductive pipe_kind := KPipe | KMaildrop | KDovecot.
Inductive proc :=
| Exited (status : N) (stdout stderr : bytes)   (* status: 0 = success; negative codes are mapped to >= 256 *)
| TimedOut.                                     (* the relay's Timeout fired while the program ran *)

(* bytes.decode('utf-8', 'replace') *)
Definition is_cont (b : N) : bool := (128 <=? b) && (b <? 192).
Definition second3_ok (b0 b1 : N) : bool :=
  if b0 =? 224 then (160 <=? b1) && (b1 <? 192)
  else if b0 =? 237 then (128 <=? b1) && (b1 <? 160)
  else is_cont b1.
Definition second4_ok (b0 b1 : N) : bool :=
  if b0 =? 240 then (144 <=? b1) && (b1 <? 192)
  else if b0 =? 244 then (128 <=? b1) && (b1 <? 144)
  else is_cont b1.
Definition RC : N := 65533.
Fixpoint u8r (s : bytes) : list N :=
  match s with
  | [] => []
  | b0 :: s1 =>
      if b0 <? 128 then b0 :: u8r s1
      else if (b0 <? 194) || (244 <? b0) then RC :: u8r s1
      else if b0 <? 224 then
        match s1 with
        | [] => [RC]
        | b1 :: s2 => if is_cont b1 then ((b0 - 192) * 64 + (b1 - 128)) :: u8r s2 else RC :: u8r s1
        end
      else if b0 <? 240 then
        match s1 with
        | [] => [RC]
        | b1 :: s2 =>
            if negb (second3_ok b0 b1) then RC :: u8r s1 else
            match s2 with
            | [] => [RC]
            | b2 :: s3 =>
                if is_cont b2 then ((b0 - 224) * 4096 + (b1 - 128) * 64 + (b2 - 128)) :: u8r s3
                else RC :: u8r s2
            end
        end
      else
        match s1 with
        | [] => [RC]
        | b1 :: s2 =>
            if negb (second4_ok b0 b1) then RC :: u8r s1 else
            match s2 with
            | [] => [RC]
            | b2 :: s3 =>
                if negb (is_cont b2) then RC :: u8r s2 else
                match s3 with
                | [] => [RC]
                | b3 :: s4 =>
                    if is_cont b3 then
                      ((b0 - 240) * 262144 + (b1 - 128) * 4096 + (b2 - 128) * 64 + (b3 - 128)) :: u8r s4
                    else RC :: u8r s3
                end
            end
        end
  end.

(* bytes.rstrip() *)
Fixpoint rstrip_b (s : bytes) : bytes :=
  match s with
  | [] => []
  | b :: s' => match rstrip_b s' with
               | [] => if is_ws b then [] else [b]
               | r => b :: r
               end
  end.
(* re.compile(r'^5\.\d+\.\d+\s').match on a str *)
Fixpoint skip_digits (t : list N) : list N :=
  match t with c :: t' => if udigit c then skip_digits t' else t | [] => [] end.
Definition digits1 (t : list N) : option (list N) :=   (* \d+ , greedy; what follows cannot be a digit *)
  match t with c :: t' => if udigit c then Some (skip_digits t') else None | [] => None end.
Definition perm_pattern (t : list N) : bool :=
  match t with
  | 53 :: 46 :: t1 =>
      match digits1 t1 with
      | Some (46 :: t2) =>
          match digits1 t2 with
          | Some (c :: _) => uspace c
          | _ => false
          end
      | _ => false
      end
  | _ => false
  end.
Definition default_msg : bytes := [68;101;108;105;118;101;114;121;32;102;97;105;108;101;100]. (* Delivery failed *)
(* raise_error of the three classes *)
Definition raise_error (k : pipe_kind) (status : N) (stdout stderr : bytes) : cls :=
  match k with
  | KPipe =>
      let so := rstrip_b stdout in
      let se := rstrip_b stderr in
      let msg := match so with [] => (match se with [] => default_msg | _ => se end) | _ => so end in
      if perm_pattern (u8r msg) then Perm else Trans
  | _ => if status =? 75 then Trans else Perm     (* EX_TEMPFAIL *)
  end.
(* _exec_process: None or the error object *)
Definition exec_process (k : pipe_kind) (status : N) (stdout stderr : bytes) : rres :=
  if status =? 0 then Delivered else Failed (raise_error k status stdout stderr).

Inductive pres :=
| PMap (l : list rres)      (* dict, per recipient *)
| PNone                     (* None: the whole envelope is delivered *)
| PExc (c : cls).           (* raised *)
(* _try_pipe_all_rcpts: one Timeout around the run_loop; when it fires every recipient without a
   result yet gets the transient error *)
Fixpoint pipe_all (k : pipe_kind) (ps : list proc) : list rres :=
  match ps with
  | [] => []
  | Exited st so se :: ps' => exec_process k st so se :: pipe_all k ps'
  | TimedOut :: ps' => map (fun _ => Failed Trans) ps
  end.
(* _try_pipe_one_rcpt (d7: the error object is raised) *)
Definition pipe_one (k : pipe_kind) (p : proc) : pres :=
  match p with
  | TimedOut => PExc Trans
  | Exited st so se => match exec_process k st so se with Delivered => PNone | Failed c => PExc c end
  end.
(* attempt: ps = behaviour of the program for recipient 0, 1, ... (one-shot mode runs it for 0 only) *)
Definition pipe_attempt (k : pipe_kind) (per_recipient : bool) (ps : list proc) : pres :=
  if per_recipient then PMap (pipe_all k ps)
  else match ps with p :: _ => pipe_one k p | [] => PExc Trans end.   (* recipients[0] on []: not reachable from the queue *)
Definition pipe_final (r : pres) (i : nat) : final :=
  match r with
  | PNone => FDelivered
  | PExc c => of_cls c
  | PMap l => match nth_error l i with Some r => of_rres r | None => FNoResult end
  end.

(* ------------------------------------------------------------------ *)
(** * Part 3: HTTP relay                                               *)

Inductive hdr :=
| HNone                          (* no X-Smtp-Reply header, or it does not match ^\s*(\d\d\d)\s*; *)
| HCode (code : N) (has_command : bool) (e : esc).   (* three digits; a command="..." parameter
                                    present; enhanced status code at the start of message="..." *)
Inductive http_down :=
| HRefused                       (* connecting fails: socket.error *)
| HSilent                        (* no response: the relay timeout fires *)
| HBroken                        (* not an HTTP response / closed early: http.client exception *)
| HResp (status : N) (h : hdr).
(* _parse_smtp_reply_header: Reply(code, ...) raises ValueError unless code is [1-5]dd -> None (d15) *)
Definition header_esc (h : hdr) : esc := match h with HCode _ _ e => e | HNone => ENone end.
Definition header_class (h : hdr) : option rclass :=
  match h with
  | HNone => None
  | HCode c _ _ =>
      if (c <? 100) || (599 <? c) then None
      else if c <? 200 then Some C2      (* 1xx: not an error *)
      else if c <? 300 then Some C2
      else if c <? 400 then Some C3
      else if c <? 500 then Some C4
      else Some C5
  end.
Inductive hres := HOk | HExc (c : cls).
(* _handle_request + _process_response; any exception / timeout -> TransientRelayError (d15) *)
Definition http_attempt (d : http_down) : hres :=
  match d with
  | HRefused | HSilent | HBroken => HExc Trans
  | HResp status h =>
      if (200 <=? status) && (status <? 300) then HOk          (* status.startswith('2') *)
      else match header_class h with
           | Some c => HExc (factory_reply c (header_esc h))
           | None => if (400 <=? status) && (status <? 500) then HExc Perm else HExc Trans
           end
  end.
Definition http_final (r : hres) : final :=
  match r with HOk => FDelivered | HExc c => of_cls c end.

(* ------------------------------------------------------------------ *)
(** * Part 4: MX relay                                                 *)

Inductive dns_ans (A : Type) :=
| DnsOk (l : list A)
| DnsNotFound                    (* DNSError with ARES_ENOTFOUND / ARES_ENODATA *)
| DnsFail.                       (* any other DNSError *)
Arguments DnsOk {A}. Arguments DnsNotFound {A}. Arguments DnsFail {A}.

(* rcpt.rsplit('@', 1): the text after the last '@' *)
Fixpoint after_last_at (t : list N) : option (list N) :=
  match t with
  | [] => None
  | c :: t' =>
      match after_last_at t' with
      | Some d => Some d
      | None => if c =? 64 then Some t' else None
      end
  end.
Inductive dest := DDomain | DHost (h : N).       (* the domain itself (A record) or an MX host *)
(* _resolve_mx: insertion before the first record with a greater priority *)
Fixpoint mx_insert (p h : N) (l : list (N * N)) : list (N * N) :=
  match l with
  | [] => [(p, h)]
  | (q, g) :: l' => if p <? q then (p, h) :: l else (q, g) :: mx_insert p h l'
  end.
Definition mx_sort (ans : list (N * N)) : list (N * N) :=
  fold_left (fun acc r => mx_insert (fst r) (snd r) acc) ans [].
Inductive mx_out :=
| MxPerm                         (* NoDomainError / "No usable DNS records" 550 5.1.2 *)
| MxTrans                        (* "DNS lookup failed" 451 4.4.3 *)
| MxRelay (d : dest).            (* return relayer.attempt(envelope, attempts) for that destination *)
(* MxRecord._resolve + mget *)
Definition mx_records (mx : dns_ans (N * N)) (a : dns_ans unit) : option (list dest) + unit :=
  match mx with
  | DnsOk l => inl (Some (map (fun r => DHost (snd r)) (mx_sort l)))
  | DnsFail => inr tt
  | DnsNotFound =>
      match a with
      | DnsOk l => inl (Some (map (fun _ => DDomain) l))
      | DnsNotFound => inl None
      | DnsFail => inr tt
      end
  end.
Definition choose_mx (recs : list dest) (attempts : N) : option dest :=
  nth_error recs (N.to_nat (attempts mod N.of_nat (length recs))).
Definition mx_attempt (rcpt0 : list N) (forced : bool) (mx : dns_ans (N * N)) (a : dns_ans unit)
           (attempts : N) : mx_out :=
  match after_last_at rcpt0 with
  | None => MxPerm
  | Some _ =>
      if forced then MxRelay (DHost 0)           (* force_mx entry: host id 0 *)
      else match mx_records mx a with
           | inr _ => MxTrans
           | inl None => MxPerm
           | inl (Some []) => MxPerm
           | inl (Some recs) =>
               match choose_mx recs attempts with Some d => MxRelay d | None => MxPerm end
           end
  end.

(* ---- MxSmtpRelay as an object: the MxRecord cache across attempts ---- *)
Record mxrec := mkMxrec {
  mr_records : option (list dest);     (* MxRecord._records: None before/after "nothing found" *)
  mr_exp : N }.                        (* MxRecord._expiration: 0 = never resolved / nothing cacheable *)
Definition mxrec0 : mxrec := mkMxrec None 0.
Definition mx_expired (r : mxrec) (now : N) : bool := (mr_exp r =? 0) || (mr_exp r <=? now).
Record mx_step := mkMxStep {
  s_domain : option N;                 (* None: recipients[0] has no '@' *)
  s_now : N;                           (* time.time() *)
  s_mx : dns_ans (N * N);              (* what the resolver would answer now, if asked *)
  s_a : dns_ans unit;
  s_ttl : N;                           (* ttl of every record of the answers *)
  s_attempts : N }.
(* MxRecord._resolve: the new (records, expiration), or the DNSError *)
Definition mx_resolve (st : mx_step) : (option (list dest) * N) + unit :=
  let exp (n : nat) := match n with O => 0 | _ => s_now st + s_ttl st end in
  match s_mx st with
  | DnsOk l => inl (Some (map (fun r => DHost (snd r)) (mx_sort l)), exp (length l))
  | DnsFail => inr tt
  | DnsNotFound =>
      match s_a st with
      | DnsOk l => inl (Some (map (fun _ => DDomain) l), exp (length l))
      | DnsNotFound => inl (None, 0)
      | DnsFail => inr tt
      end
  end.
Definition mx_finish (r : mxrec) (attempts : N) : mx_out :=
  match mr_records r with
  | None | Some [] => MxPerm           (* `if not self._records: raise ValueError` *)
  | Some recs => match choose_mx recs attempts with Some d => MxRelay d | None => MxPerm end
  end.
(* one MxSmtpRelay.attempt on the cache (domain -> MxRecord); also: was the resolver asked *)
Definition mx_attempt_st (cache : list (N * mxrec)) (st : mx_step) : mx_out * bool * list (N * mxrec) :=
  match s_domain st with
  | None => (MxPerm, false, cache)
  | Some d =>
      let r := match dget cache d with Some r => r | None => mxrec0 end in    (* setdefault *)
      if mx_expired r (s_now st) then
        match mx_resolve st with
        | inr _ => (MxTrans, true, dset cache d r)          (* DNSError: the record is left as it was *)
        | inl (recs, exp) => let r' := mkMxrec recs exp in (mx_finish r' (s_attempts st), true, dset cache d r')
        end
      else (mx_finish r (s_attempts st), false, dset cache d r)
  end.
Fixpoint mx_run (cache : list (N * mxrec)) (steps : list mx_step) : list (mx_out * bool) :=
  match steps with
  | [] => []
  | st :: steps' => let '(o, q, cache') := mx_attempt_st cache st in (o, q) :: mx_run cache' steps'
  end.
Definition mx_cache_after (steps : list mx_step) : list (N * mxrec) :=
  fold_left (fun c st => snd (mx_attempt_st c st)) steps [].
