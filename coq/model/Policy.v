(* Model of the built-in queue policies (slimta/policy/split.py, forward.py,
   headers.py), Envelope.copy / prepend_header as they use them, and
   Queue._run_policies (slimta/queue/__init__.py).  Definitions only.

   Python objects are mutable and compared by identity; the model keeps, beside
   the contents, an *identity* (a number) for every mutable object an envelope
   owns: the Envelope object itself, its recipients list, its headers object and
   its client dict.  New objects take their identity from an allocation counter
   (`next`), so "two envelopes share no mutable state" is "their identities are
   pairwise different".

   External oracles (Section variables): re.subn with the user's patterns, the
   str.lower used for domains, and the texts of the generated header values. *)
From Coq Require Import List NArith Bool.
From SV Require Import lib.Bytes.
Import ListNotations.
Open Scope N_scope.

Definition header := (bytes * bytes)%type.      (* (name, value) as in Message._headers *)

Record env := mkenv {
  eid : N;                 (* identity of the Envelope object *)
  sender : bytes;
  rcpts : list bytes;      (* contents of envelope.recipients *)
  rid : N;                 (* identity of that list object *)
  hdr : list header;       (* contents of envelope.headers *)
  hid : N;                 (* identity of the headers object *)
  cid : N;                 (* identity of envelope.client (dict) *)
  body : bytes             (* envelope.message: bytes, immutable *)
}.

Definition ids (e : env) : list N := [eid e; rid e; hid e; cid e].

Definition null {A} (l : list A) : bool := match l with [] => true | _ => false end.

(* Envelope.copy(new_rcpts): copy.deepcopy gives a new Envelope, a new recipients
   list, a new headers object and a new client dict; `if new_rcpts:` - an empty
   list leaves the (copied) old recipients.  The list passed in by the split
   policies is itself a fresh list. *)
Definition copy (next : N) (e : env) (new_rcpts : list bytes) : env * N :=
  (mkenv next (sender e) (if null new_rcpts then rcpts e else new_rcpts) (next + 1)
         (hdr e) (next + 2) (next + 3) (body e),
   next + 4).

(* [envelope.copy(g) for g in groups] *)
Fixpoint copies (next : N) (e : env) (groups : list (list bytes)) : list env * N :=
  match groups with
  | [] => ([], next)
  | g :: gs =>
      let '(c, n1) := copy next e g in
      let '(cs, n2) := copies n1 e gs in
      (c :: cs, n2)
  end.

(* rcpt.rsplit('@', 1): None when there is no '@' (the unpacking ValueError) *)
Fixpoint rsplit_at (s : bytes) : option (bytes * bytes) :=
  match s with
  | [] => None
  | b :: s' =>
      match rsplit_at s' with
      | Some (l, d) => Some (b :: l, d)
      | None => if b =? 64 then Some ([], s') else None
      end
  end.

(* case-insensitive header-name comparison (names are ASCII) *)
Definition to_lower (b : N) : N := if is_upper b then b + 32 else b.
Definition ieq (a b : bytes) : bool := beqb (map to_lower a) (map to_lower b).
Definition has_header (name : bytes) (h : list header) : bool := existsb (fun x => ieq (fst x) name) h.
(* the fields of a header list with the given name (case-insensitively), in order, values included:
   msg.get_all(name).  Presence (`name in msg`, has_header) looks at the names only: a field with an
   empty value is present. *)
Definition named (name : bytes) (h : list header) : list header := filter (fun x => ieq (fst x) name) h.

Definition n_date : bytes := [68; 97; 116; 101].                                   (* "Date" *)
Definition n_mid : bytes := [77; 101; 115; 115; 97; 103; 101; 45; 73; 100].       (* "Message-Id" *)
Definition n_received : bytes := [82; 101; 99; 101; 105; 118; 101; 100].          (* "Received" *)

(* ---- several messages through one Queue / one list of policy objects ---- *)
(* a message as it arrives: contents only *)
Record msg := mkmsg { m_sender : bytes; m_rcpts : list bytes; m_hdr : list header; m_body : bytes }.
(* the Envelope object built for it: four new objects *)
Definition mk_input (n : N) (m : msg) : env :=
  mkenv n (m_sender m) (m_rcpts m) (n + 1) (m_hdr m) (n + 2) (n + 3) (m_body m).
(* what is observable of an envelope apart from object identity *)
Definition content (e : env) : bytes * list bytes * list header * bytes := (sender e, rcpts e, hdr e, body e).
(* the same envelope with all its objects renamed (identities moved by d) *)
Definition shift_env (d : N) (e : env) : env :=
  mkenv (eid e + d) (sender e) (rcpts e) (rid e + d) (hdr e) (hid e + d) (cid e + d) (body e).

Section Policies.
  Variable rule : Type.                               (* (compiled pattern, repl, count) *)
  Variable subn : rule -> bytes -> bytes * N.         (* re.subn(pattern, repl, rcpt, count) *)
  Variable lower : bytes -> bytes.                    (* str.lower *)
  Variable date_of mid_of recv_of : env -> bytes.     (* generated header values (clock, uuid, host names) *)

  Inductive policy :=
  | PSplit                          (* RecipientSplit *)
  | PDomainSplit                    (* RecipientDomainSplit *)
  | PForward (rules : list rule)    (* Forward *)
  | PDate                           (* AddDateHeader *)
  | PMid                            (* AddMessageIdHeader *)
  | PReceived                       (* AddReceivedHeader *)
  (* two policies that are not in /repo, for "a policy returning its input among its outputs" *)
  | PSelf                           (* apply returns [envelope] *)
  | PKeepSplit.                     (* keeps the first recipient in the input envelope (a new list), returns
                                       [envelope] + [envelope.copy([r]) for r in the other recipients] *)

  (* RecipientDomainSplit._get_domain; None = ValueError *)
  Definition get_domain (r : bytes) : option bytes :=
    match rsplit_at r with
    | Some (_, d) => if null d then None else Some (lower d)
    | None => None
    end.

  (* groups.setdefault(domain, []).append(rcpt) on an OrderedDict *)
  Fixpoint add_group (d r : bytes) (g : list (bytes * list bytes)) : list (bytes * list bytes) :=
    match g with
    | [] => [(d, [r])]
    | (d', rs) :: g' => if beqb d d' then (d', rs ++ [r]) :: g' else (d', rs) :: add_group d r g'
    end.

  (* RecipientDomainSplit._get_domain_groups *)
  Fixpoint domain_groups (rs : list bytes) (g : list (bytes * list bytes)) (bad : list bytes)
    : list (bytes * list bytes) * list bytes :=
    match rs with
    | [] => (g, bad)
    | r :: rs' =>
        match get_domain r with
        | Some d => domain_groups rs' (add_group d r g) bad
        | None => domain_groups rs' g (bad ++ [r])
        end
    end.

  (* Forward.apply for one recipient: the first rule with a non-empty result and
     changes > 0 wins; no such rule: unchanged.  "Matched" is the substitution
     count of re.subn (changes > 0), NOT "the text changed": a rule that matches
     and reproduces the same text (nr = r, 0 < ch) wins and stops the scan.
     PDate / PMid below test the PRESENCE of a field name (`'date' in headers`),
     not the truth of its value: an empty Date field is present. *)
  Fixpoint fwd_rcpt (rules : list rule) (r : bytes) : bytes :=
    match rules with
    | [] => r
    | ru :: rs =>
        let '(nr, ch) := subn ru r in
        if negb (null nr) && (0 <? ch) then nr else fwd_rcpt rs r
    end.

  Definition set_rcpts (e : env) (rs : list bytes) (new_rid : N) : env :=
    mkenv (eid e) (sender e) rs new_rid (hdr e) (hid e) (cid e) (body e).
  Definition set_hdr (e : env) (h : list header) : env :=
    mkenv (eid e) (sender e) (rcpts e) (rid e) h (hid e) (cid e) (body e).

  (* policy.apply(envelope): (the input object afterwards, the returned value, counter) *)
  Definition apply (p : policy) (next : N) (e : env) : env * option (list env) * N :=
    match p with
    | PSplit =>
        match rcpts e with
        | [] | [_] => (e, None, next)                                  (* len <= 1: return *)
        | _ => let '(cs, n) := copies next e (map (fun r => [r]) (rcpts e)) in (e, Some cs, n)
        end
    | PDomainSplit =>
        let '(g, bad) := domain_groups (rcpts e) [] [] in
        if (N.of_nat (List.length g) + N.of_nat (List.length bad) <=? 1) then (e, None, next)
        else let '(cs, n) := copies next e (map snd g ++ map (fun r => [r]) bad) in (e, Some cs, n)
    | PForward rules =>
        (* recipients[i] = new_rcpt: the same list object, changed in place *)
        (set_rcpts e (map (fwd_rcpt rules) (rcpts e)) (rid e), None, next)
    | PDate =>
        if has_header n_date (hdr e) then (e, None, next)
        else (set_hdr e (hdr e ++ [(n_date, date_of e)]), None, next)
    | PMid =>
        if has_header n_mid (hdr e) then (e, None, next)
        else (set_hdr e (hdr e ++ [(n_mid, mid_of e)]), None, next)
    | PReceived =>
        (set_hdr e ((n_received, recv_of e) :: hdr e), None, next)      (* prepend_header *)
    | PSelf => (e, Some [e], next)
    | PKeepSplit =>
        match rcpts e with
        | r1 :: (_ :: _) as rest =>
            let e' := set_rcpts e [r1] next in
            let '(cs, n) := copies (next + 1) e' (map (fun r => [r]) rest) in
            (e', Some (e' :: cs), n)
        | _ => (e, None, next)
        end
    end.

  (* ---------------- Queue._run_policies ---------------- *)
  Record st := mkst {
    results : list env;     (* the `results` list (objects, by identity, with their current contents) *)
    next : N;               (* allocation counter *)
    failed : bool           (* results.remove(current) raised ValueError / stale object *)
  }.

  Fixpoint find_eid (i : N) (l : list env) : option env :=
    match l with
    | [] => None
    | x :: l' => if eid x =? i then Some x else find_eid i l'
    end.
  (* list.remove(obj): first element that is the object *)
  Fixpoint remove_eid (i : N) (l : list env) : list env :=
    match l with
    | [] => []
    | x :: l' => if eid x =? i then l' else x :: remove_eid i l'
    end.
  (* an in-place change of an object is seen through the list *)
  Definition replace_eid (e' : env) (l : list env) : list env :=
    map (fun x => if eid x =? eid e' then e' else x) l.

  (*  def recurse(current, i):
          try: policy = self.queue_policies[i]
          except IndexError: return
          ret = policy.apply(current)
          if ret:
              results.remove(current); results.extend(ret)
              for env in ret: recurse(env, i+1)
          else:
              recurse(current, i+1)                                    *)
  Fixpoint recurse (chain : list policy) (cur : N) (s : st) : st :=
    match chain with
    | [] => s
    | p :: chain' =>
        match find_eid cur (results s) with
        | None => mkst (results s) (next s) true
        | Some e =>
            let '(e', ret, n') := apply p (next s) e in
            match ret with
            | Some (y :: l) =>
                fold_left (fun s1 x => recurse chain' (eid x) s1) (y :: l)
                          (mkst (remove_eid cur (results s) ++ (y :: l)) n' (failed s))
            | _ => recurse chain' cur (mkst (replace_eid e' (results s)) n' (failed s))
            end
        end
    end.

  (* results = [envelope]; recurse(envelope, 0); return results *)
  Definition run_policies (chain : list policy) (next0 : N) (e : env) : st :=
    recurse chain (eid e) (mkst [e] next0 false).

  (* One Queue handling messages one after the other (one Queue.enqueue call each) with the SAME policy
     objects.  The policies are functions of the envelope they are given: no policy object keeps anything
     from one message to the next (no memo, no list handed out twice), and `results` is local to one
     _run_policies call.  The only thing that goes from one message to the next is the allocation counter
     (new objects are new). *)
  Fixpoint run_messages (chain : list policy) (n : N) (ms : list msg) : list st :=
    match ms with
    | [] => []
    | m :: ms' => let s := run_policies chain (n + 4) (mk_input n m) in s :: run_messages chain (next s) ms'
    end.
  (* The configuration of the policy objects may change between messages (Forward.add_mapping on a policy in
     service, AddReceivedHeader.date_format, ...): every message is handled by the chain AS CONFIGURED AT
     THAT MOMENT - Forward's rule list is whatever has been added so far - and by nothing remembered from an
     earlier configuration (no compiled-rules cache).  Each message comes with the snapshot of the chain. *)
  Fixpoint run_configured (n : N) (cms : list (list policy * msg)) : list st :=
    match cms with
    | [] => []
    | (chain, m) :: r => let s := run_policies chain (n + 4) (mk_input n m) in s :: run_configured (next s) r
    end.
  (* outcome of one message apart from object identities *)
  Definition outcome (s : st) : bool * list (bytes * list bytes * list header * bytes) :=
    (failed s, map content (results s)).
  Definition shift_st (d : N) (s : st) : st := mkst (map (shift_env d) (results s)) (next s + d) (failed s).

  (* ---------------- vocabulary of the property statements ---------------- *)

  (* what the chain does to one recipient address *)
  Definition rw (p : policy) (r : bytes) : bytes :=
    match p with PForward rules => fwd_rcpt rules r | _ => r end.
  Fixpoint rw_chain (chain : list policy) (r : bytes) : bytes :=
    match chain with [] => r | p :: c => rw_chain c (rw p r) end.

  (* what one policy may do to a header list *)
  Definition hdr_ok (p : policy) (h h' : list header) : Prop :=
    match p with
    | PDate => if has_header n_date h then h' = h else exists v, h' = h ++ [(n_date, v)]
    | PMid => if has_header n_mid h then h' = h else exists v, h' = h ++ [(n_mid, v)]
    | PReceived => exists v, h' = (n_received, v) :: h
    | _ => h' = h
    end.
  Fixpoint hdr_chain_ok (chain : list policy) (h h' : list header) : Prop :=
    match chain with
    | [] => h' = h
    | p :: c => exists h1, hdr_ok p h h1 /\ hdr_chain_ok c h1 h'
    end.

  (* names of the headers the chain appends to a message whose header names are ns *)
  Definition has_name (name : bytes) (ns : list bytes) : bool := existsb (fun x => ieq x name) ns.
  Fixpoint appended (chain : list policy) (ns : list bytes) : list bytes :=
    match chain with
    | [] => []
    | PDate :: c => if has_name n_date ns then appended c ns else n_date :: appended c (ns ++ [n_date])
    | PMid :: c => if has_name n_mid ns then appended c ns else n_mid :: appended c (ns ++ [n_mid])
    | PReceived :: c => appended c (n_received :: ns)
    | _ :: c => appended c ns
    end.
  Definition is_received (p : policy) : bool := match p with PReceived => true | _ => false end.
  Definition is_date (p : policy) : bool := match p with PDate => true | _ => false end.
  Definition is_mid (p : policy) : bool := match p with PMid => true | _ => false end.
  Definition n_received_of (chain : list policy) : nat := List.length (filter is_received chain).
End Policies.

Arguments PSplit {rule}.
Arguments PDomainSplit {rule}.
Arguments PForward {rule}.
Arguments PDate {rule}.
Arguments PMid {rule}.
Arguments PReceived {rule}.
Arguments PSelf {rule}.
Arguments PKeepSplit {rule}.
