(* Model of the SMTP server of slimta over a BYTE STREAM (property C09):
     slimta/smtp/io.py          IO.recv_line (line_pattern (.*?)\r?\n on io.recv_buffer),
                                IO.buffered_recv / raw_recv, IO.recv_command
     slimta/smtp/datareader.py  DataReader.recv, from_recv_buffer, recv_piece, _check_size,
                                _discard_message, return_all       (with the size limit)
     slimta/smtp/server.py      Server.handle's loop (_recv_command -> _handle_command),
                                _command_DATA -> _get_message_data -> DataReader(io, SIZE).recv()
     slimta/edge/smtp.py        SmtpEdge.handle (ConnectionLost ends the session silently)
   The command machine itself (what a parsed command line does, given the application's
   verdicts) is C07's model/Server.v and is imported, not copied: this file is the stream
   FRONT END that produces C07's `item`s (parsed line + message content + too-big flag) from
   the bytes, and the loop that feeds them to `Server.step`.

   The DATA reader is modelled AFTER the repair of defect D13
   (/verif/fixes/d13-size-limit-drain.diff):
     - self.size counts every byte handed to the reader, also those taken over from
       io.recv_buffer; _check_size compares  size - len(lines behind the end-of-data line)
       with max_size, i.e. the number of stream bytes up to and including the end-of-data line;
     - on MessageTooBig recv() keeps reading (and discarding) up to and including the
       end-of-data line, hands the bytes behind it back to io.recv_buffer, then re-raises.
   (and after D1, like model/Data.v whose add_lines / return_all are reused).

   The socket is the list of the values socket.recv() is going to return; an exhausted list
   (or an empty chunk) is end of file: IO.raw_recv raises ConnectionLost.

   STARTTLS: every arm of _command_STARTTLS in which the session goes on in clear text is
   modelled (not offered 500, argument 501, before EHLO 503 - C07's `step` - and, new here, a
   handlers.STARTTLS hook that refuses: `hook_out`); none of them touches io.recv_buffer.  The
   one arm that does (220 and a handshake: the buffer is discarded, C08) is modelled with a
   handshake that fails (220, 421, session closed).
   Left out, explicitly (configuration `stream_cfg`): AUTH (the 334 challenge answers are read
   with recv_line too; the server is built with auth=False, so AUTH is an unknown command) and
   a SUCCESSFUL TLS handshake (it swaps the byte channel: property C08).  Timeouts never fire (C14).  Definitions only. *)
From Coq Require Import List NArith Bool Arith.
From SV Require Import lib.Bytes model.Reply model.Data model.Server.
Import ListNotations.
Open Scope N_scope.

(* ====================================================================== *)
(*  consumer 1: IO.recv_line                                               *)
(* ====================================================================== *)

Inductive line_result : Type :=
| LLine (l : bytes) (recv_buffer : bytes) (sock : list bytes)   (* match.group(1), the new buffer, what the socket still holds *)
| LLost.                                                        (* ConnectionLost *)

(* IO.recv_line:
     while True:
         match = line_pattern.match(self.recv_buffer)      # (.*?)\r?\n : up to the first LF, one CR dropped
         if match: self.recv_buffer = input[match.end(0):]; return match.group(1)
         self.buffered_recv()                              # recv_buffer += raw_recv()  (b'' -> ConnectionLost)
   One unfolding = one trip round the loop. *)
Fixpoint recv_line (buf : bytes) (sock : list bytes) {struct sock} : line_result :=
  match take_line buf with
  | Some (raw, rest) => LLine (strip_cr raw) rest sock
  | None =>
      match sock with
      | [] => LLost
      | piece :: sock' =>
          match piece with
          | [] => LLost
          | _ :: _ => recv_line (buf ++ piece) sock'
          end
      end
  end.

(* batch specification: the first line of the whole stream *)
Definition line_spec (stream : bytes) : option (bytes * bytes) :=
  match take_line stream with
  | Some (raw, rest) => Some (strip_cr raw, rest)
  | None => None
  end.

(* observable outcome: the line and every byte not consumed *)
Definition line_outcome (r : line_result) : option (bytes * bytes) :=
  match r with
  | LLine l rb sock => Some (l, rb ++ concat sock)
  | LLost => None
  end.

(* ====================================================================== *)
(*  consumer 2: DataReader(io, max_size).recv()   (D13 repaired)           *)
(* ====================================================================== *)

Inductive read_result : Type :=
| DOk (data : bytes) (recv_buffer : bytes) (sock : list bytes)   (* recv() returned data *)
| DTooBig (recv_buffer : bytes) (sock : list bytes)              (* MessageTooBig, after the message was discarded *)
| DLost.                                                         (* ConnectionLost *)

(* b''.join(self.lines[self.EOD+1:]) *)
Definition after_eod (st : dr) (e : nat) : bytes := concat (skipn (S e) (lines st)).

(* DataReader._check_size:  size = self.size; if self.EOD is not None: size -= sum(len(l) for l in lines[EOD+1:]) *)
Definition msg_size (size : N) (st : dr) : N :=
  match eod st with
  | None => size
  | Some e => size - N.of_nat (length (after_eod st e))
  end.

(* self.lines = self.lines[self.i:]; self.i = 0 *)
Definition trim (st : dr) : dr := mkdr (skipn (idx st) (lines st)) O (eod st).

(* DataReader._discard_message:
     while self.EOD is None:
         trim; self.add_lines(self.io.raw_recv())
     self.io.recv_buffer = b''.join(self.lines[self.EOD+1:]) *)
Fixpoint discard_message (st : dr) (sock : list bytes) : read_result :=
  match eod st with
  | Some e => DTooBig (after_eod st e) sock
  | None =>
      match sock with
      | [] => DLost
      | piece :: sock' =>
          match piece with
          | [] => DLost
          | _ :: _ => discard_message (add_lines piece (trim st)) sock'
          end
      end
  end.

(* recv():  from_recv_buffer(); try: _check_size(); while recv_piece(): pass
            except MessageTooBig: _discard_message(); raise
            return return_all()
   recv_piece():  if EOD is not None: return False
                  piece = raw_recv(); size += len(piece); add_lines(piece); _check_size(); return EOD is None
   i.e. the sequence  check, [EOD? -> return], read+add, check, [EOD? -> return], ...
   One unfolding = one check followed by one test of EOD. *)
Fixpoint recv_loop_lim (max_size : option N) (size : N) (st : dr) (sock : list bytes) : read_result :=
  if Data.too_big max_size (msg_size size st) then discard_message st sock
  else
    match eod st with
    | Some e => let '(d, rb) := return_all st e in DOk d rb sock
    | None =>
        match sock with
        | [] => DLost
        | piece :: sock' =>
            match piece with
            | [] => DLost
            | _ :: _ => recv_loop_lim max_size (size + N.of_nat (length piece)) (add_lines piece st) sock'
            end
        end
    end.

(* from_recv_buffer: size += len(recv_buffer); add_lines(recv_buffer); recv_buffer = b'' *)
Definition dr_recv_lim (max_size : option N) (recv_buffer : bytes) (sock : list bytes) : read_result :=
  recv_loop_lim max_size (N.of_nat (length recv_buffer)) (add_lines recv_buffer dr_init) sock.

(* batch specification: C05's read_spec (split at the first end-of-data line, one leading dot
   removed per line) + the size of the message = number of stream bytes up to and including
   the end-of-data line.  None: no complete end-of-data line (ConnectionLost);
   Some (None, rest): MessageTooBig;  Some (Some data, rest). *)
Definition read_spec_lim (max_size : option N) (stream : bytes) : option (option bytes * bytes) :=
  match read_spec stream with
  | None => None
  | Some (d, r) =>
      if Data.too_big max_size (N.of_nat (length stream - length r)) then Some (None, r)
      else Some (Some d, r)
  end.

Definition read_outcome (r : read_result) : option (option bytes * bytes) :=
  match r with
  | DOk d rb sock => Some (Some d, rb ++ concat sock)
  | DTooBig rb sock => Some (None, rb ++ concat sock)
  | DLost => None
  end.

(* ====================================================================== *)
(*  the server loop over a stream                                          *)
(* ====================================================================== *)

(* what the application decides for one command line (C07's item without the parts that
   come from the stream) *)
Record env := {
  n_v1 : verdict;      (* handle_ehlo/helo/mail/rcpt/data, whichever this line reaches *)
  n_v2 : verdict;      (* handle_have_data *)
  n_v3 : verdict;      (* handle_queued *)
  n_q : qres;          (* result of handoff *)
  n_tls : verdict      (* a handlers.STARTTLS(reply, extensions) hook, if the line reaches it (VKeep: none / leaves 220) *)
}.
Definition env_default : env := {| n_v1 := VKeep; n_v2 := VKeep; n_v3 := VKeep; n_q := QOk; n_tls := VKeep |}.

(* the i-th command line read uses the i-th entry; lines beyond the list: env_default *)
Definition pop_env (envs : list env) : env * list env :=
  match envs with
  | [] => (env_default, [])
  | e :: envs' => (e, envs')
  end.

(* it_wire is only looked at through Server.too_big: 0 = not too big,
   over_limit = a size above the limit (MessageTooBig was raised, so the limit is Some m, m > 0) *)
Definition over_limit (mx : option N) : N := match mx with Some m => m + 1 | None => 0 end.

Definition mk_item (e : env) (l : Server.line) (data : bytes) (wire : N) : item :=
  {| it_line := l; it_v1 := n_v1 e; it_v2 := n_v2 e; it_v3 := n_v3 e; it_data := data; it_wire := wire;
     it_q := n_q e; it_au_resps := []; it_au := ARaise; it_tls_ok := false |}.

(* does this command line make the server call DataReader.recv()?
   _command_DATA: no argument, have_mailfrom and have_rcptto, and the DATA handler left 354 *)
Definition reads_data (st : sstate) (it : item) : bool :=
  match classify (it_line it) with
  | CData =>
      negb (Server.nonempty (l_arg (it_line it))) && s_mail (sv st) && s_rcpt (sv st) &&
      match apply_verdict (it_v1 it) 354 with Some c => c =? 354 | None => false end
  | _ => false
  end.

(* what the server has written and called when the connection is lost inside DataReader.recv():
   the 354 reply (flushed) and the DATA callback *)
Definition data_started : out :=
  {| o_replies := [354]; o_events := [EvCall KData [] [] (Some 354)]; o_fin := Crashed |}.

Inductive sfin :=
| SClosed        (* the server ended the session (221/421): handle() returned *)
| SCrashed       (* an exception left handle() (501/421 written first) *)
| SLost          (* end of stream while waiting for a command line: ConnectionLost, nothing written *)
| SLostInData    (* end of stream inside the message content: ConnectionLost after the 354 *)
| SFuel.         (* recursion bound hit (never, with the fuel run_server_stream uses) *)

(* The loop of Server.handle, generic in the representation S of "the unread stream" and in
   the two consumers.  Instantiated below with (recv_buffer, socket pieces) + the incremental
   consumers, and with the plain byte string + the batch specifications.
   fuel = number of command lines read (each is followed by at most one reader call).
   Result: the items given to C07's `step` (one per command line read), its outputs, the end. *)
(* _command_STARTTLS reaches `self._call_custom_handler('STARTTLS', reply, self.extensions)`:
   the extension is offered, no argument, EHLO seen *)
Definition starttls_hook (st : sstate) (it : item) : bool :=
  match classify (it_line it) with
  | CStarttls => x_starttls (ex st) && negb (Server.nonempty (l_arg (it_line it))) && is_some (s_ehlo (sv st))
  | _ => false
  end.

(* what a hook that does not leave the 220 makes of the command: it raised (unhandled_error 421,
   exception escapes) | it set code c: reply.send, _flush, _check_close_code, and - c being
   not 220 - return; the session state and io.recv_buffer are untouched.
   None: the reply is still 220, C07's `step` describes the rest.
   (C07's event type has no constructor for this hook: the call is not part of the trace.) *)
Definition hook_out (v : verdict) : option out :=
  match apply_verdict v 220 with
  | None =>
      (* the hook raised: the arm of handle() that sees it (Server.finish) *)
      Some match fam_of v with
           | FException => {| o_replies := [421]; o_events := []; o_fin := Crashed |}
           | FTimeout => {| o_replies := [421]; o_events := []; o_fin := Closed |}
           | FKill => {| o_replies := []; o_events := []; o_fin := Crashed |}
           end
  | Some c =>
      if c =? 220 then None
      else Some {| o_replies := [c]; o_events := []; o_fin := if is_close c then Closed else Continue |}
  end.

Section Loop.
  Variable S : Type.
  Variable get_line : S -> option (bytes * S).
  Variable get_data : option N -> S -> option (option bytes * S).

  Fixpoint loop (fuel : nat) (st : sstate) (envs : list env) (s : S) : list item * list out * sfin :=
    match fuel with
    | O => ([], [], SFuel)
    | Datatypes.S fuel' =>
        match get_line s with                                   (* command, arg = self._recv_command() *)
        | None => ([], [], SLost)
        | Some (raw, s1) =>
            let '(e, envs') := pop_env envs in
            let l := parse_line raw in
            let it0 := mk_item e l [] 0 in
            (* the command is done: state st', output o; the loop goes on with the unread stream s2 *)
            let emit (it : item) (r : sstate * out) (s2 : S) :=
              let '(st', o) := r in
              match o_fin o with
              | Continue => let '(its, os, f) := loop fuel' st' envs' s2 in (it :: its, o :: os, f)
              | Closed => ([it], [o], SClosed)
              | Crashed => ([it], [o], SCrashed)
              end in
            let go (it : item) (s2 : S) := emit it (step st it) s2 in     (* self._handle_command(command, arg) *)
            if reads_data st it0 then
              (* _get_message_data: max_size = extensions.getparam('SIZE'); DataReader(io, max_size).recv() *)
              match get_data (x_size (ex st)) s1 with
              | None => ([it0], [data_started], SLostInData)
              | Some (Some d, s2) => go (mk_item e l d 0) s2
              | Some (None, s2) => go (mk_item e l [] (over_limit (x_size (ex st)))) s2
              end
            else if starttls_hook st it0 then
              match hook_out (n_tls e) with
              | Some o => emit it0 (st, o) s1                   (* refused by the hook: clear text goes on *)
              | None => go it0 s1
              end
            else go it0 s1
        end
    end.
End Loop.

(* ---- incremental instance: S = (io.recv_buffer, socket pieces) *)
Definition istream := (bytes * list bytes)%type.

Definition inc_line (s : istream) : option (bytes * istream) :=
  match recv_line (fst s) (snd s) with
  | LLine l rb sock => Some (l, (rb, sock))
  | LLost => None
  end.

Definition inc_data (mx : option N) (s : istream) : option (option bytes * istream) :=
  match dr_recv_lim mx (fst s) (snd s) with
  | DOk d rb sock => Some (Some d, (rb, sock))
  | DTooBig rb sock => Some (None, (rb, sock))
  | DLost => None
  end.

Definition run_stream (fuel : nat) (st : sstate) (envs : list env) (buf : bytes) (sock : list bytes) :=
  loop istream inc_line inc_data fuel st envs (buf, sock).

(* ---- batch instance: S = the whole unread byte string *)
Definition run_batch (fuel : nat) (st : sstate) (envs : list env) (stream : bytes) :=
  loop bytes line_spec read_spec_lim fuel st envs stream.

(* ---- the whole session *)
Definition stream_cfg (mx : option N) (ctx : bool) : config :=
  {| cfg_context := ctx; cfg_tls_immediately := false; cfg_tls_imm_ok := false;
     cfg_auth := false; cfg_max_size := mx |}.

(* every command line read consumes at least its LF *)
Definition enough_fuel (stream : bytes) : nat := Datatypes.S (length stream).

(* handle(): the banner pseudo command, then the loop.
   The first `out` belongs to the connection (banner), the following ones to the command lines. *)
Definition session (S : Type) (run : nat -> sstate -> list env -> S -> list item * list out * sfin)
           (fuel : nat) (mx : option N) (ctx : bool) (vb : verdict) (envs : list env) (s : S)
  : list item * list out * sfin :=
  let '(st1, o) := finish (command_BANNER vb (init_state (stream_cfg mx ctx))) in
  match o_fin o with
  | Continue => let '(its, os, f) := run fuel st1 envs s in (its, o :: os, f)
  | Closed => ([], [o], SClosed)
  | Crashed => ([], [o], SCrashed)
  end.

Definition run_server_stream (mx : option N) (ctx : bool) (vb : verdict) (envs : list env)
           (buf : bytes) (chunks : list bytes) : list item * list out * sfin :=
  session istream (fun fuel st envs s => run_stream fuel st envs (fst s) (snd s))
          (enough_fuel (buf ++ concat chunks)) mx ctx vb envs (buf, chunks).

Definition run_server_batch (mx : option N) (ctx : bool) (vb : verdict) (envs : list env) (stream : bytes)
  : list item * list out * sfin :=
  session bytes run_batch (enough_fuel stream) mx ctx vb envs stream.

(* the observables of the property *)
Definition replies_of (os : list out) : list N := flat_map o_replies os.
Definition events_of (os : list out) : list event := flat_map o_events os.    (* = Server.trace *)
Definition observable (r : list item * list out * sfin) : list N * list event * sfin :=
  (replies_of (snd (fst r)), events_of (snd (fst r)), snd r).
