(* Model of slimta/smtp/client.py (Client and LmtpClient) on top of the C17
   reply parser (model/Reply.v: recv_reply, set_message, get_message, utf8_dec,
   code_ok are imported, not copied).  Definitions only.

   The model mirrors the code AFTER the two fixes
     fixes/d21-client-encode-before-queue.diff  (ehlo/helo/lhlo/mailfrom/rcptto
        build - and so encode - the command before the reply slot is queued)
     fixes/d22-lmtp-flush-before-data.diff      (LmtpClient.send_data /
        send_empty_data flush the pipeline before reading the RCPT replies)
     fixes/d40-lmtp-data-after-bad-rcpt-reply.diff (a recipient whose RCPT reply
        was never filled - BadReply - is not an accepted recipient).

   Reply objects are shared between the caller, `reply_queue` and (LMTP)
   `rcpttos`; they are modelled as a heap `s_objs` (every Reply object the
   client ever created, in creation order) and referred to by their position.
   The fake server is the list of chunks the socket's recv() will return.

   Not modelled (said in the report): starttls/encrypt, auth, has_reply_waiting,
   bytes (rather than str) identifiers for ehlo/helo/lhlo, DataSender (the bytes
   it produces are an input of send_data). *)
From Coq Require Import List NArith Bool String Ascii.
From SV Require Import lib.Val lib.Bytes model.Reply.
Import ListNotations.
Open Scope N_scope.

(* byte-string literals *)
Fixpoint bs (s : string) : bytes :=
  match s with
  | EmptyString => []
  | String a s' => N_of_ascii a :: bs s'
  end.

(* which method created a Reply object.  Ghost: never read by the methods; it
   only lets the theorems say what an object is expected to hold.
   KPlain: Reply(command=..)                       (_esc = None)
   KNoEsc: .enhanced_status_code = False           (banner, HELO)
   KHello: an EHLO/LHLO slot whose call has RETURNED: created as KNoEsc, turned
           into KHello by the tail of ehlo()/lhlo(), which also replaces the
           message by parse_string's header when the code is 250.  (A hello slot
           whose call raised stays KNoEsc: it is filled later like any other.) *)
Inductive kind := KPlain | KNoEsc | KHello.
Definition esc0 (k : kind) : esc := match k with KPlain => EscNone | _ => EscFalse end.

Record robj := mkObj { o_cmd : bytes; o_kind : kind; o_r : reply }.
Definition dummy_obj : robj := mkObj [] KPlain (mkReply [] EscNone []).

Record cstate := mkSt {
  s_lmtp : bool;                       (* isinstance(self, LmtpClient) *)
  s_objs : list robj;                  (* heap of Reply objects, id = position *)
  s_queue : list nat;                  (* self.reply_queue *)
  s_sendbuf : bytes;                   (* self.io.send_buffer *)
  s_sent : list bytes;                 (* arguments of socket.sendall, in order *)
  s_exts : list bytes;                 (* names in self.extensions (upper case) *)
  s_rbuf : bytes;                      (* self.io.recv_buffer *)
  s_chunks : list bytes;               (* what socket.recv will return: the fake server *)
  s_rcpttos : list (list N * nat);     (* LmtpClient.rcpttos: (address, reply object) *)
  s_lasterr : option nat;              (* self.last_error *)
  s_dead : bool                        (* ConnectionLost was raised; nothing is modelled after it *)
}.

Definition set_objs st v := mkSt (s_lmtp st) v (s_queue st) (s_sendbuf st) (s_sent st) (s_exts st) (s_rbuf st) (s_chunks st) (s_rcpttos st) (s_lasterr st) (s_dead st).
Definition set_queue st v := mkSt (s_lmtp st) (s_objs st) v (s_sendbuf st) (s_sent st) (s_exts st) (s_rbuf st) (s_chunks st) (s_rcpttos st) (s_lasterr st) (s_dead st).
Definition set_send st b s := mkSt (s_lmtp st) (s_objs st) (s_queue st) b s (s_exts st) (s_rbuf st) (s_chunks st) (s_rcpttos st) (s_lasterr st) (s_dead st).
Definition set_exts st v := mkSt (s_lmtp st) (s_objs st) (s_queue st) (s_sendbuf st) (s_sent st) v (s_rbuf st) (s_chunks st) (s_rcpttos st) (s_lasterr st) (s_dead st).
Definition set_recv st b c := mkSt (s_lmtp st) (s_objs st) (s_queue st) (s_sendbuf st) (s_sent st) (s_exts st) b c (s_rcpttos st) (s_lasterr st) (s_dead st).
Definition set_rcpttos st v := mkSt (s_lmtp st) (s_objs st) (s_queue st) (s_sendbuf st) (s_sent st) (s_exts st) (s_rbuf st) (s_chunks st) v (s_lasterr st) (s_dead st).
Definition set_lasterr st v := mkSt (s_lmtp st) (s_objs st) (s_queue st) (s_sendbuf st) (s_sent st) (s_exts st) (s_rbuf st) (s_chunks st) (s_rcpttos st) v (s_dead st).
Definition set_dead st := mkSt (s_lmtp st) (s_objs st) (s_queue st) (s_sendbuf st) (s_sent st) (s_exts st) (s_rbuf st) (s_chunks st) (s_rcpttos st) (s_lasterr st) true.

(* Client.__init__ / LmtpClient.__init__ on a socket that will deliver `chunks`;
   `exts` lets a caller pre-populate client.extensions *)
Definition init (lmtp : bool) (exts : list bytes) (chunks : list bytes) : cstate :=
  mkSt lmtp [] [] [] [] exts [] chunks [] None false.

Fixpoint upd {A} (l : list A) (i : nat) (f : A -> A) : list A :=
  match l, i with
  | [], _ => []
  | x :: l', O => f x :: l'
  | x :: l', S i' => x :: upd l' i' f
  end.

Definition get_obj (st : cstate) (id : nat) : robj := nth id (s_objs st) dummy_obj.
Definition set_obj (st : cstate) (id : nat) (r : reply) : cstate :=
  set_objs st (upd (s_objs st) id (fun o => mkObj (o_cmd o) (o_kind o) r)).
(* the same, also setting the ghost kind *)
Definition set_obj_k (st : cstate) (id : nat) (k : kind) (r : reply) : cstate :=
  set_objs st (upd (s_objs st) id (fun o => mkObj (o_cmd o) k r)).

(* exceptions a method can raise *)
Inductive exn :=
| XEncode        (* UnicodeEncodeError from _encode / .encode('ascii') *)
| XNotImpl       (* NotImplementedError: ehlo/helo on LMTP, lhlo on SMTP *)
| XAttr          (* AttributeError: None.startswith in LmtpClient.send_data; no method raises it
                    since fix d40 - kept so that the unfixed code can be reported *)
| XBadReply      (* slimta.smtp.BadReply *)
| XBadCode       (* ValueError from the Reply.code setter *)
| XLost          (* ConnectionLost: recv returned b'' *)
| XDead.         (* a call after ConnectionLost: outside the model *)

Inductive result :=
| RObj (id : nat)                          (* a Reply object *)
| RPairs (l : list (list N * nat))         (* LMTP send_data: [(address, Reply)] *)
| RExn (e : exn).

Section Client.
  Variable udigit : N -> bool.
  Variable uspace : N -> bool.

  (* ---------- Extensions ---------- *)
  (* `ext in self.extensions` for an upper-case literal *)
  Definition has_ext (name : bytes) (st : cstate) : bool := existsb (beqb name) (s_exts st).

  Definition is_alnum (c : N) : bool := is_alpha c || is_digit c.
  Fixpoint take_name (l : list N) : list N :=
    match l with
    | c :: l' => if is_alnum c || (c =? 45) then c :: take_name l' else []
    | [] => []
    end.
  (* parse_pattern on one line: optional white space, then the name
     [a-zA-Z0-9][a-zA-Z0-9-]* (greedy), then white space and the argument; the
     name is upper-cased by Extensions.add.  The argument is not modelled. *)
  Definition ext_name (l : list N) : option bytes :=
    match drop_space uspace l with
    | c :: r => if is_alnum c then Some (map to_upper (c :: take_name r)) else None
    | [] => None
    end.

  (* the loop of Extensions.parse_string over the lines of string+'\r\n' *)
  Fixpoint parse_lines (header : list N) (exts : list bytes) (ls : list (list N))
    : list N * list bytes :=
    match ls with
    | [] => (header, exts)
    | l :: ls' =>
        match header with
        | [] => parse_lines l exts ls'                     (* `if not header: header = ...` *)
        | _ => parse_lines header
                 (match ext_name l with Some n => exts ++ [n] | None => exts end) ls'
        end
    end.
  (* Extensions.reset(); Extensions.parse_string(s): (returned header, names).
     `header or string.rstrip('\r\n')`: header is falsy only when every line is
     empty, and then the stripped string is empty too. *)
  Definition parse_string (s : list N) : list N * list bytes := parse_lines [] [] (msg_lines s).

  (* ---------- IO ---------- *)
  (* IO.buffered_send / IO.send_command *)
  Definition buffered_send (b : bytes) (st : cstate) : cstate :=
    set_send st (s_sendbuf st ++ b) (s_sent st).
  (* IO.flush_send *)
  Definition flush_send (st : cstate) : cstate :=
    match s_sendbuf st with
    | [] => st
    | b => set_send st [] (s_sent st ++ [b])
    end.

  (* Reply.recv(io) on an existing object: io.recv_reply() (decoding included),
     then the code setter, then the message setter *)
  Inductive fill_res :=
  | FGot (r : reply) (buf : bytes) (ch : list bytes)
  | FBadReply (buf : bytes) (ch : list bytes)
  | FBadCode (buf : bytes) (ch : list bytes)
  | FLost.

  Definition recv_into (old : reply) (buf : bytes) (chunks : list bytes) : fill_res :=
    match recv_reply buf chunks with
    | ROk c body buf' ch' =>
        match utf8_dec body with
        | Some t =>
            if code_ok c
            then FGot (set_message udigit uspace (mkReply c (r_esc old) []) t) buf' ch'
            else FBadCode buf' ch'
        | None => FBadReply buf' ch'
        end
    | RBad buf' ch' => FBadReply buf' ch'
    | RLost => FLost
    end.

  (* Reply.is_error *)
  Definition is_error (r : reply) : bool :=
    match r_code r with k :: _ => (k =? 52) || (k =? 53) | [] => false end.

  (* the while loop of Client._flush_pipeline; q = self.reply_queue *)
  Fixpoint flush_loop (q : list nat) (st : cstate) : cstate * option exn :=
    match q with
    | [] => (set_queue st [], None)
    | id :: q' =>
        let st0 := set_queue st q' in                         (* reply_queue.pop(0) *)
        match recv_into (o_r (get_obj st0 id)) (s_rbuf st0) (s_chunks st0) with
        | FGot r buf ch =>
            let st1 := set_obj (set_recv st0 buf ch) id r in
            flush_loop q' (if is_error r then set_lasterr st1 (Some id) else st1)
        | FBadReply buf ch => (set_recv st0 buf ch, Some XBadReply)
        | FBadCode buf ch => (set_recv st0 buf ch, Some XBadCode)
        | FLost => (set_dead st0, Some XLost)
        end
    end.

  (* Client._flush_pipeline *)
  Definition flush (st : cstate) : cstate * option exn :=
    let st1 := flush_send st in flush_loop (s_queue st1) st1.

  (* reply = Reply(command=cmd) [; reply.enhanced_status_code = False];
     self.reply_queue.append(reply) *)
  Definition new_slot (cmd : bytes) (k : kind) (st : cstate) : cstate * nat :=
    let id := List.length (s_objs st) in
    (set_queue (set_objs st (s_objs st ++ [mkObj cmd k (mkReply [] (esc0 k) [])]))
               (s_queue st ++ [id]), id).

  (* the common shape of the command methods: queue the slot, buffer the bytes,
     flush (or not), return the slot *)
  Definition command_method (cmd : bytes) (k : kind) (wire : bytes) (do_flush : bool)
             (st : cstate) : cstate * result :=
    let '(st1, id) := new_slot cmd k st in
    let st2 := buffered_send wire st1 in
    if do_flush then
      match flush st2 with
      | (st3, None) => (st3, RObj id)
      | (st3, Some e) => (st3, RExn e)
      end
    else (st2, RObj id).

  (* ---------- encoding ---------- *)
  Definition SMTPUTF8 := bs "SMTPUTF8".
  Definition PIPELINING := bs "PIPELINING".
  (* str.encode('ascii') *)
  Definition enc_ascii (t : list N) : option bytes :=
    if forallb (fun c => c <? 128) t then Some t else None.
  (* Client._encode *)
  Definition encode (st : cstate) (t : list N) : option bytes :=
    if has_ext SMTPUTF8 st
    then (if forallb valid_cp t then Some (utf8_enc t) else None)
    else enc_ascii t.

  Definition hexd (n : N) : N := if n <? 10 then 48 + n else 55 + n.
  (* xtext_pattern = [^\x21-\x2A\x2C-\x3C\x3E-\x7E] *)
  Definition xtext_ok (b : N) : bool :=
    ((33 <=? b) && (b <=? 42)) || ((44 <=? b) && (b <=? 60)) || ((62 <=? b) && (b <=? 126)).
  Definition xtext (b : bytes) : bytes :=
    flat_map (fun c => if xtext_ok c then [c] else [43; hexd (c / 16); hexd (c mod 16)]) b.

  Definition pipelining (st : cstate) : bool := has_ext PIPELINING st.

  (* ---------- the API ---------- *)
  Inductive op :=
  | OBanner                                   (* get_banner() *)
  | OGetReply (cmd : bytes)                   (* get_reply(command) *)
  | OEhlo (a : list N)                        (* ehlo(str) *)
  | OHelo (a : list N)                        (* helo(str) *)
  | OLhlo (a : list N)                        (* lhlo(str) *)
  | OMail (addr : list N) (size : option (list N)) (auth : option (option (list N)))
      (* mailfrom(address, data_size, auth); size = str(data_size);
         auth: None | Some None (False) | Some (Some str) *)
  | ORcpt (addr : list N)                     (* rcptto(address) *)
  | OData                                     (* data() *)
  | OSendData (payload : bytes)               (* send_data(parts...); payload = b''.join(DataSender(parts...)) *)
  | OSendEmpty                                (* send_empty_data() *)
  | ORset                                     (* rset() *)
  | OQuit                                     (* quit() *)
  | OCustom (cmd arg : bytes).                (* custom_command(cmd, arg); arg = [] for None/b'' *)

  Definition C250 : bytes := [50; 53; 48].

  (* the tail of ehlo()/lhlo(): `if ehlo.code == '250': [self.rcpttos = [];]
     self.extensions.reset(); ehlo.message = self.extensions.parse_string(ehlo.message)` *)
  Definition hello_post (id : nat) (st : cstate) : cstate :=
    let r := o_r (get_obj st id) in
    if beqb (r_code r) C250 then
      let '(hdr, exts) := parse_string (get_message r) in
      let st1 := if s_lmtp st then set_rcpttos st [] else st in
      set_obj_k (set_exts st1 exts) id KHello (set_message udigit uspace r hdr)
    else set_obj_k st id KHello r.                  (* ghost only *)

  Definition hello_method (verb : bytes) (a : list N) (st : cstate) : cstate * result :=
    match enc_ascii a with
    | None => (st, RExn XEncode)
    | Some ab =>
        match command_method verb KNoEsc (verb ++ [32] ++ ab ++ CRLF) true st with
        | (st1, RObj id) => (hello_post id st1, RObj id)
        | other => other
        end
    end.

  (* the command line of mailfrom(); None = UnicodeEncodeError *)
  Definition mail_command (st : cstate) (addr : list N) (size : option (list N))
             (auth : option (option (list N))) : option bytes :=
    match encode st addr with
    | None => None
    | Some a =>
        let c1 := bs "MAIL FROM:<" ++ a ++ [62] in
        let c2 :=
          match size with
          | Some s =>
              if has_ext (bs "SIZE") st then
                match encode st s with Some e => Some (c1 ++ bs " SIZE=" ++ e) | None => None end
              else Some c1
          | None => Some c1
          end in
        match c2 with
        | None => None
        | Some c2 =>
            match auth with
            | Some au =>
                if has_ext (bs "AUTH") st then
                  match au with
                  | None => Some (c2 ++ bs " AUTH=" ++ bs "<>")
                  | Some t =>
                      match encode st t with
                      | Some e => Some (c2 ++ bs " AUTH=" ++ xtext e)
                      | None => None
                      end
                  end
                else Some c2
            | None => Some c2
            end
        end
    end.

  (* Client.custom_command *)
  Definition custom (cmd arg : bytes) (st : cstate) : cstate * result :=
    let line := match arg with [] => cmd | _ => cmd ++ [32] ++ arg end in
    command_method (map to_upper cmd) KPlain (line ++ CRLF) true st.

  Definition SEND_DATA := bs "[SEND_DATA]".

  (* the `for address, rcptto_reply in self.rcpttos` loop of LmtpClient.send_data, after fix
     d40: `if rcptto_reply.code and rcptto_reply.code.startswith('2')` - a recipient whose
     RCPT reply was never filled (code is None: its reply was a BadReply) is not an
     accepted recipient and gets no end-of-data slot *)
  Fixpoint lmtp_slots (rs : list (list N * nat)) (st : cstate) (acc : list (list N * nat))
    : cstate * list (list N * nat) :=
    match rs with
    | [] => (st, acc)
    | (a, rid) :: rs' =>
        match r_code (o_r (get_obj st rid)) with
        | [] => lmtp_slots rs' st acc
        | k :: _ =>
            if k =? 50 then
              let '(st1, id) := new_slot SEND_DATA KPlain st in
              lmtp_slots rs' st1 (acc ++ [(a, id)])
            else lmtp_slots rs' st acc
        end
    end.

  (* LmtpClient.send_data / send_empty_data (after fix D22: flush first) *)
  Definition lmtp_data (wire : bytes) (st : cstate) : cstate * result :=
    match flush st with
    | (st0, Some e) => (st0, RExn e)
    | (st0, None) =>
        let '(st1, ret) := lmtp_slots (s_rcpttos st0) st0 [] in
        let st2 := buffered_send wire (set_rcpttos st1 []) in
        if pipelining st2 then (st2, RPairs ret)
        else match flush st2 with
             | (st3, None) => (st3, RPairs ret)
             | (st3, Some e) => (st3, RExn e)
             end
    end.

  Definition step (o : op) (st : cstate) : cstate * result :=
    if s_dead st then (st, RExn XDead) else
    match o with
    | OBanner => command_method (bs "[BANNER]") KNoEsc [] true st
    | OGetReply cmd => command_method cmd KPlain [] true st
    | OEhlo a => if s_lmtp st then (st, RExn XNotImpl) else hello_method (bs "EHLO") a st
    | OHelo a =>
        if s_lmtp st then (st, RExn XNotImpl) else
        match enc_ascii a with
        | None => (st, RExn XEncode)
        | Some ab => command_method (bs "HELO") KNoEsc (bs "HELO " ++ ab ++ CRLF) true st
        end
    | OLhlo a => if s_lmtp st then hello_method (bs "LHLO") a st else (st, RExn XNotImpl)
    | OMail addr size auth =>
        match mail_command st addr size auth with
        | None => (st, RExn XEncode)
        | Some c => command_method (bs "MAIL") KPlain (c ++ CRLF) (negb (pipelining st)) st
        end
    | ORcpt addr =>
        match encode st addr with
        | None => (st, RExn XEncode)
        | Some a =>
            match command_method (bs "RCPT") KPlain (bs "RCPT TO:<" ++ a ++ [62] ++ CRLF)
                                 (negb (pipelining st)) st with
            | (st1, RObj id) =>
                ((if s_lmtp st1 then set_rcpttos st1 (s_rcpttos st1 ++ [(addr, id)]) else st1), RObj id)
            | other => other
            end
        end
    | OData => custom (bs "DATA") [] st
    | OSendData payload =>
        if s_lmtp st then lmtp_data payload st
        else command_method SEND_DATA KPlain payload (negb (pipelining st)) st
    | OSendEmpty =>
        if s_lmtp st then lmtp_data (bs "." ++ CRLF) st
        else command_method SEND_DATA KPlain (bs "." ++ CRLF) (negb (pipelining st)) st
    | ORset =>
        match custom (bs "RSET") [] st with
        | (st1, RObj id) => ((if s_lmtp st1 then set_rcpttos st1 [] else st1), RObj id)
        | other => other
        end
    | OQuit => custom (bs "QUIT") [] st
    | OCustom cmd arg => custom cmd arg st
    end.

  Fixpoint run (ops : list op) (st : cstate) : cstate * list result :=
    match ops with
    | [] => (st, [])
    | o :: ops' =>
        let '(st1, r) := step o st in
        let '(st2, rs) := run ops' st1 in
        (st2, r :: rs)
    end.

  (* the same, keeping every intermediate state (what the harness compares) *)
  Fixpoint run_trace (ops : list op) (st : cstate) : list (cstate * result) :=
    match ops with
    | [] => []
    | o :: ops' => let '(st1, r) := step o st in (st1, r) :: run_trace ops' st1
    end.

  (* ---------- the fake server's script and what an object should hold ---------- *)
  (* one scripted reply: three-digit code and 1..n text lines (bytes, no LF) *)
  Definition sreply := (bytes * list bytes)%type.
  Definition wire1 (r : sreply) : bytes := emit_lines (fst r) (snd r).
  Definition wire (script : list sreply) : bytes := flat_map wire1 script.

  Definition no_lf (l : bytes) : bool := forallb (fun b => negb (b =? 10)) l.
  Definition wf_reply (r : sreply) : bool :=
    let '(c, ls) := r in
    code_ok c && forallb is_digit c
    && match ls with [] => false | _ => true end
    && forallb no_lf ls
    && match utf8_dec (join CRLF ls) with Some _ => true | None => false end.

  (* a reply that is fine on the wire but whose text is not UTF-8 (ISO-8859-1 text,
     truncated sequences, lone continuation bytes, overlongs): recv_reply raises
     BadReply for it - after having consumed it *)
  Definition bad_utf8 (r : sreply) : bool :=
    let '(c, ls) := r in
    code_ok c && forallb is_digit c
    && match ls with [] => false | _ => true end
    && forallb no_lf ls
    && match utf8_dec (join CRLF ls) with Some _ => false | None => true end.
  Definition script_ok (r : sreply) : bool := wf_reply r || bad_utf8 r.

  Definition rtext (r : sreply) : list N :=
    match utf8_dec (join CRLF (snd r)) with Some t => t | None => [] end.

  (* what a Reply object of kind k holds once it has received reply r *)
  Definition raw_filled (k : kind) (r : sreply) : reply :=
    set_message udigit uspace (mkReply (fst r) (esc0 k) []) (rtext r).
  Definition filled (k : kind) (r : sreply) : reply :=
    let x := raw_filled k r in
    match k with
    | KHello =>
        if beqb (r_code x) C250
        then set_message udigit uspace x (fst (parse_string (get_message x)))
        else x
    | _ => x
    end.
  Definition unfilled (k : kind) : reply := mkReply [] (esc0 k) [].
End Client.

(* ---------- vocabulary of the theorems in prop/C10.v ---------- *)
Definition dflt : sreply := ([], []).

(* the Reply objects a call handed to its caller *)
Definition result_ids (r : result) : list nat :=
  match r with RObj id => [id] | RPairs l => map snd l | RExn _ => [] end.
(* the call returned normally, or raised before anything was queued or sent *)
Definition result_ok (r : result) : Prop :=
  match r with
  | RObj _ => True | RPairs _ => True
  | RExn XEncode => True | RExn XNotImpl => True
  | RExn _ => False
  end.
(* the same, when the script may contain undecodable replies: BadReply for the call
   that was reading one *)
Definition result_ok_gen (r : result) : Prop :=
  match r with
  | RExn XBadCode => False | RExn XLost => False | RExn XDead => False | RExn XAttr => False
  | _ => True
  end.
(* (address, object) was produced by a call rcptto(address) that returned that object *)
Definition from_call (ops : list op) (results : list result) (p : list N * nat) : Prop :=
  exists k, nth_error ops k = Some (ORcpt (fst p)) /\ nth_error results k = Some (RObj (snd p)).
(* code class 2 (LmtpClient: rcptto_reply.code and rcptto_reply.code.startswith('2')) *)
Definition class2 (c : bytes) : bool := match c with k :: _ => (k =? 50) | [] => false end.
(* pair the addresses, in order, with the objects n, n+1, ... *)
Fixpoint number (n : nat) (l : list (list N)) : list (list N * nat) :=
  match l with [] => [] | a :: l' => (a, n) :: number (S n) l' end.
