(* Model for C19: relay connection pools (definitions only, no proofs).

   Mirrors   slimta/util/deque.py      BlockingDeque                       (part 1)
             slimta/relay/pool.py      RelayPool, RelayPoolClient.poll     (part 2)
             slimta/relay/smtp/client.py  SmtpRelayClient._run/_deliver/_send_envelope/_rset
                                       at the level of "which commands go on the wire" (part 3)

   Part 2 is a transition system over lib/Sched.v: events are chosen by an
   arbitrary schedule; an event that is not enabled returns None.  Concrete
   clients plug in through the *contract* (see [contract_ev]): a client that
   polled a request completes it with a result for the request's OWN envelope
   (EvDone) or puts it back (EvRequeue) before it exits; EvAbandon is the
   contract violation (HTTP client before the D15 repair) and is only there
   to show that the contract is needed. *)
From Coq Require Import List NArith Bool.
From SV Require Import lib.Sched.
Import ListNotations.
Open Scope N_scope.

Definition nlen {A} (l : list A) : N := N.of_nat (length l).

(* ------------------------------------------------------------------ *)
(* 1. BlockingDeque: a deque plus a gevent Semaphore counting its items *)

Section Deque.
  Variable A : Type.
  Variable eqA : A -> A -> bool.

  Record dq : Type := mkDq { items : list A; cnt : N }.   (* cnt = self.sema.counter *)

  (* __init__: Semaphore(len(self)) *)
  Definition dq_new (l : list A) : dq := mkDq l (nlen l).
  (* append: super().append(x); sema.release() *)
  Definition dq_append (x : A) (d : dq) : dq := mkDq (items d ++ [x]) (cnt d + 1).
  (* appendleft *)
  Definition dq_appendleft (x : A) (d : dq) : dq := mkDq (x :: items d) (cnt d + 1).
  (* clear: super().clear(); while not sema.locked(): sema.acquire(blocking=False) *)
  Definition dq_clear (d : dq) : dq := mkDq [] 0.
  (* extend: pre_n = len; super().extend(xs); post_n = len; release() post_n - pre_n times *)
  Definition dq_extend (xs : list A) (d : dq) : dq :=
    let post := items d ++ xs in mkDq post (cnt d + (nlen post - nlen (items d))).
  (* extendleft: deque.extendleft reverses the argument *)
  Definition dq_extendleft (xs : list A) (d : dq) : dq :=
    let post := rev xs ++ items d in mkDq post (cnt d + (nlen post - nlen (items d))).

  Inductive pop_res : Type :=
  | PopBlock                       (* sema.acquire() would block: counter is 0 *)
  | PopIndexError (d : dq)         (* acquired, then deque.pop*() raised IndexError *)
  | PopOk (x : A) (d : dq).

  (* popleft: sema.acquire(); return super().popleft() *)
  Definition dq_popleft (d : dq) : pop_res :=
    if cnt d =? 0 then PopBlock
    else match items d with
         | [] => PopIndexError (mkDq [] (cnt d - 1))
         | x :: l => PopOk x (mkDq l (cnt d - 1))
         end.

  (* pop: sema.acquire(); return super().pop() *)
  Definition dq_pop (d : dq) : pop_res :=
    if cnt d =? 0 then PopBlock
    else match rev (items d) with
         | [] => PopIndexError (mkDq [] (cnt d - 1))
         | x :: l => PopOk x (mkDq (rev l) (cnt d - 1))
         end.

  Fixpoint remove_first (x : A) (l : list A) : option (list A) :=
    match l with
    | [] => None
    | y :: l' => if eqA x y then Some l'
                 else match remove_first x l' with Some r => Some (y :: r) | None => None end
    end.

  Inductive rem_res : Type :=
  | RemValueError                  (* x not in deque: raised before the acquire *)
  | RemBlock (d : dq)              (* removed, then sema.acquire() would block *)
  | RemOk (d : dq).

  (* remove: super().remove(x); sema.acquire() *)
  Definition dq_remove (x : A) (d : dq) : rem_res :=
    match remove_first x (items d) with
    | None => RemValueError
    | Some l => if cnt d =? 0 then RemBlock (mkDq l 0) else RemOk (mkDq l (cnt d - 1))
    end.
End Deque.

Arguments mkDq {A}. Arguments items {A}. Arguments cnt {A}.
Arguments dq_new {A}. Arguments dq_append {A}. Arguments dq_appendleft {A}. Arguments dq_clear {A}.
Arguments dq_extend {A}. Arguments dq_extendleft {A}. Arguments dq_popleft {A}. Arguments dq_pop {A}.
Arguments dq_remove {A}. Arguments PopBlock {A}. Arguments PopIndexError {A}. Arguments PopOk {A}.
Arguments RemValueError {A}. Arguments RemBlock {A}. Arguments RemOk {A}.

(* the deque alone, driven by an arbitrary sequence of method calls *)
Inductive dq_op : Type :=
| OAppend (x : N) | OAppendLeft (x : N) | OClear | OExtend (xs : list N) | OExtendLeft (xs : list N)
| OPop | OPopLeft | ORemove (x : N).

Inductive dq_out : Type :=
| RNone | RBlocked | RItem (x : N) | RIndexError | RValueError | RRemoveBlocked.

Definition out_of_pop (d : dq N) (r : pop_res N) : dq N * dq_out :=
  match r with
  | PopBlock => (d, RBlocked)
  | PopIndexError d' => (d', RIndexError)
  | PopOk x d' => (d', RItem x)
  end.

Definition dq_apply (d : dq N) (o : dq_op) : dq N * dq_out :=
  match o with
  | OAppend x => (dq_append x d, RNone)
  | OAppendLeft x => (dq_appendleft x d, RNone)
  | OClear => (dq_clear d, RNone)
  | OExtend xs => (dq_extend xs d, RNone)
  | OExtendLeft xs => (dq_extendleft xs d, RNone)
  | OPop => out_of_pop d (dq_pop d)
  | OPopLeft => out_of_pop d (dq_popleft d)
  | ORemove x => match dq_remove N.eqb x d with
                 | RemValueError => (d, RValueError)
                 | RemBlock d' => (d', RRemoveBlocked)
                 | RemOk d' => (d', RNone)
                 end
  end.

(* state after the calls, and the outputs of the calls (latest first) *)
Definition dq_run_step (acc : dq N * list dq_out) (o : dq_op) : dq N * list dq_out :=
  let (d', r) := dq_apply (fst acc) o in (d', r :: snd acc).
Definition dq_run (l0 : list N) (ops : list dq_op) : dq N * list dq_out :=
  fold_left dq_run_step ops (dq_new l0, []).

Definition out_is_bad (r : dq_out) : bool :=
  match r with RIndexError | RRemoveBlocked => true | _ => false end.

(* ------------------------------------------------------------------ *)
(* 2. RelayPool *)

(* a delivery request: (AsyncResult, Envelope), both by identity *)
Record request : Type := mkReq { r_slot : N; r_env : N }.

Definition req_eqb (a b : request) : bool := (r_slot a =? r_slot b) && (r_env a =? r_env b).

Inductive cstate : Type :=
| Busy                             (* "Started": spawned by _add_client and not yet in poll(), or between two
                                      requests (RSET, connection set-up...): idle = False, holds no request *)
| Polling (deadline : option N)    (* inside poll(): idle = True, blocked in queue.popleft() under Timeout(idle_timeout, False) *)
| Delivering (r : request)         (* poll() returned r; idle = False *)
| Exiting.                         (* _run is over (or only disconnecting); still in pool until the link callback _remove_client *)

Record client : Type := mkClient { c_id : N; c_st : cstate }.

(* a completed AsyncResult: the slot, the envelope the client computed the result from, the kind of result *)
Record result : Type := mkRes { res_slot : N; res_env : N; res_kind : N }.
Definition res_req (r : result) : request := mkReq (res_slot r) (res_env r).

(* pool_size (None and 0 both mean unbounded: `not self.pool_size`), idle_timeout *)
Record config : Type := mkCfg { size : N; idle : option N }.

Record pstate : Type := mkSt {
  pool : list client;        (* RelayPool.pool, in creation order *)
  q : dq request;            (* RelayPool.queue *)
  waiters : list N;          (* clients blocked in sema.acquire(), in arrival order (gevent wakes them FIFO);
                                used only by the FIFO scheduler below *)
  now : N;                   (* clock *)
  next_cid : N;
  next_slot : N;
  attempts : list request;   (* ghost: every attempt() call: its AsyncResult and ITS envelope *)
  results : list result;     (* ghost: every AsyncResult.set / set_exception *)
  crashed : bool             (* ghost: some popleft raised IndexError *)
}.

Definition init_state : pstate := mkSt [] (dq_new []) [] 0 0 0 [] [] false.

Definition set_pool (p : list client) (s : pstate) : pstate :=
  mkSt p (q s) (waiters s) (now s) (next_cid s) (next_slot s) (attempts s) (results s) (crashed s).
Definition set_q (d : dq request) (s : pstate) : pstate :=
  mkSt (pool s) d (waiters s) (now s) (next_cid s) (next_slot s) (attempts s) (results s) (crashed s).
Definition set_waiters (w : list N) (s : pstate) : pstate :=
  mkSt (pool s) (q s) w (now s) (next_cid s) (next_slot s) (attempts s) (results s) (crashed s).
Definition set_now (t : N) (s : pstate) : pstate :=
  mkSt (pool s) (q s) (waiters s) t (next_cid s) (next_slot s) (attempts s) (results s) (crashed s).
Definition set_crashed (s : pstate) : pstate :=
  mkSt (pool s) (q s) (waiters s) (now s) (next_cid s) (next_slot s) (attempts s) (results s) true.
Definition add_result (r : result) (s : pstate) : pstate :=
  mkSt (pool s) (q s) (waiters s) (now s) (next_cid s) (next_slot s) (attempts s) (results s ++ [r]) (crashed s).

Fixpoint find_client (c : N) (p : list client) : option client :=
  match p with
  | [] => None
  | cl :: p' => if c_id cl =? c then Some cl else find_client c p'
  end.

Fixpoint set_cst (c : N) (st : cstate) (p : list client) : list client :=
  match p with
  | [] => []
  | cl :: p' => if c_id cl =? c then mkClient c st :: p' else cl :: set_cst c st p'
  end.

Fixpoint del_client (c : N) (p : list client) : list client :=
  match p with
  | [] => []
  | cl :: p' => if c_id cl =? c then p' else cl :: del_client c p'
  end.

Definition cst_of (c : N) (s : pstate) : option cstate :=
  match find_client c (pool s) with Some cl => Some (c_st cl) | None => None end.

Definition to_state (c : N) (st : cstate) (s : pstate) : pstate := set_pool (set_cst c st (pool s)) s.

Definition is_polling (cl : client) : bool :=
  match c_st cl with Polling _ => true | _ => false end.

Definition del_waiter (c : N) (w : list N) : list N := filter (fun x => negb (x =? c)) w.

(* _add_client: client = add_client(); client.start(); client.link(_remove_client); pool.add(client) *)
Definition add_client (s : pstate) : pstate :=
  mkSt (pool s ++ [mkClient (next_cid s) Busy]) (q s) (waiters s) (now s) (next_cid s + 1)
       (next_slot s) (attempts s) (results s) (crashed s).

(* _check_idle: for client in pool: if client.idle: return
                if not pool_size or len(pool) < pool_size: _add_client() *)
Definition check_idle (cfg : config) (s : pstate) : pstate :=
  if existsb is_polling (pool s) then s
  else if (size cfg =? 0) || (nlen (pool s) <? size cfg) then add_client s
  else s.

(* attempt: _check_idle(); result = AsyncResult(); queue.append((result, envelope)); result.get() *)
Definition do_attempt (cfg : config) (env : N) (s : pstate) : pstate :=
  let s1 := check_idle cfg s in
  let r := mkReq (next_slot s1) env in
  mkSt (pool s1) (dq_append r (q s1)) (waiters s1) (now s1) (next_cid s1) (next_slot s1 + 1)
       (attempts s1 ++ [r]) (results s1) (crashed s1).

(* poll() entry: idle = True; with Timeout(idle_timeout, False): queue.popleft() *)
Definition deadline_of (cfg : config) (s : pstate) : option N :=
  match idle cfg with Some d => Some (now s + d) | None => None end.
Definition enter_poll (cfg : config) (c : N) (s : pstate) : pstate :=
  set_waiters (waiters s ++ [c]) (to_state c (Polling (deadline_of cfg s)) s).
(* poll() exit (finally: idle = False) into state st *)
Definition leave_poll (c : N) (st : cstate) (s : pstate) : pstate :=
  set_waiters (del_waiter c (waiters s)) (to_state c st s).

(* _remove_client (link callback): pool.remove(client); if len(queue) > 0 and not pool: _add_client() *)
Definition remove_client (c : N) (s : pstate) : pstate :=
  let s1 := set_pool (del_client c (pool s)) s in
  if (0 <? nlen (items (q s1))) && (match pool s1 with [] => true | _ => false end)
  then add_client s1 else s1.

Inductive pevent : Type :=
| EvAttempt (env : N)            (* a caller enters RelayPool.attempt(envelope) *)
| EvAdvance (d : N)              (* time passes *)
| EvEnterPoll (c : N)            (* client calls poll() *)
| EvGiveUp (c : N)               (* client's _run ends (idle_timeout None, connection dead, connect-first client failed...) *)
| EvPoll (c : N)                 (* the client's popleft() returns the head request *)
| EvIdle (c : N)                 (* idle timeout: poll() returns (None, None) *)
| EvDone (c : N) (kind : N)      (* client completes ITS request with a result computed from the request's envelope *)
| EvRequeue (c : N)              (* server-initiated timeout: queue.appendleft((result, envelope)) *)
| EvAbandon (c : N)              (* CONTRACT VIOLATION: client drops its request without completing it *)
| EvExit (c : N).                (* link callback _remove_client(client) *)

Definition pstep (cfg : config) (s : pstate) (e : pevent) : option pstate :=
  match e with
  | EvAttempt env => Some (do_attempt cfg env s)
  | EvAdvance d => Some (set_now (now s + d) s)
  | EvEnterPoll c =>
      match cst_of c s with
      | Some Busy => Some (enter_poll cfg c s)
      | _ => None
      end
  | EvGiveUp c =>
      match cst_of c s with
      | Some Busy => Some (to_state c Exiting s)
      | _ => None
      end
  | EvPoll c =>
      match cst_of c s with
      | Some (Polling _) =>
          match dq_popleft (q s) with
          | PopBlock => None
          | PopIndexError d => Some (set_crashed (set_q d (leave_poll c Exiting s)))
          | PopOk r d => Some (set_q d (leave_poll c (Delivering r) s))
          end
      | _ => None
      end
  | EvIdle c =>
      match cst_of c s with
      | Some (Polling (Some dl)) => if dl <=? now s then Some (leave_poll c Busy s) else None
      | _ => None
      end
  | EvDone c k =>
      match cst_of c s with
      | Some (Delivering r) => Some (to_state c Busy (add_result (mkRes (r_slot r) (r_env r) k) s))
      | _ => None
      end
  | EvRequeue c =>
      match cst_of c s with
      | Some (Delivering r) => Some (to_state c Busy (set_q (dq_appendleft r (q s)) s))
      | _ => None
      end
  | EvAbandon c =>
      match cst_of c s with
      | Some (Delivering r) => Some (to_state c Busy s)
      | _ => None
      end
  | EvExit c =>
      match cst_of c s with
      | Some Exiting => Some (remove_client c s)
      | _ => None
      end
  end.

Definition pool_sys (cfg : config) : sys := mkSys pstate pevent init_state (pstep cfg).

(* the contract between the pool and its clients *)
Definition contract_ev (e : pevent) : Prop :=
  match e with EvAbandon _ => False | _ => True end.

(* events the pool machinery performs by itself once they are enabled: semaphore wake-up, idle
   timer, link callback.  (What a Busy or Delivering client does next is up to the client and the
   remote server.) *)
Definition internal_ev (e : pevent) : Prop :=
  match e with
  | EvPoll _ | EvIdle _ | EvExit _ => True
  | _ => False
  end.

(* requests held by clients *)
Definition req_of (st : cstate) : list request :=
  match st with Delivering r => [r] | _ => [] end.
Definition inflight (p : list client) : list request := flat_map (fun cl => req_of (c_st cl)) p.

(* no internal event is enabled (decidable form of [quiescent internal_ev], see Pool_lemmas) *)
Definition client_quiet (s : pstate) (cl : client) : bool :=
  match c_st cl with
  | Busy | Delivering _ => true
  | Exiting => false
  | Polling dl => (cnt (q s) =? 0) && match dl with Some d => negb (d <=? now s) | None => true end
  end.
Definition quiescent_b (s : pstate) : bool := forallb (client_quiet s) (pool s).

(* ---- FIFO scheduler used by the correspondence runs (gevent: one harness action, then the
        run queue drains; semaphore waiters are woken in arrival order, due timers fire in
        arrival order). *)
Definition next_internal (s : pstate) : option pevent :=
  match waiters s with
  | c :: _ => if 0 <? cnt (q s) then Some (EvPoll c) else None
  | [] => None
  end.

Fixpoint settle (cfg : config) (fuel : nat) (s : pstate) : pstate :=
  match fuel with
  | O => s
  | S f => match next_internal s with
           | Some e => match pstep cfg s e with
                       | Some s' => settle cfg f s'
                       | None => s
                       end
           | None => s
           end
  end.

Definition is_due (s : pstate) (c : N) : bool :=
  match cst_of c s with
  | Some (Polling (Some dl)) => dl <=? now s
  | _ => false
  end.

Definition fifo_step (cfg : config) (fuel : nat) (s : pstate) (e : pevent) : pstate :=
  let s1 := exec (S := pool_sys cfg) s e in
  let s2 := match e with
            | EvAdvance _ =>
                fold_left (fun st c => exec (S := pool_sys cfg) st (EvIdle c))
                          (filter (is_due s1) (waiters s1)) s1
            | _ => s1
            end in
  settle cfg fuel s2.

(* ------------------------------------------------------------------ *)
(* 3. SmtpRelayClient: what goes on the wire of ONE connection, per message *)

Inductive srv : Type :=
| SOk          (* non-error reply *)
| SRej         (* 5xx reply *)
| SRej4        (* 4xx reply *)
| SDrop.       (* no usable reply: connection lost / command timeout / socket error *)

Record mscript : Type := mkMs {
  ms_pre : bool;          (* _check_server_timeout(): an unsolicited reply is waiting before this message *)
  ms_enc : bool;          (* _handle_encoding succeeds *)
  ms_mail : srv;
  ms_rcpts : list srv;    (* one per recipient *)
  ms_data : srv;
  ms_body : srv;          (* reply to the message data (or to the empty data) *)
  ms_rset : bool          (* the RSET round trip survives *)
}.

Inductive wire : Type :=
| WConnect | WHandshake
| WMail (e : N) | WRcpt (e : N) | WData (e : N) | WBody (e : N) | WEmptyBody (e : N)
| WRset | WQuit | WClose
| WResult (e : N) (ok : bool)   (* ghost: the AsyncResult of envelope e's request is completed:
                                   result.set(...) (ok) / result.set_exception(...) *)
| WResultRcpts (e : N)          (* ghost: _set_failure's rcpt_errors branch: the transaction failed (every
                                   recipient rejected, for different classes of reasons) and is reported
                                   with result.set({rcpt: its own error}) *)
| WRequeue (e : N).             (* ghost: queue.appendleft((result, envelope)) *)

Inductive dres : Type :=
| DOk                       (* result.set(...) done *)
| DRejected (mixed : bool) (alive : bool)
                            (* _set_failure done (mixed: through its rcpt_errors branch), RSET sent;
                               alive = RSET round trip survived *)
| DLost.                    (* exception propagates to _run; result NOT yet completed *)

Definition is_rej (x : srv) : bool := match x with SRej | SRej4 => true | _ => false end.
Definition is_rej4 (x : srv) : bool := match x with SRej4 => true | _ => false end.
Definition is_rej5 (x : srv) : bool := match x with SRej => true | _ => false end.
(* _check_replies: `any(type(error) is not type(errors[0]) ...)`: SmtpRelayError.factory gives the
   transient class for 4xx and the permanent class for 5xx *)
Definition mixed_class (l : list srv) : bool := existsb is_rej4 l && existsb is_rej5 l.

(* _set_failure(result, envelope, exc) *)
Definition set_failure (e : N) (mixed : bool) : wire :=
  if mixed then WResultRcpts e else WResult e false.
Definition is_drop (x : srv) : bool := match x with SDrop => true | _ => false end.

(* [self._rcptto(rcpt) for rcpt in envelope.recipients] without PIPELINING: stops at the first lost reply *)
Fixpoint send_rcpts (e : N) (l : list srv) : list wire * bool :=
  match l with
  | [] => ([], true)
  | SDrop :: _ => ([WRcpt e], false)
  | _ :: l' => let (w, ok) := send_rcpts e l' in (WRcpt e :: w, ok)
  end.

(* except SmtpRelayError in _deliver: self._set_failure(result, envelope, e); self._rset()
   [mx]: the exception carries rcpt_errors *)
Definition failed (e : N) (sc : mscript) (mx : bool) (pre : list wire) : list wire * dres :=
  (pre ++ [set_failure e mx; WRset], DRejected mx (ms_rset sc)).

(* `if data and not data.is_error(): self._send_empty_data()` inside `except SmtpRelayError`, then
   re-raise to _deliver (set_exception; _rset).  Without PIPELINING the lone "." is flushed and
   its reply read at once (under the data timeout); with PIPELINING send_empty_data only buffers
   it: it reaches the wire, and its reply is read, together with RSET - after the result was set. *)
Definition empty_data (pipe : bool) (e : N) (sc : mscript) (mx : bool) (pre : list wire)
  : list wire * dres :=
  if pipe then
    (pre ++ [set_failure e mx; WEmptyBody e; WRset],
     DRejected mx (negb (is_drop (ms_body sc)) && ms_rset sc))
  else
    match ms_body sc with
    | SDrop => (pre ++ [WEmptyBody e], DLost)
    | _ => failed e sc mx (pre ++ [WEmptyBody e])
    end.

(* after DATA was answered: _check_replies, then the body.  mail_rej: MAIL reply is an error (only
   possible here with PIPELINING) *)
Definition after_data (pipe : bool) (e : N) (sc : mscript) (mail_rej : bool) (pre : list wire)
  : list wire * dres :=
  match ms_rcpts sc with
  | [] => if mail_rej
          then match ms_data sc with
               | SOk => empty_data pipe e sc false pre
               | _ => failed e sc false pre
               end
          else (pre, DLost)                    (* rcpttos[0]: IndexError, not a SmtpRelayError *)
  | _ =>
    if mail_rej || forallb is_rej (ms_rcpts sc) || is_rej (ms_data sc) then
      (* raise in _check_replies: the MAIL error first; then, when every recipient was rejected,
         errors[0] - carrying rcpt_errors when the classes differ; then the DATA error *)
      let mx := negb mail_rej && forallb is_rej (ms_rcpts sc) && mixed_class (ms_rcpts sc) in
      match ms_data sc with
      | SOk => empty_data pipe e sc mx pre
      | _ => failed e sc mx pre
      end
    else
      match ms_body sc with
      | SOk => (pre ++ [WBody e; WResult e true], DOk)
      | SDrop => (pre ++ [WBody e], DLost)
      | _ => failed e sc false (pre ++ [WBody e])
      end
  end.

(* _deliver(result, envelope) = _handle_encoding; _send_envelope; _send_message_data *)
Definition deliver (pipe : bool) (e : N) (sc : mscript) : list wire * dres :=
  if negb (ms_enc sc) then failed e sc false []
  else if pipe then
    (* MAIL, RCPT..., DATA are written before any reply is read *)
    let pre := WMail e :: map (fun _ => WRcpt e) (ms_rcpts sc) ++ [WData e] in
    if is_drop (ms_mail sc) || existsb is_drop (ms_rcpts sc) || is_drop (ms_data sc)
    then (pre, DLost)
    else after_data pipe e sc (is_rej (ms_mail sc)) pre
  else
    match ms_mail sc with
    | SDrop => ([WMail e], DLost)
    | SRej | SRej4 => failed e sc false [WMail e]
    | SOk =>
        let (wr, alive) := send_rcpts e (ms_rcpts sc) in
        if negb alive then (WMail e :: wr, DLost)
        else match ms_data sc with
             | SDrop => (WMail e :: wr ++ [WData e], DLost)
             | _ => after_data pipe e sc false (WMail e :: wr ++ [WData e])
             end
    end.

(* what the client does as a member of the pool *)
Inductive cact : Type :=
| AEnter                          (* calls poll() *)
| APoll (r : request)             (* poll() returned r *)
| AIdle                           (* poll() returned (None, None) *)
| ADone (r : request) (kind : N)  (* r's AsyncResult completed from r's envelope *)
| ARequeue (r : request)          (* queue.appendleft(r) *)
| AExit.                          (* _run returns *)

Definition K_OK : N := 0.
Definition K_REJECTED : N := 1.
Definition K_LOST : N := 2.
Definition K_RCPTS : N := 3.      (* failed; reported as a dict of per-recipient errors *)

Definition poll_item : Type := option (request * mscript).   (* None: idle timeout expired *)

(* the `while result:` loop of _run; [rest] = what later poll() calls return ([] = blocks for ever).
   Result: wire log, pool-level actions, left the loop? *)
Fixpoint smtp_loop (pipe reuse : bool) (rest : list poll_item) (r : request) (sc : mscript)
  {struct rest} : list wire * list cact * bool :=
  let e := r_env r in
  if ms_pre sc then ([WRequeue e], [ARequeue r], true)      (* queue.appendleft; break *)
  else
    let (w, d) := deliver pipe e sc in
    let continue (k : N) :=
      if reuse then                                          (* idle_timeout is not None: poll again *)
        match rest with
        | [] => (w, [ADone r k; AEnter], false)
        | None :: _ => (w, [ADone r k; AEnter; AIdle], true)
        | Some (r', sc') :: rest' =>
            let '(w', a', x') := smtp_loop pipe reuse rest' r' sc' in
            (w ++ w', ADone r k :: AEnter :: APoll r' :: a', x')
        end
      else (w, [ADone r k], true) in
    match d with
    | DOk => continue K_OK
    | DRejected mx true => continue (if mx then K_RCPTS else K_REJECTED)
    | DRejected mx false => (w, [ADone r (if mx then K_RCPTS else K_REJECTED)], true)
    | DLost => (w ++ [WResult e false], [ADone r K_LOST], true)
    end.

Record cscript : Type := mkCs { cs_connect : bool; cs_handshake : srv }.

(* SmtpRelayClient._run *)
Definition smtp_run (pipe reuse : bool) (cs : cscript) (polls : list poll_item)
  : list wire * list cact * bool :=
  match polls with
  | [] => ([], [AEnter], false)                             (* first poll() never returns *)
  | None :: _ => ([], [AEnter; AIdle; AExit], true)         (* `if not result: return` *)
  | Some (r, sc) :: rest =>
      let e := r_env r in
      if negb (cs_connect cs) then
        ([WConnect; WResult e false], [AEnter; APoll r; ADone r K_LOST; AExit], true)
      else match cs_handshake cs with
      | SRej | SRej4 => ([WConnect; WHandshake; WResult e false; WQuit; WClose],
                 [AEnter; APoll r; ADone r K_REJECTED; AExit], true)
      | SDrop => ([WConnect; WHandshake; WResult e false; WQuit; WClose],
                  [AEnter; APoll r; ADone r K_LOST; AExit], true)
      | SOk =>
          let '(w, a, x) := smtp_loop pipe reuse rest r sc in
          if x then (WConnect :: WHandshake :: w ++ [WQuit; WClose], AEnter :: APoll r :: a ++ [AExit], true)
          else (WConnect :: WHandshake :: w, AEnter :: APoll r :: a, false)
      end
  end.

(* --- the properties of a wire log, as checkers --- *)

(* one message at a time: between MAIL e and the end of its transaction (message data, RSET or
   the end of the connection) every command and every completed result is for e *)
Fixpoint one_at_a_time (cur : option N) (log : list wire) : bool :=
  match log with
  | [] => true
  | w :: l =>
      match w with
      | WMail e => match cur with None => one_at_a_time (Some e) l | Some _ => false end
      | WRcpt e | WData e => match cur with Some e' => (e =? e') && one_at_a_time cur l | None => false end
      | WBody e | WEmptyBody e =>
          match cur with Some e' => (e =? e') && one_at_a_time None l | None => false end
      | WRset => one_at_a_time None l
      | WResult e _ | WResultRcpts e | WRequeue e =>
          match cur with Some e' => (e =? e') && one_at_a_time cur l | None => one_at_a_time cur l end
      | WConnect | WHandshake | WQuit | WClose => one_at_a_time cur l
      end
  end.

(* a failed transaction is reset before the next message: after a failed transaction - reported
   with set_exception (WResult _ false) or, for recipients rejected in different classes, with a
   dict of per-recipient errors (WResultRcpts) - no MAIL until RSET *)
Fixpoint reset_after_failure (dirty : bool) (log : list wire) : bool :=
  match log with
  | [] => true
  | w :: l =>
      match w with
      | WResult _ false | WResultRcpts _ => reset_after_failure true l
      | WRset => reset_after_failure false l
      | WMail _ => if dirty then false else reset_after_failure dirty l
      | _ => reset_after_failure dirty l
      end
  end.

(* the pool contract, on the client's actions: a polled request is completed with a result for
   that very request, or put back, before the client polls again or exits *)
Inductive chold : Type := HBusy | HPolling | HHolding (r : request).

Fixpoint follows_contract (h : chold) (acts : list cact) : bool :=
  match acts with
  | [] => match h with HHolding _ => false | _ => true end
  | a :: l =>
      match a, h with
      | AEnter, HBusy => follows_contract HPolling l
      | APoll r, HPolling => follows_contract (HHolding r) l
      | AIdle, HPolling => follows_contract HBusy l
      | ADone r _, HHolding r' => req_eqb r r' && follows_contract HBusy l
      | ARequeue r, HHolding r' => req_eqb r r' && follows_contract HBusy l
      | AExit, HBusy => match l with [] => true | _ => false end
      | _, _ => false
      end
  end.

(* the client's actions as pool events of client c *)
Definition evs_of_act (c : N) (a : cact) : list pevent :=
  match a with
  | AEnter => [EvEnterPoll c]
  | APoll _ => [EvPoll c]
  | AIdle => [EvIdle c]
  | ADone _ k => [EvDone c k]
  | ARequeue _ => [EvRequeue c]
  | AExit => [EvGiveUp c; EvExit c]
  end.

(* ------------------------------------------------------------------ *)
(* 4. HttpRelayClient (after the D15 repair): what happens on ONE client's connection.
      Mirrors slimta/relay/http.py HttpRelayClient._run / _wait_for_request / _handle_request. *)

Inductive hsrv : Type :=
| HOk          (* 2xx response *)
| HRej         (* complete non-2xx response: result.set_exception, the exchange itself is complete *)
| HRefused     (* connecting fails (on an already open connection: same as HHangup) *)
| HTimeout     (* gevent.Timeout(relay.timeout) fires inside _handle_request *)
| HHangup.     (* any other exception during the exchange *)

Inductive hwire : Type :=
| HRequest (e : N)             (* conn.putrequest(...) for envelope e *)
| HConnect                     (* http.client opens the socket (lazily, at the first send) *)
| HResponse (e : N)            (* conn.getresponse() returned *)
| HCloseW                      (* conn.close() *)
| HResultW (e : N) (ok : bool). (* ghost: the AsyncResult of envelope e's request is completed *)

Definition hpoll_item : Type := option (request * hsrv).   (* None: idle timeout expired *)

(* _run:  try: while True: _wait_for_request(); if not idle_timeout: break
          except gevent.Timeout: pass
          finally: if self.conn: self.conn.close()
   [conn]: self.conn is an open connection.  Result: wire log, pool-level actions, _run ended? *)
Fixpoint http_loop (reuse : bool) (conn : bool) (polls : list hpoll_item)
  : list hwire * list cact * bool :=
  match polls with
  | [] => ([], [AEnter], false)                                   (* poll() blocks for ever *)
  | None :: rest =>
      (* poll() returned (None, None): `if self.conn: self.conn.close(); self.conn = None` *)
      let w0 := if conn then [HCloseW] else [] in
      if reuse then
        let '(w, a, x) := http_loop reuse false rest in (w0 ++ w, AEnter :: AIdle :: a, x)
      else (w0, [AEnter; AIdle; AExit], true)
  | Some (r, h) :: rest =>
      let e := r_env r in
      let open := if conn then [] else [HConnect] in
      let complete (ok : bool) (k : N) :=
        (* the exchange ran to its end; the connection stays open *)
        let w1 := HRequest e :: open ++ [HResponse e; HResultW e ok] in
        if reuse then
          let '(w, a, x) := http_loop reuse true rest in
          (w1 ++ w, AEnter :: APoll r :: ADone r k :: a, x)
        else (w1 ++ [HCloseW], [AEnter; APoll r; ADone r k; AExit], true) in
      (* the exchange broke: result.set_exception(TransientRelayError); raise -> out of _run;
         finally: conn.close() *)
      let broken (w1 : list hwire) :=
        (w1 ++ [HResultW e false; HCloseW], [AEnter; APoll r; ADone r K_LOST; AExit], true) in
      match h with
      | HOk => complete true K_OK
      | HRej => complete false K_REJECTED
      | HTimeout => broken (HRequest e :: open)
      | HRefused => if conn then broken ([HRequest e; HCloseW]) else broken [HRequest e; HConnect]
      | HHangup => broken (HRequest e :: open ++ [HCloseW])   (* http.client closes the connection
                                                                  itself when the peer hangs up *)
      end
  end.

Definition http_run (reuse : bool) (polls : list hpoll_item) := http_loop reuse false polls.

(* one exchange at a time on the connection, and an exchange that did not run to its end
   (its result was completed before the response arrived) is followed by close() before the next
   request *)
Inductive hstate : Type := HClean | HOpen (e : N) | HDirty.

Fixpoint http_clean (st : hstate) (log : list hwire) : bool :=
  match log with
  | [] => true
  | w :: l =>
      match w, st with
      | HRequest e, HClean => http_clean (HOpen e) l
      | HRequest _, _ => false
      | HConnect, _ => http_clean st l
      | HResponse e, HOpen e' => (e =? e') && http_clean HClean l
      | HResponse _, _ => false
      | HCloseW, _ => http_clean HClean l
      | HResultW e _, HOpen e' => (e =? e') && http_clean HDirty l
      | HResultW _ _, _ => http_clean st l
      end
  end.

(* ------------------------------------------------------------------ *)
(* 5. Where the reply inside a "connection lost" result comes from.
      slimta/smtp/client.py  Client._flush_pipeline: `if reply.is_error(): self.last_error = reply`
      (per CONNECTION, never cleared);  slimta/relay/smtp/client.py  SmtpRelayClient._get_error_reply,
      used by _run's `except SmtpError` arm when the current request is not completed yet:
      the server's own words if its last error reply was a 421, else a synthetic 421 4.3.0.
      A connection is seen as the sequence of replies the client READS on it, each tagged with the
      message (envelope) whose exchange it belongs to. *)

Inductive ecode : Type := E421 | E4xx | E5xx.

Inductive rkind : Type :=
| RdOk                  (* a non-error reply was read *)
| RdErr (c : ecode)     (* an error reply was read: becomes Client.last_error *)
| RdLost.               (* the read failed with an SmtpError (connection closed, bad reply) *)

Record rd : Type := mkRd { rd_msg : N; rd_kind : rkind }.

Definition upd_last (last : option (N * ecode)) (r : rd) : option (N * ecode) :=
  match rd_kind r with RdErr c => Some (rd_msg r, c) | _ => last end.

(* _get_error_reply: Some k = the reply the server issued during message k's exchange is passed on;
   None = the synthetic `421 4.3.0 <exception text>` *)
Definition error_source (last : option (N * ecode)) : option N :=
  match last with Some (k, E421) => Some k | _ => None end.

(* the rejected variant (seeded change C19-7): any 4xx last_error is passed on *)
Definition error_source_any4xx (last : option (N * ecode)) : option N :=
  match last with Some (k, E421) | Some (k, E4xx) => Some k | _ => None end.

(* for every failed read: (the message being delivered, where its error reply comes from) *)
Fixpoint lost_sources (pick : option (N * ecode) -> option N) (last : option (N * ecode))
         (tr : list rd) : list (N * option N) :=
  match tr with
  | [] => []
  | r :: tr' =>
      match rd_kind r with
      | RdLost => (rd_msg r, pick last) :: lost_sources pick last tr'
      | _ => lost_sources pick (upd_last last r) tr'
      end
  end.

Definition is_lost (r : rd) : bool := match rd_kind r with RdLost => true | _ => false end.

(* what is assumed of a read trace, on adjacent reads a, b:
   - nothing is read after a failed read (the client leaves the connection);
   - after an error reply of message k the next read still belongs to k (a failed transaction is
     followed by its RSET, a rejected recipient by the rest of the transaction: cf.
     C19_reset_after_failure / C19_one_message_at_a_time);
   - a 421 closes the channel (RFC 5321 3.8): the read after it fails *)
Fixpoint wf_reads (tr : list rd) : bool :=
  match tr with
  | [] => true
  | a :: tr' =>
      (match tr' with
       | [] => true
       | b :: _ =>
           match rd_kind a with
           | RdLost => false
           | RdOk => true
           | RdErr c => (rd_msg b =? rd_msg a) && (match c with E421 => is_lost b | _ => true end)
           end
       end) && wf_reads tr'
  end.

(* ------------------------------------------------------------------ *)
(* 6. Why EvAttempt / EvExit are ONE event each.
      RelayPool._check_idle()/_add_client() and _remove_client() test `len(self.pool) < pool_size`
      (resp. `not self.pool`) and only later execute `self.pool.add(client)`; in between they call
      add_client(), i.e. the client class's constructor.  [pstep] makes the check and the add one
      event: this is the assumption "nothing between the size check and pool.add() yields to the hub"
      (the harness verifies it on every run with a greenlet-switch counter).  If a constructor could
      yield, the two halves would be separate events, as in this two-event cut of _check_idle: *)
Inductive sevent : Type :=
| SCheck      (* a caller finds no idle client and `len(pool) < pool_size`: it commits to add one *)
| SAdd.       (* ... later: pool.add(client) *)

Record sstate : Type := mkSS { s_pool : N; s_committed : N }.

Definition sstep (size : N) (s : sstate) (e : sevent) : option sstate :=
  match e with
  | SCheck => Some (if s_pool s <? size then mkSS (s_pool s) (s_committed s + 1) else s)
  | SAdd => if 0 <? s_committed s then Some (mkSS (s_pool s + 1) (s_committed s - 1)) else None
  end.

Definition split_sys (size : N) : sys := mkSys sstate sevent (mkSS 0 0) (sstep size).
