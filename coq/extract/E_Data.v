(* Entry points (val -> val) for the DATA framing model (property C05);
   evaluated by the extracted OCaml driver and by vm_compute. *)
From Coq Require Import List NArith Bool String.
From SV Require Import lib.Val lib.Bytes model.Data model.DataObj.
Import ListNotations.
Open Scope N_scope.

Definition vlen {A} (l : list A) : val := VN (N.of_nat (List.length l)).

(* [part; part; ...] -> wire bytes of DataSender(parts...) *)
Definition e_send (v : val) : val :=
  match v with
  | VL parts => VB (send (map get_b parts))
  | _ => verr
  end.

(* [part; ...] -> the pieces the DataSender iterator yields *)
Definition e_pieces (v : val) : val :=
  match v with
  | VL parts => VL (map VB (sender_pieces (map get_b parts)))
  | _ => verr
  end.

(* [max_size; recv_buffer; [chunk; ...]]  with max_size = () for None or (n):
   DataReader(io, max_size).recv()
     (0 data new_recv_buffer #chunks-left-in-socket) | (1) ConnectionLost
     | (2 #chunks-left) MessageTooBig *)
Definition e_recv (v : val) : val :=
  match v with
  | VL [VL ms; VB buf; VL chunks] =>
      let max_size := match ms with [VN m] => Some m | _ => None end in
      match dr_recv max_size buf (map get_b chunks) with
      | ROk d rb rest => VL [VN 0; VB d; VB rb; vlen rest]
      | RLost => VL [VN 1]
      | RTooBig rest => VL [VN 2; vlen rest]
      end
  | _ => verr
  end.

(* eod_pattern.match(line) *)
Definition e_is_eod (v : val) : val := vbool (is_eod (get_b v)).

(* batch specification: () or (data rest) *)
Definition e_spec (v : val) : val :=
  match read_spec (get_b v) with
  | Some (d, r) => VL [VB d; VB r]
  | None => VL []
  end.

Definition e_expected (v : val) : val := VB (expected (get_b v)).

(* [[part; ...]; n] -> the wire strings of n successive emissions of ONE DataSender object *)
Definition e_emissions (v : val) : val :=
  match v with
  | VL [VL parts; VN n] => VL (map VB (emissions (sender_new (map get_b parts)) (N.to_nat n)))
  | _ => verr
  end.

Definition entries : list entry :=
  [("c05_send"%string, e_send); ("c05_pieces"%string, e_pieces); ("c05_recv"%string, e_recv);
   ("c05_is_eod"%string, e_is_eod); ("c05_spec"%string, e_spec); ("c05_expected"%string, e_expected);
   ("c05_emissions"%string, e_emissions)].
