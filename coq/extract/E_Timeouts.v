(* Entry points (val -> val) for the C14 model; evaluated by the extracted OCaml driver
   and by vm_compute.  They do not depend on gen/TimeoutTable.v: the harness passes the
   table it obtained from tools/timeouts_ast.py --json, so the driver never goes stale
   when /repo changes. *)
From Coq Require Import List NArith Bool String Ascii.
From SV Require Import lib.Val lib.Bytes model.Timeouts.
Import ListNotations.
Open Scope N_scope.

Fixpoint string_of_bytes (b : list N) : string :=
  match b with [] => EmptyString | x :: b' => String (ascii_of_N x) (string_of_bytes b') end.
Fixpoint bytes_of_string (s : string) : list N :=
  match s with EmptyString => [] | String a s' => N_of_ascii a :: bytes_of_string s' end.

Definition dec_opt (v : val) : option N := match v with VL [VN x] => Some x | _ => None end.
Definition nat_of (v : val) : nat := N.to_nat (get_n v).
Definition vnat (n : nat) : val := VN (N.of_nat n).

Definition dec_texpr (k : N) (text : list N) : texpr :=
  if k =? 0 then TConnect else if k =? 1 then TCommand else if k =? 2 then TData
  else if k =? 3 then TSingle else if k =? 4 then TIdle else if k =? 6 then TExpired
  else TOther (string_of_bytes text).
Definition enc_texpr (e : texpr) : N :=
  match e with TConnect => 0 | TCommand => 1 | TData => 2 | TSingle => 3 | TIdle => 4 | TOther _ => 5
                  | TExpired => 6 end.
Definition enc_scope (o : option texpr) : val :=
  match o with None => VL [] | Some e => VL [VN (enc_texpr e)] end.
Definition dec_scope (v : val) : option texpr :=
  match v with VL [VN k] => Some (dec_texpr k []) | _ => None end.

Definition dec_kind (k : N) : kind :=
  if k =? 0 then KConnect else if k =? 1 then KExchange else if k =? 2 then KRead
  else if k =? 3 then KWrite else if k =? 4 then KHandshake else if k =? 5 then KProc
  else if k =? 6 then KCall else if k =? 7 then KPoll else if k =? 8 then KClose else KLocal.

Definition dec_site (v : val) : site :=
  match v with
  | VL [VB c; VB m; VB callee; VN k; sc; VN line] =>
      mk_site (string_of_bytes c) (string_of_bytes m) (string_of_bytes callee) (dec_kind k)
              (match sc with
               | VL [VN e; VN l; VB text] => Some (dec_texpr e text, l)
               | _ => None end) line
  | _ => mk_site EmptyString EmptyString EmptyString KLocal None 0
  end.
Definition dec_table (v : val) : list site := map dec_site (get_l v).

Definition enc_event (e : event) : val :=
  match e with
  | ECmd t => VL [VN 0; VN t]
  | EDataBegin t => VL [VN 1; VN t]
  | EDataDone t => VL [VN 2; VN t]
  | EClosed t w => VL [VN 3; VN t; VN (match w with WTimeout => 0 | WQuit => 1 | WEof => 2 end)]
  | EBlocked => VL [VN 4]
  end.

(* [cmd_timeout option; data_timeout option; [[delay; chunk] ...]] -> events *)
Definition e_server (v : val) : val :=
  match v with
  | VL [ct; dt; VL input] =>
      VL (map enc_event
              (smtp_run {| c_cmd := dec_opt ct; c_data := dec_opt dt |}
                        (map (fun dc => match dc with
                                        | VL [VN d; VB ch] => (d, ch)
                                        | _ => (0, []) end) input)))
  | _ => verr
  end.

Definition dec_ccfg (v : val) : ccfg :=
  match v with
  | VL [VN a; VN b; VN c; VN d] => {| t_connect := a; t_command := b; t_data := c; t_single := d |}
  | _ => {| t_connect := 0; t_command := 0; t_data := 0; t_single := 0 |}
  end.
Definition dec_acfg (v : val) : acfg :=
  match v with
  | VL [ti; st; au; pi; lm; rj; n; he] =>
      mk_acfg (get_bool ti) (get_bool st) (get_bool au) (get_bool pi) (get_bool lm) (get_bool rj) (nat_of n) (get_bool he)
  | VL [ti; st; au; pi; lm; rj; n] =>
      mk_acfg (get_bool ti) (get_bool st) (get_bool au) (get_bool pi) (get_bool lm) (get_bool rj) (nat_of n) false
  | _ => mk_acfg false false false false false false 0 false
  end.
Definition enc_stage (s : cstage) : val := VL [enc_scope (cs_scope s); vnat (cs_waits s)].
Definition dec_stage (v : val) : cstage :=
  match v with VL [sc; w] => mk_cstage (dec_scope sc) (nat_of w) | _ => mk_cstage None 0 end.

(* [ccfg; stages; delays] -> outcome *)
Definition e_client (v : val) : val :=
  match v with
  | VL [cfg; VL stages; VL ds] =>
      match run_attempt (dec_ccfg cfg) 0 0 (map dec_stage stages) (map dec_opt ds) with
      | CDone t => VL [VN 0; VN t]
      | CTimedOut i t => VL [VN 1; vnat i; VN t]
      | CStuck i => VL [VN 2; vnat i]
      end
  | _ => verr
  end.

(* [table; acfg] -> stages of the attempt with the scopes of that table *)
Definition e_stages (v : val) : val :=
  match v with
  | VL [tbl; a] => VL (map enc_stage (stages_of (dec_table tbl) (dec_acfg a)))
  | _ => verr
  end.

(* [table; acfg] -> what the client greenlet still does after the result was delivered *)
Definition e_linger (v : val) : val :=
  match v with
  | VL [tbl; a] =>
      let t := dec_table tbl in let ac := dec_acfg a in
      VL (map (fun mw => enc_stage (mk_cstage (method_scope t (client_class ac) (fst mw)) (snd mw)))
              (linger_path ac))
  | _ => verr
  end.

(* [unit; connect option; command option; data option] -> effective [connect; command; data] *)
Definition e_effcfg (v : val) : val :=
  match v with
  | VL [VN u; a; b; c] =>
      let e := eff_ccfg u {| r_connect := dec_opt a; r_command := dec_opt b; r_data := dec_opt c |} in
      VL [VN (t_connect e); VN (t_command e); VN (t_data e)]
  | _ => verr
  end.

(* [ccfg; acfg] -> connect + #command stages * command + data *)
Definition e_limit (v : val) : val :=
  match v with
  | VL [cfg; a] => VN (attempt_limit (dec_ccfg cfg) (dec_acfg a))
  | _ => verr
  end.

(* table -> unguarded sites *)
Definition e_unguarded (v : val) : val :=
  VL (map (fun s => VL [VB (bytes_of_string (s_class s)); VB (bytes_of_string (s_method s));
                        VB (bytes_of_string (s_callee s)); VN (s_line s)])
          (unguarded (dec_table v))).

(* [[[method; callee] ...]; table] -> all_guarded *)
Definition e_all_guarded (v : val) : val :=
  match v with
  | VL [VL exc; tbl] =>
      vbool (all_guarded (map (fun k => match k with
                                        | VL [VB m; VB c] => (string_of_bytes m, string_of_bytes c)
                                        | _ => (EmptyString, EmptyString) end) exc)
                         (dec_table tbl))
  | _ => verr
  end.

(* [table; class; method] -> the scope bounding that method's blocking sites *)
Definition e_method_scope (v : val) : val :=
  match v with
  | VL [tbl; VB c; VB m] => enc_scope (method_scope (dec_table tbl) (string_of_bytes c) (string_of_bytes m))
  | _ => verr
  end.

(* [table] -> do the scopes the timed models rely on hold (client SMTP, client LMTP, server) *)
Definition e_model_scopes (v : val) : val :=
  let t := dec_table v in
  VL [vbool (path_scopes_ok t "SmtpRelayClient"); vbool (path_scopes_ok t "LmtpRelayClient");
      vbool (server_scopes_ok t)].

Definition entries : list entry :=
  [("c14_server"%string, e_server); ("c14_client"%string, e_client);
   ("c14_stages"%string, e_stages); ("c14_limit"%string, e_limit); ("c14_effcfg"%string, e_effcfg); ("c14_linger"%string, e_linger);
   ("c14_unguarded"%string, e_unguarded); ("c14_all_guarded"%string, e_all_guarded);
   ("c14_method_scope"%string, e_method_scope); ("c14_model_scopes"%string, e_model_scopes)].
