(* Entry points (val -> val) for the Client model (C10); evaluated by the
   extracted OCaml driver and by vm_compute. *)
From Coq Require Import List NArith Bool String.
From SV Require Import lib.Val lib.Bytes model.Reply model.Client gen.UnicodeTables.
Import ListNotations.
Open Scope N_scope.

Definition vnat (n : nat) : val := VN (N.of_nat n).

Definition dec_op (v : val) : option op :=
  match v with
  | VL [VN 0] => Some OBanner
  | VL [VN 1; VB c] => Some (OGetReply c)
  | VL [VN 2; VB a] => Some (OEhlo a)
  | VL [VN 3; VB a] => Some (OHelo a)
  | VL [VN 4; VB a] => Some (OLhlo a)
  | VL [VN 5; VB a; VL sz; VL au] =>
      Some (OMail a
                  (match sz with [VB s] => Some s | _ => None end)
                  (match au with [VB t] => Some (Some t) | [VN _] => Some None | _ => None end))
  | VL [VN 6; VB a] => Some (ORcpt a)
  | VL [VN 7] => Some OData
  | VL [VN 8; VB p] => Some (OSendData p)
  | VL [VN 9] => Some OSendEmpty
  | VL [VN 10] => Some ORset
  | VL [VN 11] => Some OQuit
  | VL [VN 12; VB c; VB a] => Some (OCustom c a)
  | _ => None
  end.

Fixpoint dec_ops (vs : list val) : option (list op) :=
  match vs with
  | [] => Some []
  | v :: vs' =>
      match dec_op v, dec_ops vs' with
      | Some o, Some os => Some (o :: os)
      | _, _ => None
      end
  end.

Definition enc_exn (e : exn) : N :=
  match e with
  | XEncode => 1 | XNotImpl => 2 | XAttr => 3 | XBadReply => 4 | XBadCode => 5 | XLost => 6 | XDead => 7
  end.

Definition enc_pairs (l : list (list N * nat)) : val :=
  VL (map (fun p => VL [VB (fst p); vnat (snd p)]) l).

Definition enc_result (r : result) : val :=
  match r with
  | RObj id => VL [VN 0; vnat id]
  | RPairs l => VL [VN 1; enc_pairs l]
  | RExn e => VL [VN 2; VN (enc_exn e)]
  end.

Definition enc_obj (o : robj) : val :=
  VL [VB (o_cmd o); VB (r_code (o_r o)); VB (get_message (o_r o));
      match get_esc (o_r o) with Some e => VL [VB e] | None => VL [] end].

Definition enc_state (st : cstate) : val :=
  VL [VL (map enc_obj (s_objs st));
      VL (map vnat (s_queue st));
      VB (s_sendbuf st);
      VL (map VB (s_sent st));
      VL (map VB (s_exts st));
      VB (s_rbuf st);
      vnat (List.length (s_chunks st));
      enc_pairs (s_rcpttos st);
      match s_lasterr st with Some i => VL [vnat i] | None => VL [] end;
      vbool (s_dead st)].

(* input: [lmtp; [ext names]; [chunks]; [ops]]; output: per op [result; state after it] *)
Definition e_run (v : val) : val :=
  match v with
  | VL [VN lmtp; VL exts; VL chunks; VL ops] =>
      match dec_ops ops with
      | Some os =>
          VL (map (fun p => VL [enc_result (snd p); enc_state (fst p)])
                  (run_trace udigit uspace os
                             (init (negb (lmtp =? 0)) (map get_b exts) (map get_b chunks))))
      | None => verr
      end
  | _ => verr
  end.

(* same input; output [[results]; state after the last call] (no per-call snapshots:
   used for long conversations, e.g. 1000 recipients) *)
Definition e_final (v : val) : val :=
  match v with
  | VL [VN lmtp; VL exts; VL chunks; VL ops] =>
      match dec_ops ops with
      | Some os =>
          let '(st, rs) := run udigit uspace os
                               (init (negb (lmtp =? 0)) (map get_b exts) (map get_b chunks)) in
          VL [VL (map enc_result rs); enc_state st]
      | None => verr
      end
  | _ => verr
  end.

(* Extensions.parse_string on its own: [header; [names]] *)
Definition e_parse_string (v : val) : val :=
  let '(h, es) := parse_string uspace (get_b v) in VL [VB h; VL (map VB es)].

(* wire bytes of a script [[code; [lines]]...] and its well-formedness *)
Definition dec_script (v : val) : list sreply :=
  map (fun r => match r with VL [VB c; VL ls] => (c, map get_b ls) | _ => ([], []) end) (get_l v).
Definition e_wire (v : val) : val := VB (wire (dec_script v)).
Definition e_wf (v : val) : val := vbool (forallb wf_reply (dec_script v)).

Definition entries : list entry :=
  [("c10_run"%string, e_run); ("c10_final"%string, e_final); ("c10_parse_string"%string, e_parse_string);
   ("c10_wire"%string, e_wire); ("c10_wf"%string, e_wf)].
