(* Entry points for the Queue transition system. *)
From Coq Require Import List NArith Bool String.
From SV Require Import lib.Val model.Queue.
Import ListNotations.
Open Scope N_scope.

Definition dec_res (v : val) : rres :=
  match get_n v with 0 => ROk | 1 => RPerm | 2 => RTemp | _ => RJunk end.
Definition dec_outcome (v : val) : outcome :=
  match v with
  | VL [VN 0] => OWholeOk
  | VL [VN 1] => OWholeTemp
  | VL [VN 2] => OWholePerm
  | VL [VN 3] => OWholeOther
  | VL [VN 4; VL rs] => OPartial (map dec_res rs)
  | _ => OWholeOther
  end.
Definition dec_optN (v : val) : option N :=
  match v with VL [VN n] => Some n | _ => None end.

(* events: (tag args..) *)
Definition dec_event (v : val) : event :=
  match v with
  | VL [VN 0; VN sender; VB rcpts; VN ts] => EWrite (negb (sender =? 0)) rcpts ts
  | VL [VN 1; VN i] => EEnqDone i
  | VL [VN 2; VN i; o] => ERelay i (dec_outcome o)
  | VL [VN 3; VN i; b] => EStep i (dec_optN b)
  | VL [VN 4; VN i] => EGet i
  | VL [VN 5; VN i] => ERemove i
  | VL [VN 6] => ETick
  | VL [VN 7] => EWakeup
  | VL [VN 8; VN d] => EAdvance d
  | VL [VN 9; VN ts; VN i] => EAnnounce ts i
  | VL [VN 10] => EFlush
  | _ => EAdvance 0
  end.

Definition enc_cause (c : cause) : val :=
  match c with CEnqueue => VL [VN 0] | CTimer d => VL [VN 1; VN d] | CFlush => VL [VN 2] end.
Definition enc_task (t : task) : val :=
  match t with
  | TEnq i _ r => VL [VN 0; VN i]
  | TAttempt i _ r n => VL [VN 1; VN i; VB r; VN n]
  | TRetry1 i _ r _ => VL [VN 2; VN i; VB r]
  | TRetry2 i r _ w => VL [VN 3; VN i; VB r; VN w]
  | TRetry3 i r _ w => VL [VN 4; VN i; VN w]
  | TDequeue i c => VL [VN 5; VN i]
  | TRemove i => VL [VN 6; VN i]
  | TPartialRemove i => VL [VN 7; VN i]
  end.
Definition enc_sched (s : sched) : val :=
  match s with SRun => VL [VN 0] | SWait None => VL [VN 1] | SWait (Some t) => VL [VN 2; VN t] | SWoken => VL [VN 3] end.

Definition enc_state (s : state) : val :=
  VL [ VL (map (fun '(i, m) => VL [VN i; vbool (m_sender m); VB (m_rcpts m); VN (m_attempts m); VN (m_ts m)]) (s_store s));
       VL (map (fun '(t, i) => VL [VN t; VN i]) (s_queued s));
       VB (s_qids s);
       VB (s_active s);
       VL (map enc_task (s_tasks s));
       enc_sched (s_sched s);
       vbool (s_wake s);
       VN (s_clock s);
       VL (map (fun '(i, r) => VL [VN i; VN r]) (g_deliv s));
       VL (map (fun '(i, r, b) => VL [VN i; VN r; vbool b]) (g_fail s));
       VL (map (fun a => VL [VN (a_id a); VB (a_rcpts a); VN (a_n a); VN (a_now a); enc_cause (a_cause a)]) (g_atts s));
       VB (g_removed s) ].

Definition e_run (v : val) : val := enc_state (run (map dec_event (get_l v)) init).

(* states after every prefix: one dump per event *)
Fixpoint states_after (es : list event) (s : state) : list val :=
  match es with
  | [] => []
  | e :: es' => let s' := step s e in enc_state s' :: states_after es' s'
  end.
Definition e_trace (v : val) : val := VL (states_after (map dec_event (get_l v)) init).

(* restart: [store; next id; clock; events] run from a fresh queue over that store *)
Definition dec_store (v : val) : store :=
  map (fun e => match get_l e with
                | [i; snd; rc; att; ts] => (get_n i, mkMsg (get_bool snd) (get_b rc) (get_n att) (get_n ts))
                | _ => (0%N, mkMsg false [] 0%N 0%N)
                end) (get_l v).
Definition e_trace_from (v : val) : val :=
  match get_l v with
  | [st; nx; c; es] => VL (states_after (map dec_event (get_l es)) (start_at (dec_store st) (get_n nx) (get_n c)))
  | _ => VL []
  end.

Definition entries : list entry :=
  [("cq_run"%string, e_run); ("cq_trace"%string, e_trace); ("cq_trace_from"%string, e_trace_from)].
