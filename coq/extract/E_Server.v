(* Entry points (val -> val) for the server session model (C07). *)
From Coq Require Import List NArith Bool String.
From SV Require Import lib.Val lib.Bytes model.Server.
Import ListNotations.
Open Scope N_scope.

Definition d_verdict (v : val) : verdict :=
  match v with
  | VN 0 => VKeep
  | VN 1 => VRaise FException
  | VN 2 => VRaise FTimeout
  | VN 3 => VRaise FKill
  | VN c => VCode c
  | _ => VKeep
  end.

Definition d_optN (v : val) : option N :=
  match v with VL [VN n] => Some n | _ => None end.

Definition d_cfg (v : val) : config :=
  match v with
  | VL [c; i; o; a; m] =>
      {| cfg_context := get_bool c; cfg_tls_immediately := get_bool i; cfg_tls_imm_ok := get_bool o;
         cfg_auth := get_bool a; cfg_max_size := d_optN m |}
  | _ => {| cfg_context := false; cfg_tls_immediately := false; cfg_tls_imm_ok := false;
            cfg_auth := false; cfg_max_size := None |}
  end.

Definition d_q (v : val) : qres := match v with VN 0 => QOk | VN c => QFail c | _ => QOk end.

Fixpoint d_au (v : val) : auth_outcome :=
  match v with
  | VL [VN 0; VB cid] => AOk cid
  | VL [VN 1] => ABadArg
  | VL [VN 2] => AErr501
  | VL [VN 3] => AErr504
  | VL [VN 5; inner] => AInsecure (d_au inner)
  | _ => ARaise
  end.

Definition mk_item (l : line) (v1 v2 v3 : verdict) (data : bytes) (wire : N) (q : qres)
           (resps : list bytes) (au : auth_outcome) (tls : bool) : item :=
  {| it_line := l; it_v1 := v1; it_v2 := v2; it_v3 := v3; it_data := data; it_wire := wire;
     it_q := q; it_au_resps := resps; it_au := au; it_tls_ok := tls |}.

(* the command line is given raw (no CRLF) and parsed by the model's recv_command *)
Definition d_item (v : val) : item :=
  match v with
  | VL [VB raw; v1; v2; v3; VB data; VN wire; q; VL resps; au; tls] =>
      mk_item (parse_line raw) (d_verdict v1) (d_verdict v2) (d_verdict v3) data wire (d_q q)
              (map get_b resps) (d_au au) (get_bool tls)
  | _ => mk_item (parse_line []) VKeep VKeep VKeep [] 0 QOk [] ARaise false
  end.

Definition e_optb (o : option bytes) : val := match o with Some b => VL [VB b] | None => VL [] end.
Definition e_optn (o : option N) : val := match o with Some n => VL [VN n] | None => VL [] end.

Definition e_params (ps : params) : val :=
  VL (map (fun kv => VL [VB (fst kv); e_optb (snd kv)]) ps).

Definition e_cbk (k : cbk) : N :=
  match k with
  | KBanner => 0 | KEhlo => 1 | KHelo => 2 | KAuth => 3 | KRset => 4 | KMail => 5 | KRcpt => 6
  | KData => 7 | KHaveData => 8
  end.

Definition d_cbk (n : N) : cbk :=
  match n with
  | 0 => KBanner | 1 => KEhlo | 2 => KHelo | 3 => KAuth | 4 => KRset | 5 => KMail | 6 => KRcpt
  | 7 => KData | _ => KHaveData
  end.

Definition e_event (e : event) : val :=
  match e with
  | EvCall k arg ps code => VL [VN 0; VN (e_cbk k); VB arg; e_params ps; e_optn code]
  | EvTls => VL [VN 1]
  | EvQueue s rc => VL [VN 2; VB s; VL (map VB rc)]
  end.

Definition d_param (v : val) : bytes * option bytes :=
  match v with
  | VL [VB k; VL [VB x]] => (k, Some x)
  | VL [VB k; _] => (k, None)
  | _ => ([], None)
  end.

Definition d_event (v : val) : event :=
  match v with
  | VL [VN 0; VN k; VB arg; VL ps; code] => EvCall (d_cbk k) arg (map d_param ps) (d_optN code)
  | VL [VN 2; VB s; VL rc] => EvQueue s (map get_b rc)
  | _ => EvTls
  end.

Definition e_fin (f : fin) : val := VN (match f with Continue => 0 | Closed => 1 | Crashed => 2 end).

Definition e_out (o : out) : val :=
  VL [VL (map VN (o_replies o)); VL (map e_event (o_events o)); e_fin (o_fin o)].

Definition e_env_val (e : option envelope) : val :=
  match e with Some (s, rc) => VL [VL [VB s; VL (map VB rc)]] | None => VL [] end.

Definition e_state (st : sstate) : val :=
  VL [vbool (s_bannered (sv st)); e_optb (s_ehlo (sv st)); vbool (s_mail (sv st)); vbool (s_rcpt (sv st));
      vbool (s_authed (sv st)); vbool (s_encrypted (sv st));
      vbool (x_base (ex st)); vbool (x_starttls (ex st)); vbool (x_auth (ex st)); e_optn (x_size (ex st));
      e_env_val (e_env (ed st)); e_optb (e_ehlo (ed st)); e_optb (e_auth (ed st));
      vbool (e_esmtp (ed st)); vbool (e_tls (ed st))].

(* c07_run [cfg; banner verdict; items] = [outs; final state; fin; model trace accepted?] *)
Definition e_run (v : val) : val :=
  match v with
  | VL [cfg; vb; VL items] =>
      let '(os, st, f) := run_session (d_cfg cfg) (d_verdict vb) (map d_item items) in
      VL [VL (map e_out os); e_state st; e_fin f; vbool (accepts (trace os))]
  | _ => verr
  end.

Definition e_parse_line (v : val) : val :=
  let l := parse_line (get_b v) in VL [e_optb (l_word l); e_optb (l_arg l)].

Definition e_gather (v : val) : val := e_params (gather_params (get_b v)).

(* MAIL/RCPT path syntax: [kw; arg] -> [] no match | [[address; rest]] *)
Definition e_path (v : val) : val :=
  match v with
  | VL [VB kw; VB arg] =>
      match match_path_prefix kw arg with
      | None => VL []
      | Some r => match find_gt false r with
                  | None => VL []
                  | Some (a, rest) => VL [VL [VB a; VB rest]]
                  end
      end
  | _ => verr
  end.

Definition e_py_int (v : val) : val :=
  match py_int (match v with VL [VB b] => Some b | _ => None end) with
  | None => VL []
  | Some (neg, n) => VL [VL [vbool neg; VN n]]
  end.

(* the specification automaton on an externally supplied trace *)
Definition e_accepts (v : val) : val := vbool (accepts (map d_event (get_l v))).

Definition entries : list entry :=
  [("c07_run"%string, e_run); ("c07_parse_line"%string, e_parse_line);
   ("c07_gather"%string, e_gather); ("c07_path"%string, e_path); ("c07_py_int"%string, e_py_int);
   ("c07_accepts"%string, e_accepts)].
