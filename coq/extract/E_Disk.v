(* Entry points of the Disk model: sequential runs (C15), interleaved runs and
   crash points (C15 frame, C04), with the executable number codec nc_*. *)
From Coq Require Import List NArith Bool String.
From SV Require Import lib.Val model.Store extract.E_Store.
Import ListNotations.
Open Scope N_scope.

Definition v_path (p : path) : val :=
  match p with
  | PEnv id => VL [VN 0; VN id]
  | PMeta id => VL [VN 1; VN id]
  | PTmp t => VL [VN 2; VN t]
  end.
Definition path_v (v : val) : path :=
  match v with
  | VL [VN 0; VN id] => PEnv id
  | VL [VN 1; VN id] => PMeta id
  | VL [VN _; VN t] => PTmp t
  | _ => PTmp 0
  end.

Definition v_cmd (c : dcmd) : val :=
  match c with
  | CExists p => VL [VN 0; v_path p]
  | CMkTemp t => VL [VN 1; VN t]
  | CWrite t off ch => VL [VN 2; VN t; VN off; VB ch]
  | CRename t p => VL [VN 3; VN t; v_path p]
  | CUnlink p => VL [VN 4; v_path p]
  | CRead p => VL [VN 5; v_path p]
  | CListdir => VL [VN 6]
  | CClose t => VL [VN 7; VN t]
  end.

Definition v_fs (s : fs) : val := VL (map (fun pb => VL [v_path (fst pb); VB (snd pb)]) s).
Definition fs_v (v : val) : fs :=
  fold_right (fun x acc => match x with
                           | VL [p; VB b] => aset path_eqb acc (path_v p) b
                           | _ => acc end) [] (get_l v).


(* the behaviour of the asynchronous writes in the runs: a write of n bytes to temp file t at offset
   off reports an error when em > 0 and (t + off) mod em = er, stores only (n+1)/2 bytes when
   m > 0 and (t + off) mod m = r, and everything otherwise *)
Definition rule_fault (m r em er : N) (t off : N) (n : nat) : option nat :=
  if (negb (em =? 0) && ((t + off) mod em =? er))%bool then None
  else if (negb (m =? 0) && ((t + off) mod m =? r))%bool then Some (Nat.div2 (S n))
  else Some n.

(* VN chunk  or  VL [VN chunk; VN m; VN r; VN em; VN er] *)
Definition wcfg_v (v : val) : wcfg :=
  match v with
  | VL [VN c; VN m; VN r; VN em; VN er] => mkW (N.to_nat c) (rule_fault m r em er)
  | _ => full_writes (N.to_nat (get_n v))
  end.

Definition dprog_of (chunk : wcfg) : op -> dprog := disk_prog nc_enc_env nc_dec_env nc_enc_meta nc_dec_meta chunk.
Definition dview (s : fs) (id : N) : option entry := disk_view nc_dec_env nc_dec_meta s id.

(* sequential: per op its result and its command trace *)
Fixpoint disk_run_tr (chunk : wcfg) (s : fs) (ops : list op) : fs * list (res * list dcmd) :=
  match ops with
  | [] => (s, [])
  | o :: ops' =>
      let p := dprog_of chunk o in
      let tr := trace dexec p s in
      let (s1, x) := run dexec p s in
      let (s2, xs) := disk_run_tr chunk s1 ops' in (s2, (x, tr) :: xs)
  end.

(* what a fresh DiskStorage reports: load() and get(id) for the ids asked *)
Definition v_recover (chunk : wcfg) (s : fs) (ids : list N) : val :=
  VL [v_res (recover_load nc_enc_env nc_dec_env nc_enc_meta nc_dec_meta chunk s);
      VL (map (fun id => v_res (recover_get nc_dec_env nc_dec_meta s id)) ids);
      VL (map (fun id => v_view (dview s id)) ids)].

(* VL [VL ops; VL ids; VN chunk; init-fs] *)
Definition e_disk (v : val) : val :=
  match v with
  | VL [VL ops; ids; chunk; init] =>
      match ops_v ops with
      | Some os =>
          let ch := wcfg_v chunk in
          let (s, xs) := disk_run_tr ch (fs_v init) os in
          VL [VL (map (fun xt => VL [v_res (fst xt); VL (map v_cmd (snd xt))]) xs);
              v_recover ch s (nums_v ids); v_fs s]
      | None => verr
      end
  | _ => verr
  end.

(* the scheduler of StoreCore.sched with a log of (thread, command) *)
Fixpoint sched_log (chunk : wcfg) (sch : list nat) (s : fs) (ths : list disk_thread)
  : fs * list disk_thread * list (nat * dcmd) :=
  match sch with
  | [] => (s, ths, [])
  | i :: sch' =>
      match nth_error ths i with
      | None => sched_log chunk sch' s ths
      | Some th =>
          match disk_next nc_enc_env nc_dec_env nc_enc_meta nc_dec_meta chunk th with
          | None => sched_log chunk sch' s ths
          | Some (c, k) =>
              let (s', a) := dexec s c in
              let '(s2, ths2, lg) := sched_log chunk sch' s' (set_nth i (k a) ths) in
              (s2, ths2, (i, c) :: lg)
          end
      end
  end.

Definition v_thread (th : disk_thread) : val :=
  VL [VL (map (fun orr => v_res (snd orr)) (th_done th));
      vbool (match th_cur th with Some _ => true | None => false end);
      VN (N.of_nat (List.length (th_todo th)))].

Fixpoint threads_v (l : list val) : option (list disk_thread) :=
  match l with
  | [] => Some []
  | VL ops :: l' =>
      match ops_v ops, threads_v l' with
      | Some os, Some ts => Some (th_start os :: ts)
      | _, _ => None
      end
  | _ => None
  end.

(* VL [VL threads; VL schedule; VL ids; VN chunk; init-fs]
   -> VL [log; threads; recover; fs]   (state after the whole schedule: pass a
   prefix of a schedule to get the state at that crash point) *)
Definition e_sched (v : val) : val :=
  match v with
  | VL [VL ths; VL sch; ids; chunk; init] =>
      match threads_v ths with
      | Some ts =>
          let ch := wcfg_v chunk in
          let '(s, ts', lg) := sched_log ch (map (fun x => N.to_nat (get_n x)) sch) (fs_v init) ts in
          VL [VL (map (fun ic => VL [VN (N.of_nat (fst ic)); v_cmd (snd ic)]) lg);
              VL (map v_thread ts'); v_recover ch s (nums_v ids); v_fs s]
      | None => verr
      end
  | _ => verr
  end.

(* the file system and the threads after each executed command of a schedule (crash points 1..n) *)
Fixpoint sched_states (chunk : wcfg) (sch : list nat) (s : fs) (ths : list disk_thread) : list (fs * list disk_thread) :=
  match sch with
  | [] => []
  | i :: sch' =>
      match nth_error ths i with
      | None => sched_states chunk sch' s ths
      | Some th =>
          match disk_next nc_enc_env nc_dec_env nc_enc_meta nc_dec_meta chunk th with
          | None => sched_states chunk sch' s ths
          | Some (c, k) =>
              let (s', a) := dexec s c in
              let ths' := set_nth i (k a) ths in
              (s', ths') :: sched_states chunk sch' s' ths'
          end
      end
  end.

(* VL [VL threads; VL schedule; VL ids; VN chunk; init-fs]
   -> VL [log; VL [per crash point 0..n: VL [recover after a kill; recover after abort-with-unwinding;
                                             VL [cleanup commands of each thread]]]; threads at the end] *)
Definition e_crash_all (v : val) : val :=
  match v with
  | VL [VL ths; VL sch; ids; chunk; init] =>
      match threads_v ths with
      | Some ts =>
          let ch := wcfg_v chunk in
          let sc := map (fun x => N.to_nat (get_n x)) sch in
          let s0 := fs_v init in
          let '(s, ts', lg) := sched_log ch sc s0 ts in
          VL [VL (map (fun ic => VL [VN (N.of_nat (fst ic)); v_cmd (snd ic)]) lg);
              VL (map (fun st => VL [v_recover ch (fst st) (nums_v ids);
                                     v_recover ch (abort_all (fst st) (snd st)) (nums_v ids);
                                     VL (map (fun th => VL (map v_cmd (th_cleanup th))) (snd st))])
                      ((s0, ts) :: sched_states ch sc s0 ts));
              VL (map v_thread ts')]
      | None => verr
      end
  | _ => verr
  end.

Definition e_codec (v : val) : val :=
  match v with
  | VL [VN 0; e] => match env_v e with Some e' => VB (nc_enc_env e') | None => verr end
  | VL [VN 1; VN ts; VN att; VL []] => VB (nc_enc_meta (mkMeta ts att None))
  | VL [VN 1; VN ts; VN att; VL [dl]] => VB (nc_enc_meta (mkMeta ts att (Some (nums_v dl))))
  | VL [VN 2; VB b] => match nc_dec_env b with Some e => VL [v_env e] | None => VL [] end
  | VL [VN 3; VB b] =>
      match nc_dec_meta b with
      | Some m => VL [VN (m_ts m); VN (m_att m);
                      match m_deliv m with Some l => VL [v_nums l] | None => VL [] end]
      | None => VL []
      end
  | _ => verr
  end.

Definition entries : list SV.lib.Val.entry :=
  [("c15_disk"%string, e_disk); ("c04_sched"%string, e_sched); ("c04_crash_all"%string, e_crash_all);
   ("c04_codec"%string, e_codec)].
