(* Entry points (val -> val) for the Reply model; evaluated by the extracted
   OCaml driver and by vm_compute. *)
From Coq Require Import List NArith Bool String.
From SV Require Import lib.Val lib.Bytes model.Reply gen.UnicodeTables.
Import ListNotations.
Open Scope N_scope.


Definition vlen {A} (l : list A) : val := VN (N.of_nat (List.length l)).

Definition e_wire (v : val) : val :=
  match v with
  | VL [VB code; VB msg] => VB (wire_of (new_reply udigit uspace code msg))
  | _ => verr
  end.

Definition e_getmsg (v : val) : val :=
  match v with
  | VL [VB code; VB msg] => VB (get_message (new_reply udigit uspace code msg))
  | _ => verr
  end.

Definition e_recv (v : val) : val :=
  match v with
  | VL [VB buf; VL chunks] =>
      match reply_recv udigit uspace buf (map get_b chunks) with
      | GotReply r buf' ch' => VL [VN 0; VB (r_code r); VB (get_message r); VB buf'; vlen ch']
      | BadReply buf' ch' => VL [VN 1; VB buf'; vlen ch']
      | BadCode => VL [VN 2]
      | Lost => VL [VN 3]
      end
  | _ => verr
  end.

Definition e_norm (v : val) : val := VB (norm (get_b v)).
Definition e_udigit (v : val) : val := vbool (udigit (get_n v)).
Definition e_uspace (v : val) : val := vbool (uspace (get_n v)).
Definition e_utf8_dec (v : val) : val :=
  match utf8_dec (get_b v) with Some t => VL [VB t] | None => VL [] end.
Definition e_utf8_enc (v : val) : val := VB (utf8_enc (get_b v)).

(* the two patterns of reply.py as the code uses them, and the constructor *)
Definition e_msgpat (v : val) : val :=   (* message_esc_pattern: [group(1); value[end(0):]] or [] *)
  match msg_esc_group1 udigit uspace (get_b v) with
  | Some (g, rest) => VL [VB g; VB rest]
  | None => VL []
  end.
Definition e_escpat (v : val) : val :=   (* esc_pattern: groups() or [] *)
  match match_esc_pattern udigit (get_b v) with
  | Some (k, subj, det) => VL [VB [k]; VB subj; VB det]
  | None => VL []
  end.
Definition e_codepat (v : val) : val := vbool (match_code_pattern udigit (get_b v)).
Definition e_ctor (v : val) : val :=     (* Reply(code, text): [0; code; raw_message; message; [esc]] | [1] bad code | [2] bad ESC *)
  match v with
  | VL [VB code; VB msg] =>
      match reply_ctor udigit uspace code msg with
      | CtorOk r => VL [VN 0; VB (r_code r); VB (r_msg r); VB (get_message r);
                        match get_esc r with Some e => VL [VB e] | None => VL [] end]
      | CtorBadCode => VL [VN 1]
      | CtorBadEsc => VL [VN 2]
      end
  | _ => verr
  end.

(* operations on a fresh Reply(): [[tag; arg]; ...], tag 0 code / 1 message / 2 ESC str ([] = None) / 3 ESC False /
   4 copy(other), arg = the flat operation list that builds `other` / 5 send.
   -> [code; message shown; [esc]; wire; raised flags; 1 if _esc is False;
       [[code; message; [esc]; wire; 1 if _esc is False; 1 if the send raises UnicodeEncodeError] for every send];
       the send buffer of the one IO all sends go to] *)
Definition rop_flat (v : val) : rop :=
  match v with
  | VL [VN 0; VB c] => ROCode c
  | VL [VN 1; VB m] => ROMsg m
  | VL [VN 2; VB e] => ROEsc e
  | VL [VN 5; _] => ROSend
  | _ => ROEscFalse
  end.
Definition rop_of (v : val) : rop :=
  match v with
  | VL [VN 4; VL sub] => ROCopy (rops_run udigit uspace (map rop_flat sub))
  | _ => rop_flat v
  end.
Fixpoint ops_trace (r : reply) (ops : list rop) : reply * list val :=
  match ops with
  | [] => (r, [])
  | o :: ops' =>
      let raised := match rop_apply udigit uspace r o with Some _ => 0 | None => 1 end in
      let '(r', fl) := ops_trace (rop_step udigit uspace r o) ops' in
      (r', VN raised :: fl)
  end.
Definition v_esc (r : reply) : val := match get_esc r with Some e => VL [VB e] | None => VL [] end.
Definition v_escfalse (r : reply) : val := VN (match r_esc r with EscFalse => 1 | _ => 0 end).
Definition e_ops (v : val) : val :=
  match v with
  | VL ops =>
      let rops := map rop_of ops in
      let '(r, fl) := ops_trace fresh_reply rops in
      VL [VB (r_code r); VB (get_message r); v_esc r; VB (wire_of r); VL fl; v_escfalse r;
          VL (map (fun s => VL [VB (r_code s); VB (get_message s); v_esc s; VB (wire_of s); v_escfalse s;
                                VN (match send_chk s with Some _ => 0 | None => 1 end)])
                  (rops_sent udigit uspace fresh_reply rops));
          VB (rops_out udigit uspace fresh_reply rops)]
  | _ => verr
  end.

Definition entries : list entry :=
  [("c17_wire"%string, e_wire); ("c17_getmsg"%string, e_getmsg); ("c17_recv"%string, e_recv);
   ("c17_norm"%string, e_norm); ("c17_udigit"%string, e_udigit); ("c17_uspace"%string, e_uspace);
   ("utf8_dec"%string, e_utf8_dec); ("utf8_enc"%string, e_utf8_enc);
   ("c17_msgpat"%string, e_msgpat); ("c17_escpat"%string, e_escpat); ("c17_codepat"%string, e_codepat);
   ("c17_ctor"%string, e_ctor); ("c17_ops"%string, e_ops)].
