(* Entry points (val -> val) for the PROXY protocol model; evaluated by the
   extracted OCaml driver and by vm_compute.  The IPv6 text oracle of the model
   is instantiated with the glibc algorithms written in model/Proxy.v. *)
From Coq Require Import List NArith Bool String.
From SV Require Import lib.Val lib.Bytes model.Proxy.
Import ListNotations.
Open Scope N_scope.

Definition P6 := glibc_pton6.
Definition N6 := glibc_ntop6.

Definition vaddr (a : addr) : val :=
  match a with
  | ANone => VL [VN 0]
  | AIp ip port => VL [VN 1; VB ip; VN port]
  | APath p => VL [VN 2; VB p]
  end.

Definition exc_code (e : exc) : N :=
  match e with
  | EAssert _ => 0 | ELocal => 1 | EValueError => 2 | EUnicodeDecode => 3
  | EOSError => 4 | EStruct => 5 | EIndex => 6
  end.

Definition vres (r : res (addr * addr)) (consumed : N) : val :=
  match r with
  | Ok (a, b) => VL [VN 0; vaddr a; vaddr b; VN consumed]
  | Raise (EAssert w) => VL [VN 1; VN w; VN consumed]
  | Raise ELocal => VL [VN 2; VN consumed]
  | Raise e => VL [VN 3; VN (exc_code e); VN consumed]
  | OutOfFuel => VL [VN 4]
  end.

Definition run_sock (f : sock -> res (addr * addr) * sock) (v : val) : val :=
  match v with
  | VL [VB data; VL sched] =>
      let '(r, s') := f (mk_sock data (map get_n sched)) in
      vres r (N.of_nat (List.length data - List.length (s_data s')))
  | _ => verr
  end.

Definition e_v1 : val -> val := run_sock (process_pp_v1 P6 N6 []).
Definition e_v2 : val -> val := run_sock (process_pp_v2 N6 []).
Definition e_auto : val -> val := run_sock (process_auto P6 N6).

Definition e_line (v : val) : val := vres (parse_pp_line P6 N6 (get_b v)) 0.

Definition vob (o : option bytes) : val := match o with Some b => VL [VB b] | None => VL [] end.
Definition e_pton4 (v : val) : val := vob (pton4 (get_b v)).
Definition e_pton6 (v : val) : val := vob (glibc_pton6 (get_b v)).
Definition e_ntop4 (v : val) : val := VB (ntop4 (get_b v)).
Definition e_ntop6 (v : val) : val := VB (glibc_ntop6 (get_b v)).

Definition hdr1_of (v : val) : option hdr1 :=
  match v with
  | VL [VN 0; VB s; VB d; VN sp; VN dp] => Some (V1Tcp4 s d sp dp)
  | VL [VN 1; VB s; VB d; VN sp; VN dp] => Some (V1Tcp6 s d sp dp)
  | VL [VN 2; VB rest] => Some (V1Unknown rest)
  | _ => None
  end.
Definition hdr2_of (v : val) : option hdr2 :=
  match v with
  | VL [VN 0; VN pr; VB s; VB d; VN sp; VN dp; VB tlv] => Some (V2Inet pr s d sp dp tlv)
  | VL [VN 1; VN pr; VB s; VB d; VN sp; VN dp; VB tlv] => Some (V2Inet6 pr s d sp dp tlv)
  | VL [VN 2; VN pr; VB s; VB d; VB tlv] => Some (V2Unix pr s d tlv)
  | VL [VN 3; VB blob] => Some (V2Unspec blob)
  | VL [VN 4; VB blob] => Some (V2Local blob)
  | _ => None
  end.

(* (wf, wire bytes, expected outcome) *)
Definition e_enc1 (v : val) : val :=
  match hdr1_of v with
  | Some h => VL [vbool (wf1 h); VB (enc_v1 N6 h); vres (Ok (expect1 N6 h)) 0]
  | None => verr
  end.
Definition e_enc2 (v : val) : val :=
  match hdr2_of v with
  | Some h => VL [vbool (wf2 h); VB (enc_v2 h); vres (expect2 N6 h) 0]
  | None => verr
  end.

(* concurrent connections: [conns; picks], conn = [variant 0=v1 1=v2 2=auto; data; sched] *)
Definition conn_of (v : val) : option (conn * N) :=
  match v with
  | VL [VN variant; VB data; VL sched] =>
      let s := mk_sock data (map get_n sched) in
      let p := match variant with
               | 0 => p_process_v1 P6 N6 []
               | 1 => p_process_v2 N6 []
               | _ => p_process_auto P6 N6
               end in
      Some ((p, s), N.of_nat (List.length data))
  | _ => None
  end.
Fixpoint conns_of (vs : list val) : list (conn * N) :=
  match vs with
  | [] => []
  | v :: vs' => match conn_of v with Some c => c :: conns_of vs' | None => conns_of vs' end
  end.
Fixpoint run_conns_count (picks : list nat) (cs : list conn) (wasted : N) : list conn * N :=
  match picks with
  | [] => (cs, wasted)
  | i :: picks' =>
      let w := match nth_error cs i with Some (PRecv _ _, _) => 0 | _ => 1 end in
      run_conns_count picks' (step_nth i cs) (wasted + w)
  end.
Definition vconn (c : conn) (len : N) : val :=
  let used := len - N.of_nat (List.length (s_data (snd c))) in
  match fst c with
  | PDone r => VL [VN 1; vres r used]
  | PRecv n _ => VL [VN 0; VN (N.of_nat n); VN used]
  end.
Definition e_conc (v : val) : val :=
  match v with
  | VL [VL conns; VL picks] =>
      let cl := conns_of conns in
      let '(cs', wasted) := run_conns_count (map (fun p => N.to_nat (get_n p)) picks) (map fst cl) 0 in
      VL [VL (map (fun cw => vconn (fst cw) (snd cw)) (combine cs' (map snd cl))); VN wasted]
  | _ => verr
  end.

(* handle() with a wrapped handler: [variant; data; sched; mode; k] - the handler reads
   (one recv of) k bytes, then returns (mode 0) or raises exception number mode *)
Definition mk_handler (mode : N) (k : nat) : handler :=
  fun _ s =>
    let s' := match k with O => s | S _ => snd (recv_into s k) end in
    (if mode =? 0 then HoReturn else HoRaise mode, s').
Definition vend (e : hend) : val :=
  match e with
  | HReturned => VL [VN 0]
  | HPropagated n => VL [VN 1; VN n]
  | HParserEscape x => VL [VN 2; VN (exc_code x)]
  | HOutOfFuel => VL [VN 3]
  end.
Definition e_handle (v : val) : val :=
  match v with
  | VL [VN variant; VB data; VL sched; VN mode; VN k] =>
      let s := mk_sock data (map get_n sched) in
      let p := match variant with
               | 0 => p_handle_v1 P6 N6
               | 1 => p_handle_v2 N6
               | _ => p_handle_auto P6 N6
               end in
      let len := List.length data in
      let '(e, s', calls) := run_h p (mk_handler mode (N.to_nat k)) s in
      VL [vend e;
          VL (map (fun c => VL [vaddr (fst c); VN (N.of_nat (len - List.length (s_data (snd c))))]) calls);
          VN (N.of_nat (len - List.length (s_data s')))]
  | _ => verr
  end.

Definition entries : list entry :=
  [("c18_v1"%string, e_v1); ("c18_v2"%string, e_v2); ("c18_auto"%string, e_auto);
   ("c18_line"%string, e_line);
   ("c18_pton4"%string, e_pton4); ("c18_pton6"%string, e_pton6);
   ("c18_ntop4"%string, e_ntop4); ("c18_ntop6"%string, e_ntop6);
   ("c18_enc1"%string, e_enc1); ("c18_enc2"%string, e_enc2); ("c18_conc"%string, e_conc);
   ("c18_handle"%string, e_handle)].
