(* Entry points (val -> val) for the Pool model (C19); evaluated by the
   extracted OCaml driver and by vm_compute. *)
From Coq Require Import List NArith Bool String.
From SV Require Import lib.Val lib.Sched model.Pool.
Import ListNotations.
Open Scope N_scope.

(* ---------------- deque ---------------- *)
Definition dec_op (v : val) : option dq_op :=
  match v with
  | VL [VN 0; VN x] => Some (OAppend x)
  | VL [VN 1; VN x] => Some (OAppendLeft x)
  | VL [VN 2] => Some OClear
  | VL [VN 3; VB xs] => Some (OExtend xs)
  | VL [VN 4; VB xs] => Some (OExtendLeft xs)
  | VL [VN 5] => Some OPop
  | VL [VN 6] => Some OPopLeft
  | VL [VN 7; VN x] => Some (ORemove x)
  | _ => None
  end.

Fixpoint dec_all {A} (f : val -> option A) (l : list val) : option (list A) :=
  match l with
  | [] => Some []
  | v :: l' => match f v, dec_all f l' with
               | Some a, Some r => Some (a :: r)
               | _, _ => None
               end
  end.

Definition enc_out (r : dq_out) : val :=
  match r with
  | RNone => VN 0 | RBlocked => VN 1 | RItem x => VL [VN x]
  | RIndexError => VN 2 | RValueError => VN 3 | RRemoveBlocked => VN 4
  end.

Definition e_deque (v : val) : val :=
  match v with
  | VL [VB l0; VL ops] =>
      match dec_all dec_op ops with
      | Some os => let (d, outs) := dq_run l0 os in
                   VL [VB (items d); VN (cnt d); VL (map enc_out (rev outs))]
      | None => verr
      end
  | _ => verr
  end.

(* ---------------- pool ---------------- *)
Definition dec_cfg (v : val) : option config :=
  match v with
  | VL [VN sz; VL []] => Some (mkCfg sz None)
  | VL [VN sz; VL [VN d]] => Some (mkCfg sz (Some d))
  | _ => None
  end.

Definition dec_ev (v : val) : option pevent :=
  match v with
  | VL [VN 0; VN e] => Some (EvAttempt e)
  | VL [VN 1; VN d] => Some (EvAdvance d)
  | VL [VN 2; VN c] => Some (EvEnterPoll c)
  | VL [VN 3; VN c] => Some (EvGiveUp c)
  | VL [VN 4; VN c] => Some (EvPoll c)
  | VL [VN 5; VN c] => Some (EvIdle c)
  | VL [VN 6; VN c; VN k] => Some (EvDone c k)
  | VL [VN 7; VN c] => Some (EvRequeue c)
  | VL [VN 8; VN c] => Some (EvAbandon c)
  | VL [VN 9; VN c] => Some (EvExit c)
  | _ => None
  end.

Definition enc_req (r : request) : val := VL [VN (r_slot r); VN (r_env r)].

Definition enc_client (cl : client) : val :=
  match c_st cl with
  | Busy => VL [VN (c_id cl); VN 0]
  | Polling None => VL [VN (c_id cl); VN 1]
  | Polling (Some d) => VL [VN (c_id cl); VN 1; VN d]
  | Delivering r => VL [VN (c_id cl); VN 2; VN (r_slot r); VN (r_env r)]
  | Exiting => VL [VN (c_id cl); VN 3]
  end.

Definition enc_state (s : pstate) : val :=
  VL [VL (map enc_client (pool s));
      VL (map enc_req (items (q s)));
      VN (cnt (q s));
      VL (map VN (waiters s));
      VN (now s);
      VL (map (fun r => VL [VN (res_slot r); VN (res_env r); VN (res_kind r)]) (results s));
      vbool (crashed s);
      VL (map enc_req (attempts s));
      vbool (quiescent_b s)].

(* arbitrary schedule: per event (enabled?, state after) *)
Fixpoint run_trace (cfg : config) (s : pstate) (es : list pevent) : list val :=
  match es with
  | [] => []
  | e :: es' =>
      match pstep cfg s e with
      | Some s' => VL [VN 1; enc_state s'] :: run_trace cfg s' es'
      | None => VL [VN 0; enc_state s] :: run_trace cfg s es'
      end
  end.

Definition e_run (v : val) : val :=
  match v with
  | VL [c; VL evs] =>
      match dec_cfg c, dec_all dec_ev evs with
      | Some cfg, Some es => VL (run_trace cfg init_state es)
      | _, _ => verr
      end
  | _ => verr
  end.

(* FIFO-scheduled run: each event followed by the cascade *)
Fixpoint run_fifo (cfg : config) (fuel : nat) (s : pstate) (es : list pevent) : list val :=
  match es with
  | [] => []
  | e :: es' => let s' := fifo_step cfg fuel s e in enc_state s' :: run_fifo cfg fuel s' es'
  end.

Definition e_fifo (v : val) : val :=
  match v with
  | VL [c; VL evs] =>
      match dec_cfg c, dec_all dec_ev evs with
      | Some cfg, Some es => VL (run_fifo cfg 64 init_state es)
      | _, _ => verr
      end
  | _ => verr
  end.

(* ---------------- SMTP client ---------------- *)
Definition dec_srv (v : val) : option srv :=
  match v with VN 0 => Some SOk | VN 1 => Some SRej | VN 2 => Some SDrop | VN 3 => Some SRej4 | _ => None end.

Definition dec_ms (v : val) : option mscript :=
  match v with
  | VL [VN pre; VN enc; m; VL rc; d; b; VN rs] =>
      match dec_srv m, dec_all dec_srv rc, dec_srv d, dec_srv b with
      | Some m', Some rc', Some d', Some b' =>
          Some (mkMs (negb (pre =? 0)) (negb (enc =? 0)) m' rc' d' b' (negb (rs =? 0)))
      | _, _, _, _ => None
      end
  | _ => None
  end.

Definition dec_poll (v : val) : option poll_item :=
  match v with
  | VL [] => Some None
  | VL [VN slot; VN env; ms] =>
      match dec_ms ms with Some m => Some (Some (mkReq slot env, m)) | None => None end
  | _ => None
  end.

Definition enc_wire (w : wire) : val :=
  match w with
  | WConnect => VL [VN 0] | WHandshake => VL [VN 1]
  | WMail e => VL [VN 2; VN e] | WRcpt e => VL [VN 3; VN e] | WData e => VL [VN 4; VN e]
  | WBody e => VL [VN 5; VN e] | WEmptyBody e => VL [VN 6; VN e]
  | WRset => VL [VN 7] | WQuit => VL [VN 8] | WClose => VL [VN 9]
  | WResult e ok => VL [VN 10; VN e; vbool ok]
  | WRequeue e => VL [VN 11; VN e]
  | WResultRcpts e => VL [VN 12; VN e]
  end.

Definition enc_act (a : cact) : val :=
  match a with
  | AEnter => VL [VN 0]
  | APoll r => VL [VN 1; enc_req r]
  | AIdle => VL [VN 2]
  | ADone r k => VL [VN 3; enc_req r; VN k]
  | ARequeue r => VL [VN 4; enc_req r]
  | AExit => VL [VN 5]
  end.

Definition e_smtp (v : val) : val :=
  match v with
  | VL [VN pipe; VN reuse; VL [VN co; hs]; VL polls] =>
      match dec_srv hs, dec_all dec_poll polls with
      | Some hs', Some ps =>
          let '(w, a, x) := smtp_run (negb (pipe =? 0)) (negb (reuse =? 0))
                                     (mkCs (negb (co =? 0)) hs') ps in
          VL [VL (map enc_wire w); VL (map enc_act a); vbool x;
              vbool (one_at_a_time None w); vbool (reset_after_failure false w);
              vbool (follows_contract HBusy a)]
      | _, _ => verr
      end
  | _ => verr
  end.

(* ---------------- HTTP client ---------------- *)
Definition dec_hsrv (v : val) : option hsrv :=
  match v with
  | VN 0 => Some HOk | VN 1 => Some HRej | VN 2 => Some HRefused | VN 3 => Some HTimeout
  | VN 4 => Some HHangup | _ => None
  end.

Definition dec_hpoll (v : val) : option hpoll_item :=
  match v with
  | VL [] => Some None
  | VL [VN slot; VN env; h] =>
      match dec_hsrv h with Some h' => Some (Some (mkReq slot env, h')) | None => None end
  | _ => None
  end.

Definition enc_hwire (w : hwire) : val :=
  match w with
  | HRequest e => VL [VN 0; VN e] | HConnect => VL [VN 1] | HResponse e => VL [VN 2; VN e]
  | HCloseW => VL [VN 3] | HResultW e ok => VL [VN 4; VN e; vbool ok]
  end.

Definition e_http (v : val) : val :=
  match v with
  | VL [VN reuse; VL polls] =>
      match dec_all dec_hpoll polls with
      | Some ps =>
          let '(w, a, x) := http_run (negb (reuse =? 0)) ps in
          VL [VL (map enc_hwire w); VL (map enc_act a); vbool x;
              vbool (http_clean HClean w); vbool (follows_contract HBusy a)]
      | None => verr
      end
  | _ => verr
  end.

(* ---------------- replies read on a connection ---------------- *)
Definition dec_rd (v : val) : option rd :=
  match v with
  | VL [VN m; VN 0] => Some (mkRd m RdOk)
  | VL [VN m; VN 1] => Some (mkRd m (RdErr E421))
  | VL [VN m; VN 2] => Some (mkRd m (RdErr E4xx))
  | VL [VN m; VN 3] => Some (mkRd m (RdErr E5xx))
  | VL [VN m; VN 4] => Some (mkRd m RdLost)
  | _ => None
  end.

Definition e_reads (v : val) : val :=
  match v with
  | VL rds =>
      match dec_all dec_rd rds with
      | Some tr =>
          VL [vbool (wf_reads tr);
              VL (map (fun p => VL [VN (fst p); match snd p with Some k => VL [VN k] | None => VL [] end])
                      (lost_sources error_source None tr))]
      | None => verr
      end
  | _ => verr
  end.

Definition entries : list entry :=
  [("c19_deque"%string, e_deque); ("c19_run"%string, e_run); ("c19_fifo"%string, e_fifo);
   ("c19_smtp"%string, e_smtp); ("c19_http"%string, e_http); ("c19_reads"%string, e_reads)].
