(* Extraction.  ExtrOcamlBasic only: bool, option, unit, prod, list, sumbool
   map to OCaml natives; N/Z/positive/ascii/string stay inductive.  No Extract
   Constant / Extract Inductive directives of our own. *)
From Coq Require Extraction ExtrOcamlBasic.
From SV Require Import extract.AllEntries.
Extraction "model.ml" sv_run_entry.
