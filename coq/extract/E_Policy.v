(* Entry points (val -> val) for the Policy model (property C16). *)
From Coq Require Import List NArith Bool String.
From SV Require Import lib.Val lib.Bytes model.Policy.
Import ListNotations.
Open Scope N_scope.

(* the re.subn oracle as a table supplied by the caller: (rule index, input, output, changes).
   A missing row gives a sentinel that cannot be produced by the implementation. *)
Definition row := (N * bytes * bytes * N)%type.
Fixpoint tbl_subn (t : list row) (ru : N) (r : bytes) : bytes * N :=
  match t with
  | [] => ([0; 0; 0], 1)
  | (k, i, o, c) :: t' => if (k =? ru) && beqb i r then (o, c) else tbl_subn t' ru r
  end.

Definition dec_row (v : val) : row :=
  match v with
  | VL [VN k; VB i; VB o; VN c] => (k, i, o, c)
  | _ => (0, [], [], 0)
  end.

Definition ascii_lower (d : bytes) : bytes := map to_lower d.
Definition masked (_ : env) : bytes := [63].          (* "?" : generated header values are masked *)

Definition dec_policy (v : val) : policy N :=
  match v with
  | VL [VN 0] => PSplit
  | VL [VN 1] => PDomainSplit
  | VL [VN 2; VL rs] => PForward (map get_n rs)
  | VL [VN 3] => PDate
  | VL [VN 4] => PMid
  | VL [VN 5] => PReceived
  | VL [VN 6] => PSelf
  | _ => PKeepSplit
  end.

Definition dec_header (v : val) : header :=
  match v with VL [VB n; VB x] => (n, x) | _ => ([], []) end.

Definition enc_env (e : env) : val :=
  VL [VN (eid e); VN (rid e); VN (hid e); VN (cid e); VB (sender e); VL (map VB (rcpts e));
      VL (map (fun h => VL [VB (fst h); VB (snd h)]) (hdr e)); VB (body e)].

(* (sender, recipients, headers, body, chain, subn table) -> (failed, envelopes in `results` order) *)
Definition e_run (v : val) : val :=
  match v with
  | VL [VB snd; VL rc; VL hs; VB bd; VL ch; VL tb] =>
      let e := mkenv 0 snd (map get_b rc) 1 (map dec_header hs) 2 3 bd in
      let s := run_policies N (tbl_subn (map dec_row tb)) ascii_lower masked masked masked
                            (map dec_policy ch) 4 e in
      VL [vbool (failed s); VL (map enc_env (results s))]
  | _ => verr
  end.

(* several messages one after the other through one chain:
   (chain, subn table, [(sender, recipients, headers, body) ...]) -> [(failed, counter afterwards, envelopes) ...];
   the input envelope of message k has identities n_k .. n_k+3, n_0 = 0, n_(k+1) = the counter after message k *)
Definition dec_msg (v : val) : msg :=
  match v with
  | VL [VB snd; VL rc; VL hs; VB bd] => mkmsg snd (map get_b rc) (map dec_header hs) bd
  | _ => mkmsg [] [] [] []
  end.

Definition e_msgs (v : val) : val :=
  match v with
  | VL [VL ch; VL tb; VL ms] =>
      VL (map (fun s => VL [vbool (failed s); VN (next s); VL (map enc_env (results s))])
              (run_messages N (tbl_subn (map dec_row tb)) ascii_lower masked masked masked
                            (map dec_policy ch) 0 (map dec_msg ms)))
  | _ => verr
  end.

(* messages each with the chain as configured at its moment:
   (subn table, [(chain, (sender, recipients, headers, body)) ...]) -> as c16_msgs *)
Definition dec_cm (v : val) : list (policy N) * msg :=
  match v with
  | VL [VL ch; m] => (map dec_policy ch, dec_msg m)
  | _ => ([], dec_msg v)
  end.

Definition e_cfg (v : val) : val :=
  match v with
  | VL [VL tb; VL cms] =>
      VL (map (fun s => VL [vbool (failed s); VN (next s); VL (map enc_env (results s))])
              (run_configured N (tbl_subn (map dec_row tb)) ascii_lower masked masked masked 0 (map dec_cm cms)))
  | _ => verr
  end.

(* RecipientDomainSplit._get_domain: () = ValueError *)
Definition e_domain (v : val) : val :=
  match get_domain ascii_lower (get_b v) with Some d => VL [VB d] | None => VL [] end.

Definition entries : list entry :=
  [("c16_run"%string, e_run); ("c16_domain"%string, e_domain); ("c16_msgs"%string, e_msgs); ("c16_cfg"%string, e_cfg)].
