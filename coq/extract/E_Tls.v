(* Entry points (val -> val) for the STARTTLS/AUTH model (C08). *)
From Coq Require Import List NArith Bool String.
From SV Require Import lib.Val lib.Bytes model.Reply model.Server model.Tls extract.E_Server.
Import ListNotations.
Open Scope N_scope.

Definition c08_optb (o : option bytes) : val := match o with Some b => VL [VB b] | None => VL [] end.

Definition e_b64dec (v : val) : val := c08_optb (b64_dec (get_b v)).
Definition e_b64enc (v : val) : val := VB (b64_enc (get_b v)).

Definition e_parse_auth (v : val) : val :=
  match parse_auth_arg (get_b v) with
  | PBad => VL []
  | PName n => VL [VB n]
  | PArg n a => VL [VB n; VB a]
  end.

Definition e_creds (c : creds) : val := VL [VN (cr_kind c); VB (cr_cid c); VB (cr_secret c); VB (cr_zid c)].

Definition e_mres (r : mres) : val :=
  match r with
  | MCreds c => VL [VN 0; e_creds c]
  | MChal d => VL [VN 1; VB d]
  | MInvalid => VL [VN 2]
  | MValueErr => VL [VN 3]
  end.

Definition d_pair (v : val) : bytes * bytes :=
  match v with VL [VB a; VB b] => (a, b) | _ => ([], []) end.

(* c08_mech [msgid; name; [[challenge; response]..]] *)
Definition e_mech (v : val) : val :=
  match v with
  | VL [VB msgid; VB name; VL resps] =>
      match std_mechs_tok true true msgid name with
      | Some m => VL [VN (if m_insecure m then 1 else 0); e_mres (m_attempt m (map d_pair resps))]
      | None => VL []
      end
  | _ => verr
  end.

(* verdict tables: [[k; arg; verdict]..], first match, default keep *)
Fixpoint lookup_v (tbl : list val) (k : N) (a : bytes) : verdict :=
  match tbl with
  | [] => VKeep
  | VL [VN k'; VB a'; v] :: tbl' => if (k =? k') && beqb a a' then d_verdict v else lookup_v tbl' k a
  | _ :: tbl' => lookup_v tbl' k a
  end.

Fixpoint lookup_q (tbl : list val) (a : bytes) : qres :=
  match tbl with
  | [] => QOk
  | VL [VB a'; q] :: tbl' => if beqb a a' then d_q q else lookup_q tbl' a
  | _ :: tbl' => lookup_q tbl' a
  end.

Definition d_env (vt qt qs : list val) (hs : bool) : env :=
  {| nv_vf := fun k a => lookup_v vt (e_cbk k) a;
     nv_queued := fun _ => lookup_v qt 9 [];      (* the harness keys handle_queued by nothing *)
     nv_qf := lookup_q qs;
     nv_hs := hs;
     nv_stls := lookup_v vt 10 [] |}.

Definition e_tevent (e : tevent) : val :=
  match e with
  | TCall enc ev => VL [VN 0; vbool enc; e_event ev]
  | TAuth enc c code => VL [VN 1; vbool enc; e_creds c; e_optn code]
  end.

Definition e_lkind (k : lkind) : N :=
  match k with LBanner => 0 | LCmd => 1 | LAuthResp => 2 | LData => 3 end.
Definition e_tfin (f : tfin) : N :=
  match f with TContinue => 0 | TClosed => 1 | TCrashed => 2 | TLost => 3 end.

Definition e_tout (o : tout) : val :=
  VL [VN (e_lkind (to_kind o)); VB (untag (to_line o)); vbool (all_tls (to_line o)); vbool (to_enc o);
      VL (map VN (to_replies o)); VL (map VB (to_chal o)); VL (map e_tevent (to_events o));
      VN (e_tfin (to_fin o))].

(* one step: the output plus Server.extensions after it (what an EHLO reply of this step lists) *)
Definition e_trip (x : tstate * tout * tstate) : val :=
  match e_tout (snd (fst x)) with
  | VL fields =>
      let xs := ex (t_st (snd x)) in
      VL (fields ++ [VL [vbool (x_base xs); vbool (x_starttls xs); vbool (x_auth xs)]])
  | v => v
  end.

Definition total_len (cs : list bytes) : nat := fold_right (fun c n => (List.length c + n)%nat) O cs.

Definition e_mode (m : mode) : N :=
  match m with MCmd => 0 | MAuthWait _ _ _ => 1 | MData _ => 2 end.

(* c08_session [cfg; [cram; msgid; token mechanisms?]; vtable; queued table; q table; hs; plain chunks; tls chunks]
   = [outs (each with the extension flags after the step); final session state; final mode;
      left in recv_buffer; its bytes all TLS] *)
Definition e_session (v : val) : val :=
  match v with
  | VL [cfg; VL (cram :: VB msgid :: tokv); VL vt; VL qt; VL qs; hs; VL pl; VL tl] =>
      let tok := match tokv with [t] => get_bool t | _ => false end in
      let w := {| w_plain := map get_b pl; w_tls := map get_b tl |} in
      let fuel := S (S (total_len (w_plain w) + total_len (w_tls w))) in
      let tr := t_session (std_mechs_tok (get_bool cram) tok msgid) fuel (d_cfg cfg)
                          (d_env vt qt qs (get_bool hs)) w in
      let fin_ts := match rev tr with (_, _, ts) :: _ => ts | [] => t_init (d_cfg cfg) w end in
      VL [VL (map e_trip tr); e_state (t_st fin_ts); VN (e_mode (t_mode fin_ts));
          VB (untag (t_buf fin_ts)); vbool (all_tls (t_buf fin_ts))]
  | _ => verr
  end.

Definition d_kop (v : val) : kop := match v with VN 0 => KReply | _ => KStartTls end.
Definition e_kfin (f : kfin) : N := match f with KfGo => 0 | KfBad => 1 | KfLost => 2 | KfNoTls => 3 end.
Definition e_kout (o : kout) : val :=
  VL [vbool (ko_enc o); VB (ko_code o); VB (untag (ko_used o)); vbool (all_tls (ko_used o));
      VN (e_kfin (ko_fin o))].

(* c08_client [hs; plain chunks; tls chunks; ops] *)
Definition e_client (v : val) : val :=
  match v with
  | VL [hs; VL pl; VL tl; VL ops] =>
      VL (map e_kout (k_run (get_bool hs)
                            (k_init {| w_plain := map get_b pl; w_tls := map get_b tl |})
                            (map d_kop ops)))
  | _ => verr
  end.

Definition entries : list entry :=
  [("c08_b64dec"%string, e_b64dec); ("c08_b64enc"%string, e_b64enc);
   ("c08_parse_auth"%string, e_parse_auth); ("c08_mech"%string, e_mech);
   ("c08_session"%string, e_session); ("c08_client"%string, e_client)].
