(* Entry points (val -> val) for the Edge model (C02). *)
From Coq Require Import List NArith Bool String.
From SV Require Import lib.Val model.Edge.
Import ListNotations.
Open Scope N_scope.

(* ---- decoding.  Ill-formed input -> None -> verr *)
(* reply object:  VL [] = Reply() without code;  VL [VB code] *)
Definition d_reply (v : val) : option reply :=
  match v with
  | VL [] => Some (mkReply None)
  | VL [VB c] => Some (mkReply (Some c))
  | _ => None
  end.

(* attached reply: VL [] = no attribute; VL [reply] *)
Definition d_att (v : val) : option (option reply) :=
  match v with
  | VL [] => Some None
  | VL [r] => match d_reply r with Some r' => Some (Some r') | None => None end
  | _ => None
  end.

(* write outcome: VL [VN 0] id | VL [VN 1; att] QueueError | VL [VN 2; VN family] other exception
   (family 0 Exception, 1 gevent.Timeout, 2 other BaseException-only class) *)
Definition d_wout (v : val) : option wout :=
  match v with
  | VL [VN 0] => Some WId
  | VL [VN 1; a] => match d_att a with Some a' => Some (WQErr a') | None => None end
  | VL [VN 2] => Some (WExc ExException)
  | VL [VN 2; VN x] => Some (WExc (if x =? 0 then ExException else if x =? 1 then ExTimeout else ExBase))
  | _ => None
  end.

(* write behaviour: VL [VN 0; VN delay; wout] | VL [VN 1] hang *)
Definition d_wbeh (v : val) : option wbeh :=
  match v with
  | VL [VN 0; VN d; o] => match d_wout o with Some o' => Some (Done d o') | None => None end
  | VL [VN 1] => Some Hang
  | _ => None
  end.

Fixpoint d_list {A} (f : val -> option A) (l : list val) : option (list A) :=
  match l with
  | [] => Some []
  | v :: l' =>
      match f v, d_list f l' with
      | Some a, Some r => Some (a :: r)
      | _, _ => None
      end
  end.

(* result: VL [VN 0; VN id] | VL [VN 1; att] | VL [VN 2; reply] *)
Definition d_wres (v : val) : option (N * wres) :=
  match v with
  | VL [VN 0; VN i] => Some (0, Id i)
  | VL [VN 1; a] => match d_att a with Some a' => Some (0, QErr a') | None => None end
  | VL [VN 2; r] => match d_reply r with Some r' => Some (0, RelayErr r') | None => None end
  | _ => None
  end.

(* per-recipient entry: VL [VN 0] ok | VL [VN 1; reply] RelayError | VL [VN 2] other *)
Definition d_rres (v : val) : option rres :=
  match v with
  | VL [VN 0] => Some ROk
  | VL [VN 1; r] => match d_reply r with Some r' => Some (RErr r') | None => None end
  | VL [VN 2] => Some ROther
  | _ => None
  end.

Definition d_keyed (v : val) : option (N * rres) :=
  match v with
  | VL [VN k; x] => match d_rres x with Some x' => Some (k, x') | None => None end
  | _ => None
  end.

(* relay result: VL [VN 0] whole | VL [VN 1; VL pairs] mapping | VL [VN 2; VL items] sequence
                 | VL [VN 3; reply] raises RelayError | VL [VN 4] raises other | VL [VN 5] hangs *)
Definition d_relay (v : val) : option relay_result :=
  match v with
  | VL [VN 0] => Some RelWhole
  | VL [VN 1; VL l] => match d_list d_keyed l with Some l' => Some (RelMap l') | None => None end
  | VL [VN 2; VL l] => match d_list d_rres l with Some l' => Some (RelSeq l') | None => None end
  | VL [VN 3; r] => match d_reply r with Some r' => Some (RelRaise r') | None => None end
  | VL [VN 4] => Some RelRaiseOther
  | VL [VN 5] => Some RelHang
  | _ => None
  end.

(* ---- encoding *)
Definition e_event (e : event) : val :=
  match e with
  | EvWriteStart k => VL [VN 0; VN k]
  | EvTick => VL [VN 1]
  | EvWriteDone k => VL [VN 2; VN k]
  | EvWriteFail k => VL [VN 3; VN k]
  | EvRaise => VL [VN 4]
  | EvRelayStart => VL [VN 5]
  | EvRelayDone => VL [VN 6]
  | EvRelayFail => VL [VN 7]
  | EvSmtpReply c => VL [VN 8; VB c]
  | EvHttpStatus s => VL [VN 9; VN s]
  end.

Definition e_smtp (r : trace * answer code) : val :=
  VL [VL (map e_event (fst r));
      match snd r with Replied c => VL [VB c] | NoReply => VL [] | Dropped => VL [VL []] end].
Definition e_wsgi (r : trace * answer N) : val :=
  VL [VL (map e_event (fst r));
      match snd r with Replied s => VL [VN s] | NoReply => VL [] | Dropped => VL [VL []] end].

Definition e_enq (r : enq) : val :=
  match r with
  | Returned rs =>
      VL [VN 0; VL (map (fun p => match snd p with
                                  | Id _ => VN 0 | QErr _ => VN 1 | RelayErr _ => VN 2 end) rs)]
  | Raised _ => VL [VN 1]
  | Blocked => VL [VN 2]
  end.

(* ---- entries *)
(* [relay?; [behaviours]] -> [smtp (trace, answer); wsgi (trace, answer); attempts; enqueue outcome] *)
Definition e_queue (v : val) : val :=
  match v with
  | VL [VN relay; VL bl] =>
      match d_list d_wbeh bl with
      | Some bs =>
          let rl := negb (relay =? 0) in
          let q := queue_enqueue rl bs in
          VL [e_smtp (smtp_run rl bs); e_wsgi (wsgi_run rl bs);
              VL (map VN (q_attempts q)); e_enq (q_res q)]
      | None => verr
      end
  | _ => verr
  end.

(* [results] -> [smtp code; http status] *)
Definition e_results (v : val) : val :=
  match v with
  | VL rl =>
      match d_list d_wres rl with
      | Some rs => VL [VB (smtp_reply_of rs); VN (wsgi_status_of rs)]
      | None => verr
      end
  | _ => verr
  end.

(* relay result -> [smtp (trace, answer); wsgi (trace, answer); enqueue outcome] *)
Definition e_proxy (v : val) : val :=
  match d_relay v with
  | Some rr => VL [e_smtp (smtp_proxy_run rr); e_wsgi (wsgi_proxy_run rr); e_enq (q_res (proxy_enqueue rr))]
  | None => verr
  end.

(* message: VL [VN edge (0 smtp, 1 wsgi); VN policy-yields; VL behaviours] *)
Definition d_msg (v : val) : option msg :=
  match v with
  | VL [VN e; VN py; VL bl] =>
      match d_list d_wbeh bl with
      | Some bs => Some (mkMsg (if e =? 0 then ESmtp else EWsgi) py bs)
      | None => None
      end
  | _ => None
  end.

(* [relay?; [messages]; [schedule]] -> [[message number; event] ...] *)
Definition e_sched (v : val) : val :=
  match v with
  | VL [VN relay; VL ml; VL sl] =>
      match d_list d_msg ml with
      | Some ms => VL (map (fun p => VL [VN (fst p); e_event (snd p)])
                           (concurrent_run (negb (relay =? 0)) ms (map get_n sl)))
      | None => verr
      end
  | _ => verr
  end.

(* session command: [0 v] EHLO | [1 v] HELO | [2] RSET | [3 v] MAIL | [4 a v] RCPT | [5 v hv q] DATA | [6] NOOP *)
Definition d_scmd (v : val) : option scmd :=
  match v with
  | VL [VN 0; VN c] => Some (SEhlo c)
  | VL [VN 1; VN c] => Some (SHelo c)
  | VL [VN 2] => Some SRset
  | VL [VN 3; VN c] => Some (SMail c)
  | VL [VN 4; VN a; VN c] => Some (SRcpt a c)
  | VL [VN 5; VN c; VN h; VN q] => Some (SData c h q)
  | VL [VN 6] => Some SNoop
  | _ => None
  end.

Definition e_sout (o : sout) : val :=
  match o with
  | OReply c => VL [VN 0; VN c]
  | OHandoff l => VL [VN 1; VL (map VN l)]
  end.

(* [commands] -> [[outputs of command 1]; ...]  (session starts after the banner) *)
Definition e_session (v : val) : val :=
  match v with
  | VL cl =>
      match d_list d_scmd cl with
      | Some cs => VL (map (fun p => VL (map e_sout (snd p))) (srun s_init cs))
      | None => verr
      end
  | _ => verr
  end.

Definition e_http (v : val) : val := VN (http_status_of (get_b v)).

Definition entries : list entry :=
  [("c02_queue"%string, e_queue); ("c02_results"%string, e_results);
   ("c02_proxy"%string, e_proxy); ("c02_http"%string, e_http); ("c02_sched"%string, e_sched);
   ("c02_session"%string, e_session)].
