(* Entry points (val -> val) of the storage models for C15 (and the value
   codec of operations / results shared with E_Disk.v). *)
From Coq Require Import List NArith Bool String.
From SV Require Import lib.Val model.Store.
Import ListNotations.
Open Scope N_scope.

Definition v_env (e : envelope) : val :=
  VL [VB (e_sender e); VL (map VB (e_rcpts e)); VB (e_content e)].
Definition env_v (v : val) : option envelope :=
  match v with
  | VL [VB s; VL rs; VB c] => Some (mkEnv s (map get_b rs) c)
  | _ => None
  end.
Definition nums_v (v : val) : list N := map get_n (get_l v).
Definition v_nums (l : list N) : val := VL (map VN l).

(* OWrite [0 env ts cands tmps] OSetTs [1 id ts tmps] OIncr [2 id tmps]
   ODeliv [3 id idxs tmps] OLoad [4 now] OGet [5 id] ORemove [6 id] *)
Definition op_v (v : val) : option op :=
  match v with
  | VL [VN 0; e; VN ts; cands; tmps] =>
      match env_v e with Some e' => Some (OWrite e' ts (nums_v cands) (nums_v tmps)) | None => None end
  | VL [VN 1; VN id; VN ts; tmps] => Some (OSetTs id ts (nums_v tmps))
  | VL [VN 2; VN id; tmps] => Some (OIncr id (nums_v tmps))
  | VL [VN 3; VN id; idxs; tmps] => Some (ODeliv id (nums_v idxs) (nums_v tmps))
  | VL [VN 4; VN now] => Some (OLoad now)
  | VL [VN 5; VN id] => Some (OGet id)
  | VL [VN 6; VN id] => Some (ORemove id)
  | _ => None
  end.

Fixpoint ops_v (l : list val) : option (list op) :=
  match l with
  | [] => Some []
  | v :: l' => match op_v v, ops_v l' with
               | Some o, Some os => Some (o :: os)
               | _, _ => None
               end
  end.

Definition v_res (r : res) : val :=
  match r with
  | RId id => VL [VN 0; VN id]
  | RUnit => VL [VN 1]
  | RAtt n => VL [VN 2; VN n]
  | RLoad l => VL [VN 3; VL (map (fun p => VL [VN (fst p); VN (snd p)]) l)]
  | RGot e att => VL [VN 4; v_env e; VN att]
  | RMissing => VL [VN 5]
  | RIndexErr => VL [VN 6]
  | RNoId => VL [VN 7]
  | RNoTmp => VL [VN 8]
  | RTmpExists => VL [VN 9]
  | REmptyWrite => VL [VN 10]
  | RCorrupt => VL [VN 11]
  | RWrongType => VL [VN 12]
  end.

Definition v_view (o : option entry) : val :=
  match o with
  | None => VL []
  | Some en => VL [v_env (en_env en); VN (en_ts en); VN (en_att en)]
  end.

(* input: VL [VL ops; VL ids]; output: VL [VL results; VL views of ids at the end] *)
Definition with_ops (v : val) (f : list op -> list N -> val) : val :=
  match v with
  | VL [VL ops; ids] => match ops_v ops with Some os => f os (nums_v ids) | None => verr end
  | _ => verr
  end.

Definition e_ref (v : val) : val :=
  with_ops v (fun os ids =>
    let (r, xs) := ref_run [] os in
    VL [VL (map v_res xs); VL (map (fun id => v_view (rlookup r id)) ids); vbool (wf_ops [] os)]).

Definition e_dict (v : val) : val :=
  with_ops v (fun os ids =>
    let (s, xs) := dict_run dict_init os in
    VL [VL (map v_res xs); VL (map (fun id => v_view (dict_view s id)) ids)]).

(* DictStorage over copy-on-access mappings (repaired code: assign back) *)
Definition e_dictcopy (v : val) : val :=
  with_ops v (fun os ids =>
    let (s, xs) := cdict_run true cdict_init os in
    VL [VL (map v_res xs); VL (map (fun id => v_view (cdict_view s id)) ids)]).

(* redis: the operation list may contain VL [VN 7] = wait() *)
Fixpoint ritems_v (l : list val) : option (list ritem) :=
  match l with
  | [] => Some []
  | VL [VN 7] :: l' => match ritems_v l' with Some its => Some (RIwait :: its) | None => None end
  | VL [VN 8; VN id; e] :: l' =>
      match env_v e, ritems_v l' with
      | Some e', Some its => Some (RIorphan id e' :: its)
      | _, _ => None
      end
  | v :: l' => match op_v v, ritems_v l' with
               | Some o, Some its => Some (RIop o :: its)
               | _, _ => None
               end
  end.

Definition e_redis (v : val) : val :=
  match v with
  | VL [VL ops; ids] =>
      match ritems_v ops with
      | Some its =>
          let (s, xs) := redis_run_items redis_init its in
          VL [VL (map v_res xs); VL (map (fun id => v_view (redis_view s id)) (nums_v ids));
              VL (map (fun p => VL [VN (fst p); VN (snd p)]) (r_queue s))]
      | None => verr
      end
  | _ => verr
  end.

(* input: VL [VL ops; VL ids; VN mq; VL fails] *)
Definition e_cloud (v : val) : val :=
  match v with
  | VL [VL ops; ids; VN mq; fails] =>
      match ops_v ops with
      | Some os =>
          let (s, xs) := cloud_run (negb (mq =? 0)) (cloud_init (map get_bool (get_l fails))) os in
          VL [VL (map v_res xs); VL (map (fun id => v_view (cloud_view s id)) (nums_v ids));
              VL (map (fun p => VL [VN (fst p); VN (snd p)]) (c_mq s))]
      | None => verr
      end
  | _ => verr
  end.

(* ---- the round functions, for the multi-round correspondence (C03 uses them) *)
Definition v_optl (o : option (list bytes)) : val :=
  match o with Some l => VL [VL (map VB l)] | None => VL [] end.

(* VL [VL rcpts; VL [VL idxs ...]] : successive rounds, indexes relative to the
   list returned by the previous get *)
Fixpoint accum_rounds (stored : list N) (rounds : list (list N)) : list N :=
  match rounds with [] => stored | r :: rs => accum_rounds (accum_mark stored r) rs end.
Fixpoint flat_rounds (stored : list N) (rounds : list (list N)) : list N :=
  match rounds with [] => stored | r :: rs => flat_rounds (flat_mark stored r) rs end.
Fixpoint inplace_rounds (l : list bytes) (rounds : list (list N)) : option (list bytes) :=
  match rounds with
  | [] => Some l
  | r :: rs => match round r l with Some l' => inplace_rounds l' rs | None => None end
  end.

Definition e_rounds (v : val) : val :=
  match v with
  | VL [VL rc; VL rounds] =>
      let l := map get_b rc in
      let rs := map nums_v rounds in
      VL [v_optl (inplace_rounds l rs);
          v_optl (accum_get (accum_rounds [] rs) l);
          v_nums (accum_rounds [] rs);
          v_optl (flat_get (flat_rounds [] rs) l)]
  | _ => verr
  end.

(* ---- interleaved runs of the yielding in-memory backends (C15 frame) *)
Section SchedLog.
  Variables (St Cmd Ans : Type).
  Variable exec : St -> Cmd -> St * Ans.
  Variable pr : op -> prog Cmd Ans res.
  Fixpoint gsched_log (sch : list nat) (s : St) (ths : list (thread Cmd Ans))
    : St * list (thread Cmd Ans) * list nat :=
    match sch with
    | [] => (s, ths, [])
    | i :: sch' =>
        match nth_error ths i with
        | None => gsched_log sch' s ths
        | Some th =>
            match th_next pr th with
            | None => gsched_log sch' s ths
            | Some (c, k) =>
                let (s', a) := exec s c in
                let '(s2, ths2, lg) := gsched_log sch' s' (set_nth i (k a) ths) in
                (s2, ths2, i :: lg)
            end
        end
    end.
End SchedLog.

Definition v_gthread {Cmd Ans} (th : thread Cmd Ans) : val :=
  VL [VL (map (fun orr => v_res (snd orr)) (th_done th));
      vbool (match th_cur th with Some _ => true | None => false end);
      VN (N.of_nat (List.length (th_todo th)))].

Fixpoint gthreads_v {Cmd Ans} (l : list val) : option (list (thread Cmd Ans)) :=
  match l with
  | [] => Some []
  | VL ops :: l' =>
      match ops_v ops, gthreads_v l' with
      | Some os, Some ts => Some (th_start os :: ts)
      | _, _ => None
      end
  | _ => None
  end.

Definition sched_v (sch : list val) : list nat := map (fun x => N.to_nat (get_n x)) sch.

(* VL [VL threads; VL schedule; VL ids] *)
Definition e_redis_sched (v : val) : val :=
  match v with
  | VL [VL ths; VL sch; ids] =>
      match gthreads_v ths with
      | Some ts =>
          let '(s, ts', lg) := gsched_log _ _ _ rexec redis_prog (sched_v sch) redis_init ts in
          VL [VL (map (fun i => VN (N.of_nat i)) lg); VL (map v_gthread ts');
              VL (map (fun id => v_view (redis_view s id)) (nums_v ids))]
      | None => verr
      end
  | _ => verr
  end.

(* VL [VL threads; VL schedule; VL ids; VN mq; VL fails] *)
Definition e_cloud_sched (v : val) : val :=
  match v with
  | VL [VL ths; VL sch; ids; VN mq; fails] =>
      match gthreads_v ths with
      | Some ts =>
          let '(s, ts', lg) := gsched_log _ _ _ cexec (cloud_prog (negb (mq =? 0))) (sched_v sch)
                                          (cloud_init (map get_bool (get_l fails))) ts in
          VL [VL (map (fun i => VN (N.of_nat i)) lg); VL (map v_gthread ts');
              VL (map (fun id => v_view (cloud_view s id)) (nums_v ids))]
      | None => verr
      end
  | _ => verr
  end.

Definition entries : list SV.lib.Val.entry :=
  [("c15_ref"%string, e_ref); ("c15_dict"%string, e_dict); ("c15_dictcopy"%string, e_dictcopy); ("c15_redis"%string, e_redis);
   ("c15_cloud"%string, e_cloud); ("c15_rounds"%string, e_rounds);
   ("c15_redis_sched"%string, e_redis_sched); ("c15_cloud_sched"%string, e_cloud_sched)].
